#!/bin/bash
# dev helper: run every check's quick (or $TIER) command at several seeds, report non-silent ones
export GOFLAGS=-mod=mod GOPROXY=off GOSUMDB=off GOTOOLCHAIN=local
cd /verif
TIER=${TIER:-quick}
SEEDS=${SEEDS:-"1 2 3 7 42"}
PROPS=${PROPS:-"C01 C02 C03 C04 C05 C06 C07 C08 C09 C10 C11 C12 C13 C14 C15 C16 C17 C18 C19 C20"}
OUT=${OUT:-/verif/.sweep}
mkdir -p $OUT
for s in $SEEDS; do for p in $PROPS; do
  t0=$(date +%s)
  VERIF_SEED=$s ./check $p $TIER > $OUT/$p.$TIER.$s.log 2>&1; rc=$?
  t1=$(date +%s)
  echo "seed=$s $p rc=$rc wall=$((t1-t0))s $(grep -c '^VIOLATION' $OUT/$p.$TIER.$s.log) viol $(grep -c '^KNOWN-FINDING' $OUT/$p.$TIER.$s.log) kf $(grep '^SUMMARY' $OUT/$p.$TIER.$s.log | sed 's/.*cases=/cases=/')"
done; done
