#!/usr/bin/env python3
"""Regenerates MANIFEST.json from the table below (run after adding/removing a check)."""
import json, subprocess, os

ROOT = os.path.dirname(os.path.abspath(__file__))

ALL = ["C%02d" % i for i in range(1, 21)]

# id -> (category, text, level_note, technique, engine, design_ref)
CHECKS = {
    "C01": ("exploration",
            "Reference-model monitor: ~3k (quick) / ~100k (thorough) seeded, type-directed, well-typed programs are analysed by the real analyzer, compiled and run on the VM with an effect-logging host; effects, outcome class/kind/message are compared with an independent reference evaluator of the source-level semantics, plus the residue invariant (operand stack beyond the function's result, frames, memory pointer, handlers all zero at exit) observed through the core-exit hook. Held on the executions produced; constructs poisoned by open findings are only exercised by tagged cases.",
            "Trusts the reference evaluator harness/prog/eval.go as the reading of the semantics listed in C01; float text rendering is mirrored, not specified.",
            "runtime monitoring: generated programs vs executable reference model + residue invariant hook", "prog-gen+model", "DESIGN.md §3 C01"),
    "C03": ("exploration",
            "Accept/reject monitor of the real analyzer: 57 hand-written marked base programs, 300 (quick) / 3000 (thorough) generated well-typed programs and the accepted corpus must get no error-level diagnostic and the expression types the generator recorded; one mutator per static rule of the property (operand, operator, argument, arity, return, assignment, condition, branch, iterator, unknown name, loop control, duplicates, global initialiser, implicit any, impl vs template, trigger, main, casts, spawn) is applied at every marked position (~125k mutants quick) and every mutant must get at least one error; doubtful mutants are dropped and counted.",
            "Well-typedness of base programs is the harness's reading of the rules (README + property text); mutants the harness is unsure about are dropped, never flagged.",
            "runtime monitoring: rule x position mutation catalogue + generated well-typed programs against the real analyzer", "mutate", "DESIGN.md §3 C03"),
    "C04": ("translation_validation",
            "Differential monitor: the C01 program stream (shared fragment) and the shipped tests/examples are run by the tree-walking interpreter and by compiler+VM with identical hosts; outputs and outcome class/kind/message are compared pairwise, interpreter non-termination is decided by a step budget derived from the reference model. Known interpreter divergences are pinned as findings with narrow signatures and hazard tags computed by static analysis of the generated program.",
            "The fragment boundary (spawn, triggers, templates, `->`) is excluded by design; comparison is of host-visible text and outcome only.",
            "runtime monitoring: differential execution of two backends over generated programs", "prog-gen+model", "DESIGN.md §3 C04"),
    "C05": ("exploration",
            "Runtime monitor over ~80k (quick) / ~530k (thorough) hostile inputs (random bytes, token soup, every prefix and single-token edit of the shipped programs, nesting towers to depth 1000, semantic oddities, single-character edits), each fed to the real Analyze as entry module and as imported module text in crash-isolated workers; a Go panic, fatal error or lexer-call budget overrun (hook-decided, not time) refutes totality. Sampling, not proof: held on the executions produced.",
            "Trusts the lexer hook's call counting and the 2*|runes|+16 budget (calibrated: max observed far below); loops that neither lex nor recurse only hit the watchdog (inconclusive).",
            "runtime monitoring: crash-isolated differential fuzz-style workload + lexer-call budget hook", "fuzz-totality", "DESIGN.md §3 C05"),
    "C06": ("exploration",
            "Reference-model monitor of the real lexer: an independent reference lexer written from grammar.ebnf plus by-construction expectations; all ordered pairs of 107 lexeme classes x 8 separators x suffix contexts (exhaustive), operator triples, escape/number/keyword families, unicode, unterminated constructs, random soups and the shipped corpus (LF/CRLF/tab forms); exact token kind/value/span equality, rune coverage and span consistency are checked on ~0.8M (quick) / ~4.6M (thorough) token streams.",
            "Trusts the reference lexer harness/lexref as the reading of grammar.ebnf; points the grammar leaves open are accepted both ways and listed in the evidence as unspecified.",
            "runtime monitoring: real lexer vs independent reference lexer + constructive expectations", "lexref", "DESIGN.md §3 C06"),
    "C02": ("exploration",
            "Crash/wedge/type-confusion monitor: (1) operator matrix — every binary operator, compound assignment, prefix operator, cast and index form x operand type pair the real analyzer admits (admissibility discovered by asking the analyzer) x boundary value pairs, each as a try-guarded one-expression program run on the VM in crash-isolated workers and on the interpreter; the dynamic kind of the probed result is compared with the static type; (2) the C01 program stream under hostile CoreLimits triples and interpreter call limits. A Go panic, fatal error, step-budget overrun (hook-decided) or non-interrupt outcome refutes the property.",
            "The matrix follows the analyzer's admissibility; memory bombs through data growth are capped by the worker's address-space limit and not explored.",
            "runtime monitoring: exhaustive operator/type/value matrix + limits sweep in crash-isolated workers", "prog-gen+model", "DESIGN.md §3 C02"),
    "C08": ("exploration",
            "Span monitor applied to every syntax error, diagnostic (incl. hints), interrupt span and caught-error position produced by three workloads: prefixes/single-token edits of the corpus and hand-written texts (unicode, CRLF, tabs, EOF, imported modules), 73 single-fault templates with a known culprit range under 7 layouts, and 38 runtime failure constructs x 5 placements x fatal/caught on both backends; checks well-formedness against the named file's text, containment in the culprit (Appendix I) and that rendering (Error.Display / Diagnostic.Display) does not panic.",
            "Containment is asserted only where the template knows the culprit; the whole-file position is errors.Span{Filename: f} with all numeric fields zero.",
            "runtime monitoring: span well-formedness/containment/render monitor over hostile texts and known-culprit templates", "span-monitor", "DESIGN.md §3 C08"),
    "C09": ("exploration",
            "Limit-enforcement monitor: parametric families rec(d), nest(n) (sums, argument lists, list literals), locals(l,d) around each limit for limit triples from {4,16,64,500}^3 (VM) and call limits {4,64,1000} (interpreter); demands F/S/M are measured with the step hook under huge limits, then the run under the limits must complete iff within, end in the corresponding fatal interrupt when exceeded beyond the 50-entry overshoot bound, never crash; the leak oracle runs ~45 loop bodies k and 4k times and requires equal high-water marks and zero residue.",
            "Overshoot bound 50 = one polling cycle; data-growth memory exhaustion is not a configured limit.",
            "runtime monitoring: parameter sweep with measured demands (step hook) + iteration-count leak oracle", "limits-sweep", "DESIGN.md §3 C09"),
    "C10": ("exploration",
            "Exact-point cancellation monitor: a counting context cancels at the k-th poll; for every listed program (loops, recursion, try/catch, blocking builtin, 1-4 spawned cores, failing core) and every k up to the program's poll count, on the VM (under the race detector) and the interpreter, the monitor checks that the wait returns a termination interrupt or the program's own outcome, that no core executes more than B=10000 steps after the cancelling poll (step hook), and that no goroutine remains in Core.Run afterwards (stack sampling); a wait that never returns is decided by goroutine-state samples.",
            "B is two orders above the current polling quantum so that retuning it is not an alarm; host builtins that ignore the context are out of scope.",
            "runtime monitoring: exhaustive cancellation points via counting context + step/goroutine monitors + race detector", "cancel-points", "DESIGN.md §3 C10"),
    "C07": ("exploration",
            "Parse-tree monitor: all ordered pairs and triples of the 32 binary-like operators, prefix x binary x postfix combinations, random trees to depth 7 in 21 statement contexts, printed with the minimum parentheses the operator table of the property requires, plus layout variants (whitespace, comments, redundant parentheses, trailing commas in every list-like construct); the real parser's tree (GroupedExpression stripped, spans ignored) must equal the intended tree, all layout variants must agree, and for int/bool trees the value computed on the VM must equal an independent evaluation.",
            "The intended tree comes from the property's operator table (harness/exprgen), not from the implementation's precedence function.",
            "runtime monitoring: exhaustive operator pair/triple enumeration vs reference precedence parser + value cross-check", "exprgen", "DESIGN.md §3 C07"),
    "C11": ("exploration",
            "Exhaustive enumeration (depth <= 3 quick / 4 thorough) of nesting contexts {loop, while, for, block, if, match arm/default, try, catch, call, operand, argument, let-init} around each exit kind {break, continue, return, return value, throw, fatal}, inside a scaffold with a live local, trace tags at every level and a second try and loop afterwards; each program runs on the VM (trace, outcome, residue and handler count at core exit via hooks) and on the interpreter and is compared with the reference evaluator.",
            "Depth bound as stated; the reference evaluator defines the expected trace.",
            "runtime monitoring: exhaustive nesting enumeration vs reference evaluator + residue/handler hooks", "prog-gen+model", "DESIGN.md §3 C11"),
    "C12": ("exploration",
            "Reference-predicate monitor over a bounded universe of types (depth <= 2, sampled depth 3) and values incl. every near miss: DeepCast of both value libraries, `as` / annotated-let programs on both backends, and SpawnSync arguments/return values are classified {admit-unchanged, admit-converted, reject-with-path} and compared with independent hasType/conformsAfterConversion/structEq predicates; refusal at the host boundary means no callee instruction executes (step hook).",
            "Trusts the reference predicates in harness/valuni (written from the property text, independent of cast.go).",
            "runtime monitoring: value/type universe vs independent conformance predicates", "valuni", "DESIGN.md §3 C12"),
    "C13": ("exploration",
            "Algebraic-law monitor on both value libraries and via generated programs: reflexivity/symmetry/transitivity of equality and agreement with structural equality, clone equality and independence under mutation histories checked against a shadow model, JSON round trips under the value's type, and identical Display text of the same abstract value built in both libraries.",
            "Trusts harness/valuni structEq and the shadow mutation model; the interpreter library has no Clone so copy laws are checked on the VM library.",
            "runtime monitoring: algebraic laws + shadow-model mutation histories over a value universe", "valuni", "DESIGN.md §3 C13"),
    "C14": ("exploration",
            "Repetition monitor: programs built to be sensitive to map order (>= 3 modules with overlapping names, objects with many fields printed whole, colliding mangled names, many warnings, impl blocks with conflicting capabilities, multi-field cast errors, fatal stack traces) plus generated programs and the corpus are analysed, compiled and run N=20 (quick) / 100 (thorough) times in one process (each repetition re-draws Go's map iteration seeds), in M fresh child processes, and around an unrelated interferer program; all components (sorted diagnostic multiset, syntax errors, VM and interpreter output/outcome/host calls, canonical code dump, init order) must be identical.",
            "For maps with <= 8 entries Go only rotates the insertion order, so a rare order shows with probability 1/8 per repetition (miss probability ~3.5% quick, ~2e-6 thorough per program).",
            "runtime monitoring: repeated analyse+compile+run with component-wise comparison across repetitions and processes", "repetition", "DESIGN.md §3 C14"),
    "C15": ("exploration",
            "Model-linker monitor: exhaustive enumeration (bound stated in the evidence: pairs, triples, import-kind probes, all import-edge subsets over 2-4 modules, self-imports, bare modules, re-exports, mangled-name schemes) plus seeded samples of module graphs with the SAME names reused across modules and tag-returning bodies; a tiny model linker (name -> defining module through the import statements, visibility through pub) predicts the diagnostic class per import and the exact printed tags; every accepted graph is compiled and run 12-16 times with the analysed module map re-inserted in every permutation (the compiler visits modules in map order), on the VM and the interpreter; init-once is observed through per-module singleton loads.",
            "The model linker is harness code (props/c15/model.go) written from the property text.",
            "runtime monitoring: exhaustive small module graphs vs model linker, repeated over module visiting orders", "module-graphs", "DESIGN.md §3 C15"),
    "C16": ("exploration",
            "History monitor against a sequential model: seeded histories of 5-60 host invocations (SpawnSync, ~10% SpawnAsync+Wait+HandleTermination) of a 53-function service program on one VM, incl. calls that return from loops/try blocks, throw, hit fatal errors, spawn threads, and calls after failures; after every call the result (value and dynamic type) is compared with a sequential Go model of the service, and residue (operand stack, frames, memory pointer, handlers via the core-exit hook), the core list, the core-list lock (TryLock, so a leaked lock is detected without blocking) and goroutines inside Core.Run are checked.",
            "After a failed call any failure answer is accepted (the shared context is cancelled by design), a successful answer must equal the model; concurrent host calls are outside the statement.",
            "runtime monitoring: invocation histories vs sequential state-machine model + residue/lock/goroutine invariants", "histories", "DESIGN.md §3 C16"),
    "C17": ("exploration",
            "Concurrency monitor under the Go race detector: seeded programs spawning 1-8 cores (nested spawns, late spawns, a failing core) run with GOMAXPROCS in {1,2,4,16} and seed-determined yield plans injected at the VM's scheduling points (wait lock-upgrade gap, spawn, globals lock) through the yield hook; oracle: no race report with a /repo frame, every output line exactly once and whole, spawn-time argument values echoed, every fin(id) event before the wait-returned event (logical clock), the failing core's fatal interrupt returned, and the recorded history of global reads/writes linearizable per global (porcupine register model, 20 s timeout = inconclusive).",
            "Schedules are sampled, not enumerated; evidence reports the distinct interleavings observed.",
            "runtime monitoring: race detector + yield-hook schedule perturbation + porcupine linearizability + event-order monitor", "threads", "DESIGN.md §3 C17"),
    "C18": ("exploration",
            "Exhaustive cross product of type instances x every member the real analyzer lists (table read from ast.<Type>.Fields() at run time) x boundary argument tuples: key-set inclusion through the Go API in both value libraries, generated one-line programs run on both backends in crash-isolated workers, results checked for survival, advertised type and against a small reference model of the index-taking members and indexing.",
            "The member table follows the analyzer at run time; the reference model of member results is harness code (props/c18/model.go).",
            "runtime monitoring: exhaustive member x argument matrix on both runtimes vs reference model", "member-matrix", "DESIGN.md §3 C18"),
    "C19": ("translation_validation",
            "Round-trip monitor: for the shipped corpus, generated programs, ~140 hand-written printer-coverage programs and ~28 optimizer programs, each printer (parser AST, analysed tree) output is re-parsed and must be accepted, behave identically on the VM (effects + outcome) and be a fixed point after one round; optimizer output is compiled and run (VM and interpreter) and compared with the unoptimised run.",
            "Behaviour comparison is of host-visible effects and outcome; programs whose two plain runs differ are skipped.",
            "runtime monitoring: print/re-parse/run differential + fixed-point check + optimizer differential", "roundtrip", "DESIGN.md §3 C19"),
    "C20": ("exploration",
            "Metamorphic monitor of the semantic fuzzer: class-restricted generated programs and the shipped examples are transformed with seeds 0..S and 1/2/3/5 passes exactly like cmd/ does; every variant must be accepted by the analyzer and produce the same VM effects and outcome under limits 2048/500/100000; a panic inside Transform is an event; a printer-baseline check (0 passes) separates printer defects (C19) from fuzzer defects.",
            "The program class follows the property text (side-effect-free reordered operands, small non-negative right factors, literals far from overflow/rounding boundaries).",
            "runtime monitoring: metamorphic differential execution of transformer variants", "metamorphic", "DESIGN.md §3 C20"),
}

NOT_APPLICABLE_REASON = "check not built yet in this session (see DESIGN.md §3 for the planned monitor); not claimed until it runs silently on the unchanged tree"

def main():
    hooks_commits = subprocess.run(["git", "-C", "/repo", "log", "--format=%h %s", "--grep=verification hooks"], capture_output=True, text=True).stdout.strip().splitlines()
    env = "export GOFLAGS=-mod=mod GOPROXY=off GOSUMDB=off GOTOOLCHAIN=local; "
    m = {
        "version": 1,
        "setup_cmd": "./check --build",
        "hooks": {
            "guard": "verif",
            "enable": "go build -tags verif (the ./check wrapper builds the harness, and /repo through a replace directive, with -tags verif)",
            "baseline_off_cmd": env + "cd /repo && go test -vet=off -count=1 -json ./...",
            "source_commits": [c.split()[0] for c in hooks_commits],
            "add_only": True,
        },
        "engines": [
            {"name": "fw", "path": "harness/fw", "serves_properties": sorted(CHECKS), "kind_free_text": "supervisor + crash-isolated worker pool, journalling, known-finding classification, evidence writer, race-log parser"},
            {"name": "prog", "path": "harness/prog", "serves_properties": [p for p in sorted(CHECKS) if p in ("C01", "C02", "C04", "C09", "C11", "C14", "C19", "C20")], "kind_free_text": "typed program IR, printer, seeded type-directed generator, reference evaluator, static hazard tagging"},
            {"name": "drive", "path": "harness/drive", "serves_properties": sorted(CHECKS), "kind_free_text": "in-memory hosts with effect logs, VM/interpreter drivers, residue/step/lexer-budget monitors on the verif hooks"},
        ],
        "checks": [],
        "not_applicable": [],
        "notes": "All checks are runtime monitors over executions of the real code (DESIGN.md). ./check <id> <tier> rebuilds the harness against /repo's working tree on every call. Exit 2 = the check itself is broken (e.g. does not build), never a verdict.",
    }
    for pid in ALL:
        if pid in CHECKS:
            cat, text, note, tech, engine, ref = CHECKS[pid]
            m["checks"].append({
                "property_id": pid,
                "quick_cmd": "./check %s quick" % pid,
                "thorough_cmd": "./check %s thorough" % pid,
                "evidence_file": "/verif/evidence/%s.json" % pid,
                "replay_cmd_template": "./check %s --replay {path}" % pid,
                "engine": engine,
                "level_claimed": {"category": cat, "text": text + " Workload families and oracle refinements added after the seeded waves (DESIGN.md Appendix K, J.5) are part of the check; the evidence file's rule text and coverage keys list what a run actually exercised.", "design_ref": ref + ", Appendix K"},
                "level_note": note,
                "technique": tech,
            })
        else:
            m["not_applicable"].append({"property_id": pid, "reason": NOT_APPLICABLE_REASON})
    with open(os.path.join(ROOT, "MANIFEST.json"), "w") as f:
        json.dump(m, f, indent=1)
        f.write("\n")

if __name__ == "__main__":
    main()
