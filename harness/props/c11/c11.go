// Package c11 checks property C11: break, continue, return and throw leave exactly what the
// source says. Exhaustive enumeration of nesting contexts (bounded depth) around each exit kind,
// followed by further code, on both backends, against the reference evaluator.
package c11

import (
	"fmt"
	"strings"

	"hv/drive"
	"hv/fw"
	"hv/prog"
	"hv/props/c01"
	"hv/util"
)

type c11 struct{}

func init() { fw.Register(c11{}) }

func (c11) ID() string { return "C11" }

var wrappers = []string{"loop", "while", "for", "block", "if-then", "if-else", "match-arm", "match-default", "try", "catch", "call", "operand", "argument", "let-init"}
var exits = []string{"break", "continue", "return", "return-value", "throw", "fatal"}

func depth(tier string) int {
	if tier == "thorough" {
		return 4
	}
	return 3
}

func (c11) Info(tier string) fw.Info {
	return fw.Info{
		Level: "exploration",
		Rule: fmt.Sprintf("exhaustive enumeration of wrapper stacks of depth 1..%d over %v with each exit kind %v innermost, filtered to the statically legal ones (break/continue need a loop in the same function); "+
			"around it a fixed scaffold: a local set before, trace tags before/inside/after every level, a second try and a second loop after the construct, then a final uncaught throw variant; "+
			"each program runs on the VM (trace, outcome, residue, handlers) and on the interpreter and is compared with the reference evaluator. non-trivial = the exit statement was reached (its 'pre-exit' tag is in the model trace); distinct = distinct (stack, exit, variant)", depth(tier), wrappers, exits),
		Assumptions: []string{"depth bound as stated; data-dependent exits are covered by the random programs of C01"},
		Exhaustive:  true,
		CaseTimeoutS: 60,
		BatchSize:    250,
	}
}

// Payload of a nesting case.
type Payload struct {
	Stack   []string `json:"stack"` // outermost first
	Exit    string   `json:"exit"`
	Variant string   `json:"variant"` // "" | "uncaught-after"
}

type builder struct {
	fns   []*prog.Func
	n     int
	trace int
}

func (b *builder) tag(s string) prog.Stmt {
	return prog.ExprStmt{X: prog.Builtin{Name: "println", Args: []prog.Expr{prog.StrLit{V: s}}}}
}

func (b *builder) id() int { b.n++; return b.n }

var keepVar = prog.Var{Name: "keep", Ty: prog.Int}

func tagKeep(s string) prog.Stmt {
	return prog.ExprStmt{X: prog.Builtin{Name: "println", Args: []prog.Expr{prog.StrLit{V: s}, keepVar}}}
}

// legal: break/continue need an enclosing loop that is not separated from the exit by a call.
func legal(stack []string, exit string) bool {
	if exit == "break" || exit == "continue" {
		for i := len(stack) - 1; i >= 0; i-- {
			switch stack[i] {
			case "call":
				return false
			case "loop", "while", "for":
				return true
			}
		}
		return false
	}
	return true
}

// Tags computes the hazard tags of a nesting (which open findings the case may hit).
func Tags(stack []string, exit string) []string {
	var tags []string
	add := func(t string) {
		for _, x := range tags {
			if x == t {
				return
			}
		}
		tags = append(tags, t)
	}
	// which wrappers does the exit cross?
	crossed := []string{}
	switch exit {
	case "break", "continue":
		for i := len(stack) - 1; i >= 0; i-- {
			if stack[i] == "loop" || stack[i] == "while" || stack[i] == "for" {
				break
			}
			crossed = append(crossed, stack[i])
		}
	case "return", "return-value":
		for i := len(stack) - 1; i >= 0; i-- {
			if stack[i] == "call" {
				break
			}
			crossed = append(crossed, stack[i])
		}
	case "throw":
		for i := len(stack) - 1; i >= 0; i-- {
			if stack[i] == "try" {
				break
			}
			crossed = append(crossed, stack[i])
		}
	case "fatal":
		crossed = append(crossed, stack...)
	}
	for _, w := range crossed {
		switch w {
		case "try":
			add("exit-out-of-try")
		case "operand", "argument":
			// a throw that is caught restores the operand stack height recorded by its handler;
			// only jumps (break/continue/return) leave the pending operands behind
			if exit != "throw" {
				add("exit-from-expr-context")
			}
		case "call":
			if exit == "throw" {
				add("throw-across-call")
			}
		case "for":
			if exit == "throw" || exit == "return" || exit == "return-value" {
				add("exit-out-of-for")
			}
		}
	}
	return tags
}

// Build constructs the program of a payload.
func Build(p Payload) *prog.Program {
	b := &builder{}
	// innermost statements
	var inner []prog.Stmt
	inner = append(inner, tagKeep("pre-exit"))
	fnRet := map[int]bool{} // level index of "call" wrappers that return a value
	switch p.Exit {
	case "break":
		inner = append(inner, prog.Break{})
	case "continue":
		inner = append(inner, prog.Continue{})
	case "return":
		inner = append(inner, prog.Return{})
	case "return-value":
		inner = append(inner, prog.Return{V: prog.IntLit{V: 77}})
	case "throw":
		inner = append(inner, prog.ExprStmt{X: prog.Builtin{Name: "throw", Args: []prog.Expr{prog.StrLit{V: "thrown-inner"}}}})
	case "fatal":
		l := prog.ListLit{Elems: []prog.Expr{prog.IntLit{V: 1}}, Ty: prog.ListOf(prog.Int)}
		inner = append(inner, prog.Let{Name: "oob", V: l}, prog.ExprStmt{X: prog.Builtin{Name: "println", Args: []prog.Expr{prog.Index{X: prog.Var{Name: "oob", Ty: prog.ListOf(prog.Int)}, I: prog.IntLit{V: 5}}}}})
	}
	inner = append(inner, b.tag("post-exit-unreachable"))
	// does the innermost function return a value? (return-value needs an int function)
	retValue := p.Exit == "return-value"
	cur := inner
	// the function that directly contains the exit: index of the innermost "call" wrapper
	innermostCall := -1
	for i := len(p.Stack) - 1; i >= 0; i-- {
		if p.Stack[i] == "call" {
			innermostCall = i
			break
		}
	}
	if retValue && innermostCall >= 0 {
		fnRet[innermostCall] = true
	}
	for i := len(p.Stack) - 1; i >= 0; i-- {
		w := p.Stack[i]
		k := b.id()
		in := fmt.Sprintf("in-%s-%d", w, k)
		out := fmt.Sprintf("out-%s-%d", w, k)
		body := append([]prog.Stmt{tagKeep(in)}, cur...)
		body = append(body, b.tag("tail-"+in))
		blk := &prog.Block{Stmts: body}
		switch w {
		case "loop":
			c := prog.Var{Name: fmt.Sprintf("c%d", k), Ty: prog.Int}
			lb := &prog.Block{Stmts: append([]prog.Stmt{
				prog.ExprStmt{X: prog.Assign{Op: "+=", Target: c, V: prog.IntLit{V: 1}}},
				prog.ExprStmt{X: prog.If{Cond: prog.Infix{Op: ">", L: c, R: prog.IntLit{V: 2}}, Then: &prog.Block{Stmts: []prog.Stmt{prog.Break{}}}}},
			}, body...)}
			cur = []prog.Stmt{prog.Let{Name: c.Name, V: prog.IntLit{V: 0}}, prog.Loop{Body: lb}, tagKeep(out)}
		case "while":
			c := prog.Var{Name: fmt.Sprintf("c%d", k), Ty: prog.Int}
			lb := &prog.Block{Stmts: append([]prog.Stmt{prog.ExprStmt{X: prog.Assign{Op: "+=", Target: c, V: prog.IntLit{V: 1}}}}, body...)}
			cur = []prog.Stmt{prog.Let{Name: c.Name, V: prog.IntLit{V: 0}}, prog.While{Cond: prog.Infix{Op: "<", L: c, R: prog.IntLit{V: 2}}, Body: lb}, tagKeep(out)}
		case "for":
			cur = []prog.Stmt{prog.For{Name: fmt.Sprintf("i%d", k), Iter: prog.RangeLit{A: prog.IntLit{V: 0}, B: prog.IntLit{V: 2}}, Body: blk}, tagKeep(out)}
		case "block":
			cur = []prog.Stmt{prog.ExprStmt{X: blk}, tagKeep(out)}
		case "if-then":
			cur = []prog.Stmt{prog.ExprStmt{X: prog.If{Cond: prog.BoolLit{V: true}, Then: blk}}, tagKeep(out)}
		case "if-else":
			cur = []prog.Stmt{prog.ExprStmt{X: prog.If{Cond: prog.BoolLit{V: false}, Then: &prog.Block{Stmts: []prog.Stmt{b.tag("wrong-branch")}}, Else: blk}}, tagKeep(out)}
		case "match-arm":
			cur = []prog.Stmt{prog.ExprStmt{X: prog.Match{X: prog.IntLit{V: 1}, Arms: []prog.Arm{{Lits: []prog.Expr{prog.IntLit{V: 1}}, Body: blk}}, Default: &prog.Block{Stmts: []prog.Stmt{b.tag("wrong-arm")}}, Ty: prog.Null}}, tagKeep(out)}
		case "match-default":
			cur = []prog.Stmt{prog.ExprStmt{X: prog.Match{X: prog.IntLit{V: 2}, Arms: []prog.Arm{{Lits: []prog.Expr{prog.IntLit{V: 1}}, Body: &prog.Block{Stmts: []prog.Stmt{b.tag("wrong-arm")}}}}, Default: blk, Ty: prog.Null}}, tagKeep(out)}
		case "try":
			e := fmt.Sprintf("e%d", k)
			h := &prog.Block{Stmts: []prog.Stmt{prog.ExprStmt{X: prog.Builtin{Name: "println", Args: []prog.Expr{prog.StrLit{V: "caught-" + in}, prog.Member{X: prog.Var{Name: e, Ty: prog.ObjOf(prog.Field{Name: "message", T: prog.Str})}, Name: "message"}, keepVar}}}}}
			cur = []prog.Stmt{prog.ExprStmt{X: prog.Try{Body: blk, Name: e, Handler: h}}, tagKeep(out)}
		case "catch":
			e := fmt.Sprintf("e%d", k)
			tb := &prog.Block{Stmts: []prog.Stmt{prog.ExprStmt{X: prog.Builtin{Name: "throw", Args: []prog.Expr{prog.StrLit{V: "to-handler"}}}}}}
			cur = []prog.Stmt{prog.ExprStmt{X: prog.Try{Body: tb, Name: e, Handler: blk}}, tagKeep(out)}
		case "call":
			name := fmt.Sprintf("fn%d", k)
			f := &prog.Func{Name: name, Ret: prog.Null, Body: &prog.Block{Stmts: append([]prog.Stmt{prog.Let{Name: "keep", V: prog.IntLit{V: int64(100 + k)}}}, body...)}}
			if fnRet[i] {
				f.Ret = prog.Int
				f.Body.Tail = prog.IntLit{V: 55}
				cur = []prog.Stmt{prog.Let{Name: fmt.Sprintf("r%d", k), V: prog.Call{Fn: name, Ret: prog.Int}}, prog.ExprStmt{X: prog.Builtin{Name: "println", Args: []prog.Expr{prog.StrLit{V: out}, prog.Var{Name: fmt.Sprintf("r%d", k), Ty: prog.Int}, keepVar}}}}
			} else {
				cur = []prog.Stmt{prog.ExprStmt{X: prog.Call{Fn: name, Ret: prog.Null}}, tagKeep(out)}
			}
			b.fns = append(b.fns, f)
		case "operand":
			v := fmt.Sprintf("t%d", k)
			blk.Tail = prog.IntLit{V: 2}
			cur = []prog.Stmt{prog.Let{Name: v, V: prog.Infix{Op: "+", L: prog.IntLit{V: 1}, R: blk}}, prog.ExprStmt{X: prog.Builtin{Name: "println", Args: []prog.Expr{prog.StrLit{V: out}, prog.Var{Name: v, Ty: prog.Int}, keepVar}}}}
		case "argument":
			blk.Tail = prog.IntLit{V: 3}
			cur = []prog.Stmt{prog.ExprStmt{X: prog.Builtin{Name: "println", Args: []prog.Expr{prog.StrLit{V: "arg-" + in}, blk}}}, tagKeep(out)}
		case "let-init":
			v := fmt.Sprintf("t%d", k)
			blk.Tail = prog.IntLit{V: 4}
			cur = []prog.Stmt{prog.Let{Name: v, V: blk}, prog.ExprStmt{X: prog.Builtin{Name: "println", Args: []prog.Expr{prog.StrLit{V: out}, prog.Var{Name: v, Ty: prog.Int}, keepVar}}}}
		}
	}
	main := &prog.Func{Name: "main", Ret: prog.Null, Body: &prog.Block{}}
	// return-value at main level is illegal (main returns null): handled by the caller (skipped)
	main.Body.Stmts = append(main.Body.Stmts, prog.Let{Name: "keep", V: prog.IntLit{V: 41}}, tagKeep("start"))
	main.Body.Stmts = append(main.Body.Stmts, cur...)
	// scaffold after the construct: stale handlers, stale loop labels, corrupted locals, leftover stack
	e2 := prog.Var{Name: "e2", Ty: prog.ObjOf(prog.Field{Name: "message", T: prog.Str})}
	main.Body.Stmts = append(main.Body.Stmts,
		tagKeep("after"),
		prog.ExprStmt{X: prog.Try{
			Body:    &prog.Block{Stmts: []prog.Stmt{b.tag("second-try"), prog.ExprStmt{X: prog.Builtin{Name: "throw", Args: []prog.Expr{prog.StrLit{V: "second"}}}}}},
			Name:    "e2",
			Handler: &prog.Block{Stmts: []prog.Stmt{prog.ExprStmt{X: prog.Builtin{Name: "println", Args: []prog.Expr{prog.StrLit{V: "caught-second"}, prog.Member{X: e2, Name: "message"}, keepVar}}}}},
		}},
		prog.Let{Name: "j", V: prog.IntLit{V: 0}},
		prog.While{Cond: prog.Infix{Op: "<", L: prog.Var{Name: "j", Ty: prog.Int}, R: prog.IntLit{V: 2}}, Body: &prog.Block{Stmts: []prog.Stmt{
			prog.ExprStmt{X: prog.Assign{Op: "+=", Target: prog.Var{Name: "j", Ty: prog.Int}, V: prog.IntLit{V: 1}}},
			prog.ExprStmt{X: prog.If{Cond: prog.Infix{Op: "==", L: prog.Var{Name: "j", Ty: prog.Int}, R: prog.IntLit{V: 1}}, Then: &prog.Block{Stmts: []prog.Stmt{prog.Continue{}}}}},
			prog.ExprStmt{X: prog.Builtin{Name: "println", Args: []prog.Expr{prog.StrLit{V: "second-loop"}, prog.Var{Name: "j", Ty: prog.Int}, keepVar}}},
		}}},
		tagKeep("end"),
	)
	if p.Variant == "uncaught-after" {
		main.Body.Stmts = append(main.Body.Stmts, prog.ExprStmt{X: prog.Builtin{Name: "throw", Args: []prog.Expr{prog.StrLit{V: "final-uncaught"}}}})
	}
	mod := &prog.Module{Name: "main"}
	mod.Funcs = append(mod.Funcs, b.fns...)
	mod.Funcs = append(mod.Funcs, main)
	return &prog.Program{Modules: []*prog.Module{mod}, Entry: "main"}
}

func enumerate(d int, f func(stack []string)) {
	var rec func(stack []string)
	rec = func(stack []string) {
		if len(stack) > 0 {
			f(stack)
		}
		if len(stack) == d {
			return
		}
		for _, w := range wrappers {
			rec(append(append([]string{}, stack...), w))
		}
	}
	rec(nil)
}

func (c11) Cases(tier string, seed uint64) []fw.Case {
	var cases []fw.Case
	d := depth(tier)
	n := 0
	enumerate(d, func(stack []string) {
		for _, ex := range exits {
			if !legal(stack, ex) {
				continue
			}
			if ex == "return-value" {
				// needs an enclosing function that can return a value: a call wrapper
				has := false
				for _, w := range stack {
					if w == "call" {
						has = true
					}
				}
				if !has {
					continue
				}
			}
			variants := []string{""}
			if len(stack) <= 2 {
				variants = append(variants, "uncaught-after")
			}
			for _, v := range variants {
				p := Payload{Stack: stack, Exit: ex, Variant: v}
				cases = append(cases, fw.MkCase(fmt.Sprintf("c11-%d-%s-%s-%s", n, strings.Join(stack, "."), ex, v), "nest", p, Tags(stack, ex)...))
				n++
			}
		}
	})
	return cases
}

func (c11) Run(c fw.Case) fw.Result {
	var p Payload
	fw.Decode(c, &p)
	pr := Build(p)
	res := fw.Result{Verdict: fw.Held}
	res.Cover = []string{"exit:" + p.Exit, "depth:" + fmt.Sprint(len(p.Stack))}
	for _, w := range p.Stack {
		res.Cover = append(res.Cover, "wrap:"+w)
	}
	why, sig, o := c01.RunVMAgainstModel(pr, nil)
	if o.Rejected != "" {
		res.Verdict, res.Sig, res.Why = fw.Violated, "rejected", "the analyzer rejects a legal nesting: "+o.Rejected+"\n"+o.Src["main"]
		return res
	}
	res.Nontrivial = strings.Contains(o.Model.Effects, "pre-exit")
	res.Obs = map[string]int64{"catch_events": o.VM.Catches, "vm_steps": o.VM.Steps}
	if why != "" {
		res.Verdict, res.Sig, res.Why = fw.Violated, "vm:"+sig, why
		res.Detail = map[string]any{"source": o.Src["main"]}
	}
	// interpreter side
	ao := drive.Analyze(o.Src, "main", true)
	tr := drive.RunTree(ao.Modules, o.Src, "main", drive.TreeOpts{StepBudget: int64(o.Model.Steps)*50 + 100000})
	twhy, tsig := "", ""
	te := tr.Log.Render()
	switch {
	case tr.Outcome.Class == "go-panic" || tr.Outcome.Class == "step-budget":
		twhy, tsig = "interpreter: "+tr.Outcome.String(), "tree:"+tr.Outcome.Class
	case te != o.Model.Effects:
		twhy, tsig = fmt.Sprintf("interpreter trace differs:\n--- model\n%s\n--- tree\n%s", util.Clip(o.Model.Effects, 1200), util.Clip(te, 1200)), "tree:effects"
	case o.Model.Class != tr.Outcome.Class || (o.Model.Class == "fatal" && o.Model.Kind != tr.Outcome.Kind):
		twhy, tsig = fmt.Sprintf("interpreter outcome %s, model %s/%s", tr.Outcome, o.Model.Class, o.Model.Kind), "tree:outcome"
	case o.Model.Kind == "UncaughtThrow" && o.Model.Message != tr.Outcome.Message:
		twhy, tsig = fmt.Sprintf("interpreter uncaught message %q, model %q", tr.Outcome.Message, o.Model.Message), "tree:throw-message"
	}
	if twhy != "" {
		if res.Verdict == fw.Violated {
			res.More = append(res.More, fw.SubViolation{Why: twhy, Sig: tsig})
		} else {
			res.Verdict, res.Sig, res.Why = fw.Violated, tsig, twhy
			res.Detail = map[string]any{"source": o.Src["main"]}
		}
	}
	if len(p.Stack) == 3 && p.Stack[0] == "try" && p.Stack[1] == "for" {
		res.Sample = map[string]any{"stack": p.Stack, "exit": p.Exit, "source": o.Src["main"], "model_trace": o.Model.Effects}
	}
	return res
}

func (c11) OnCrash(c fw.Case, cr fw.Crash) fw.Result {
	var p Payload
	fw.Decode(c, &p)
	if cr.Kind == "watchdog" || cr.Kind == "killed" {
		return fw.Result{Verdict: fw.Inconclusive, Why: cr.Kind + ": " + cr.Message}
	}
	return fw.Result{Verdict: fw.Violated, Nontrivial: true,
		Sig:    fmt.Sprintf("vm:crash:%s:%s:%s", cr.Kind, util.NormPanic(cr.Message), cr.TopFrame),
		Why:    fmt.Sprintf("worker died (%s: %s) at %s", cr.Kind, util.Clip(cr.Message, 300), cr.TopFrame),
		Detail: map[string]any{"source": Build(p).Source()["main"]}}
}
