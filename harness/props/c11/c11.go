// Package c11 checks property C11: break, continue, return and throw leave exactly what the
// source says. Exhaustive enumeration of nesting contexts (bounded depth) around each exit kind,
// followed by further code, on both backends, against the reference evaluator.
package c11

import (
	"fmt"
	"strings"

	"hv/drive"
	"hv/fw"
	"hv/prog"
	"hv/props/c01"
	"hv/util"
)

type c11 struct{}

func init() { fw.Register(c11{}) }

func (c11) ID() string { return "C11" }

var wrappers = []string{"loop", "while", "for", "block", "if-then", "if-else", "match-arm", "match-default", "try", "catch", "call", "operand", "argument", "let-init"}
var exits = []string{"break", "continue", "return", "return-value", "throw", "fatal"}

// exprWrappers: further expression positions in which the construct can sit while already
// evaluated operands of the unfinished enclosing expression wait (an exit out of them must leave
// nothing behind, an exit caught inside them must keep them): the 2nd field of an object literal,
// the 2nd element of a list literal, an index, the 2nd argument of a call of a declared function
// and of a function value, the end of a range, the right hand side of a compound assignment to a
// local and of plain/compound assignments to a member and to a list element.
//
// "method-arg": the argument of a builtin member call (`t.push({ .. 2 })`), "operand-nolet": the
// right operand of an operator inside an argument list, in a statement which declares no variable
// (`println(out, 1 + { .. 2 }, keep)`): together with "argument" and "call-param" the whole
// function is then free of `let`, so that its frame holds nothing but its parameters.
var exprWrappers = []string{"obj-field", "list-elem", "index", "fn-arg", "closure-arg", "range-end", "compound-assign", "member-assign", "member-compound", "index-assign", "index-compound", "method-arg", "operand-nolet"}

// valueExits: exits whose own value expression leaves early: `return f()` and `throw(f())` where
// f throws (the exception is raised while the exit statement is half executed; it must reach the
// handler which encloses the statement).
var valueExits = []string{"return-throw", "throw-nested"}

// iterWrappers: `for` loops over something else than a range literal: a string literal, a string
// held in a variable (a local of main, handed down as a parameter to every function the nesting
// declares), a list literal, a list variable and a range variable. Strings have three items, so
// an exit at the bottom leaves the loop in its first round. Every variable is iterated once more
// (in full, counting the rounds) behind the construct, and a literal is iterated again when an
// enclosing loop or function runs a second time: a loop which is left early must not leave
// anything behind in the value it iterated. (What the loop variable holds is not looked at: no
// property says what iterating a string yields.) In the "-last" forms the content only runs in the
// last round of the loop (a round counter is compared), so the loop is left in its last round and
// a second execution of the same loop has to start from the beginning again.
var iterWrappers = []string{"for-str", "for-str-last", "for-strvar", "for-list-last", "for-listvar", "for-rangevar"}

// valueWrappers: the construct yields the value of the LEFT operand of an operator whose right
// operand has a visible effect (`side(10)` prints), so that code behind the construct which
// belongs to the same expression is observed: a block (`{ .. 2 } + side(10)`), a try whose
// try-block holds the construct and whose catch-block yields a value, a try whose try-block always
// throws and whose catch-block holds the construct, the same two bound with a `let` without
// annotation first, and as the target of a compound assignment.
var valueWrappers = []string{"operand-left", "try-operand", "catch-operand", "try-let-operand", "catch-let-operand", "try-compound", "catch-compound"}

// callWrappers: like "call", but the function has a long name (21, 39, 57 characters, by level):
// what is on the call stack when the exit happens must not matter, in particular not for how a
// fatal error or an uncaught throw ends the run.
//
// "call-param": the function declares no local of its own: its `keep` is a parameter (handed
// 100+k), so that - unless a wrapper beneath it declares one - the frame of the function consists
// of parameters only; the caller's locals (its keep first of all) are printed behind the call.
var callWrappers = []string{"call-long", "call-param"}

// condWrappers: the construct sits in the controlling expression of a statement, which does NOT
// belong to what the statement controls: the condition of a `while` (`while { .. c < 2 } { c += 1; }`;
// a break/continue in it binds to the loop AROUND the while - the analyzer and the compiler take
// the condition before they enter the loop -, so the wrapper is not a loop for what it holds), the
// condition of an `if` and the subject of a `match`.
var condWrappers = []string{"while-cond", "if-cond", "match-subject"}

// repeatWrappers: a `for` over a range of manyRounds items: what the nesting beneath it does per
// round (an exit which is survived inside the round: caught, or bound to an inner loop / function)
// happens more often than the interpreter's call limit treeCallLimit allows frames, while the real
// call depth of every program stays far below it (at most depth+3): bookkeeping which loses a
// frame, a handler or an operand per exit runs into a limit the source is nowhere near.
var repeatWrappers = []string{"for-many"}

const manyRounds = 20

// treeCallLimit: the call limit every interpreter run gets (the host chooses it; the deepest
// program calls main -> 4 nested functions -> a helper -> a builtin).
const treeCallLimit = 16

var newWrappers = append(append([]string{"call-param", "method-arg", "operand-nolet"}, condWrappers...), repeatWrappers...)

var allWrappers = append(append(append(append(append([]string{}, wrappers...), exprWrappers...), iterWrappers...), append(append([]string{}, valueWrappers...), callWrappers...)...), append(append([]string{}, condWrappers...), repeatWrappers...)...)
var allExits = append(append([]string{}, exits...), valueExits...)

func isCall(w string) bool { return w == "call" || isIn(callWrappers, w) }
func isFor(w string) bool  { return w == "for" || isIn(iterWrappers, w) || isIn(repeatWrappers, w) }
func isLoop(w string) bool { return w == "loop" || w == "while" || isFor(w) }

// isTry: the wrapper catches what is thrown inside it.
func isTry(w string) bool {
	return w == "try" || w == "try-operand" || w == "try-let-operand" || w == "try-compound"
}

func isIn(xs []string, x string) bool {
	for _, y := range xs {
		if x == y {
			return true
		}
	}
	return false
}

// inBase: the (stack, exit) pair belongs to the exhaustively enumerated base family.
func inBase(stack []string, exit string) bool {
	if !isIn(exits, exit) {
		return false
	}
	for _, w := range stack {
		if !isIn(wrappers, w) {
			return false
		}
	}
	return true
}

// sample sizes of the extended family (stacks deeper than 2 are sampled by VERIF_SEED)
func sampleSizes(tier string) (d3, d4 int) {
	if tier == "thorough" {
		return 16000, 8000
	}
	return 1000, 0
}

func depth(tier string) int {
	if tier == "thorough" {
		return 4
	}
	return 3
}

func (c11) Info(tier string) fw.Info {
	d3, d4 := sampleSizes(tier)
	return fw.Info{
		Level: "exploration",
		Rule: fmt.Sprintf("exhaustive enumeration of wrapper stacks of depth 1..%d over %v with each exit kind %v innermost, filtered to the statically legal ones (break/continue need a loop in the same function); "+
			"around it a fixed scaffold: a local set before, trace tags before/inside/after every level, a second try and a second loop after the construct, then a final uncaught throw variant; "+
			"extended family: the same scaffold over the wrappers %v in addition (for loops over string/list literals and over string/list/range variables which are iterated again in full behind the construct; the construct as LEFT operand of an operator whose right operand prints: block, try with a value-yielding catch, catch of a try which always throws, directly / through a let / as compound-assignment target; calls of functions with long names and of functions whose only locals are parameters; a builtin member call argument and an operand inside a let-free statement; the condition of a while / of an if and the subject of a match - a break/continue there binds to the loop around the statement; a for over %d items) and the exits %v in addition (every combination which is not in the base family): exhaustive for depth 1..2, a VERIF_SEED-selected sample of %d stacks of depth 3 and %d of depth 4; "+
			"repeat family: every base stack of depth 2 beneath a for over %d items, each exit; "+
			"the interpreter runs with a call limit of %d frames (the programs never nest more than depth+3 calls); "+
			"each program runs on the VM (trace, outcome, residue, handlers) and on the interpreter and is compared with the reference evaluator. non-trivial = the exit statement was reached (its 'pre-exit' tag is in the model trace); distinct = distinct (stack, exit, variant)", depth(tier), wrappers, exits, allWrappers[len(wrappers):], manyRounds, valueExits, d3, d4, manyRounds, treeCallLimit),
		Assumptions: []string{"depth bound as stated; data-dependent exits are covered by the random programs of C01",
			"exhaustive holds for the base family (all depths stated) and for depth 1..2 of the extended family; deeper stacks of the extended family are a seeded sample",
			"expression positions of type never which the unchanged tree does not take (index, object-literal field) are only exercised behind a condition"},
		Exhaustive:   true,
		CaseTimeoutS: 60,
		BatchSize:    250,
	}
}

// Payload of a nesting case.
type Payload struct {
	Stack   []string `json:"stack"` // outermost first
	Exit    string   `json:"exit"`
	Variant string   `json:"variant"` // "" | "uncaught-after"
	// Guarded: the expression wrappers put their content behind a condition which holds
	// (`{ if keep > 0 { .. } v }`), so that the block is of type int although its content always
	// leaves; otherwise the content stands directly in the block, which is then of type never.
	Guarded bool `json:"guarded,omitempty"`
	// Shadow: the body of every block-like wrapper starts with its own `let keep = 1000+k;`, which
	// hides the keep of the function for the rest of that block only. Every line printed after an
	// exit has left the block (handlers, out-tags, the scaffold) must show the function's keep
	// again: a scope that is not removed on the way out (or one removed too many) shows here.
	Shadow bool `json:"shadow,omitempty"`
}

// alwaysGuarded: positions in which the unchanged tree cannot take an expression of type never:
// the analyzer rejects an index of type never ("A value of type 'list' cannot be indexed by
// 'never'"), and the bytecode compiler dies in value.ZeroValue ("Invalid type: never") for an
// object literal with a field initialiser of type never (`new { a: { return; 1 } }`; a genuine
// defect of the compiler, reported, and therefore kept out of the workload).
var alwaysGuarded = []string{"obj-field", "index"}

type builder struct {
	fns   []*prog.Func
	n     int
	trace int
	// model: build the twin which the reference evaluator runs. The evaluator cannot iterate a
	// string; in the twin every iterated string is the list of its items (the programs do not
	// look at the items, only at how often the body runs).
	model bool
	// iter: the iterable variables the nesting uses (declared in main, parameters elsewhere)
	iter []prog.Var
}

const strItems = "abc"

func (b *builder) strTy() *prog.Type {
	if b.model {
		return prog.ListOf(prog.Str)
	}
	return prog.Str
}

func (b *builder) strVal() prog.Expr {
	if !b.model {
		return prog.StrLit{V: strItems}
	}
	l := prog.ListLit{Ty: prog.ListOf(prog.Str)}
	for _, r := range strItems {
		l.Elems = append(l.Elems, prog.StrLit{V: string(r)})
	}
	return l
}

func intList3() prog.Expr {
	return prog.ListLit{Elems: []prog.Expr{prog.IntLit{V: 7}, prog.IntLit{V: 8}, prog.IntLit{V: 9}}, Ty: prog.ListOf(prog.Int)}
}

// iterVar: the variable a "for-…var" wrapper iterates.
func (b *builder) iterVar(w string) prog.Var {
	switch w {
	case "for-strvar":
		return prog.Var{Name: "sv", Ty: b.strTy()}
	case "for-listvar":
		return prog.Var{Name: "lv", Ty: prog.ListOf(prog.Int)}
	case "for-rangevar":
		return prog.Var{Name: "rv", Ty: prog.Range}
	}
	panic("c11: no variable for " + w)
}

func (b *builder) iterInit(v prog.Var) prog.Expr {
	switch v.Name {
	case "sv":
		return b.strVal()
	case "lv":
		return intList3()
	}
	return prog.RangeLit{A: prog.IntLit{V: 0}, B: prog.IntLit{V: 3}}
}

func (b *builder) iterParams() (ps []prog.Param, args []prog.Expr) {
	for _, v := range b.iter {
		ps = append(ps, prog.Param{Name: v.Name, T: v.Ty})
		args = append(args, v)
	}
	return
}

// side declares (once) fn side(n: int) -> int { println("rhs-evaluated", n); n }.
func (b *builder) side() prog.Expr {
	if !b.hasFn("side") {
		vn := prog.Var{Name: "n", Ty: prog.Int}
		b.fns = append(b.fns, &prog.Func{Name: "side", Ret: prog.Int, Params: []prog.Param{{Name: "n", T: prog.Int}},
			Body: &prog.Block{Stmts: []prog.Stmt{say(prog.StrLit{V: "rhs-evaluated"}, vn)}, Tail: vn}})
	}
	return prog.Call{Fn: "side", Args: []prog.Expr{prog.IntLit{V: 10}}, Ret: prog.Int}
}

func (b *builder) tag(s string) prog.Stmt {
	return prog.ExprStmt{X: prog.Builtin{Name: "println", Args: []prog.Expr{prog.StrLit{V: s}}}}
}

func (b *builder) id() int { b.n++; return b.n }

func (b *builder) hasFn(name string) bool {
	for _, f := range b.fns {
		if f.Name == name {
			return true
		}
	}
	return false
}

// thrower declares (once) a function of the given result type which throws instead of returning.
func (b *builder) thrower(ret *prog.Type) string {
	name := "thrower_" + ret.String()
	if !b.hasFn(name) {
		f := &prog.Func{Name: name, Ret: ret, Body: &prog.Block{Stmts: []prog.Stmt{
			b.tag("in-" + name),
			prog.ExprStmt{X: prog.Builtin{Name: "throw", Args: []prog.Expr{prog.StrLit{V: "thrown-in-value"}}}},
			b.tag("post-throw-unreachable"),
		}}}
		if ret.K == prog.TInt {
			f.Body.Tail = prog.IntLit{V: 9}
		}
		b.fns = append(b.fns, f)
	}
	return name
}

// pack3 declares (once) fn pack3(a: int, b: int, c: int) -> int { a * 100 + b * 10 + c }.
func (b *builder) pack3() string {
	if !b.hasFn("pack3") {
		va, vb, vc := prog.Var{Name: "a", Ty: prog.Int}, prog.Var{Name: "b", Ty: prog.Int}, prog.Var{Name: "c", Ty: prog.Int}
		b.fns = append(b.fns, &prog.Func{Name: "pack3", Ret: prog.Int,
			Params: []prog.Param{{Name: "a", T: prog.Int}, {Name: "b", T: prog.Int}, {Name: "c", T: prog.Int}},
			Body:   &prog.Block{Tail: prog.Infix{Op: "+", L: prog.Infix{Op: "+", L: prog.Infix{Op: "*", L: va, R: prog.IntLit{V: 100}}, R: prog.Infix{Op: "*", L: vb, R: prog.IntLit{V: 10}}}, R: vc}}})
	}
	return "pack3"
}

func say(args ...prog.Expr) prog.Stmt {
	return prog.ExprStmt{X: prog.Builtin{Name: "println", Args: args}}
}

// exprWrapper puts the block (which gets an int tail) into an expression position in which
// operands of the enclosing expression are pending, and prints the value of that expression (and
// of its neighbours) behind it.
func (b *builder) exprWrapper(w string, k int, out string, blk *prog.Block) []prog.Stmt {
	outS := prog.StrLit{V: out}
	v := fmt.Sprintf("t%d", k)
	intList := prog.ListOf(prog.Int)
	switch w {
	case "obj-field":
		blk.Tail = prog.IntLit{V: 2}
		o := prog.ObjLit{Fields: []prog.FieldInit{{Name: "a", V: prog.IntLit{V: 1}}, {Name: "b", V: blk}, {Name: "c", V: prog.IntLit{V: 3}}}}
		ov := prog.Var{Name: v, Ty: o.T()}
		return []prog.Stmt{prog.Let{Name: v, V: o}, say(outS, prog.Member{X: ov, Name: "a"}, prog.Member{X: ov, Name: "b"}, prog.Member{X: ov, Name: "c"}, keepVar)}
	case "list-elem":
		blk.Tail = prog.IntLit{V: 2}
		l := prog.ListLit{Elems: []prog.Expr{prog.IntLit{V: 1}, blk, prog.IntLit{V: 3}}, Ty: intList}
		return []prog.Stmt{prog.Let{Name: v, V: l}, say(outS, prog.Var{Name: v, Ty: intList}, keepVar)}
	case "index":
		blk.Tail = prog.IntLit{V: 1}
		lv := prog.Var{Name: fmt.Sprintf("l%d", k), Ty: intList}
		return []prog.Stmt{
			prog.Let{Name: lv.Name, V: prog.ListLit{Elems: []prog.Expr{prog.IntLit{V: 10}, prog.IntLit{V: 20}, prog.IntLit{V: 30}}, Ty: intList}},
			prog.Let{Name: v, V: prog.Index{X: lv, I: blk}},
			say(outS, prog.Var{Name: v, Ty: prog.Int}, lv, keepVar)}
	case "fn-arg":
		blk.Tail = prog.IntLit{V: 2}
		return []prog.Stmt{prog.Let{Name: v, V: prog.Call{Fn: b.pack3(), Args: []prog.Expr{prog.IntLit{V: 1}, blk, prog.IntLit{V: 3}}, Ret: prog.Int}},
			say(outS, prog.Var{Name: v, Ty: prog.Int}, keepVar)}
	case "closure-arg":
		blk.Tail = prog.IntLit{V: 2}
		g := fmt.Sprintf("g%d", k)
		va, vb := prog.Var{Name: "a", Ty: prog.Int}, prog.Var{Name: "b", Ty: prog.Int}
		lit := prog.FnLit{Params: []prog.Param{{Name: "a", T: prog.Int}, {Name: "b", T: prog.Int}}, Ret: prog.Int,
			Body: &prog.Block{Tail: prog.Infix{Op: "+", L: prog.Infix{Op: "*", L: va, R: prog.IntLit{V: 10}}, R: vb}}}
		return []prog.Stmt{prog.Let{Name: g, V: lit},
			prog.Let{Name: v, V: prog.Call{Fn: g, Args: []prog.Expr{prog.IntLit{V: 1}, blk}, Ret: prog.Int}},
			say(outS, prog.Var{Name: v, Ty: prog.Int}, keepVar)}
	case "range-end":
		blk.Tail = prog.IntLit{V: 2}
		q := fmt.Sprintf("q%d", k)
		return []prog.Stmt{prog.Let{Name: v, V: prog.RangeLit{A: prog.IntLit{V: 0}, B: blk}},
			prog.For{Name: q, Iter: prog.Var{Name: v, Ty: prog.Range}, Body: &prog.Block{Stmts: []prog.Stmt{say(prog.StrLit{V: "item-" + out}, prog.Var{Name: q, Ty: prog.Int}, keepVar)}}},
			tagKeep(out)}
	case "compound-assign":
		blk.Tail = prog.IntLit{V: 2}
		tv := prog.Var{Name: v, Ty: prog.Int}
		return []prog.Stmt{prog.Let{Name: v, V: prog.IntLit{V: 40}}, prog.ExprStmt{X: prog.Assign{Op: "+=", Target: tv, V: blk}}, say(outS, tv, keepVar)}
	case "member-assign", "member-compound":
		blk.Tail = prog.IntLit{V: 5}
		o := prog.ObjLit{Fields: []prog.FieldInit{{Name: "f", V: prog.IntLit{V: 1}}, {Name: "g", V: prog.IntLit{V: 2}}}}
		ov := prog.Var{Name: v, Ty: o.T()}
		op := "="
		if w == "member-compound" {
			op = "+="
		}
		return []prog.Stmt{prog.Let{Name: v, V: o}, prog.ExprStmt{X: prog.Assign{Op: op, Target: prog.Member{X: ov, Name: "g"}, V: blk}},
			say(outS, prog.Member{X: ov, Name: "f"}, prog.Member{X: ov, Name: "g"}, keepVar)}
	case "index-assign", "index-compound":
		blk.Tail = prog.IntLit{V: 5}
		lv := prog.Var{Name: v, Ty: intList}
		op := "="
		if w == "index-compound" {
			op = "+="
		}
		return []prog.Stmt{prog.Let{Name: v, V: prog.ListLit{Elems: []prog.Expr{prog.IntLit{V: 10}, prog.IntLit{V: 20}}, Ty: intList}},
			prog.ExprStmt{X: prog.Assign{Op: op, Target: prog.Index{X: lv, I: prog.IntLit{V: 1}}, V: blk}},
			say(outS, lv, keepVar)}
	case "method-arg":
		blk.Tail = prog.IntLit{V: 2}
		lv := prog.Var{Name: v, Ty: intList}
		return []prog.Stmt{prog.Let{Name: v, V: prog.ListLit{Elems: []prog.Expr{prog.IntLit{V: 10}}, Ty: intList}},
			prog.ExprStmt{X: prog.MCall{Recv: lv, Name: "push", Args: []prog.Expr{blk}, Ret: prog.Null}},
			say(outS, lv, keepVar)}
	case "operand-nolet":
		blk.Tail = prog.IntLit{V: 2}
		return []prog.Stmt{say(outS, prog.Infix{Op: "+", L: prog.IntLit{V: 1}, R: blk}, keepVar)}
	case "operand-left":
		blk.Tail = prog.IntLit{V: 2}
		return []prog.Stmt{prog.Let{Name: v, V: prog.Infix{Op: "+", L: blk, R: b.side()}}, say(outS, prog.Var{Name: v, Ty: prog.Int}, keepVar)}
	case "try-operand", "catch-operand", "try-let-operand", "catch-let-operand", "try-compound", "catch-compound":
		blk.Tail = prog.IntLit{V: 2}
		e := fmt.Sprintf("e%d", k)
		var try prog.Try
		if strings.HasPrefix(w, "try-") {
			h := &prog.Block{Stmts: []prog.Stmt{say(prog.StrLit{V: "caught-" + out}, prog.Member{X: prog.Var{Name: e, Ty: prog.ObjOf(prog.Field{Name: "message", T: prog.Str})}, Name: "message"}, keepVar)}, Tail: prog.IntLit{V: 7}}
			try = prog.Try{Body: blk, Name: e, Handler: h}
		} else {
			tb := &prog.Block{Stmts: []prog.Stmt{prog.ExprStmt{X: prog.Builtin{Name: "throw", Args: []prog.Expr{prog.StrLit{V: "to-handler"}}}}}, Tail: prog.IntLit{V: 1}}
			try = prog.Try{Body: tb, Name: e, Handler: blk}
		}
		tv := prog.Var{Name: v, Ty: prog.Int}
		switch {
		case strings.HasSuffix(w, "-let-operand"):
			u := prog.Var{Name: fmt.Sprintf("u%d", k), Ty: prog.Int}
			return []prog.Stmt{prog.Let{Name: u.Name, V: try}, prog.Let{Name: v, V: prog.Infix{Op: "+", L: u, R: b.side()}}, say(outS, u, tv, keepVar)}
		case strings.HasSuffix(w, "-compound"):
			return []prog.Stmt{prog.Let{Name: v, V: try}, prog.ExprStmt{X: prog.Assign{Op: "+=", Target: tv, V: b.side()}}, say(outS, tv, keepVar)}
		}
		return []prog.Stmt{prog.Let{Name: v, V: prog.Infix{Op: "+", L: prog.Grouped{X: try}, R: b.side()}}, say(outS, tv, keepVar)}
	}
	panic("c11: unknown wrapper " + w)
}

// condWrapper puts the block into the controlling expression of a while / if / match.
func (b *builder) condWrapper(w string, k int, in, out string, blk *prog.Block) []prog.Stmt {
	switch w {
	case "while-cond":
		c := prog.Var{Name: fmt.Sprintf("c%d", k), Ty: prog.Int}
		blk.Tail = prog.Infix{Op: "<", L: c, R: prog.IntLit{V: 2}}
		wb := &prog.Block{Stmts: []prog.Stmt{prog.ExprStmt{X: prog.Assign{Op: "+=", Target: c, V: prog.IntLit{V: 1}}}, say(prog.StrLit{V: "body-" + in}, c, keepVar)}}
		return []prog.Stmt{prog.Let{Name: c.Name, V: prog.IntLit{V: 0}}, prog.While{Cond: blk, Body: wb}, say(prog.StrLit{V: out}, c, keepVar)}
	case "if-cond":
		blk.Tail = prog.Infix{Op: ">", L: keepVar, R: prog.IntLit{V: 0}}
		return []prog.Stmt{prog.ExprStmt{X: prog.If{Cond: blk, Then: &prog.Block{Stmts: []prog.Stmt{tagKeep("then-" + in)}}, Else: &prog.Block{Stmts: []prog.Stmt{b.tag("wrong-branch")}}}}, tagKeep(out)}
	case "match-subject":
		blk.Tail = prog.IntLit{V: 1}
		return []prog.Stmt{prog.ExprStmt{X: prog.Match{X: blk, Arms: []prog.Arm{{Lits: []prog.Expr{prog.IntLit{V: 1}}, Body: &prog.Block{Stmts: []prog.Stmt{tagKeep("arm-" + in)}}}}, Default: &prog.Block{Stmts: []prog.Stmt{b.tag("wrong-arm")}}, Ty: prog.Null}}, tagKeep(out)}
	}
	panic("c11: unknown wrapper " + w)
}

var keepVar = prog.Var{Name: "keep", Ty: prog.Int}

func tagKeep(s string) prog.Stmt {
	return prog.ExprStmt{X: prog.Builtin{Name: "println", Args: []prog.Expr{prog.StrLit{V: s}, keepVar}}}
}

// legal: break/continue need an enclosing loop that is not separated from the exit by a call.
func legal(stack []string, exit string) bool {
	if exit == "break" || exit == "continue" {
		for i := len(stack) - 1; i >= 0; i-- {
			switch {
			case isCall(stack[i]):
				return false
			case isLoop(stack[i]):
				return true
			}
		}
		return false
	}
	return true
}

// Tags computes the hazard tags of a nesting (which open findings the case may hit).
func Tags(stack []string, exit string) []string {
	var tags []string
	add := func(t string) {
		for _, x := range tags {
			if x == t {
				return
			}
		}
		tags = append(tags, t)
	}
	// which wrappers does the exit cross?
	crossed := []string{}
	if isIn(valueExits, exit) {
		add("exit-in-exit-value")
	}
	switch exit {
	case "break", "continue":
		for i := len(stack) - 1; i >= 0; i-- {
			if isLoop(stack[i]) {
				break
			}
			crossed = append(crossed, stack[i])
		}
	case "return", "return-value":
		for i := len(stack) - 1; i >= 0; i-- {
			if isCall(stack[i]) {
				break
			}
			crossed = append(crossed, stack[i])
		}
	case "throw", "return-throw", "throw-nested":
		for i := len(stack) - 1; i >= 0; i-- {
			if isTry(stack[i]) {
				break
			}
			crossed = append(crossed, stack[i])
		}
	case "fatal":
		crossed = append(crossed, stack...)
	}
	for _, w := range crossed {
		switch {
		case isTry(w):
			w = "try"
		case isCall(w):
			w = "call"
		case isFor(w):
			w = "for"
		}
		switch w {
		case "try":
			add("exit-out-of-try")
		case "operand", "argument", "obj-field", "list-elem", "index", "fn-arg", "closure-arg", "range-end", "compound-assign", "member-assign", "member-compound", "index-assign", "index-compound", "method-arg", "operand-nolet":
			// a throw that is caught restores the operand stack height recorded by its handler;
			// only jumps (break/continue/return) leave the pending operands behind
			if exit != "throw" && !isIn(valueExits, exit) {
				add("exit-from-expr-context")
			}
		case "call":
			if exit == "throw" || isIn(valueExits, exit) {
				add("throw-across-call")
			}
		case "for":
			if exit == "throw" || exit == "return" || exit == "return-value" || isIn(valueExits, exit) {
				add("exit-out-of-for")
			}
		}
	}
	return tags
}

// Build constructs the program of a payload.
func Build(p Payload) *prog.Program { return build(p, false) }

// BuildModel constructs the twin of the program which the reference evaluator runs (the same
// program unless a string is iterated, see builder.model).
func BuildModel(p Payload) *prog.Program { return build(p, true) }

func needsTwin(p Payload) bool {
	return isIn(p.Stack, "for-str") || isIn(p.Stack, "for-str-last") || isIn(p.Stack, "for-strvar")
}

func build(p Payload, model bool) *prog.Program {
	b := &builder{model: model}
	for _, w := range []string{"for-strvar", "for-listvar", "for-rangevar"} {
		if isIn(p.Stack, w) {
			b.iter = append(b.iter, b.iterVar(w))
		}
	}
	// innermost statements
	var inner []prog.Stmt
	inner = append(inner, tagKeep("pre-exit"))
	fnRet := map[int]bool{} // level index of "call" wrappers that return a value
	switch p.Exit {
	case "break":
		inner = append(inner, prog.Break{})
	case "continue":
		inner = append(inner, prog.Continue{})
	case "return":
		inner = append(inner, prog.Return{})
	case "return-value":
		inner = append(inner, prog.Return{V: prog.IntLit{V: 77}})
	case "throw":
		inner = append(inner, prog.ExprStmt{X: prog.Builtin{Name: "throw", Args: []prog.Expr{prog.StrLit{V: "thrown-inner"}}}})
	case "fatal":
		l := prog.ListLit{Elems: []prog.Expr{prog.IntLit{V: 1}}, Ty: prog.ListOf(prog.Int)}
		inner = append(inner, prog.Let{Name: "oob", V: l}, prog.ExprStmt{X: prog.Builtin{Name: "println", Args: []prog.Expr{prog.Index{X: prog.Var{Name: "oob", Ty: prog.ListOf(prog.Int)}, I: prog.IntLit{V: 5}}}}})
	}
	// the function that directly contains the exit: index of the innermost "call" wrapper
	innermostCall := -1
	for i := len(p.Stack) - 1; i >= 0; i-- {
		if isCall(p.Stack[i]) {
			innermostCall = i
			break
		}
	}
	// does the innermost function return a value? (return-value needs an int function)
	retValue := p.Exit == "return-value"
	switch p.Exit {
	case "return-throw":
		// the value of the return raises the exception: in a function with a result if there is
		// one around the exit, otherwise in main (a null-typed value)
		if innermostCall >= 0 {
			retValue = true
			inner = append(inner, prog.Return{V: prog.Call{Fn: b.thrower(prog.Int), Ret: prog.Int}})
		} else {
			inner = append(inner, prog.Return{V: prog.Call{Fn: b.thrower(prog.Null), Ret: prog.Null}})
		}
	case "throw-nested":
		inner = append(inner, prog.ExprStmt{X: prog.Builtin{Name: "throw", Args: []prog.Expr{prog.Call{Fn: b.thrower(prog.Int), Ret: prog.Int}}}})
	}
	inner = append(inner, b.tag("post-exit-unreachable"))
	cur := inner
	if retValue && innermostCall >= 0 {
		fnRet[innermostCall] = true
	}
	for i := len(p.Stack) - 1; i >= 0; i-- {
		w := p.Stack[i]
		k := b.id()
		in := fmt.Sprintf("in-%s-%d", w, k)
		out := fmt.Sprintf("out-%s-%d", w, k)
		body := append([]prog.Stmt{tagKeep(in)}, cur...)
		if p.Shadow && !isCall(w) {
			body = append([]prog.Stmt{prog.Let{Name: "keep", V: prog.IntLit{V: int64(1000 + k)}}}, body...)
		}
		body = append(body, b.tag("tail-"+in))
		blk := &prog.Block{Stmts: body}
		switch w {
		case "loop":
			c := prog.Var{Name: fmt.Sprintf("c%d", k), Ty: prog.Int}
			lb := &prog.Block{Stmts: append([]prog.Stmt{
				prog.ExprStmt{X: prog.Assign{Op: "+=", Target: c, V: prog.IntLit{V: 1}}},
				prog.ExprStmt{X: prog.If{Cond: prog.Infix{Op: ">", L: c, R: prog.IntLit{V: 2}}, Then: &prog.Block{Stmts: []prog.Stmt{prog.Break{}}}}},
			}, body...)}
			cur = []prog.Stmt{prog.Let{Name: c.Name, V: prog.IntLit{V: 0}}, prog.Loop{Body: lb}, tagKeep(out)}
		case "while":
			c := prog.Var{Name: fmt.Sprintf("c%d", k), Ty: prog.Int}
			lb := &prog.Block{Stmts: append([]prog.Stmt{prog.ExprStmt{X: prog.Assign{Op: "+=", Target: c, V: prog.IntLit{V: 1}}}}, body...)}
			cur = []prog.Stmt{prog.Let{Name: c.Name, V: prog.IntLit{V: 0}}, prog.While{Cond: prog.Infix{Op: "<", L: c, R: prog.IntLit{V: 2}}, Body: lb}, tagKeep(out)}
		case "for":
			cur = []prog.Stmt{prog.For{Name: fmt.Sprintf("i%d", k), Iter: prog.RangeLit{A: prog.IntLit{V: 0}, B: prog.IntLit{V: 2}}, Body: blk}, tagKeep(out)}
		case "for-many":
			cur = []prog.Stmt{prog.For{Name: fmt.Sprintf("i%d", k), Iter: prog.RangeLit{A: prog.IntLit{V: 0}, B: prog.IntLit{V: manyRounds}}, Body: blk}, tagKeep(out)}
		case "while-cond", "if-cond", "match-subject":
			if p.Guarded {
				guard := prog.If{Cond: prog.Infix{Op: ">", L: keepVar, R: prog.IntLit{V: 0}}, Then: &prog.Block{Stmts: cur}}
				blk.Stmts = []prog.Stmt{tagKeep(in), prog.ExprStmt{X: guard}, b.tag("tail-" + in)}
			}
			cur = b.condWrapper(w, k, in, out, blk)
		case "for-str":
			cur = []prog.Stmt{prog.For{Name: fmt.Sprintf("i%d", k), Iter: b.strVal(), Body: blk}, tagKeep(out)}
		case "for-str-last", "for-list-last":
			r := prog.Var{Name: fmt.Sprintf("rd%d", k), Ty: prog.Int}
			it := intList3()
			if w == "for-str-last" {
				it = b.strVal()
			}
			blk.Stmts = []prog.Stmt{
				prog.ExprStmt{X: prog.Assign{Op: "+=", Target: r, V: prog.IntLit{V: 1}}},
				say(prog.StrLit{V: in}, r, keepVar),
				prog.ExprStmt{X: prog.If{Cond: prog.Infix{Op: "==", L: r, R: prog.IntLit{V: int64(len(strItems))}}, Then: &prog.Block{Stmts: cur}}},
				b.tag("tail-" + in)}
			cur = []prog.Stmt{prog.Let{Name: r.Name, V: prog.IntLit{V: 0}}, prog.For{Name: fmt.Sprintf("i%d", k), Iter: it, Body: blk}, tagKeep(out)}
		case "for-strvar", "for-listvar", "for-rangevar":
			cur = []prog.Stmt{prog.For{Name: fmt.Sprintf("i%d", k), Iter: b.iterVar(w), Body: blk}, tagKeep(out)}
		case "block":
			cur = []prog.Stmt{prog.ExprStmt{X: blk}, tagKeep(out)}
		case "if-then":
			cur = []prog.Stmt{prog.ExprStmt{X: prog.If{Cond: prog.BoolLit{V: true}, Then: blk}}, tagKeep(out)}
		case "if-else":
			cur = []prog.Stmt{prog.ExprStmt{X: prog.If{Cond: prog.BoolLit{V: false}, Then: &prog.Block{Stmts: []prog.Stmt{b.tag("wrong-branch")}}, Else: blk}}, tagKeep(out)}
		case "match-arm":
			cur = []prog.Stmt{prog.ExprStmt{X: prog.Match{X: prog.IntLit{V: 1}, Arms: []prog.Arm{{Lits: []prog.Expr{prog.IntLit{V: 1}}, Body: blk}}, Default: &prog.Block{Stmts: []prog.Stmt{b.tag("wrong-arm")}}, Ty: prog.Null}}, tagKeep(out)}
		case "match-default":
			cur = []prog.Stmt{prog.ExprStmt{X: prog.Match{X: prog.IntLit{V: 2}, Arms: []prog.Arm{{Lits: []prog.Expr{prog.IntLit{V: 1}}, Body: &prog.Block{Stmts: []prog.Stmt{b.tag("wrong-arm")}}}}, Default: blk, Ty: prog.Null}}, tagKeep(out)}
		case "try":
			e := fmt.Sprintf("e%d", k)
			h := &prog.Block{Stmts: []prog.Stmt{prog.ExprStmt{X: prog.Builtin{Name: "println", Args: []prog.Expr{prog.StrLit{V: "caught-" + in}, prog.Member{X: prog.Var{Name: e, Ty: prog.ObjOf(prog.Field{Name: "message", T: prog.Str})}, Name: "message"}, keepVar}}}}}
			cur = []prog.Stmt{prog.ExprStmt{X: prog.Try{Body: blk, Name: e, Handler: h}}, tagKeep(out)}
		case "catch":
			e := fmt.Sprintf("e%d", k)
			tb := &prog.Block{Stmts: []prog.Stmt{prog.ExprStmt{X: prog.Builtin{Name: "throw", Args: []prog.Expr{prog.StrLit{V: "to-handler"}}}}}}
			cur = []prog.Stmt{prog.ExprStmt{X: prog.Try{Body: tb, Name: e, Handler: blk}}, tagKeep(out)}
		case "call", "call-long", "call-param":
			name := fmt.Sprintf("fn%d", k)
			if w == "call-long" {
				name += strings.Repeat("_leaves_its_caller", 1+(k-1)%3)
			}
			params, args := b.iterParams()
			f := &prog.Func{Name: name, Ret: prog.Null, Params: params, Body: &prog.Block{Stmts: append([]prog.Stmt{prog.Let{Name: "keep", V: prog.IntLit{V: int64(100 + k)}}}, body...)}}
			if w == "call-param" {
				f.Params = append([]prog.Param{{Name: "keep", T: prog.Int}}, params...)
				args = append([]prog.Expr{prog.IntLit{V: int64(100 + k)}}, args...)
				f.Body = &prog.Block{Stmts: body}
			}
			if fnRet[i] {
				f.Ret = prog.Int
				f.Body.Tail = prog.IntLit{V: 55}
				cur = []prog.Stmt{prog.Let{Name: fmt.Sprintf("r%d", k), V: prog.Call{Fn: name, Args: args, Ret: prog.Int}}, prog.ExprStmt{X: prog.Builtin{Name: "println", Args: []prog.Expr{prog.StrLit{V: out}, prog.Var{Name: fmt.Sprintf("r%d", k), Ty: prog.Int}, keepVar}}}}
			} else {
				cur = []prog.Stmt{prog.ExprStmt{X: prog.Call{Fn: name, Args: args, Ret: prog.Null}}, tagKeep(out)}
			}
			b.fns = append(b.fns, f)
		case "operand":
			v := fmt.Sprintf("t%d", k)
			blk.Tail = prog.IntLit{V: 2}
			cur = []prog.Stmt{prog.Let{Name: v, V: prog.Infix{Op: "+", L: prog.IntLit{V: 1}, R: blk}}, prog.ExprStmt{X: prog.Builtin{Name: "println", Args: []prog.Expr{prog.StrLit{V: out}, prog.Var{Name: v, Ty: prog.Int}, keepVar}}}}
		case "argument":
			blk.Tail = prog.IntLit{V: 3}
			cur = []prog.Stmt{prog.ExprStmt{X: prog.Builtin{Name: "println", Args: []prog.Expr{prog.StrLit{V: "arg-" + in}, blk}}}, tagKeep(out)}
		case "let-init":
			v := fmt.Sprintf("t%d", k)
			blk.Tail = prog.IntLit{V: 4}
			cur = []prog.Stmt{prog.Let{Name: v, V: blk}, prog.ExprStmt{X: prog.Builtin{Name: "println", Args: []prog.Expr{prog.StrLit{V: out}, prog.Var{Name: v, Ty: prog.Int}, keepVar}}}}
		default:
			if p.Guarded || isIn(alwaysGuarded, w) {
				guard := prog.If{Cond: prog.Infix{Op: ">", L: keepVar, R: prog.IntLit{V: 0}}, Then: &prog.Block{Stmts: cur}}
				blk.Stmts = []prog.Stmt{tagKeep(in), prog.ExprStmt{X: guard}, b.tag("tail-" + in)}
			}
			cur = b.exprWrapper(w, k, out, blk)
		}
	}
	main := &prog.Func{Name: "main", Ret: prog.Null, Body: &prog.Block{}}
	// return-value at main level is illegal (main returns null): handled by the caller (skipped)
	main.Body.Stmts = append(main.Body.Stmts, prog.Let{Name: "keep", V: prog.IntLit{V: 41}})
	for _, v := range b.iter {
		main.Body.Stmts = append(main.Body.Stmts, prog.Let{Name: v.Name, V: b.iterInit(v)})
	}
	main.Body.Stmts = append(main.Body.Stmts, tagKeep("start"))
	main.Body.Stmts = append(main.Body.Stmts, cur...)
	// scaffold after the construct: stale handlers, stale loop labels, corrupted locals, leftover stack
	e2 := prog.Var{Name: "e2", Ty: prog.ObjOf(prog.Field{Name: "message", T: prog.Str})}
	main.Body.Stmts = append(main.Body.Stmts, tagKeep("after"))
	// every variable the construct iterated is iterated again, in full
	for _, v := range b.iter {
		n := prog.Var{Name: "n" + v.Name, Ty: prog.Int}
		main.Body.Stmts = append(main.Body.Stmts,
			prog.Let{Name: n.Name, V: prog.IntLit{V: 0}},
			prog.For{Name: "x" + v.Name, Iter: v, Body: &prog.Block{Stmts: []prog.Stmt{prog.ExprStmt{X: prog.Assign{Op: "+=", Target: n, V: prog.IntLit{V: 1}}}}}},
			say(prog.StrLit{V: "again-" + v.Name}, n, keepVar))
	}
	main.Body.Stmts = append(main.Body.Stmts,
		prog.ExprStmt{X: prog.Try{
			Body:    &prog.Block{Stmts: []prog.Stmt{b.tag("second-try"), prog.ExprStmt{X: prog.Builtin{Name: "throw", Args: []prog.Expr{prog.StrLit{V: "second"}}}}}},
			Name:    "e2",
			Handler: &prog.Block{Stmts: []prog.Stmt{prog.ExprStmt{X: prog.Builtin{Name: "println", Args: []prog.Expr{prog.StrLit{V: "caught-second"}, prog.Member{X: e2, Name: "message"}, keepVar}}}}},
		}},
		prog.Let{Name: "j", V: prog.IntLit{V: 0}},
		prog.While{Cond: prog.Infix{Op: "<", L: prog.Var{Name: "j", Ty: prog.Int}, R: prog.IntLit{V: 2}}, Body: &prog.Block{Stmts: []prog.Stmt{
			prog.ExprStmt{X: prog.Assign{Op: "+=", Target: prog.Var{Name: "j", Ty: prog.Int}, V: prog.IntLit{V: 1}}},
			prog.ExprStmt{X: prog.If{Cond: prog.Infix{Op: "==", L: prog.Var{Name: "j", Ty: prog.Int}, R: prog.IntLit{V: 1}}, Then: &prog.Block{Stmts: []prog.Stmt{prog.Continue{}}}}},
			prog.ExprStmt{X: prog.Builtin{Name: "println", Args: []prog.Expr{prog.StrLit{V: "second-loop"}, prog.Var{Name: "j", Ty: prog.Int}, keepVar}}},
		}}},
		tagKeep("end"),
	)
	if p.Variant == "uncaught-after" {
		main.Body.Stmts = append(main.Body.Stmts, prog.ExprStmt{X: prog.Builtin{Name: "throw", Args: []prog.Expr{prog.StrLit{V: "final-uncaught"}}}})
	}
	mod := &prog.Module{Name: "main"}
	mod.Funcs = append(mod.Funcs, b.fns...)
	mod.Funcs = append(mod.Funcs, main)
	return &prog.Program{Modules: []*prog.Module{mod}, Entry: "main"}
}

func enumerate(d int, f func(stack []string)) { enumerateOver(wrappers, d, f) }

func enumerateOver(ws []string, d int, f func(stack []string)) {
	var rec func(stack []string)
	rec = func(stack []string) {
		if len(stack) > 0 {
			f(stack)
		}
		if len(stack) == d {
			return
		}
		for _, w := range ws {
			rec(append(append([]string{}, stack...), w))
		}
	}
	rec(nil)
}

// admissible: the exit can be written at the bottom of this stack.
func admissible(stack []string, ex string) bool {
	if !legal(stack, ex) {
		return false
	}
	if ex == "return-value" {
		// needs an enclosing function that can return a value: a call wrapper
		for _, w := range stack {
			if isCall(w) {
				return true
			}
		}
		return false
	}
	return true
}

func (c11) Cases(tier string, seed uint64) []fw.Case {
	var cases []fw.Case
	d := depth(tier)
	n := 0
	enumerate(d, func(stack []string) {
		for _, ex := range exits {
			if !admissible(stack, ex) {
				continue
			}
			variants := []string{""}
			if len(stack) <= 2 {
				variants = append(variants, "uncaught-after")
			}
			for _, v := range variants {
				p := Payload{Stack: stack, Exit: ex, Variant: v}
				cases = append(cases, fw.MkCase(fmt.Sprintf("c11-%d-%s-%s-%s", n, strings.Join(stack, "."), ex, v), "nest", p, Tags(stack, ex)...))
				n++
			}
		}
	})
	// extended family: everything over (allWrappers, allExits) which is not in the base family.
	// Depth 1..2 exhaustively, ...
	n = 0
	mk := func(stack []string, ex, v string, guarded bool) {
		p := Payload{Stack: stack, Exit: ex, Variant: v, Guarded: guarded}
		if guarded {
			v += "guarded"
		}
		cases = append(cases, fw.MkCase(fmt.Sprintf("c11x-%d-%s-%s-%s", n, strings.Join(stack, "."), ex, v), "nest", p, Tags(stack, ex)...))
		n++
	}
	enumerateOver(allWrappers, 2, func(stack []string) {
		for _, ex := range allExits {
			if inBase(stack, ex) || !admissible(stack, ex) {
				continue
			}
			mk(stack, ex, "", false)
			if len(stack) == 1 {
				mk(stack, ex, "uncaught-after", false)
			}
		}
	})
	// repeat family: the base wrappers at depth 1..2 beneath a "for-many" (every exit which is
	// survived inside the round happens manyRounds times).
	// (These cases are the longest running ones: they are spread evenly over the case list so that
	// they do not end up in the same few batches.)
	n = 0
	var heavy []fw.Case
	enumerateOver(wrappers, 2, func(stack []string) {
		if len(stack) != 2 {
			return // depth 1 beneath for-many is part of the extended family
		}
		st := append([]string{"for-many"}, stack...)
		for _, ex := range exits {
			if admissible(st, ex) {
				p := Payload{Stack: st, Exit: ex}
				heavy = append(heavy, fw.MkCase(fmt.Sprintf("c11r-%d-%s-%s", n, strings.Join(st, "."), ex), "nest", p, Tags(st, ex)...))
				n++
			}
		}
	})
	// shadow family: the base wrappers at depth 1..2 once more, every block with its own keep.
	n = 0
	enumerateOver(wrappers, 2, func(stack []string) {
		for _, ex := range exits {
			if !admissible(stack, ex) {
				continue
			}
			p := Payload{Stack: stack, Exit: ex, Shadow: true}
			cases = append(cases, fw.MkCase(fmt.Sprintf("c11s-%d-%s-%s", n, strings.Join(stack, "."), ex), "nest", p, Tags(stack, ex)...))
			n++
		}
	})
	// ... deeper stacks as a sample selected by the seed (distinct, in drawing order).
	d3, d4 := sampleSizes(tier)
	rng := fw.NewRng(seed ^ 0xC11C11)
	seen := map[string]bool{}
	for _, lvl := range []struct{ depth, want int }{{3, d3}, {4, d4}} {
		got := 0
		for tries := 0; got < lvl.want && tries < lvl.want*40; tries++ {
			stack := make([]string, lvl.depth)
			for i := range stack {
				stack[i] = fw.Pick(rng, allWrappers)
			}
			ex := fw.Pick(rng, allExits)
			guarded := rng.Bool()
			key := strings.Join(stack, ".") + "/" + ex
			if seen[key] || inBase(stack, ex) || !admissible(stack, ex) {
				continue
			}
			seen[key] = true
			if (len(key)+got)%3 == 0 {
				p := Payload{Stack: stack, Exit: ex, Guarded: guarded, Shadow: true}
				cases = append(cases, fw.MkCase(fmt.Sprintf("c11x-%d-%s-%s-shadow", n, strings.Join(stack, "."), ex), "nest", p, Tags(stack, ex)...))
				n++
			} else {
				mk(stack, ex, "", guarded)
			}
			got++
		}
	}
	if len(heavy) > 0 {
		every := len(cases)/len(heavy) + 1
		mixed := make([]fw.Case, 0, len(cases)+len(heavy))
		for i, c := range cases {
			if i%every == 0 && len(heavy) > 0 {
				mixed, heavy = append(mixed, heavy[0]), heavy[1:]
			}
			mixed = append(mixed, c)
		}
		cases = append(mixed, heavy...)
	}
	return cases
}

func (c11) Run(c fw.Case) fw.Result {
	var p Payload
	fw.Decode(c, &p)
	pr := Build(p)
	res := fw.Result{Verdict: fw.Held}
	res.Cover = []string{"exit:" + p.Exit, "depth:" + fmt.Sprint(len(p.Stack)), "shadow:" + fmt.Sprint(p.Shadow)}
	for _, w := range p.Stack {
		res.Cover = append(res.Cover, "wrap:"+w)
	}
	twin := pr
	if needsTwin(p) {
		twin = BuildModel(p)
	}
	why, sig, o := runVMAgainstModel(pr, twin)
	if o.Rejected != "" {
		res.Verdict, res.Sig, res.Why = fw.Violated, "rejected", "the analyzer rejects a legal nesting: "+o.Rejected+"\n"+o.Src["main"]
		return res
	}
	res.Nontrivial = strings.Contains(o.Model.Effects, "pre-exit")
	res.Obs = map[string]int64{"catch_events": o.VM.Catches, "vm_steps": o.VM.Steps}
	where := fmt.Sprintf("exit %q at the bottom of the nesting %v: ", p.Exit, p.Stack)
	if why != "" {
		if sig == "residue" {
			why = "the run ends normally with the expected trace, but the exits left state behind on the VM (operand stack, call stack, memory pointer and handler stack must all be back at their initial height; Stack counts abandoned operands, Handlers catch-blocks which are still registered): " + why
		}
		if sig == "effects" {
			why = firstDiff(o.Model.Effects, o.VM.Log.Render(), "VM") + why
		}
		res.Verdict, res.Sig, res.Why = fw.Violated, "vm:"+sig, where+why
		res.Detail = map[string]any{"source": o.Src["main"]}
	}
	// interpreter side
	ao := drive.Analyze(o.Src, "main", true)
	tr := drive.RunTree(ao.Modules, o.Src, "main", drive.TreeOpts{CallLimit: treeCallLimit, StepBudget: int64(o.Model.Steps)*50 + 100000})
	twhy, tsig := "", ""
	te := tr.Log.Render()
	switch {
	case tr.Outcome.Class == "step-budget":
		twhy, tsig = fmt.Sprintf("the interpreter does not come to an end (stopped after 50 times the steps of the model + 100000); the model ends %s with a trace of %d lines; ", o.Model.Class, strings.Count(o.Model.Effects, "\n"))+
			firstDiff(o.Model.Effects, util.Clip(te, 4000), "interpreter"), "tree:step-budget"
	case tr.Outcome.Class == "go-panic":
		twhy, tsig = "interpreter: "+tr.Outcome.String(), "tree:"+tr.Outcome.Class
	case te != o.Model.Effects:
		if tr.Outcome.Class != o.Model.Class {
			twhy = fmt.Sprintf("the interpreter run ends with %s, the model with %s (call limit of the run: %d frames, real call depth of the program: at most %d); ", tr.Outcome, o.Model.Class, treeCallLimit, len(p.Stack)+3)
		}
		twhy, tsig = twhy+firstDiff(o.Model.Effects, te, "interpreter")+fmt.Sprintf("interpreter trace differs:\n--- model\n%s\n--- tree\n%s", util.Clip(o.Model.Effects, 1200), util.Clip(te, 1200)), "tree:effects"
	case o.Model.Class != tr.Outcome.Class || (o.Model.Class == "fatal" && o.Model.Kind != tr.Outcome.Kind):
		twhy, tsig = fmt.Sprintf("interpreter outcome %s, model %s/%s", tr.Outcome, o.Model.Class, o.Model.Kind), "tree:outcome"
	case o.Model.Kind == "UncaughtThrow" && o.Model.Message != tr.Outcome.Message:
		twhy, tsig = fmt.Sprintf("interpreter uncaught message %q, model %q", tr.Outcome.Message, o.Model.Message), "tree:throw-message"
	}
	if twhy != "" {
		if res.Verdict == fw.Violated {
			res.More = append(res.More, fw.SubViolation{Why: where + twhy, Sig: tsig})
		} else {
			res.Verdict, res.Sig, res.Why = fw.Violated, tsig, where+twhy
			res.Detail = map[string]any{"source": o.Src["main"]}
		}
	}
	if len(p.Stack) == 3 && p.Stack[0] == "try" && p.Stack[1] == "for" {
		res.Sample = map[string]any{"stack": p.Stack, "exit": p.Exit, "source": o.Src["main"], "model_trace": o.Model.Effects}
	}
	return res
}

// runVMAgainstModel is c01.RunVMAgainstModel with the reference evaluator running the twin of the
// program (same judgement: trace, outcome, uncaught message, residue after normal completion).
func runVMAgainstModel(pr, twin *prog.Program) (why, sig string, o c01.Obs) {
	if twin == pr {
		return c01.RunVMAgainstModel(pr, nil)
	}
	o.Src = pr.Source()
	ao := drive.Analyze(o.Src, pr.Entry, true)
	if ao.Errors > 0 {
		o.Rejected = ao.ErrorSummary()
		return "", "", o
	}
	o.Model = prog.Run(twin, nil, 0)
	if o.Model.Discard {
		return "", "", o
	}
	o.VM = drive.RunVM(ao.Modules, o.Src, pr.Entry, drive.VMOpts{})
	o.TraceLines = strings.Count(o.Model.Effects, "\n")
	got := o.VM.Log.Render()
	if got != o.Model.Effects {
		return fmt.Sprintf("effects differ:\n--- model\n%s\n--- vm\n%s", util.Clip(o.Model.Effects, 1500), util.Clip(got, 1500)), "effects", o
	}
	mo := o.Model
	vo := o.VM.Outcome
	switch {
	case mo.Class == "ok" && vo.Class != "ok":
		return fmt.Sprintf("model completes normally, VM ends with %s", vo), "outcome:ok-vs-" + vo.Class + "/" + vo.Kind, o
	case mo.Class == "fatal" && (vo.Class != "fatal" || vo.Kind != mo.Kind):
		return fmt.Sprintf("model ends with fatal/%s (%s), VM with %s", mo.Kind, mo.Message, vo), "outcome:" + mo.Kind + "-vs-" + vo.Class + "/" + vo.Kind, o
	case mo.Class == "fatal" && mo.Kind == "UncaughtThrow" && vo.Message != mo.Message:
		return fmt.Sprintf("uncaught throw message: model %q, VM %q", mo.Message, vo.Message), "outcome:throw-message", o
	}
	if vo.Class == "ok" {
		for _, rs := range o.VM.Residues {
			if rs.Stack != 0 || rs.CallStack != 0 || rs.MP != 0 || rs.Handlers != 0 {
				return fmt.Sprintf("residue after normal completion: %+v", rs), "residue", o
			}
		}
	}
	return "", "", o
}

// firstDiff names the first trace line in which the engine departs from the model.
func firstDiff(model, got, who string) string {
	ml, gl := strings.Split(model, "\n"), strings.Split(got, "\n")
	for i := 0; ; i++ {
		switch {
		case i >= len(ml) && i >= len(gl):
			return ""
		case i >= len(gl):
			return fmt.Sprintf("after line %d the %s trace ends, the model continues with %q; ", i, who, ml[i])
		case i >= len(ml):
			return fmt.Sprintf("after line %d the model trace ends, the %s continues with %q; ", i, who, gl[i])
		case ml[i] != gl[i]:
			return fmt.Sprintf("trace line %d: model %q, %s %q; ", i+1, ml[i], who, gl[i])
		}
	}
}

func (c11) OnCrash(c fw.Case, cr fw.Crash) fw.Result {
	var p Payload
	fw.Decode(c, &p)
	if cr.Kind == "watchdog" || cr.Kind == "killed" {
		return fw.Result{Verdict: fw.Inconclusive, Why: cr.Kind + ": " + cr.Message}
	}
	expect := ""
	if m := prog.Run(BuildModel(p), nil, 0); !m.Discard {
		expect = fmt.Sprintf("exit %q at the bottom of the nesting %v: the run has to end as %s", p.Exit, p.Stack, m.Class)
		if m.Class == "fatal" {
			expect += fmt.Sprintf("/%s (%s), delivered to the host as the final interrupt", m.Kind, util.Clip(m.Message, 80))
		}
		expect += "; instead the "
	}
	return fw.Result{Verdict: fw.Violated, Nontrivial: true,
		Sig:    fmt.Sprintf("vm:crash:%s:%s:%s", cr.Kind, util.NormPanic(cr.Message), cr.TopFrame),
		Why:    fmt.Sprintf("%sworker died (%s: %s) at %s", expect, cr.Kind, util.Clip(cr.Message, 300), cr.TopFrame),
		Detail: map[string]any{"source": Build(p).Source()["main"]}}
}
