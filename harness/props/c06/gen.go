package c06

// Workload generators of C06. Expectations "by construction" are computed here from the pieces a
// text is assembled from, without the reference lexer (which is then cross-checked against them).

import (
	"fmt"
	"regexp"
	"sort"
	"strings"
	"unicode/utf8"

	"hv/fw"
	"hv/lexref"
	"hv/util"
)

// lexClass is one lexeme class of the pair matrix: a lexeme whose kind and value are known.
type lexClass struct {
	L string `json:"l"` // lexeme
	K string `json:"k"` // kind
	V string `json:"v"` // value
	F string `json:"f"` // family: op | kw | ident | num | str
}

// item is one text with an optional expectation by construction.
type item struct {
	Text   string `json:"t"`
	HasExp bool   `json:"h,omitempty"`
	Exp    []tok  `json:"x,omitempty"`
	ExpErr string `json:"xe,omitempty"`
	Note   string `json:"n,omitempty"`
}

// ---------------------------------------------------------------------------------------------
// the lexeme classes (own tables, deliberately not taken from lexref)
// ---------------------------------------------------------------------------------------------

var opTable = [][2]string{
	{"#", "HashTag"}, {"?", "QuestionMark"}, {"@", "AtSymbol"}, {"$", "DollarSymbol"}, {";", "Semicolon"}, {",", "Comma"}, {":", "Colon"},
	{".", "Dot"}, {"..", "DoubleDot"}, {"->", "Arrow"}, {"=>", "FatArrow"}, {"~>", "TildeArrow"},
	{"(", "LParen"}, {")", "RParen"}, {"{", "LCurly"}, {"}", "RCurly"}, {"[", "LBracket"}, {"]", "RBracket"},
	{"||", "Or"}, {"&&", "And"}, {"==", "Equal"}, {"!=", "NotEqual"}, {"<", "LessThan"}, {"<=", "LessThanEqual"}, {">", "GreaterThan"},
	{">=", "GreaterThanEqual"}, {"!", "Not"},
	{"+", "Plus"}, {"-", "Minus"}, {"*", "Multiply"}, {"/", "Divide"}, {"%", "Modulo"}, {"**", "Power"}, {"<<", "ShiftLeft"}, {">>", "ShiftRight"},
	{"|", "BitOr"}, {"&", "BitAnd"}, {"^", "BitXor"},
	{"=", "Assign"}, {"+=", "PlusAssign"}, {"-=", "MinusAssign"}, {"*=", "MultiplyAssign"}, {"/=", "DivideAssign"}, {"**=", "PowerAssign"},
	{"%=", "ModuloAssign"}, {"<<=", "ShiftLeftAssign"}, {">>=", "ShiftRightAssign"}, {"|=", "BitOrAssign"}, {"&=", "BitAndAssign"}, {"^=", "BitXorAssign"},
}

var kwTable = [][2]string{
	{"import", "Import"}, {"as", "As"}, {"from", "From"}, {"try", "Try"}, {"catch", "Catch"}, {"in", "In"}, {"let", "Let"}, {"pub", "Pub"},
	{"fn", "Fn"}, {"if", "If"}, {"else", "Else"}, {"match", "Match"}, {"for", "For"}, {"while", "While"}, {"loop", "Loop"}, {"break", "Break"},
	{"continue", "Continue"}, {"return", "Return"}, {"type", "Type"}, {"new", "New"}, {"spawn", "Spawn"}, {"event", "Event"}, {"impl", "Impl"},
	{"with", "With"}, {"templ", "Templ"}, {"trigger", "Trigger"},
	{"true", "True"}, {"on", "True"}, {"false", "False"}, {"off", "False"}, {"none", "None"}, {"null", "Null"},
	{"_", "Underscore"},
}

func classes() []lexClass {
	var out []lexClass
	for _, o := range opTable {
		out = append(out, lexClass{o[0], o[1], o[0], "op"})
	}
	for _, k := range kwTable {
		out = append(out, lexClass{k[0], k[1], k[0], "kw"})
	}
	for _, id := range []string{"a", "x1", "_a", "iff", "at", "Z9_", "f", "ons"} {
		out = append(out, lexClass{id, "Identifier", id, "ident"})
	}
	out = append(out,
		lexClass{"0", "Int", "0", "num"},
		lexClass{"1", "Int", "1", "num"},
		lexClass{"42", "Int", "42", "num"},
		lexClass{"1_0", "Int", "10", "num"},
		lexClass{"10_000", "Int", "10000", "num"},
		lexClass{"1f", "Float", "1", "num"},
		lexClass{"1.5", "Float", "1.5", "num"},
		lexClass{"1_0.5_0", "Float", "10.50", "num"},
		lexClass{"0.0", "Float", "0.0", "num"},
		lexClass{`"s"`, "String", "s", "str"},
		lexClass{`'c'`, "String", "c", "str"},
		lexClass{`""`, "String", "", "str"},
		lexClass{`"a b"`, "String", "a b", "str"},
		lexClass{`"\n"`, "String", "\n", "str"},
		lexClass{`"é"`, "String", "é", "str"},
		lexClass{"\"l1\nl2\"", "String", "l1\nl2", "str"},
	)
	return out
}

type sepSpec struct {
	Name string `json:"n"`
	Text string `json:"t"`
}

var separators = []sepSpec{
	{"none", ""}, {"space", " "}, {"tab", "\t"}, {"cr", "\r"}, {"lf", "\n"}, {"crlf", "\r\n"},
	{"linecomment", "// c é\n"}, {"blockcomment", "/* c\né */"},
}

// ---------------------------------------------------------------------------------------------
// construction of texts from segments
// ---------------------------------------------------------------------------------------------

type seg struct {
	text  string
	isTok bool
	kind  string
	value string
}

func gap(s string) seg           { return seg{text: s} }
func lexeme(k, l string) seg     { return seg{text: l, isTok: true, kind: k, value: l} }
func lexemeV(k, l, v string) seg { return seg{text: l, isTok: true, kind: k, value: v} }
func classSeg(c lexClass) seg    { return seg{text: c.L, isTok: true, kind: c.K, value: c.V} }
func locOf(rs []rune, i int) loc { l, c := posAt(rs, i); return loc{l, c, i} }
func mustValid(s string) string {
	if !utf8.ValidString(s) {
		panic("c06 generator produced invalid UTF-8: " + fmt.Sprintf("%q", s))
	}
	return s
}

// build concatenates the segments; the expectation is known by construction: the token segments
// in order, each spanning exactly its own runes. errClass != "" says the stream ends with an error
// after those tokens.
func build(note, errClass string, segs ...seg) item {
	var sb strings.Builder
	for _, s := range segs {
		sb.WriteString(s.text)
	}
	text := mustValid(sb.String())
	rs := []rune(text)
	it := item{Text: text, HasExp: true, ExpErr: errClass, Note: note}
	idx := 0
	for _, s := range segs {
		n := utf8.RuneCountInString(s.text)
		if s.isTok {
			it.Exp = append(it.Exp, tok{K: s.kind, V: s.value, S: locOf(rs, idx), E: locOf(rs, idx+n-1)})
		}
		idx += n
	}
	return it
}

// refOnly: a text whose expectation comes from the reference lexer alone.
func refOnly(note, text string) item { return item{Text: mustValid(text), Note: note} }

// ---------------------------------------------------------------------------------------------
// (1) pair matrix
// ---------------------------------------------------------------------------------------------

type pairSpec struct {
	Left     lexClass   `json:"l"`
	Sep      sepSpec    `json:"s"`
	Rights   []lexClass `json:"r"`
	Prefixes []string   `json:"pre"`
	Suffixes []string   `json:"suf"`
}

// suffix variants: what follows the right lexeme
var (
	prefixesQuick    = []string{""}
	prefixesThorough = []string{"", " \n  ", "/*é*/"}
	suffixesQuick    = []string{"", "\nz", ";", " ;", "z", "\r\n\"q\"", "//"}
)

func pairItems(p pairSpec) []item {
	var out []item
	for _, pre := range p.Prefixes {
		for _, suf := range p.Suffixes {
			for _, r := range p.Rights {
				text := pre + p.Left.L + p.Sep.Text + r.L + suf
				// by construction when the separator really separates: it is non-empty and cannot
				// merge with the left lexeme into a comment opener ('/' followed by a comment).
				constructible := p.Sep.Text != "" && !(strings.HasSuffix(p.Left.L, "/") && strings.HasPrefix(p.Sep.Text, "/"))
				// the suffix must also be separated by construction
				var sufSegs []seg
				switch suf {
				case "":
				case "\nz":
					sufSegs = []seg{gap("\n"), lexeme("Identifier", "z")}
				case " ;":
					sufSegs = []seg{gap(" "), lexeme("Semicolon", ";")}
				case "\r\n\"q\"":
					sufSegs = []seg{gap("\r\n"), lexemeV("String", `"q"`, "q")}
				default:
					constructible = false
				}
				if constructible {
					segs := []seg{gap(pre), classSeg(p.Left), gap(p.Sep.Text), classSeg(r)}
					segs = append(segs, sufSegs...)
					out = append(out, build("pair", "", segs...))
				} else {
					out = append(out, refOnly("pair", text))
				}
			}
		}
	}
	return out
}

// ---------------------------------------------------------------------------------------------
// (2) families
// ---------------------------------------------------------------------------------------------

// hand-written maximal-munch cases: text and the expected (kind, lexeme) sequence
type munch struct {
	text string
	toks []string // alternating kind, lexeme
}

var munchCases = []munch{
	{"*", []string{"Multiply", "*"}},
	{"**", []string{"Power", "**"}},
	{"**=", []string{"PowerAssign", "**="}},
	{"***", []string{"Power", "**", "Multiply", "*"}},
	{"****", []string{"Power", "**", "Power", "**"}},
	{"***=", []string{"Power", "**", "MultiplyAssign", "*="}},
	{"**==", []string{"PowerAssign", "**=", "Assign", "="}},
	{"*=*", []string{"MultiplyAssign", "*=", "Multiply", "*"}},
	{"*==", []string{"MultiplyAssign", "*=", "Assign", "="}},
	{"<", []string{"LessThan", "<"}},
	{"<=", []string{"LessThanEqual", "<="}},
	{"<<", []string{"ShiftLeft", "<<"}},
	{"<<=", []string{"ShiftLeftAssign", "<<="}},
	{"<<<", []string{"ShiftLeft", "<<", "LessThan", "<"}},
	{"<<<=", []string{"ShiftLeft", "<<", "LessThanEqual", "<="}},
	{"<<<<=", []string{"ShiftLeft", "<<", "ShiftLeftAssign", "<<="}},
	{"<<==", []string{"ShiftLeftAssign", "<<=", "Assign", "="}},
	{"<==", []string{"LessThanEqual", "<=", "Assign", "="}},
	{"<=<", []string{"LessThanEqual", "<=", "LessThan", "<"}},
	{"<>", []string{"LessThan", "<", "GreaterThan", ">"}},
	{"<-", []string{"LessThan", "<", "Minus", "-"}},
	{">", []string{"GreaterThan", ">"}},
	{">=", []string{"GreaterThanEqual", ">="}},
	{">>", []string{"ShiftRight", ">>"}},
	{">>=", []string{"ShiftRightAssign", ">>="}},
	{">>>", []string{"ShiftRight", ">>", "GreaterThan", ">"}},
	{">>>=", []string{"ShiftRight", ">>", "GreaterThanEqual", ">="}},
	{">>>>=", []string{"ShiftRight", ">>", "ShiftRightAssign", ">>="}},
	{">>==", []string{"ShiftRightAssign", ">>=", "Assign", "="}},
	{">==", []string{"GreaterThanEqual", ">=", "Assign", "="}},
	{"=", []string{"Assign", "="}},
	{"==", []string{"Equal", "=="}},
	{"===", []string{"Equal", "==", "Assign", "="}},
	{"====", []string{"Equal", "==", "Equal", "=="}},
	{"=>", []string{"FatArrow", "=>"}},
	{"=>=", []string{"FatArrow", "=>", "Assign", "="}},
	{"=>>", []string{"FatArrow", "=>", "GreaterThan", ">"}},
	{"==>", []string{"Equal", "==", "GreaterThan", ">"}},
	{"=<", []string{"Assign", "=", "LessThan", "<"}},
	{"!", []string{"Not", "!"}},
	{"!=", []string{"NotEqual", "!="}},
	{"!==", []string{"NotEqual", "!=", "Assign", "="}},
	{"!!", []string{"Not", "!", "Not", "!"}},
	{"!!=", []string{"Not", "!", "NotEqual", "!="}},
	{"-", []string{"Minus", "-"}},
	{"-=", []string{"MinusAssign", "-="}},
	{"->", []string{"Arrow", "->"}},
	{"-->", []string{"Minus", "-", "Arrow", "->"}},
	{"->>", []string{"Arrow", "->", "GreaterThan", ">"}},
	{"->=", []string{"Arrow", "->", "Assign", "="}},
	{"->>=", []string{"Arrow", "->", "GreaterThanEqual", ">="}},
	{"-=>", []string{"MinusAssign", "-=", "GreaterThan", ">"}},
	{"--", []string{"Minus", "-", "Minus", "-"}},
	{"--=", []string{"Minus", "-", "MinusAssign", "-="}},
	{"+", []string{"Plus", "+"}},
	{"+=", []string{"PlusAssign", "+="}},
	{"++", []string{"Plus", "+", "Plus", "+"}},
	{"++=", []string{"Plus", "+", "PlusAssign", "+="}},
	{"+==", []string{"PlusAssign", "+=", "Assign", "="}},
	{"+-", []string{"Plus", "+", "Minus", "-"}},
	{"/", []string{"Divide", "/"}},
	{"/=", []string{"DivideAssign", "/="}},
	{"/==", []string{"DivideAssign", "/=", "Assign", "="}},
	{"/ /", []string{"Divide", "/", "Divide", "/"}},
	{"/=/", []string{"DivideAssign", "/=", "Divide", "/"}},
	{"%", []string{"Modulo", "%"}},
	{"%=", []string{"ModuloAssign", "%="}},
	{"%%", []string{"Modulo", "%", "Modulo", "%"}},
	{"%%=", []string{"Modulo", "%", "ModuloAssign", "%="}},
	{"%==", []string{"ModuloAssign", "%=", "Assign", "="}},
	{".", []string{"Dot", "."}},
	{"..", []string{"DoubleDot", ".."}},
	{"...", []string{"DoubleDot", "..", "Dot", "."}},
	{"....", []string{"DoubleDot", "..", "DoubleDot", ".."}},
	{"..=", []string{"DoubleDot", "..", "Assign", "="}},
	{".=", []string{"Dot", ".", "Assign", "="}},
	{"|", []string{"BitOr", "|"}},
	{"||", []string{"Or", "||"}},
	{"|=", []string{"BitOrAssign", "|="}},
	{"|||", []string{"Or", "||", "BitOr", "|"}},
	{"||||", []string{"Or", "||", "Or", "||"}},
	{"||=", []string{"Or", "||", "Assign", "="}},
	{"|||=", []string{"Or", "||", "BitOrAssign", "|="}},
	{"|=|", []string{"BitOrAssign", "|=", "BitOr", "|"}},
	{"|==", []string{"BitOrAssign", "|=", "Assign", "="}},
	{"|&", []string{"BitOr", "|", "BitAnd", "&"}},
	{"&", []string{"BitAnd", "&"}},
	{"&&", []string{"And", "&&"}},
	{"&=", []string{"BitAndAssign", "&="}},
	{"&&&", []string{"And", "&&", "BitAnd", "&"}},
	{"&&&&", []string{"And", "&&", "And", "&&"}},
	{"&&=", []string{"And", "&&", "Assign", "="}},
	{"&&&=", []string{"And", "&&", "BitAndAssign", "&="}},
	{"&==", []string{"BitAndAssign", "&=", "Assign", "="}},
	{"&|", []string{"BitAnd", "&", "BitOr", "|"}},
	{"^", []string{"BitXor", "^"}},
	{"^=", []string{"BitXorAssign", "^="}},
	{"^^", []string{"BitXor", "^", "BitXor", "^"}},
	{"^^=", []string{"BitXor", "^", "BitXorAssign", "^="}},
	{"^==", []string{"BitXorAssign", "^=", "Assign", "="}},
	{"~>", []string{"TildeArrow", "~>"}},
	{"~>>", []string{"TildeArrow", "~>", "GreaterThan", ">"}},
	{"~>=", []string{"TildeArrow", "~>", "Assign", "="}},
	{"~>~>", []string{"TildeArrow", "~>", "TildeArrow", "~>"}},
	{"a||b", []string{"Identifier", "a", "Or", "||", "Identifier", "b"}},
	{"a|b", []string{"Identifier", "a", "BitOr", "|", "Identifier", "b"}},
	{"a|=b", []string{"Identifier", "a", "BitOrAssign", "|=", "Identifier", "b"}},
	{"a&&b", []string{"Identifier", "a", "And", "&&", "Identifier", "b"}},
	{"a&b", []string{"Identifier", "a", "BitAnd", "&", "Identifier", "b"}},
	{"a&=b", []string{"Identifier", "a", "BitAndAssign", "&=", "Identifier", "b"}},
	{"a^b", []string{"Identifier", "a", "BitXor", "^", "Identifier", "b"}},
	{"a^=b", []string{"Identifier", "a", "BitXorAssign", "^=", "Identifier", "b"}},
	{"a~>b", []string{"Identifier", "a", "TildeArrow", "~>", "Identifier", "b"}},
	{"a->b", []string{"Identifier", "a", "Arrow", "->", "Identifier", "b"}},
	{"a**b", []string{"Identifier", "a", "Power", "**", "Identifier", "b"}},
	{"a<<=b", []string{"Identifier", "a", "ShiftLeftAssign", "<<=", "Identifier", "b"}},
	{"a..b", []string{"Identifier", "a", "DoubleDot", "..", "Identifier", "b"}},
	{"a.b", []string{"Identifier", "a", "Dot", ".", "Identifier", "b"}},
	{"$a", []string{"DollarSymbol", "$", "Identifier", "a"}},
	{"@a", []string{"AtSymbol", "@", "Identifier", "a"}},
	{"#[a]", []string{"HashTag", "#", "LBracket", "[", "Identifier", "a", "RBracket", "]"}},
	{"?a", []string{"QuestionMark", "?", "Identifier", "a"}},
	{"(){}[],;:", []string{"LParen", "(", "RParen", ")", "LCurly", "{", "RCurly", "}", "LBracket", "[", "RBracket", "]", "Comma", ",", "Semicolon", ";", "Colon", ":"}},
	{"::", []string{"Colon", ":", "Colon", ":"}},
}

// number shapes: text and expected (kind, lexeme, value) triples
type shape struct {
	text string
	toks []string // kind, lexeme, value
}

var numberShapes = []shape{
	{"0", []string{"Int", "0", "0"}},
	{"1", []string{"Int", "1", "1"}},
	{"007", []string{"Int", "007", "007"}},
	{"1234567890", []string{"Int", "1234567890", "1234567890"}},
	{"9223372036854775808", []string{"Int", "9223372036854775808", "9223372036854775808"}},
	{"1_0", []string{"Int", "1_0", "10"}},
	{"10_000", []string{"Int", "10_000", "10000"}},
	{"1_000_000", []string{"Int", "1_000_000", "1000000"}},
	{"1__2", []string{"Int", "1__2", "12"}},
	{"1_", []string{"Int", "1_", "1"}},
	{"12_", []string{"Int", "12_", "12"}},
	{"1_2_3_", []string{"Int", "1_2_3_", "123"}},
	{"1f", []string{"Float", "1f", "1"}},
	{"0f", []string{"Float", "0f", "0"}},
	{"42f", []string{"Float", "42f", "42"}},
	{"1_f", []string{"Float", "1_f", "1"}},
	{"10_0f", []string{"Float", "10_0f", "100"}},
	{"1.5", []string{"Float", "1.5", "1.5"}},
	{"0.0", []string{"Float", "0.0", "0.0"}},
	{"00.00", []string{"Float", "00.00", "00.00"}},
	{"3.14159", []string{"Float", "3.14159", "3.14159"}},
	{"1_0.5_0", []string{"Float", "1_0.5_0", "10.50"}},
	{"1.5_", []string{"Float", "1.5_", "1.5"}},
	{"1_.5", []string{"Float", "1_.5", "1.5"}},
	{"1.0_0_1", []string{"Float", "1.0_0_1", "1.001"}},
	{"1_000_000.000_001", []string{"Float", "1_000_000.000_001", "1000000.000001"}},
	{"1.", []string{"Int", "1", "1", "Dot", ".", "."}},
	{"1.x", []string{"Int", "1", "1", "Dot", ".", ".", "Identifier", "x", "x"}},
	{"1.to_string", []string{"Int", "1", "1", "Dot", ".", ".", "Identifier", "to_string", "to_string"}},
	{"1._5", []string{"Int", "1", "1", "Dot", ".", ".", "Identifier", "_5", "_5"}},
	{"1.f", []string{"Int", "1", "1", "Dot", ".", ".", "Identifier", "f", "f"}},
	{"1..2", []string{"Int", "1", "1", "DoubleDot", "..", "..", "Int", "2", "2"}},
	{"1...2", []string{"Int", "1", "1", "DoubleDot", "..", "..", "Dot", ".", ".", "Int", "2", "2"}},
	{"1_0..2_0", []string{"Int", "1_0", "10", "DoubleDot", "..", "..", "Int", "2_0", "20"}},
	{"1.5..2.5", []string{"Float", "1.5", "1.5", "DoubleDot", "..", "..", "Float", "2.5", "2.5"}},
	{"1.5.3", []string{"Float", "1.5", "1.5", "Dot", ".", ".", "Int", "3", "3"}},
	{"1.5.3.4", []string{"Float", "1.5", "1.5", "Dot", ".", ".", "Float", "3.4", "3.4"}},
	{"1.5f", []string{"Float", "1.5", "1.5", "Identifier", "f", "f"}},
	{"1f.5", []string{"Float", "1f", "1", "Dot", ".", ".", "Int", "5", "5"}},
	{"1ff", []string{"Float", "1f", "1", "Identifier", "f", "f"}},
	{"1f5", []string{"Float", "1f", "1", "Int", "5", "5"}},
	{"1foo", []string{"Float", "1f", "1", "Identifier", "oo", "oo"}},
	{"1f_", []string{"Float", "1f", "1", "Underscore", "_", "_"}},
	{"1e5", []string{"Int", "1", "1", "Identifier", "e5", "e5"}},
	{"0x1F", []string{"Int", "0", "0", "Identifier", "x1F", "x1F"}},
	{"1a", []string{"Int", "1", "1", "Identifier", "a", "a"}},
	{"1_a", []string{"Int", "1_", "1", "Identifier", "a", "a"}},
	{"-1", []string{"Minus", "-", "-", "Int", "1", "1"}},
	{"- 1.5", []string{"Minus", "-", "-", "Float", "1.5", "1.5"}},
	{".5", []string{"Dot", ".", ".", "Int", "5", "5"}},
	{"1 .5", []string{"Int", "1", "1", "Dot", ".", ".", "Int", "5", "5"}},
	{"1. 5", []string{"Int", "1", "1", "Dot", ".", ".", "Int", "5", "5"}},
	{"1 f", []string{"Int", "1", "1", "Identifier", "f", "f"}},
	{"1 _0", []string{"Int", "1", "1", "Identifier", "_0", "_0"}},
	{"1;", []string{"Int", "1", "1", "Semicolon", ";", ";"}},
	{"1_;", []string{"Int", "1_", "1", "Semicolon", ";", ";"}},
	{"1f;", []string{"Float", "1f", "1", "Semicolon", ";", ";"}},
	{"10_000;", []string{"Int", "10_000", "10000", "Semicolon", ";", ";"}},
	{"1.5_0;", []string{"Float", "1.5_0", "1.50", "Semicolon", ";", ";"}},
	{"x1.5", []string{"Identifier", "x1", "x1", "Dot", ".", ".", "Int", "5", "5"}},
	{"x.1.5", []string{"Identifier", "x", "x", "Dot", ".", ".", "Float", "1.5", "1.5"}},
	{"[1,2.0,3f]", []string{"LBracket", "[", "[", "Int", "1", "1", "Comma", ",", ",", "Float", "2.0", "2.0", "Comma", ",", ",", "Float", "3f", "3", "RBracket", "]", "]"}},
}

// locate builds an item from a text and the expected lexemes in order: each lexeme is found at the
// first occurrence at or after the end of the previous one; everything between is a gap.
func locate(note, errClass, text string, triples []string) item {
	var segs []seg
	cur := 0
	for i := 0; i+2 < len(triples); i += 3 {
		k, l, v := triples[i], triples[i+1], triples[i+2]
		j := strings.Index(text[cur:], l)
		if j < 0 {
			panic(fmt.Sprintf("c06: lexeme %q not found in %q", l, text))
		}
		if j > 0 {
			segs = append(segs, gap(text[cur:cur+j]))
		}
		segs = append(segs, lexemeV(k, l, v))
		cur += j + len(l)
	}
	if cur < len(text) {
		segs = append(segs, gap(text[cur:]))
	}
	return build(note, errClass, segs...)
}

func pairsToTriples(p []string) []string {
	var out []string
	for i := 0; i+1 < len(p); i += 2 {
		out = append(out, p[i], p[i+1], p[i+1])
	}
	return out
}

// escape forms: spelling and the text they denote ("" + err = invalid)
type escForm struct {
	spell  string
	value  string
	bad    string // error class when invalid
	unspec bool   // grammar does not determine the result: reference only
}

func escapeForms() []escForm {
	f := []escForm{
		{spell: `\\`, value: "\\"}, {spell: `\b`, value: "\b"}, {spell: `\n`, value: "\n"}, {spell: `\r`, value: "\r"}, {spell: `\t`, value: "\t"},
		// octal: exactly three digits
		{spell: `\000`, value: "\x00"}, {spell: `\001`, value: "\x01"}, {spell: `\007`, value: "\a"}, {spell: `\012`, value: "\n"}, {spell: `\101`, value: "A"},
		{spell: `\177`, value: "\x7f"}, {spell: `\200`, unspec: true}, {spell: `\377`, unspec: true}, {spell: `\400`, value: "Ā"}, {spell: `\777`, value: "ǿ"},
		// hex: exactly two digits
		{spell: `\x00`, value: "\x00"}, {spell: `\x01`, value: "\x01"}, {spell: `\x41`, value: "A"}, {spell: `\x7f`, value: "\x7f"}, {spell: `\x7F`, value: "\x7f"},
		{spell: `\x0a`, value: "\n"}, {spell: `\x0A`, value: "\n"}, {spell: `\x5c`, value: "\\"}, {spell: `\x22`, value: "\""}, {spell: `\x27`, value: "'"},
		{spell: `\x80`, unspec: true}, {spell: `\xff`, unspec: true}, {spell: `\xFF`, unspec: true}, {spell: `\xe9`, unspec: true},
		// \u: exactly four digits
		// \U: exactly eight digits
		{spell: `\U00000000`, value: "\x00"}, {spell: `\U00000041`, value: "A"}, {spell: `\U0000ffff`, value: "￿"}, {spell: `\U00010000`, value: "\U00010000"},
		{spell: `\U0001F600`, value: "😀"}, {spell: `\U0001f600`, value: "😀"}, {spell: `\U0010ffff`, value: "\U0010ffff"}, {spell: `\U0010FFFF`, value: "\U0010ffff"},
		{spell: `\U0000d800`, unspec: true}, {spell: `\U00110000`, unspec: true}, {spell: `\U7fffffff`, unspec: true}, {spell: `\U80000000`, unspec: true}, {spell: `\Uffffffff`, unspec: true},
		// quote escapes: not listed by the grammar
		{spell: `\'`, unspec: true}, {spell: `\"`, unspec: true},
		// invalid forms
		{spell: `\q`, bad: "invalid-escape"}, {spell: `\a`, bad: "invalid-escape"}, {spell: `\e`, bad: "invalid-escape"}, {spell: `\f`, bad: "invalid-escape"},
		{spell: `\v`, bad: "invalid-escape"}, {spell: `\?`, bad: "invalid-escape"}, {spell: `\N`, bad: "invalid-escape"}, {spell: `\B`, bad: "invalid-escape"},
		{spell: `\T`, bad: "invalid-escape"}, {spell: `\X41`, bad: "invalid-escape"}, {spell: `\ `, bad: "invalid-escape"}, {spell: "\\\n", bad: "invalid-escape"},
		{spell: `\é`, bad: "invalid-escape"}, {spell: `\8`, bad: "invalid-escape"}, {spell: `\9`, bad: "invalid-escape"},
		{spell: `\0`, bad: "invalid-escape"}, {spell: `\1`, bad: "invalid-escape"}, {spell: `\12`, bad: "invalid-escape"}, {spell: `\18`, bad: "invalid-escape"},
		{spell: `\128`, bad: "invalid-escape"}, {spell: `\08`, bad: "invalid-escape"},
		{spell: `\x`, bad: "invalid-escape"}, {spell: `\x4`, bad: "invalid-escape"}, {spell: `\xg0`, bad: "invalid-escape"}, {spell: `\x0g`, bad: "invalid-escape"},
		{spell: `\x-1`, bad: "invalid-escape"}, {spell: `\x é`, bad: "invalid-escape"},
		{spell: `\u`, bad: "invalid-escape"}, {spell: `\u1`, bad: "invalid-escape"}, {spell: `\u12`, bad: "invalid-escape"}, {spell: `\u123`, bad: "invalid-escape"},
		{spell: `\u123g`, bad: "invalid-escape"}, {spell: `\u{41}`, bad: "invalid-escape"},
		{spell: `\U`, bad: "invalid-escape"}, {spell: `\U0010fff`, bad: "invalid-escape"}, {spell: `\U0001F60`, bad: "invalid-escape"}, {spell: `\U0001F60g`, bad: "invalid-escape"},
	}
	// \u: exactly four hex digits (both digit cases); boundary code points of the UTF-8 lengths
	for _, cp := range []rune{0x0000, 0x0041, 0x007f, 0x0080, 0x00e9, 0x07ff, 0x0800, 0x20ac, 0xabcd, 0xd7ff, 0xe000, 0xfffd, 0xffff} {
		f = append(f, escForm{spell: fmt.Sprintf(`\u%04x`, cp), value: string(cp)})
		f = append(f, escForm{spell: fmt.Sprintf(`\u%04X`, cp), value: string(cp)})
	}
	for _, cp := range []rune{0xd800, 0xdbff, 0xdc00, 0xdfff} {
		f = append(f, escForm{spell: fmt.Sprintf(`\u%04x`, cp), unspec: true})
	}
	return f
}

func escapeItems() []item {
	var out []item
	ctx := [][2]string{{"", ""}, {"a", "b"}, {"é", "😀"}, {" ", "0"}, {"7", "7"}}
	for _, e := range escapeForms() {
		for _, q := range []string{`"`, `'`} {
			for ci, c := range ctx {
				lex := q + c[0] + e.spell + c[1] + q
				switch {
				case e.unspec:
					out = append(out, refOnly("escape-unspecified", "x "+lex+" y"))
				case e.bad != "":
					// for an invalid form the digits that follow may complete it: only contexts that cannot
					if ci == 4 || (ci == 3 && c[1] == "0") {
						out = append(out, refOnly("escape-invalid-ctx", "x "+lex+" y"))
						continue
					}
					if strings.HasPrefix(e.spell, `\x`) || strings.HasPrefix(e.spell, `\u`) || strings.HasPrefix(e.spell, `\U`) || len(e.spell) >= 2 && e.spell[1] >= '0' && e.spell[1] <= '7' {
						if c[1] == "b" { // 'b' is a hex digit
							out = append(out, refOnly("escape-invalid-ctx", "x "+lex+" y"))
							continue
						}
					}
					out = append(out, build("escape-invalid", e.bad, lexeme("Identifier", "x"), gap(" "+lex+" y")))
				default:
					out = append(out, build("escape", "", lexeme("Identifier", "x"), gap(" "), lexemeV("String", lex, c[0]+e.value+c[1]), gap(" "), lexeme("Identifier", "y")))
				}
			}
		}
	}
	// all simple escapes in one string, adjacent escapes, escapes next to the quotes
	out = append(out,
		build("escape", "", lexemeV("String", `"\\\b\n\r\t"`, "\\\b\n\r\t")),
		build("escape", "", lexemeV("String", `'\\\\'`, `\\`)),
		build("escape", "", lexemeV("String", `"\\"`, `\`), gap(" "), lexemeV("String", `"\\"`, `\`)),
		build("escape", "", lexemeV("String", `"\101\x42\u0043\U00000044"`, "ABCD")),
		build("escape", "", lexemeV("String", `"\1011"`, "A1")),
		build("escape", "", lexemeV("String", `"\x411"`, "A1")),
		build("escape", "", lexemeV("String", `"\u00411"`, "A1")),
		build("escape", "", lexemeV("String", `"\U000000411"`, "A1")),
		build("escape", "", lexemeV("String", `"\\n"`, `\n`)),
		build("escape", "", lexemeV("String", `"\\x41"`, `\x41`)),
		build("escape", "", lexemeV("String", `"it's"`, "it's")),
		build("escape", "", lexemeV("String", `'say "hi"'`, `say "hi"`)),
		build("escape", "", lexemeV("String", `"//no comment"`, "//no comment"), gap(" "), lexemeV("String", `"/*nor*/"`, "/*nor*/")),
		build("escape", "", lexemeV("String", "\"tab\there\"", "tab\there")),
		build("escape", "", lexemeV("String", "\"cr\rlf\ncrlf\r\nend\"", "cr\rlf\ncrlf\r\nend"), gap("\n"), lexeme("Identifier", "after")),
	)
	return out
}

func keywordItems() []item {
	var out []item
	for _, k := range kwTable {
		w, kind := k[0], k[1]
		out = append(out, build("keyword", "", lexeme(kind, w)))
		out = append(out, build("keyword", "", lexeme(kind, w), gap(" "), lexeme(kind, w)))
		out = append(out, build("keyword", "", lexeme("LParen", "("), lexeme(kind, w), lexeme("RParen", ")")))
		out = append(out, build("keyword", "", lexeme(kind, w), lexeme("Semicolon", ";")))
		out = append(out, build("keyword", "", lexeme(kind, w), lexeme("Dot", "."), lexeme(kind, w)))
		for _, suf := range []string{"s", "_", "1", "0", "f", "X", w} {
			id := w + suf
			out = append(out, build("keyword-suffix", "", lexeme("Identifier", id)))
			out = append(out, build("keyword-suffix", "", lexeme("Identifier", id), gap(" "), lexeme(kind, w)))
		}
		for _, pre := range []string{"_", "x", "A"} {
			id := pre + w
			out = append(out, build("keyword-prefix", "", lexeme("Identifier", id)))
		}
		if w != "_" {
			up := strings.ToUpper(w[:1]) + w[1:]
			out = append(out, build("keyword-case", "", lexeme("Identifier", up), gap(" "), lexeme("Identifier", strings.ToUpper(w))))
			// digit prefix: a number followed by the keyword/identifier
			if w[0] != 'f' {
				out = append(out, build("keyword-digit", "", lexeme("Int", "1"), lexeme(kind, w)))
			}
			// proper prefixes of keywords are identifiers unless keywords themselves
			for n := 1; n < len(w); n++ {
				p := w[:n]
				pk := "Identifier"
				for _, k2 := range kwTable {
					if k2[0] == p {
						pk = k2[1]
					}
				}
				out = append(out, build("keyword-prefix", "", lexeme(pk, p)))
			}
		}
	}
	// words the grammar uses as terminals for which the token enumeration has no kind of its own
	out = append(out, build("keyword", "", lexeme("Identifier", "at"), gap(" "), lexeme("True", "on")))
	out = append(out, build("keyword", "", lexeme("Trigger", "trigger"), gap(" "), lexeme("Identifier", "f"), gap(" "), lexeme("True", "on"), gap(" "), lexeme("Identifier", "m"), lexeme("LParen", "("), lexeme("RParen", ")"), lexeme("Semicolon", ";")))
	for _, id := range []string{"a", "Z", "_", "__", "_1", "a1", "a_b", "aB9_", "abcdefghijklmnopqrstuvwxyzABCDEFGHIJKLMNOPQRSTUVWXYZ_0123456789", "throw", "str", "int", "self", "mut", "struct", "do"} {
		k := "Identifier"
		if id == "_" {
			k = "Underscore"
		}
		out = append(out, build("ident", "", lexeme(k, id)))
		out = append(out, build("ident", "", lexeme(k, id), gap("\n"), lexeme(k, id), lexeme("Comma", ","), lexeme(k, id)))
	}
	return out
}

func unicodeItems() []item {
	S := func(l, v string) seg { return lexemeV("String", l, v) }
	id := func(s string) seg { return lexeme("Identifier", s) }
	out := []item{
		build("unicode-string", "", S(`"é"`, "é"), gap(" "), id("x")),
		build("unicode-string", "", S(`"日本語"`, "日本語"), lexeme("Plus", "+"), S(`'😀'`, "😀"), lexeme("Semicolon", ";")),
		build("unicode-string", "", S(`"😀😀"`, "😀😀"), gap(" "), id("y"), gap("\n"), id("z")),
		build("unicode-string", "", S("\"e\u0301\"", "e\u0301"), id("x")),
		build("unicode-string", "", S("\"a\u00a0b\u2028c\ufeff\"", "a\u00a0b\u2028c\ufeff"), id("x")),
		build("unicode-string", "", S("\"ß\nж\n€\"", "ß\nж\n€"), gap(" "), id("x"), gap("\n"), id("y")),
		build("unicode-string", "", id("letx"), gap(" "), S(`"é"`, "é"), gap(" "), S(`"é"`, "é")),
		build("unicode-string", "", S("\"\U0010ffff\u0080߿ࠀ￿\"", "\U0010ffff\u0080߿ࠀ￿"), lexeme("Dot", "."), id("len")),
		build("unicode-comment", "", gap("/* é😀 */ "), id("x")),
		build("unicode-comment", "", gap("/* é😀 */"), id("x"), gap("/*ж*/"), id("y")),
		build("unicode-comment", "", gap("// комментарий 😀\n"), id("x"), gap(" // ещё\n  "), id("y")),
		build("unicode-comment", "", id("a"), gap(" /* 日本\n語 */ "), id("b"), gap("\n/*\n\n*/\t"), id("c")),
		build("unicode-comment", "", gap("/*😀*/"), lexemeV("Int", "1", "1"), gap("/*😀*/"), lexeme("Plus", "+"), gap("/*😀*/"), S(`"😀"`, "😀"), gap("//😀")),
		build("unicode-illegal", "illegal-character", id("x"), gap(" é")),
		build("unicode-illegal", "illegal-character", gap("é")),
		build("unicode-illegal", "illegal-character", id("x"), gap("é")),
		build("unicode-illegal", "illegal-character", id("caf"), gap("é")),
		build("unicode-illegal", "illegal-character", lexemeV("Int", "1", "1"), gap("１")),
		build("unicode-illegal", "illegal-character", gap("😀")),
		build("unicode-illegal", "illegal-character", S(`"ok"`, "ok"), gap(" “quoted”")),
		build("unicode-illegal", "illegal-character", id("a"), gap(" \\ b")),
		build("unicode-illegal", "illegal-character", id("a"), gap(" ` b")),
		build("unicode-illegal", "illegal-character", id("a"), gap(" ~ b")),
		build("unicode-illegal", "illegal-character", id("a"), gap(" ~")),
		build("unicode-illegal", "illegal-character", id("a"), gap(" \x00 b")),
		build("unicode-illegal", "illegal-character", id("a"), gap(" \x7f b")),
		refOnly("unicode-ws-unspecified", "a\u00a0b"),
		refOnly("unicode-ws-unspecified", "\ufeffa b"),
		refOnly("unicode-ws-unspecified", "a\fb\vc"),
		refOnly("unicode-ws-unspecified", "a\u2028b\u2029c\u0085d"),
		refOnly("backslash-assign-unspecified", "a \\= b"),
	}
	return out
}

func unterminatedItems() []item {
	id := func(s string) seg { return lexeme("Identifier", s) }
	out := []item{
		build("unterminated-string", "unterminated-string", id("x"), gap(` "abc`)),
		build("unterminated-string", "unterminated-string", id("x"), gap(` 'abc`)),
		build("unterminated-string", "unterminated-string", gap(`"`)),
		build("unterminated-string", "unterminated-string", gap(`'`)),
		build("unterminated-string", "unterminated-string", gap(`"abc'`)),
		build("unterminated-string", "unterminated-string", gap(`'abc"`)),
		build("unterminated-string", "unterminated-string", gap("\"abc\ndef\n")),
		build("unterminated-string", "unterminated-string", gap(`"é😀`)),
		build("unterminated-string", "unterminated-string", lexemeV("String", `"a"`, "a"), gap(`"`)),
		build("unterminated-string", "unterminated-string", lexemeV("String", `""`, ""), gap(`"`)),
		build("unterminated-string", "unterminated-string", gap(`"abc\\`)),
		build("unterminated-string", "unterminated-string", gap(`"abc\n`)),
		build("unterminated-string", "unterminated-string", gap(`"abc\x41`)),
		build("unterminated-string", "unterminated-string", gap(`"abc // no comment`)),
		build("unterminated-string", "unterminated-string", gap(`"abc /* no comment */`)),
		build("unterminated-escape", "unterminated-escape", gap(`"abc\`)),
		build("unterminated-escape", "unterminated-escape", gap(`"\`)),
		build("unterminated-escape", "unterminated-escape", gap(`'\`)),
		build("unterminated-escape", "invalid-escape", gap(`"\x`)),
		build("unterminated-escape", "invalid-escape", gap(`"\x4`)),
		build("unterminated-escape", "invalid-escape", gap(`"\u00e`)),
		build("unterminated-escape", "invalid-escape", gap(`"\U0001F60`)),
		build("unterminated-escape", "invalid-escape", gap(`"\1`)),
		build("unterminated-escape", "invalid-escape", gap(`"\12`)),
		refOnly("unterminated-string-unspecified", `"abc\"`),
		refOnly("unterminated-string-unspecified", `'abc\'`),
		// line comments may end at the end of the text
		build("line-comment-eof", "", id("x"), gap(" // abc")),
		build("line-comment-eof", "", gap("//")),
		build("line-comment-eof", "", gap("// é")),
		build("line-comment-eof", "", id("x"), gap("//")),
		build("line-comment-eof", "", id("x"), gap("//\n")),
		build("line-comment-eof", "", id("x"), gap("//\n//\n"), id("y"), gap("//")),
		build("line-comment-eof", "", id("x"), gap(" // a /* b\n"), id("y"), gap(" /* c // d */ "), id("z")),
		build("line-comment-eof", "", id("x"), gap(" //\r"), gap("y\n"), id("z")),
		// block comments
		build("block-comment", "", id("x"), gap(" /**/ "), id("y")),
		build("block-comment", "", id("x"), gap("/**/"), id("y")),
		build("block-comment", "", id("x"), gap("/***/"), id("y")),
		build("block-comment", "", id("x"), gap("/****/"), id("y")),
		build("block-comment", "", id("x"), gap("/* * / */"), id("y")),
		build("block-comment", "", id("x"), gap("/*/*/"), id("y")),
		build("block-comment", "", id("x"), gap("/* /* */"), id("y"), gap(" "), lexeme("Multiply", "*"), lexeme("Divide", "/")),
		build("block-comment", "", id("x"), gap("/*a*/"), lexeme("Multiply", "*"), gap("/*b*/"), lexeme("Divide", "/"), gap(" "), id("y")),
		build("block-comment", "", gap("/*a*/")),
		build("block-comment", "", gap("/*a*/\n")),
		build("block-comment", "", lexeme("Multiply", "*"), lexeme("Divide", "/")),
		build("block-comment", "", lexeme("Divide", "/"), gap(" "), lexeme("Multiply", "*")),
		refOnly("unterminated-comment-unspecified", "x /* abc"),
		refOnly("unterminated-comment-unspecified", "x /*"),
		refOnly("unterminated-comment-unspecified", "/*"),
		refOnly("unterminated-comment-unspecified", "/* "),
		refOnly("unterminated-comment-unspecified", "/* *"),
		refOnly("unterminated-comment-unspecified", "/*/"),
		refOnly("unterminated-comment-unspecified", "/**"),
		refOnly("unterminated-comment-unspecified", "/* abc *"),
		refOnly("unterminated-comment-unspecified", "/* abc * /"),
		refOnly("unterminated-comment-unspecified", "/* abc\n"),
		refOnly("unterminated-comment-unspecified", "/* abc */ /* def"),
		refOnly("unterminated-comment-unspecified", "x /* y z"),
		refOnly("unterminated-comment-unspecified", "x /* 1"),
		refOnly("unterminated-comment-unspecified", "x /* ;"),
		refOnly("unterminated-comment-unspecified", "x /* \"s\""),
		refOnly("unterminated-comment-unspecified", "x /* é"),
	}
	return out
}

func whitespaceItems() []item {
	id := func(s string) seg { return lexeme("Identifier", s) }
	var out []item
	ws := []string{" ", "\t", "\r", "\n", "\r\n", "  ", "\t\t", " \t \t", "\n\n", "\n\t", "\t\n", "\r\r", "\n\r", " \n \n ", "\t\r\n\t"}
	for _, w := range ws {
		out = append(out, build("whitespace", "", id("a"), gap(w), id("b")))
		out = append(out, build("whitespace", "", gap(w), id("a"), gap(w), id("b"), gap(w)))
		out = append(out, build("whitespace", "", gap(w)))
		out = append(out, build("whitespace", "", gap(w), lexemeV("String", "\""+w+"\"", w), gap(w), lexemeV("Int", "1", "1")))
	}
	out = append(out, build("whitespace", ""))
	out = append(out, locate("whitespace", "", "\tprintln(1);", []string{"Identifier", "println", "println", "LParen", "(", "(", "Int", "1", "1", "RParen", ")", ")", "Semicolon", ";", ";"}))
	out = append(out, locate("whitespace", "", "fn main() {\n\tlet x = 1;\n}\n", []string{"Fn", "fn", "fn", "Identifier", "main", "main", "LParen", "(", "(", "RParen", ")", ")", "LCurly", "{", "{",
		"Let", "let", "let", "Identifier", "x", "x", "Assign", "=", "=", "Int", "1", "1", "Semicolon", ";", ";", "RCurly", "}", "}"}))
	return out
}

func munchItems() []item {
	var out []item
	for _, m := range munchCases {
		out = append(out, locate("munch", "", m.text, pairsToTriples(m.toks)))
		// the same followed by an identifier on the next line and preceded by one
		out = append(out, locate("munch", "", "p "+m.text+"\nq", append(append([]string{"Identifier", "p", "p"}, pairsToTriples(m.toks)...), "Identifier", "q", "q")))
	}
	// programmatic: every operator repeated, and every operator followed by every operator character
	opChars := "=<>|&*.-+!/%^~#?@$:;,()[]{}"
	for _, o := range opTable {
		out = append(out, refOnly("munch-repeat", o[0]+o[0]+o[0]))
		out = append(out, refOnly("munch-repeat", "a"+o[0]+o[0]+"b"))
		for _, c := range opChars {
			out = append(out, refOnly("munch-char", "a"+o[0]+string(c)+"b"))
			out = append(out, refOnly("munch-char", o[0]+string(c)))
		}
	}
	return out
}

func numberItems() []item {
	var out []item
	for _, s := range numberShapes {
		out = append(out, locate("number", "", s.text, s.toks))
		out = append(out, locate("number", "", "n = "+s.text+" ;", append(append([]string{"Identifier", "n", "n", "Assign", "=", "="}, s.toks...), "Semicolon", ";", ";")))
		out = append(out, refOnly("number-adjacent", "("+s.text+")"))
		out = append(out, refOnly("number-adjacent", s.text+s.text))
		out = append(out, refOnly("number-adjacent", s.text+"\n"+s.text))
	}
	return out
}

// ---------------------------------------------------------------------------------------------
// (3) random texts
// ---------------------------------------------------------------------------------------------

var randSeps = []string{"", "", "", "", " ", " ", "\t", "\n", "\r\n", "\r", "  ", "// c\n", "/* c */", "/*é\n*/", "//\n"}

func randIdent(r *fw.Rng) string {
	const first = "abcdefghijklmnopqrstuvwxyzABCXYZ_"
	const rest = first + "0123456789"
	n := 1 + r.Intn(6)
	b := []byte{first[r.Intn(len(first))]}
	for i := 1; i < n; i++ {
		b = append(b, rest[r.Intn(len(rest))])
	}
	return string(b)
}

func randNumber(r *fw.Rng) string {
	const d = "0123456789"
	var b []byte
	b = append(b, d[r.Intn(10)])
	for n := r.Intn(5); n > 0; n-- {
		if r.Chance(1, 4) {
			b = append(b, '_')
		} else {
			b = append(b, d[r.Intn(10)])
		}
	}
	switch r.Intn(5) {
	case 0:
		b = append(b, 'f')
	case 1, 2:
		b = append(b, '.', d[r.Intn(10)])
		for n := r.Intn(4); n > 0; n-- {
			if r.Chance(1, 4) {
				b = append(b, '_')
			} else {
				b = append(b, d[r.Intn(10)])
			}
		}
	}
	return string(b)
}

var strPieces = []string{"a", "b", " ", "é", "😀", "日", "\n", "\t", `\\`, `\n`, `\t`, `\r`, `\b`, `\x41`, `\101`, `\u00e9`, `\U0001F600`, "//", "/*", "*/", "0", "f", "_", "|", "&",
	`\'`, `\"`, `\q`, `\x4`, `\xff`, `\ud800`, "'", `"`}

func randString(r *fw.Rng) string {
	q := `"`
	if r.Bool() {
		q = `'`
	}
	var sb strings.Builder
	sb.WriteString(q)
	for n := r.Intn(6); n > 0; n-- {
		p := fw.Pick(r, strPieces)
		if p == q && r.Chance(3, 4) {
			continue
		}
		sb.WriteString(p)
	}
	if !r.Chance(1, 25) {
		sb.WriteString(q)
	}
	return sb.String()
}

func randSoup(r *fw.Rng, cls []lexClass) string {
	var sb strings.Builder
	n := 1 + r.Intn(14)
	for i := 0; i < n; i++ {
		switch r.Intn(10) {
		case 0:
			sb.WriteString(randIdent(r))
		case 1:
			sb.WriteString(randNumber(r))
		case 2:
			sb.WriteString(randString(r))
		default:
			sb.WriteString(fw.Pick(r, cls).L)
		}
		sb.WriteString(fw.Pick(r, randSeps))
	}
	return sb.String()
}

var charAlphabet = []rune("abf_xuU019. \t\n\r\"'\\/*=<>|&^~!+-%#?@$:;,(){}[]éж😀 `")

func randChars(r *fw.Rng) string {
	n := 1 + r.Intn(24)
	rs := make([]rune, n)
	for i := range rs {
		rs[i] = charAlphabet[r.Intn(len(charAlphabet))]
	}
	return string(rs)
}

func mutate(r *fw.Rng, src string) string {
	rs := []rune(src)
	if len(rs) == 0 {
		return src
	}
	// take a window so that texts stay small
	if len(rs) > 400 {
		s := r.Intn(len(rs) - 400)
		rs = append([]rune{}, rs[s:s+400]...)
	}
	for k := 1 + r.Intn(3); k > 0; k-- {
		i := r.Intn(len(rs))
		switch r.Intn(3) {
		case 0:
			rs = append(rs[:i], rs[i+1:]...)
		case 1:
			rs = append(rs[:i], append([]rune{charAlphabet[r.Intn(len(charAlphabet))]}, rs[i:]...)...)
		default:
			rs[i] = charAlphabet[r.Intn(len(charAlphabet))]
		}
		if len(rs) == 0 {
			break
		}
	}
	return string(rs)
}

// randSpec: texts generated in the worker, a pure function of (Kind, Seed, N) and the corpus files.
type randSpec struct {
	Kind string `json:"k"`
	Seed uint64 `json:"s"`
	N    int    `json:"n"`
}

func randItems(sp randSpec) []item {
	r := fw.NewRng(sp.Seed)
	var out []item
	switch sp.Kind {
	case "soup":
		cls := classes()
		for i := 0; i < sp.N; i++ {
			out = append(out, refOnly("soup", randSoup(r, cls)))
		}
	case "chars":
		for i := 0; i < sp.N; i++ {
			out = append(out, refOnly("chars", randChars(r)))
		}
	case "mutated":
		corpus := util.Corpus()
		var names []string
		for k := range corpus {
			names = append(names, k)
		}
		sort.Strings(names)
		for i := 0; i < sp.N && len(names) > 0; i++ {
			out = append(out, refOnly("mutated", mutate(r, strings.ToValidUTF8(corpus[names[r.Intn(len(names))]], "?"))))
		}
	}
	return out
}

func tripleItems(left lexClass) []item {
	var out []item
	for _, m := range opTable {
		for _, r := range opTable {
			out = append(out, refOnly("triple", left.L+m[0]+r[0]))
		}
	}
	return out
}

// ---------------------------------------------------------------------------------------------
// poisons: constructs that an open known finding makes unusable
// ---------------------------------------------------------------------------------------------

type poison struct {
	KF  string // name in known_findings.txt
	Tag string
	Has func(text string, ref *lexref.Result) bool
}

var (
	reDigitSep    = regexp.MustCompile(`[0-9]_`)
	reFloatSuffix = regexp.MustCompile(`[0-9_]f`)
)

var poisons = []poison{
	{"KF-lexer-tab", "tab-whitespace", func(t string, _ *lexref.Result) bool { return strings.Contains(t, "\t") }},
	{"KF-lexer-or-and", "or-and-ops", func(t string, _ *lexref.Result) bool { return strings.ContainsAny(t, "|&") }},
	{"KF-lexer-xor-tilde", "xor-tilde-ops", func(t string, _ *lexref.Result) bool { return strings.ContainsAny(t, "^~") }},
	{"KF-lexer-digit-sep", "digit-separators", func(t string, _ *lexref.Result) bool { return reDigitSep.MatchString(t) }},
	{"KF-lexer-float-suffix-span", "float-suffix", func(t string, _ *lexref.Result) bool { return reFloatSuffix.MatchString(t) }},
	{"KF-lexer-unterminated-block-comment", "unterminated-block-comment", func(t string, ref *lexref.Result) bool {
		return ref != nil && ref.Consulted&lexref.UnterminatedBlockComment != 0
	}},
}

// poisonTags lists the tags of the poisons present in a text.
func poisonTags(text string) []string {
	var out []string
	var ref *lexref.Result
	if strings.Contains(text, "/*") {
		r := lexref.Lex(text, lexref.Options{})
		ref = &r
	}
	for _, p := range poisons {
		if p.Has(text, ref) {
			out = append(out, p.Tag)
		}
	}
	return out
}
