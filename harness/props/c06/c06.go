// Package c06 checks property C06 — "The token stream is a faithful image of the source text"
// (DESIGN.md §3 C06) by runtime monitoring: the real lexer (lexer.NewLexer + NextToken until EOF or
// the first error) is run on generated texts and its (kind, value, span) sequence is compared with
// an expectation known by construction and/or computed by the independent reference lexer
// hv/lexref, which is written from grammar.ebnf.
package c06

import (
	"fmt"
	"sort"
	"strings"

	"hv/fw"
	"hv/lexref"
	"hv/util"
)

type c06 struct{}

func init() { fw.Register(c06{}) }

func (c06) ID() string { return "C06" }

func (c06) Info(tier string) fw.Info {
	return fw.Info{
		Level: "exploration",
		Rule: "texts: (1) all ordered pairs of the lexeme classes (every operator/punctuation token, every keyword, identifiers, number shapes, strings) joined by each separator of " +
			"{none, space, tab, CR, LF, CRLF, line comment+LF, block comment}, with prefix/suffix context — expectation by construction when a separator is present, from the reference lexer's " +
			"longest-match rule otherwise (pair matrix exhaustive in both tiers; thorough adds contexts); (2) enumerated families: maximal-munch tables, every escape form with boundary code points " +
			"in both quote styles, number shapes, keywords vs. identifiers, whitespace, unicode in strings/comments, unterminated constructs; (3) random lexeme soups, random character strings, " +
			"the shipped corpus and mutated corpus windows, differentially against the reference lexer. " +
			"oracle per text: exact equality of (kind, value, line/column/index of start and end, file name) of every token and of where the stream ends (EOF or first error); " +
			"spans consistent with the text; union of spans = runes outside whitespace/comments. " +
			"non-trivial = at least one non-EOF token of the case was compared and found equal; distinct = distinct case payloads",
		Assumptions: []string{
			"whitespace is space, tab, CR, LF; a line ends at LF; columns/indices count runes (grammar.ebnf does not define whitespace; the property text does not either)",
			"a lexer error ends the token stream (the parser treats it as a hard error); error messages and error spans are not judged here (C08)",
			"where grammar.ebnf is silent both readings are accepted and listed under coverage.unspecified: \\' and \\\" escapes, escapes denoting surrogates or values above U+10FFFF, \\x80-\\xFF / \\200-\\377 (code point or byte), " +
				"unterminated block comment (error or comment to end of text), Unicode spaces other than space/tab/CR/LF, the tokens '#' and '~>' (not in grammar.ebnf), the '\\=' operator of grammar.ebnf (no token kind exists), " +
				"the span of the EOF token, the spelling of a number's value (any spelling denoting the same number is accepted)",
			"texts are valid UTF-8 (invalid bytes are outside CHAR = any UTF-8 character)",
		},
		Exhaustive:   false,
		CaseTimeoutS: 60,
		BatchSize:    24,
	}
}

type payload struct {
	Gen   string    `json:"g"`
	Items []item    `json:"t,omitempty"`
	Pair  *pairSpec `json:"p,omitempty"`
	// Rand: texts generated in the worker from a seed (random soups, character strings, mutated corpus)
	Rand *randSpec `json:"r,omitempty"`
	// Triple: all (mid, right) operator pairs after one left operator, no separators
	Triple *lexClass `json:"tr,omitempty"`
	// Avoid: poison tags whose constructs must not occur (open known findings);
	// Only: keep only the items that contain this poison (poisoned workload).
	Avoid []string `json:"avoid,omitempty"`
	Only  string   `json:"only,omitempty"`
}

const itemsPerCase = 120

func (c06) Cases(tier string, seed uint64) []fw.Case {
	thorough := tier == "thorough"
	r := fw.NewRng(seed ^ 0xC06)
	var cases []fw.Case

	var avoid []string
	for _, p := range poisons {
		if fw.KFOpen(p.KF) {
			avoid = append(avoid, p.Tag)
		}
	}
	isAvoided := func(tag string) bool {
		for _, a := range avoid {
			if a == tag {
				return true
			}
		}
		return false
	}
	// tags of a main-workload case: the poisons it may contain and that are not avoided
	mainTags := func(texts ...string) []string {
		set := map[string]bool{}
		for _, t := range texts {
			for _, tg := range poisonTags(t) {
				if !isAvoided(tg) {
					set[tg] = true
				}
			}
		}
		var out []string
		for k := range set {
			out = append(out, k)
		}
		sort.Strings(out)
		return out
	}

	// (1) pair matrix
	cls := classes()
	pre, suf := prefixesQuick, suffixesQuick
	if thorough {
		pre = prefixesThorough
	}
	var pairCases []fw.Case
	for li, l := range cls {
		for _, s := range separators {
			p := payload{Gen: "pair", Pair: &pairSpec{Left: l, Sep: s, Rights: cls, Prefixes: pre, Suffixes: suf}, Avoid: avoid}
			var texts []string
			texts = append(texts, l.L+s.Text)
			for _, rc := range cls {
				texts = append(texts, l.L+s.Text+rc.L)
			}
			pairCases = append(pairCases, fw.MkCase(fmt.Sprintf("c06-pair-%03d-%s", li, s.Name), "pair", p, mainTags(texts...)...))
		}
	}
	cases = append(cases, pairCases...)

	// (2) families
	type fam struct {
		name  string
		items []item
	}
	fams := []fam{
		{"munch", munchItems()}, {"escape", escapeItems()}, {"number", numberItems()}, {"keyword", keywordItems()},
		{"unicode", unicodeItems()}, {"unterminated", unterminatedItems()}, {"whitespace", whitespaceItems()},
	}
	var textCases []fw.Case
	chunk := func(gen string, items []item) {
		for i, n := 0, 0; i < len(items); i, n = i+itemsPerCase, n+1 {
			j := i + itemsPerCase
			if j > len(items) {
				j = len(items)
			}
			var texts []string
			for _, it := range items[i:j] {
				texts = append(texts, it.Text)
			}
			textCases = append(textCases, fw.MkCase(fmt.Sprintf("c06-%s-%04d", gen, n), gen, payload{Gen: gen, Items: items[i:j], Avoid: avoid}, mainTags(texts...)...))
		}
	}
	for _, f := range fams {
		chunk(f.name, f.items)
	}

	// (3) random texts, corpus, mutated corpus
	nSoup, nChars, nMut := 30000, 20000, 6000
	if thorough {
		nSoup, nChars, nMut = 1500000, 800000, 250000
	}
	allTags := func() []string {
		var out []string
		for _, p := range poisons {
			if !isAvoided(p.Tag) {
				out = append(out, p.Tag)
			}
		}
		return out
	}()
	randCases := func(kind string, total, per int) {
		for i, n := 0, 0; i < total; i, n = i+per, n+1 {
			k := per
			if i+k > total {
				k = total - i
			}
			textCases = append(textCases, fw.MkCase(fmt.Sprintf("c06-%s-%05d", kind, n), kind,
				payload{Gen: kind, Rand: &randSpec{Kind: kind, Seed: r.Next(), N: k}, Avoid: avoid}, allTags...))
		}
	}
	randCases("soup", nSoup, 250)
	randCases("chars", nChars, 500)
	randCases("mutated", nMut, 100)
	var corp []item
	corpus := util.Corpus()
	var names []string
	for k := range corpus {
		names = append(names, k)
	}
	sort.Strings(names)
	for _, n := range names {
		src := strings.ToValidUTF8(corpus[n], "?")
		corp = append(corp, refOnly("corpus:"+n, src))
		// the same text with other line ends and with tabs for indentation
		corp = append(corp, refOnly("corpus-crlf:"+n, strings.ReplaceAll(src, "\n", "\r\n")))
		corp = append(corp, refOnly("corpus-tabs:"+n, strings.ReplaceAll(src, "    ", "\t")))
	}
	// corpus files are larger: fewer per case
	for i, n := 0, 0; i < len(corp); i, n = i+6, n+1 {
		j := i + 6
		if j > len(corp) {
			j = len(corp)
		}
		var texts []string
		for _, it := range corp[i:j] {
			texts = append(texts, it.Text)
		}
		textCases = append(textCases, fw.MkCase(fmt.Sprintf("c06-corpus-%04d", n), "corpus", payload{Gen: "corpus", Items: corp[i:j], Avoid: avoid}, mainTags(texts...)...))
	}
	// operator triples without separators (maximal munch over three adjacent operators)
	for li, l := range cls {
		if l.F != "op" {
			continue
		}
		l := l
		textCases = append(textCases, fw.MkCase(fmt.Sprintf("c06-triple-%03d", li), "triple", payload{Gen: "triple", Triple: &l, Avoid: avoid}, allTags...))
	}
	cases = append(cases, textCases...)

	// poisoned workload: for every open finding a few dozen cases that contain only its construct
	for _, p := range poisons {
		if !fw.KFOpen(p.KF) {
			continue
		}
		var others []string
		for _, a := range avoid {
			if a != p.Tag {
				others = append(others, a)
			}
		}
		n := 0
		emit := func(src fw.Case) {
			var pl payload
			fw.Decode(src, &pl)
			pl.Avoid = others
			pl.Only = p.Tag
			cases = append(cases, fw.MkCase(fmt.Sprintf("c06-poison-%s-%03d", p.Tag, n), src.Kind, pl, p.Tag))
			n++
		}
		// pair cases whose left lexeme or separator contains the construct, then a stride of the rest
		cnt := 0
		for _, c := range pairCases {
			var pl payload
			fw.Decode(c, &pl)
			if p.Has(pl.Pair.Left.L+pl.Pair.Sep.Text, nil) || (p.Tag == "unterminated-block-comment" && pl.Pair.Left.L == "/" && pl.Pair.Sep.Name == "none") {
				if cnt < 24 {
					emit(c)
					cnt++
				}
			}
		}
		for i := 0; i < len(pairCases); i += len(pairCases)/8 + 1 {
			emit(pairCases[i])
		}
		for i := 0; i < len(textCases); i += len(textCases)/24 + 1 {
			emit(textCases[i])
		}
		// the family cases are few: take all of them
		for _, c := range textCases {
			switch c.Kind {
			case "munch", "number", "whitespace", "unterminated", "unicode":
				emit(c)
			}
		}
	}
	return cases
}

func contains(xs []string, x string) bool {
	for _, y := range xs {
		if y == x {
			return true
		}
	}
	return false
}

func (c06) Run(c fw.Case) fw.Result {
	var p payload
	fw.Decode(c, &p)
	items := p.Items
	if p.Pair != nil {
		items = pairItems(*p.Pair)
	}
	if p.Rand != nil {
		items = randItems(*p.Rand)
	}
	if p.Triple != nil {
		items = tripleItems(*p.Triple)
	}
	res := fw.Result{Verdict: fw.Held}
	cover := map[string]bool{"gen:" + p.Gen: true}
	obs := map[string]int64{}
	var fails []fw.SubViolation
	failSigs := map[string]bool{}
	var oracleBugs []string
	var sample any
	if p.Pair != nil {
		cover["sep:"+p.Pair.Sep.Name] = true
	}
	for _, it := range items {
		if len(p.Avoid) > 0 || p.Only != "" {
			tags := poisonTags(it.Text)
			skip := p.Only != "" && !contains(tags, p.Only)
			for _, t := range tags {
				if contains(p.Avoid, t) {
					skip = true
				}
			}
			if skip {
				obs["items_skipped_poisoned"]++
				continue
			}
		}
		v := judge(it)
		res.Evals++
		obs["items"]++
		if v.OracleBug != "" {
			oracleBugs = append(oracleBugs, v.OracleBug)
			continue
		}
		obs["tokens_equal"] += int64(v.Matched)
		if v.Matched > 0 && len(v.Fails) == 0 {
			res.Nontrivial = true
		}
		if it.HasExp {
			obs["items_with_expectation_by_construction"]++
		}
		if v.RefErr != "" {
			obs["items_ending_in_error"]++
			cover["error:"+v.RefErr] = true
		}
		if v.Lenient > 0 {
			obs["number_value_other_spelling_accepted"] += int64(v.Lenient)
			cover["unspecified:number-value-spelling"] = true
		}
		for _, n := range v.Consulted.Names() {
			cover["unspecified-met:"+n] = true
		}
		for _, n := range v.AltAccepted.Names() {
			cover["unspecified-alternative-accepted:"+n] = true
			obs["alternative_reading_accepted"]++
		}
		for _, k := range v.Kinds {
			cover["kind:"+k] = true
		}
		if it.Note != "" {
			n := it.Note
			if i := strings.Index(n, ":"); i > 0 {
				n = n[:i]
			}
			cover["family:"+n] = true
		}
		if sample == nil && len(v.Run.Toks) >= 2 && len(v.Fails) == 0 && len(it.Text) < 60 {
			sample = map[string]any{"gen": p.Gen, "text": it.Text, "tokens": renderToks(v.Run.Toks), "ends": map[bool]string{true: "error", false: "EOF"}[v.Run.Err != nil]}
		}
		for _, f := range v.Fails {
			obs["discrepancies"]++
			if failSigs[f.Sig] || len(fails) >= 4 {
				continue // one witness per signature, at most four signatures per case (all are counted in obs)
			}
			failSigs[f.Sig] = true
			fails = append(fails, fw.SubViolation{
				Sig: f.Sig,
				Why: fmt.Sprintf("%s | text=%q | expected [%s]%s | observed [%s]%s", f.Why, util.Clip(it.Text, 300), util.Clip(renderToks(v.Exp.Toks), 600), endOf(v.Exp.ErrClass != "", v.Exp.ErrClass),
					util.Clip(renderToks(v.Run.Toks), 600), endObserved(v.Run)),
				Detail: map[string]any{"text": it.Text, "expected": v.Exp.Toks, "expected_error": v.Exp.ErrClass, "observed": v.Run.Toks, "observed_error": errText(v.Run), "note": it.Note},
			})
		}
	}
	for k := range cover {
		res.Cover = append(res.Cover, k)
	}
	sort.Strings(res.Cover)
	res.Obs = obs
	if fw.HashOf(c.ID)[0] < '1' { // ~6% of the cases carry a sample
		res.Sample = sample
	}
	if len(oracleBugs) > 0 {
		obs["oracle_selfcheck_failures"] = int64(len(oracleBugs))
		res.Verdict = fw.Inconclusive
		res.Why = "ORACLE SELF-CHECK FAILED (harness bug, not a finding): " + oracleBugs[0]
		return res
	}
	if len(fails) > 0 {
		res.Verdict = fw.Violated
		res.Sig, res.Why, res.Detail = fails[0].Sig, fails[0].Why, fails[0].Detail
		res.More = fails[1:]
	}
	return res
}

func endOf(isErr bool, class string) string {
	if isErr {
		return " then ERROR(" + class + ")"
	}
	return " then EOF"
}

func errText(r realRun) string {
	if r.Err == nil {
		return ""
	}
	return fmt.Sprintf("%s at %s", r.Err.Message, fromLoc(r.Err.Span.Start))
}

func endObserved(r realRun) string {
	switch {
	case r.Panic != "":
		return " then PANIC(" + r.Panic + ")"
	case r.Budget:
		return " then NO-TERMINATION"
	case r.Err != nil:
		return " then ERROR(" + errText(r) + ")"
	case r.EOF != nil:
		return " then EOF@" + r.EOF.S.String()
	}
	return ""
}

func (c06) OnCrash(c fw.Case, cr fw.Crash) fw.Result {
	switch cr.Kind {
	case "watchdog", "killed":
		return fw.Result{Verdict: fw.Inconclusive, Why: cr.Kind + ": " + cr.Message}
	}
	return fw.Result{Verdict: fw.Violated, Nontrivial: true,
		Sig: fmt.Sprintf("crash:%s:%s:%s", cr.Kind, util.NormPanic(cr.Message), cr.TopFrame),
		Why: fmt.Sprintf("worker died while lexing (%s: %s) at %s", cr.Kind, util.Clip(cr.Message, 200), cr.TopFrame)}
}

// Finalize lists the unspecified points met and fails the run when the oracle's self-check failed.
func (c06) Finalize(tier string, results []fw.Result, coverage map[string]any) string {
	var bugs int64
	unspec := map[string]bool{}
	for _, r := range results {
		bugs += r.Obs["oracle_selfcheck_failures"]
		for _, k := range r.Cover {
			if strings.HasPrefix(k, "unspecified") {
				unspec[k] = true
			}
		}
	}
	var list []string
	for k := range unspec {
		list = append(list, k)
	}
	sort.Strings(list)
	list = append(list, "not judged: span of the EOF token; message and span of a lexer error; state of the lexer after an error")
	coverage["unspecified"] = list
	coverage["reference_choices"] = lexref.Choice(1<<7 - 1).Names()
	if bugs > 0 {
		return fmt.Sprintf("the oracle's self-check failed on %d texts (expectation by construction and reference lexer disagree): see the INCONCLUSIVE lines", bugs)
	}
	return ""
}
