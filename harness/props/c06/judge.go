package c06

// The oracle of C06: runs the REAL lexer over a text and compares the token sequence with the
// expectation (by construction and/or from the reference lexer hv/lexref).

import (
	"fmt"
	"math/big"
	"strconv"
	"strings"

	"github.com/smarthome-go/homescript/v3/homescript/errors"
	"github.com/smarthome-go/homescript/v3/homescript/lexer"

	"hv/lexref"
)

// Filename handed to the real lexer; every span must carry it.
const fileName = "c06/src.hms"

// kindNames maps the implementation's token kinds to the names used by the expectations
// (the Go identifiers of the enumeration; TokenKind.String() is not used: it is lossy and panics
// for some kinds).
var kindNames = map[lexer.TokenKind]string{
	lexer.Unknown: "Unknown", lexer.EOF: "EOF",
	lexer.HashTag: "HashTag", lexer.QuestionMark: "QuestionMark", lexer.AtSymbol: "AtSymbol", lexer.DollarSymbol: "DollarSymbol",
	lexer.Underscore: "Underscore", lexer.Semicolon: "Semicolon", lexer.Comma: "Comma", lexer.Colon: "Colon", lexer.Dot: "Dot",
	lexer.DoubleDot: "DoubleDot", lexer.Arrow: "Arrow", lexer.FatArrow: "FatArrow", lexer.TildeArrow: "TildeArrow",
	lexer.LParen: "LParen", lexer.RParen: "RParen", lexer.LCurly: "LCurly", lexer.RCurly: "RCurly", lexer.LBracket: "LBracket", lexer.RBracket: "RBracket",
	lexer.Or: "Or", lexer.And: "And", lexer.Equal: "Equal", lexer.NotEqual: "NotEqual", lexer.LessThan: "LessThan", lexer.LessThanEqual: "LessThanEqual",
	lexer.GreaterThan: "GreaterThan", lexer.GreaterThanEqual: "GreaterThanEqual", lexer.Not: "Not",
	lexer.Plus: "Plus", lexer.Minus: "Minus", lexer.Multiply: "Multiply", lexer.Divide: "Divide", lexer.Modulo: "Modulo", lexer.Power: "Power",
	lexer.ShiftLeft: "ShiftLeft", lexer.ShiftRight: "ShiftRight", lexer.BitOr: "BitOr", lexer.BitAnd: "BitAnd", lexer.BitXor: "BitXor",
	lexer.Assign: "Assign", lexer.PlusAssign: "PlusAssign", lexer.MinusAssign: "MinusAssign", lexer.MultiplyAssign: "MultiplyAssign",
	lexer.DivideAssign: "DivideAssign", lexer.PowerAssign: "PowerAssign", lexer.ModuloAssign: "ModuloAssign", lexer.ShiftLeftAssign: "ShiftLeftAssign",
	lexer.ShiftRightAssign: "ShiftRightAssign", lexer.BitOrAssign: "BitOrAssign", lexer.BitAndAssign: "BitAndAssign", lexer.BitXorAssign: "BitXorAssign",
	lexer.Import: "Import", lexer.As: "As", lexer.From: "From", lexer.Try: "Try", lexer.Catch: "Catch", lexer.In: "In", lexer.Let: "Let", lexer.Pub: "Pub",
	lexer.Fn: "Fn", lexer.If: "If", lexer.Else: "Else", lexer.Match: "Match", lexer.For: "For", lexer.While: "While", lexer.Loop: "Loop", lexer.Break: "Break",
	lexer.Continue: "Continue", lexer.Return: "Return", lexer.Type: "Type", lexer.New: "New", lexer.Spawn: "Spawn", lexer.Event: "Event", lexer.Impl: "Impl",
	lexer.With: "With", lexer.Templ: "Templ", lexer.Trigger: "Trigger",
	lexer.True: "True", lexer.False: "False", lexer.None: "None", lexer.Null: "Null",
	lexer.String: "String", lexer.Int: "Int", lexer.Float: "Float", lexer.Identifier: "Identifier",
}

func kindName(k lexer.TokenKind) string {
	if n, ok := kindNames[k]; ok {
		return n
	}
	return fmt.Sprintf("Kind#%d", uint8(k))
}

// loc is (line, column, index).
type loc [3]int

func (l loc) String() string { return fmt.Sprintf("%d:%d:%d", l[0], l[1], l[2]) }

// tok is a token in harness representation (both expected and observed).
type tok struct {
	K string `json:"k"`
	V string `json:"v"`
	S loc    `json:"s"`
	E loc    `json:"e"`
	F string `json:"f,omitempty"` // observed file name
}

func (t tok) String() string { return fmt.Sprintf("%s(%q)@%s-%s", t.K, t.V, t.S, t.E) }

func renderToks(ts []tok) string {
	var sb strings.Builder
	for i, t := range ts {
		if i > 0 {
			sb.WriteString(" ")
		}
		sb.WriteString(t.String())
	}
	return sb.String()
}

// realRun is what the real lexer produced for a text.
type realRun struct {
	Toks     []tok // tokens before EOF / before the error
	EOF      *tok  // the EOF token, when reached
	Err      *errors.Error
	ErrTok   *tok
	Calls    int
	Budget   bool   // call budget exceeded (no EOF and no error within the budget)
	Panic    string // Go panic on the calling goroutine
	Unknowns int    // tokens of kind Unknown returned without an error
}

func fromLoc(l errors.Location) loc { return loc{int(l.Line), int(l.Column), int(l.Index)} }

// lexReal drives the real lexer: NewLexer + NextToken until EOF or the first error.
// A lexer error is a hard error for every client (parser.next returns it), so the stream ends there.
func lexReal(text string) (run realRun) {
	defer func() {
		if r := recover(); r != nil {
			run.Panic = fmt.Sprint(r)
		}
	}()
	l := lexer.NewLexer(text, fileName)
	budget := 2*len([]rune(text)) + 16
	for run.Calls < budget {
		run.Calls++
		t, err := l.NextToken()
		ht := tok{K: kindName(t.Kind), V: t.Value, S: fromLoc(t.Span.Start), E: fromLoc(t.Span.End), F: t.Span.Filename}
		if err != nil {
			run.Err = err
			run.ErrTok = &ht
			return run
		}
		if t.Kind == lexer.EOF {
			run.EOF = &ht
			return run
		}
		run.Toks = append(run.Toks, ht)
	}
	run.Budget = true
	return run
}

// fail is one observed discrepancy.
type fail struct {
	Sig string
	Why string
}

func runeName(r rune) string {
	switch {
	case r == '\t':
		return "TAB"
	case r == '\n':
		return "LF"
	case r == '\r':
		return "CR"
	case r == ' ':
		return "SPACE"
	case r > 32 && r < 127:
		return "'" + string(r) + "'"
	}
	return fmt.Sprintf("U+%04X", r)
}

func delta(got, exp int) string {
	d := got - exp
	if d >= 0 {
		return "+" + strconv.Itoa(d)
	}
	return strconv.Itoa(d)
}

// numEqual: the two number spellings denote the same number.
func numEqual(kind, a, b string) bool {
	if kind == "Int" {
		x, ok1 := new(big.Int).SetString(a, 10)
		y, ok2 := new(big.Int).SetString(b, 10)
		return ok1 && ok2 && x.Cmp(y) == 0
	}
	x, ok1 := new(big.Float).SetPrec(2000).SetString(a)
	y, ok2 := new(big.Float).SetPrec(2000).SetString(b)
	return ok1 && ok2 && x.Cmp(y) == 0
}

// expectation: tokens, then either EOF or an error.
type expectation struct {
	Toks     []tok
	ErrClass string // "" = the text is lexed completely
}

func fromRef(r lexref.Result) expectation {
	e := expectation{}
	for _, t := range r.Tokens {
		e.Toks = append(e.Toks, tok{K: t.Kind, V: t.Value,
			S: loc{t.Start.Line, t.Start.Col, t.Start.Index}, E: loc{t.End.Line, t.End.Col, t.End.Index}})
	}
	if r.Err != nil {
		e.ErrClass = r.Err.Class
	}
	return e
}

type cmpStats struct {
	matched       int // tokens that agree completely
	lenientNumber int
}

// compare judges an observed run against one expectation. matchedPrefix is the number of leading
// tokens without any discrepancy (used to pick the closest reading).
func compare(text []rune, run realRun, exp expectation) (fails []fail, st cmpStats, matchedPrefix int) {
	add := func(sig, why string) { fails = append(fails, fail{sig, why}) }
	prefixOpen := true
	prev := "START"
	n := len(exp.Toks)
	for i := 0; i < n; i++ {
		e := exp.Toks[i]
		if i >= len(run.Toks) {
			// the real stream ended before the expected token
			switch {
			case run.Panic != "":
				add("go-panic:exp="+e.K+":after="+prev, fmt.Sprintf("the lexer panicked (%s) where %s was expected", run.Panic, e))
			case run.Budget:
				add("no-termination:exp="+e.K+":after="+prev, fmt.Sprintf("no EOF and no error within %d NextToken calls", run.Calls))
			case run.Err != nil:
				at := "EOF"
				if idx := int(run.Err.Span.Start.Index); idx >= 0 && idx < len(text) {
					at = runeName(text[idx])
				}
				add("lex-error:at="+at+":after="+prev,
					fmt.Sprintf("the lexer reported an error (%q at %s) where the token %s was expected", run.Err.Message, fromLoc(run.Err.Span.Start), e))
			default:
				add("kind:exp="+e.K+":got=EOF:after="+prev, fmt.Sprintf("the lexer reported EOF at %s where the token %s was expected", run.EOF.S, e))
			}
			return fails, st, matchedPrefix
		}
		g := run.Toks[i]
		if g.K != e.K {
			add("kind:exp="+e.K+":got="+g.K+":after="+prev, fmt.Sprintf("token %d: expected %s, got %s", i, e, g))
			return fails, st, matchedPrefix
		}
		ok := true
		if g.S != e.S {
			ok = false
			if g.S[2] != e.S[2] {
				// a token that starts elsewhere is a different lexeme: the streams are out of step
				add("span:"+e.K+":start"+delta(g.S[2], e.S[2])+":after="+prev, fmt.Sprintf("token %d: expected %s, got %s", i, e, g))
				return fails, st, matchedPrefix
			}
			add("span:"+e.K+":start:linecol", fmt.Sprintf("token %d: expected %s, got %s", i, e, g))
		}
		if g.V != e.V {
			if (e.K == "Int" || e.K == "Float") && numEqual(e.K, g.V, e.V) {
				st.lenientNumber++
			} else {
				ok = false
				add("value:"+e.K, fmt.Sprintf("token %d: expected value %q, got %q (%s)", i, e.V, g.V, g))
			}
		}
		if g.E != e.E {
			ok = false
			if g.E[2] != e.E[2] {
				add("span:"+e.K+":end"+delta(g.E[2], e.E[2]), fmt.Sprintf("token %d: expected %s, got %s", i, e, g))
			} else {
				add("span:"+e.K+":end:linecol", fmt.Sprintf("token %d: expected %s, got %s", i, e, g))
			}
		}
		if g.F != fileName {
			ok = false
			add("filename:"+e.K, fmt.Sprintf("token %d (%s): span carries file name %q instead of %q", i, g, g.F, fileName))
		}
		if ok {
			st.matched++
			if prefixOpen {
				matchedPrefix++
			}
		} else {
			prefixOpen = false
		}
		prev = e.K
	}
	// the expected tokens are exhausted
	if len(run.Toks) > n {
		g := run.Toks[n]
		if exp.ErrClass != "" {
			add("missing-error:"+exp.ErrClass+":got="+g.K+":after="+prev, fmt.Sprintf("the text is lexically invalid after token %d (%s) but the lexer returned %s", n, exp.ErrClass, g))
		} else {
			add("extra:"+g.K+":after="+prev, fmt.Sprintf("the lexer returned %s where EOF was expected", g))
		}
		return fails, st, matchedPrefix
	}
	switch {
	case run.Panic != "":
		add("go-panic:after="+prev, "the lexer panicked: "+run.Panic)
	case run.Budget:
		add("no-termination:after="+prev, fmt.Sprintf("no EOF and no error within %d NextToken calls", run.Calls))
	case exp.ErrClass != "" && run.Err == nil:
		add("missing-error:"+exp.ErrClass+":got=EOF:after="+prev, fmt.Sprintf("the text is lexically invalid after token %d (%s) but the lexer reported EOF", n, exp.ErrClass))
	case exp.ErrClass == "" && run.Err != nil:
		at := "EOF"
		if idx := int(run.Err.Span.Start.Index); idx >= 0 && idx < len(text) {
			at = runeName(text[idx])
		}
		add("lex-error:at="+at+":after="+prev, fmt.Sprintf("the lexer reported an error (%q at %s) where EOF was expected", run.Err.Message, fromLoc(run.Err.Span.Start)))
	case exp.ErrClass == "" && run.EOF != nil:
		if run.EOF.F != fileName {
			add("filename:EOF", fmt.Sprintf("the EOF token's span carries file name %q instead of %q", run.EOF.F, fileName))
		}
	}
	return fails, st, matchedPrefix
}

// posAt computes (line, column) of rune index idx directly from the text (independent of lexref).
func posAt(text []rune, idx int) (line, col int) {
	line, col = 1, 1
	for i := 0; i < idx && i < len(text); i++ {
		if text[i] == '\n' {
			line++
			col = 1
		} else {
			col++
		}
	}
	return
}

// selfConsistent kinds: Value is the lexeme itself.
func valueIsLexeme(kind string) bool {
	switch kind {
	case "String", "Int", "Float", "EOF", "Unknown":
		return false
	}
	return true
}

// intrinsic checks the observed tokens against the text alone (no reference lexer involved):
// every span lies inside the text, is non-empty, its line/column are those of its rune indices,
// spans are disjoint and ascending, and for fixed-spelling tokens the covered text is the value.
func intrinsic(text []rune, run realRun) (fails []fail) {
	add := func(sig, why string) { fails = append(fails, fail{sig, why}) }
	lastEnd := -1
	lastKind := "START"
	for i, g := range run.Toks {
		s, e := g.S[2], g.E[2]
		if s < 0 || e < s || e >= len(text) {
			add("span-range:"+g.K, fmt.Sprintf("token %d (%s): rune range [%d,%d] is not a non-empty range inside the text of %d runes", i, g, s, e, len(text)))
			continue
		}
		if s <= lastEnd {
			add("span-overlap:prev="+lastKind, fmt.Sprintf("token %d (%s) starts at rune %d, not after the end %d of the previous token (%s)", i, g, s, lastEnd, lastKind))
		}
		lastEnd = e
		lastKind = g.K
		if l, c := posAt(text, s); l != g.S[0] || c != g.S[1] {
			add("span-linecol:"+g.K+":start", fmt.Sprintf("token %d (%s): rune %d is at line %d column %d, the span start says %d:%d", i, g, s, l, c, g.S[0], g.S[1]))
		}
		if l, c := posAt(text, e); l != g.E[0] || c != g.E[1] {
			add("span-linecol:"+g.K+":end", fmt.Sprintf("token %d (%s): rune %d is at line %d column %d, the span end says %d:%d", i, g, e, l, c, g.E[0], g.E[1]))
		}
		if valueIsLexeme(g.K) {
			if lex := string(text[s : e+1]); lex != g.V {
				add("span-lexeme:"+g.K, fmt.Sprintf("token %d (%s): its span covers the text %q, which is not its lexeme %q", i, g, lex, g.V))
			}
		}
	}
	return fails
}

// coverage: the union of the observed spans must be exactly the runes that are neither whitespace
// nor comment (skipped is the reference's classification under the accepted reading).
func coverage(text []rune, run realRun, skipped []bool) (fails []fail) {
	covered := make([]int, len(text))
	for _, g := range run.Toks {
		for i := g.S[2]; i <= g.E[2] && i < len(text); i++ {
			if i >= 0 {
				covered[i]++
			}
		}
	}
	for i := range text {
		switch {
		case skipped[i] && covered[i] > 0:
			return []fail{{"coverage:blank-in-token", fmt.Sprintf("rune %d (%s) is whitespace or comment but lies inside a token span", i, runeName(text[i]))}}
		case !skipped[i] && covered[i] == 0:
			return []fail{{"coverage:uncovered", fmt.Sprintf("rune %d (%s) is neither whitespace nor comment but belongs to no token span", i, runeName(text[i]))}}
		case covered[i] > 1:
			return []fail{{"coverage:overlap", fmt.Sprintf("rune %d (%s) belongs to %d token spans", i, runeName(text[i]), covered[i])}}
		}
	}
	return nil
}

// verdictOf is the judgement of one text.
type verdictOf struct {
	Fails       []fail
	OracleBug   string // the expectation by construction and the reference lexer disagree
	Matched     int
	Lenient     int
	Consulted   lexref.Choice // unspecified points met
	AltAccepted lexref.Choice // a non-default reading was needed to agree with the implementation
	RefErr      string
	Kinds       []string
	Run         realRun
	Exp         expectation
}

func sameExp(a, b expectation) bool {
	if a.ErrClass != b.ErrClass || len(a.Toks) != len(b.Toks) {
		return false
	}
	for i := range a.Toks {
		x, y := a.Toks[i], b.Toks[i]
		if x.K != y.K || x.V != y.V || x.S != y.S || x.E != y.E {
			return false
		}
	}
	return true
}

// judge runs the real lexer on the text and decides.
func judge(it item) verdictOf {
	text := []rune(it.Text)
	var v verdictOf
	def := lexref.Lex(it.Text, lexref.Options{})
	defExp := fromRef(def)
	v.Consulted = def.Consulted
	// self-checks of the oracle
	if it.HasExp {
		c := expectation{Toks: it.Exp, ErrClass: it.ExpErr}
		if !sameExp(c, defExp) {
			v.OracleBug = fmt.Sprintf("expectation by construction and reference lexer disagree on %q: constructed [%s] err=%q, lexref [%s] err=%q",
				it.Text, renderToks(c.Toks), c.ErrClass, renderToks(defExp.Toks), defExp.ErrClass)
			return v
		}
	}
	if def.Err == nil {
		// reference tokens + skipped runes partition the text, lexemes are the covered text
		cov := make([]int, len(text))
		for _, t := range def.Tokens {
			if string(text[t.Start.Index:t.End.Index+1]) != t.Lexeme {
				v.OracleBug = "lexref lexeme/span mismatch on " + strconv.Quote(it.Text)
				return v
			}
			for i := t.Start.Index; i <= t.End.Index; i++ {
				cov[i]++
			}
		}
		for i := range text {
			if (cov[i] == 1) == def.Skipped[i] || cov[i] > 1 {
				v.OracleBug = "lexref tokens and skipped runes do not partition " + strconv.Quote(it.Text)
				return v
			}
		}
	}

	run := lexReal(it.Text)
	v.Run = run
	for _, t := range run.Toks {
		v.Kinds = append(v.Kinds, t.K)
	}

	// choose the reading (default first, then alternatives at the unspecified points met)
	type reading struct {
		alt    lexref.Choice
		res    lexref.Result
		exp    expectation
		fails  []fail
		st     cmpStats
		prefix int
	}
	best := reading{alt: 0, res: def, exp: defExp}
	best.fails, best.st, best.prefix = compare(text, run, defExp)
	if len(best.fails) > 0 && def.Consulted != 0 {
		type state struct {
			alt lexref.Choice
			ws  string
		}
		key := func(s state) string { return fmt.Sprintf("%d|%s", s.alt, s.ws) }
		tried := map[string]bool{key(state{}): true}
		var queue []state
		push := func(s state) {
			if k := key(s); !tried[k] {
				tried[k] = true
				queue = append(queue, s)
			}
		}
		successors := func(from state, res lexref.Result) {
			for _, b := range res.Consulted.Bits() {
				if b == lexref.ExoticWhitespace {
					continue // decided per rune below
				}
				if from.alt&b == 0 {
					push(state{from.alt | b, from.ws})
				}
			}
			if res.ExoticAt != 0 {
				push(state{from.alt, from.ws + string(res.ExoticAt)})
			}
		}
		successors(state{}, def)
		for qi := 0; qi < len(queue) && qi < 128; qi++ {
			st := queue[qi]
			res := lexref.Lex(it.Text, lexref.Options{Alt: st.alt, WS: st.ws})
			v.Consulted |= res.Consulted
			r := reading{alt: st.alt, res: res, exp: fromRef(res)}
			if st.ws != "" {
				r.alt |= lexref.ExoticWhitespace
			}
			r.fails, r.st, r.prefix = compare(text, run, r.exp)
			if len(r.fails) == 0 || (len(best.fails) > 0 && r.prefix > best.prefix) {
				best = r
			}
			if len(r.fails) == 0 {
				break
			}
			successors(st, res)
		}
	}
	v.Exp = best.exp
	v.Matched = best.st.matched
	v.Lenient = best.st.lenientNumber
	v.RefErr = best.exp.ErrClass
	if len(best.fails) == 0 {
		v.AltAccepted = best.alt
	}
	v.Fails = best.fails
	if best.res.Consulted&lexref.UnterminatedBlockComment != 0 {
		// the text ends inside a block comment: say so in the signature of what goes wrong at its end
		for i, f := range v.Fails {
			if strings.HasPrefix(f.Sig, "extra:") || strings.HasPrefix(f.Sig, "missing-error:") || strings.HasPrefix(f.Sig, "kind:") || strings.HasPrefix(f.Sig, "lex-error:") {
				v.Fails[i].Sig += ":in=unterminated-block-comment"
			}
		}
	}
	// checks that do not depend on the reference's tokens
	v.Fails = append(v.Fails, intrinsic(text, run)...)
	if len(best.fails) == 0 && run.Err == nil && run.EOF != nil {
		v.Fails = append(v.Fails, coverage(text, run, best.res.Skipped)...)
	}
	// dedupe by signature
	seen := map[string]bool{}
	out := v.Fails[:0]
	for _, f := range v.Fails {
		if !seen[f.Sig] {
			seen[f.Sig] = true
			out = append(out, f)
		}
	}
	v.Fails = out
	return v
}
