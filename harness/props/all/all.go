// Package all links every property implementation into the hv binary.
package all

import (
	_ "hv/props/c01"
	_ "hv/props/c02"
	_ "hv/props/c03"
	_ "hv/props/c04"
	_ "hv/props/c05"
	_ "hv/props/c06"
	_ "hv/props/c07"
	_ "hv/props/c08"
	_ "hv/props/c09"
	_ "hv/props/c10"
	_ "hv/props/c11"
	_ "hv/props/c12"
	_ "hv/props/c13"
	_ "hv/props/c14"
	_ "hv/props/c15"
	_ "hv/props/c16"
	_ "hv/props/c17"
	_ "hv/props/c18"
	_ "hv/props/c19"
	_ "hv/props/c20"
)
