// Package c01 checks property C01 (compiled execution is faithful to the source program) and
// hosts the shared generated-program runner used by C02/C04.
package c01

import (
	"fmt"
	"strings"

	vvalue "github.com/smarthome-go/homescript/v3/homescript/runtime/value"

	"hv/drive"
	"hv/fw"
	"hv/prog"
	"hv/util"
)

type c01 struct{}

func init() { fw.Register(c01{}) }

func (c01) ID() string { return "C01" }

func (c01) Info(tier string) fw.Info {
	return fw.Info{
		Level: "exploration",
		Rule: "seeded type-directed generator of well-typed programs (all non-poisoned features: int/float/bool/str operators with boundary operands, casts, lists/objects by reference, options, blocks/if/match/try as values, loops with break/continue, functions, recursion, globals, shadowing, same-function exceptions, intended fatal errors) plus the shipped tests/*.hms; " +
			"each program is analysed by the real analyzer, compiled, run on the VM with an effect-logging host and compared with an independent reference evaluator (effects + outcome class/kind/message) and with the residue invariant (stack, frames, memory pointer, handlers all zero at exit). " +
			"non-trivial = accepted by the analyzer, not discarded by the model and producing at least 3 trace lines; distinct = distinct source text",
		Assumptions: []string{
			"the reference evaluator (harness/prog/eval.go) is the reading of the source-level semantics listed in the property",
			"float text rendering is mirrored from the implementation (Go %v), not specified",
			"constructs poisoned by open known findings are exercised only by their witnesses and the poisoned workload",
		},
		CaseTimeoutS: 60,
		BatchSize:    150,
	}
}

// Payload of a generated-program case.
type Payload struct {
	Seed   uint64 `json:"seed"`
	Size   int    `json:"size"`
	Preset string `json:"preset"`
	// Source: literal program instead of a generated one (corpus / witnesses). Expect is the
	// expected effects rendering, ExpectOutcome the expected outcome string.
	Source        map[string]string `json:"source,omitempty"`
	Expect        *string           `json:"expect,omitempty"`
	ExpectOutcome string            `json:"expect_outcome,omitempty"`
}

// Features returns the feature set of a preset. "main" switches off everything an open finding
// poisons; "poison:<feature>" turns exactly one poisoned feature on.
func Features(preset string) prog.Features {
	f := prog.AllFeatures()
	// poisons (DESIGN.md §2.9): each line names the finding that makes the construct unusable
	f.ExcAcrossCalls = !fw.KFOpen("KF-vm-unwind")
	f.ExitFromTry = !fw.KFOpen("KF-vm-unwind")
	f.ExprCtxExits = !fw.KFOpen("KF-vm-expr-exit-leak")
	f.MatchFallthru = !fw.KFOpen("KF-vm-match-leak")
	f.SideEffectArgs = !fw.KFOpen("KF-vm-arg-order")
	f.DigitNames = !fw.KFOpen("KF-compiler-mangle-collision")
	f.ElemAliasing = !fw.KFOpen("KF-vm-scalar-alias")
	f.NullLiteral = !fw.KFOpen("KF-vm-null-literal-leak")
	f.ClosureCapture = !fw.KFOpen("KF-vm-closure-capture")
	if preset == "shared" {
		// the language both backends implement: no trigger statements (C04)
		f.Triggers = false
	}
	if strings.HasPrefix(preset, "poison:") {
		switch strings.TrimPrefix(preset, "poison:") {
		case "DigitNames":
			f.DigitNames = true
		case "SideEffectArgs":
			f.SideEffectArgs = true
		case "ElemAliasing":
			f.ElemAliasing = true
		case "ClosureCapture":
			f.ClosureCapture = true
		}
	}
	return f
}

// Build regenerates the program of a payload.
func Build(p Payload) (*prog.Program, map[string]bool) {
	g := &prog.Gen{R: fw.NewRng(p.Seed), F: Features(p.Preset)}
	pr := g.Program(p.Size)
	return pr, g.Cover
}

func (c01) Cases(tier string, seed uint64) []fw.Case {
	n := 3000
	if tier == "thorough" {
		n = 100000
	}
	r := fw.NewRng(seed ^ 0xC01)
	var cases []fw.Case
	for i := 0; i < n; i++ {
		pl := Payload{Seed: r.Next(), Size: 6 + r.Intn(14), Preset: "main"}
		pr, _ := Build(pl)
		cases = append(cases, fw.MkCase(fmt.Sprintf("c01-gen-%d", i), "gen", pl, prog.Hazards(pr)...))
	}
	// poisoned workloads: one poisoned feature at a time, tagged so that only the matching
	// known finding can absorb their failures
	np := 150
	if tier == "thorough" {
		np = 3000
	}
	for _, ps := range []struct{ preset, tag, kf string }{
		{"poison:SideEffectArgs", "side-effect-args", "KF-vm-arg-order"},
		{"poison:ClosureCapture", "closure-capture", "KF-vm-closure-capture"},
	} {
		if !fw.KFOpen(ps.kf) {
			continue // not poisoned: the feature is part of the main workload
		}
		for i := 0; i < np; i++ {
			pl := Payload{Seed: r.Next(), Size: 6 + r.Intn(10), Preset: ps.preset}
			pr, _ := Build(pl)
			cases = append(cases, fw.MkCase(fmt.Sprintf("c01-%s-%d", ps.tag, i), "gen-poisoned", pl, prog.Hazards(pr)...))
		}
	}
	return cases
}

// Compare runs the program on the VM and compares with the model. Returns the failure
// description ("" when equal), a signature, and the observations.
type Obs struct {
	Src        map[string]string
	Model      prog.Result
	VM         drive.VMRun
	TraceLines int
	Rejected   string
}

// RunVMAgainstModel is the core of C01.
func RunVMAgainstModel(pr *prog.Program, limits *drive.VMOpts) (why, sig string, o Obs) {
	o.Src = pr.Source()
	ao := drive.Analyze(o.Src, pr.Entry, true)
	if ao.Errors > 0 {
		o.Rejected = ao.ErrorSummary()
		return "", "", o
	}
	// host-provided singleton values: for every second program that declares a singleton
	var hostModel map[string]prog.Value
	var hostVM map[string]vvalue.Value
	for _, m := range pr.Modules {
		for _, sg := range m.Singletons {
			if len(o.Src[pr.Entry])%2 == 0 && sg.T.K == prog.TInt {
				n := int64(len(o.Src[pr.Entry]) % 97)
				if hostModel == nil {
					hostModel, hostVM = map[string]prog.Value{}, map[string]vvalue.Value{}
				}
				hostModel[sg.Name] = n
				hostVM[sg.Name] = *vvalue.NewValueInt(n)
			}
		}
	}
	o.Model = prog.Run(pr, hostModel, 0)
	if o.Model.Discard {
		return "", "", o
	}
	opts := drive.VMOpts{}
	if limits != nil {
		opts = *limits
	}
	opts.Singletons = hostVM
	o.VM = drive.RunVM(ao.Modules, o.Src, pr.Entry, opts)
	o.TraceLines = strings.Count(o.Model.Effects, "\n")
	got := o.VM.Log.Render()
	if got != o.Model.Effects {
		return fmt.Sprintf("effects differ at byte %d:\n--- model\n%s\n--- vm\n%s", diffAt(o.Model.Effects, got), util.Clip(o.Model.Effects, 1500), util.Clip(got, 1500)), "effects", o
	}
	mo := o.Model
	vo := o.VM.Outcome
	switch {
	case mo.Class == "ok" && vo.Class != "ok":
		return fmt.Sprintf("model completes normally, VM ends with %s", vo), "outcome:ok-vs-" + vo.Class + "/" + vo.Kind, o
	case mo.Class == "fatal" && (vo.Class != "fatal" || vo.Kind != mo.Kind):
		return fmt.Sprintf("model ends with fatal/%s (%s), VM with %s", mo.Kind, mo.Message, vo), "outcome:" + mo.Kind + "-vs-" + vo.Class + "/" + vo.Kind, o
	case mo.Class == "fatal" && mo.Kind == "UncaughtThrow" && vo.Message != mo.Message:
		return fmt.Sprintf("uncaught throw message: model %q, VM %q", mo.Message, vo.Message), "outcome:throw-message", o
	}
	if vo.Class == "ok" {
		for _, rs := range o.VM.Residues {
			if rs.Stack != 0 || rs.CallStack != 0 || rs.MP != 0 || rs.Handlers != 0 {
				return fmt.Sprintf("residue after normal completion: %+v", rs), "residue", o
			}
		}
	}
	return "", "", o
}

func diffAt(a, b string) int {
	n := len(a)
	if len(b) < n {
		n = len(b)
	}
	for i := 0; i < n; i++ {
		if a[i] != b[i] {
			return i
		}
	}
	return n
}

// RunLiteral runs a literal program (corpus file / witness) on the VM and compares with the
// recorded expectation.
func RunLiteral(p Payload) fw.Result {
	res := fw.Result{Verdict: fw.Held, Nontrivial: true}
	ao := drive.Analyze(p.Source, "main", true)
	if ao.Errors > 0 {
		res.Verdict, res.Sig, res.Why = fw.Violated, "literal-rejected", "literal program rejected: "+ao.ErrorSummary()
		return res
	}
	vm := drive.RunVM(ao.Modules, p.Source, "main", drive.VMOpts{})
	got := vm.Log.Render()
	if p.Expect != nil && got != *p.Expect {
		res.Verdict, res.Sig = fw.Violated, "vm:effects"
		res.Why = fmt.Sprintf("effects differ:\n--- expected\n%s\n--- vm\n%s", util.Clip(*p.Expect, 1500), util.Clip(got, 1500))
		return res
	}
	if p.ExpectOutcome != "" && vm.Outcome.String() != p.ExpectOutcome {
		res.Verdict, res.Sig = fw.Violated, "vm:outcome"
		res.Why = fmt.Sprintf("outcome: expected %s, VM %s", p.ExpectOutcome, vm.Outcome)
		return res
	}
	if vm.Outcome.Class == "ok" {
		for _, rs := range vm.Residues {
			if rs.Stack != 0 || rs.CallStack != 0 || rs.MP != 0 || rs.Handlers != 0 {
				res.Verdict, res.Sig, res.Why = fw.Violated, "vm:residue", fmt.Sprintf("residue after normal completion: %+v", rs)
				return res
			}
		}
	}
	return res
}

func (c01) Run(c fw.Case) fw.Result {
	var p Payload
	fw.Decode(c, &p)
	if p.Source != nil {
		return RunLiteral(p)
	}
	pr, cover := Build(p)
	why, sig, o := RunVMAgainstModel(pr, nil)
	res := fw.Result{Verdict: fw.Held, Hash: fw.HashOf(o.Src)}
	for k := range cover {
		res.Cover = append(res.Cover, k)
	}
	if o.Rejected != "" {
		res.Verdict = fw.Violated
		res.Sig = "generator-program-rejected"
		res.Why = "the analyzer rejects a generator program (C03 event): " + o.Rejected
		res.Detail = o.Src
		return res
	}
	if o.Model.Discard {
		res.Cover = append(res.Cover, "model-discarded")
		return res
	}
	res.Nontrivial = o.TraceLines >= 3
	res.Obs = map[string]int64{"vm_steps": o.VM.Steps, "trace_lines": int64(o.TraceLines), "catches": o.VM.Catches}
	res.Cover = append(res.Cover, "outcome:"+o.Model.Class+"/"+o.Model.Kind)
	if why != "" {
		res.Verdict = fw.Violated
		res.Sig = "vm:" + sig
		res.Why = why
		res.Detail = map[string]any{"source": o.Src, "model": o.Model, "vm_outcome": o.VM.Outcome.String()}
	}
	if p.Seed%97 == 0 {
		res.Sample = map[string]any{"source": o.Src["main"], "model_effects": util.Clip(o.Model.Effects, 400), "outcome": o.Model.Class + "/" + o.Model.Kind}
	}
	return res
}

func (c01) OnCrash(c fw.Case, cr fw.Crash) fw.Result {
	var p Payload
	fw.Decode(c, &p)
	pr, _ := Build(p)
	if cr.Kind == "watchdog" || cr.Kind == "killed" {
		return fw.Result{Verdict: fw.Inconclusive, Why: cr.Kind + ": " + cr.Message}
	}
	return fw.Result{Verdict: fw.Violated, Nontrivial: true,
		Sig:    fmt.Sprintf("vm:%s:%s:%s", cr.Kind, util.NormPanic(cr.Message), cr.TopFrame),
		Why:    fmt.Sprintf("worker died running a generated program on the VM (%s: %s) at %s", cr.Kind, util.Clip(cr.Message, 300), cr.TopFrame),
		Detail: map[string]any{"source": pr.Source(), "crash": cr}}
}
