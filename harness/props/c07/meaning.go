package c07

// meaning.go: "adding parentheses around an operand that is already a single node never changes
// the tree's meaning", observed where the analyzer and the back ends treat an operand according
// to the position it stands in: an `any` value under a cast or an annotated let, a callee, an
// indexed or iterated value, the subject of a match, a condition, an assignment target's base.
// The parser-level workloads compare trees; here whole programs are analysed and run on both
// back ends, once with the bare operand and once per parenthesised spelling, and every spelling
// must be accepted and print what the bare one prints.

import (
	"fmt"
	"strings"

	"hv/drive"
	"hv/util"
)

type meaningForm struct {
	name string
	// stmts with the placeholder @E@ standing for the operand
	stmts string
	// operands: single nodes (call, member call, identifier, index, literal)
	operands []string
}

const meaningPrelude = `import any_func from testing;
fn two() -> int { 2 }
fn ident(x: int) -> int { x }
fn main() {
    let o: { ? } = new { ? };
    o.set("k", 7);
    let l: [int] = [4, 5, 6];
    let la: [any] = [1, 2];
    let obj = new { f: 3, g: [8, 9] };
    let n = 5;
    let c = true;
    let f = ident;
`

var anyOperands = []string{`any_func()`, `"5".parse_json()`, `o.get("k").unwrap()`, `la[0]`, `la.last().unwrap()`}

var meaningForms = []meaningForm{
	{"any-cast-let", `let a = @E@ as int; println(a + 1);`, anyOperands},
	{"any-annotated-let", `let a: int = @E@; println(a + 1);`, anyOperands},
	{"any-cast-operand", `println((@E@ as int) + 1);`, anyOperands},
	{"any-cast-argument", `println(ident(@E@ as int));`, anyOperands},
	{"any-cast-list", `let q = [@E@ as int, 1]; println(q);`, anyOperands},
	{"any-cast-assign", `let a = 0; a = @E@ as int; println(a);`, anyOperands},
	{"any-cast-cond", `if (@E@ as int) > 0 { println("pos"); } else { println("neg"); }`, anyOperands},
	{"any-cast-float", `let a = @E@ as float; println(a);`, anyOperands},
	{"callee", `println(@E@(3));`, []string{`ident`, `f`}},
	{"callee-noarg", `println(@E@() + 1);`, []string{`two`}},
	{"indexed", `println(@E@[1]);`, []string{`l`, `obj.g`, `[7, 8, 9]`}},
	{"index", `println(l[@E@]);`, []string{`1`, `two()`, `obj.f - 2`}},
	{"member-base", `println(@E@.len());`, []string{`l`, `obj.g`, `"abc"`}},
	{"field-base", `println(@E@.f);`, []string{`obj`}},
	{"iterated", `for i in @E@ { println(i); }`, []string{`l`, `0..3`, `obj.g`}},
	{"range-ends", `for i in @E@..(@E@ + 2) { println(i); }`, []string{`1`, `n`, `two()`}},
	{"match-subject", `println(match @E@ { 5 => "five", 2 => "two", _ => "other" });`, []string{`n`, `two()`, `l[1]`}},
	{"if-cond", `if @E@ { println("yes"); } else { println("no"); }`, []string{`c`, `true`, `l.contains(5)`}},
	{"while-cond", `let k = 0; while @E@ { k += 1; if k > 2 { break; } } println(k);`, []string{`c`, `true`}},
	{"assign-target-base", `@E@[0] = 9; println(l);`, []string{`l`}},
	{"assign-field-base", `@E@.f = 9; println(obj.f);`, []string{`obj`}},
	{"compound-rhs", `let a = 1; a += @E@; println(a);`, []string{`n`, `two()`, `l[2]`}},
	{"return-value", `let g = fn() -> int { return @E@; }; println(g());`, []string{`3`, `two()`}},
	{"prefix-operand", `println(-@E@, !(@E@ > 0));`, []string{`n`, `two()`, `l[0]`}},
	{"pow-operands", `println(@E@ ** @E@);`, []string{`2`, `two()`}},
	{"option-some", `let s = ?@E@; println(s.unwrap());`, []string{`n`, `two()`}},
	{"spawn-callee-arg", `let h = spawn ident(@E@); println("spawned");`, []string{`n`, `two()`}},
	{"string-operand", `println(@E@ + "!");`, []string{`"a"`, `n.to_string()`}},
	{"obj-literal-field", `let z = new { a: @E@ }; println(z.a);`, []string{`n`, `two()`, `l[1]`}},
	{"try-value", `println(try { @E@ } catch e { 0 });`, []string{`n`, `two()`}},
}

// parenSpellings of an operand text: the bare form first.
func parenSpellings(e string) []string {
	return []string{e, "(" + e + ")", "((" + e + "))", "( " + e + " )", "(/* group */" + e + ")", "(\n" + e + "\n)"}
}

func (w *work) meaning() {
	p := w.p
	var form *meaningForm
	for i := range meaningForms {
		if meaningForms[i].name == p.Name {
			form = &meaningForms[i]
		}
	}
	if form == nil {
		w.a.broken = "unknown meaning form " + p.Name
		return
	}
	type obs struct{ rejected, vm, tree string }
	observe := func(operand string) (obs, string) {
		src := meaningPrelude + "    " + strings.ReplaceAll(form.stmts, "@E@", operand) + "\n}\n"
		srcs := drive.Sources{"main": src}
		ao := drive.Analyze(srcs, "main", true)
		w.a.evals++
		w.a.obs["sources_parsed"]++
		if ao.Errors > 0 {
			return obs{rejected: util.Clip(ao.ErrorSummary(), 300)}, src
		}
		vm := drive.RunVM(ao.Modules, srcs, "main", drive.VMOpts{})
		tr := drive.RunTree(ao.Modules, srcs, "main", drive.TreeOpts{StepBudget: 200000})
		w.a.evals += 2
		return obs{vm: vm.Outcome.String() + "\n" + vm.Log.Output(), tree: tr.Outcome.String() + "\n" + tr.Log.Output()}, src
	}
	for _, operand := range form.operands {
		sp := parenSpellings(operand)
		base, baseSrc := observe(sp[0])
		w.a.example = util.Clip(baseSrc, 600)
		if base.rejected != "" {
			// the bare form is not a program of the language under these declarations: nothing to compare
			w.a.cover["meaning:base-rejected:"+form.name] = true
			continue
		}
		w.a.cover["meaning:"+form.name] = true
		for _, s := range sp[1:] {
			got, src := observe(s)
			w.a.obs["variants_compared"]++
			w.a.multiOp, w.a.varied = true, true
			detail := map[string]any{"workload": "meaning", "form": form.name, "base_source": baseSrc, "source": src}
			switch {
			case got.rejected != "":
				w.a.fail("meaning:rejected:"+form.name, fmt.Sprintf("parentheses around the single node %s change the meaning of the program: with the bare operand it is accepted and runs, spelled %q the analyzer rejects it (%s); form %q", operand, s, got.rejected, form.stmts), detail)
			case got.vm != base.vm:
				w.a.fail("meaning:vm-differs:"+form.name, fmt.Sprintf("parentheses around the single node %s change what the VM does: bare %q, spelled %q -> %q; form %q", operand, base.vm, s, got.vm, form.stmts), detail)
			case got.tree != base.tree:
				w.a.fail("meaning:tree-differs:"+form.name, fmt.Sprintf("parentheses around the single node %s change what the interpreter does: bare %q, spelled %q -> %q; form %q", operand, base.tree, s, got.tree, form.stmts), detail)
			}
		}
	}
}
