package c07

import (
	"fmt"
	"runtime/debug"
	"strings"

	hms "github.com/smarthome-go/homescript/v3/homescript"
	"github.com/smarthome-go/homescript/v3/homescript/parser/ast"

	"hv/exprgen"
	"hv/fw"
	"hv/util"
)

// ---------------------------------------------------------------------------------------------
// Contexts: where the expression under test is placed inside a program
// ---------------------------------------------------------------------------------------------

type context struct {
	name      string
	pre, post []string
	extract   func(p ast.Program) (ast.Expression, bool)
}

func split(s string) []string { return strings.Fields(s) }

func mainStmt(p ast.Program, i int) (ast.Statement, bool) {
	if len(p.Functions) != 1 || len(p.Functions[0].Body.Statements) <= i {
		return nil, false
	}
	return p.Functions[0].Body.Statements[i], true
}

func mainStmtExpr(p ast.Program, i int) (ast.Expression, bool) {
	s, ok := mainStmt(p, i)
	if !ok {
		return nil, false
	}
	es, ok := s.(ast.ExpressionStatement)
	if !ok {
		return nil, false
	}
	return es.Expression, true
}

func ungroup(e ast.Expression) ast.Expression {
	for {
		g, ok := e.(ast.GroupedExpression)
		if !ok {
			return e
		}
		e = g.Inner
	}
}

var contexts = []context{
	{"stmt", split("fn main ( ) {"), split("; }"), func(p ast.Program) (ast.Expression, bool) { return mainStmtExpr(p, 0) }},
	{"let", split("fn main ( ) { let v ="), split("; }"), func(p ast.Program) (ast.Expression, bool) {
		s, ok := mainStmt(p, 0)
		if !ok {
			return nil, false
		}
		l, ok := s.(ast.LetStatement)
		return l.Expression, ok
	}},
	{"ret", split("fn main ( ) { return"), split("; }"), func(p ast.Program) (ast.Expression, bool) {
		s, ok := mainStmt(p, 0)
		if !ok {
			return nil, false
		}
		l, ok := s.(ast.ReturnStatement)
		return l.Expression, ok
	}},
	{"tail", split("fn main ( ) {"), split("}"), func(p ast.Program) (ast.Expression, bool) {
		if len(p.Functions) != 1 || len(p.Functions[0].Body.Statements) != 0 {
			return nil, false
		}
		return p.Functions[0].Body.Expression, p.Functions[0].Body.Expression != nil
	}},
	{"arg", split("fn main ( ) { f ( z ,"), split(") ; }"), func(p ast.Program) (ast.Expression, bool) {
		e, ok := mainStmtExpr(p, 0)
		if !ok {
			return nil, false
		}
		c, ok := e.(ast.CallExpression)
		if !ok || len(c.Arguments.List) != 2 {
			return nil, false
		}
		return c.Arguments.List[1], true
	}},
	{"elem", split("fn main ( ) { ["), split(", z ] ; }"), func(p ast.Program) (ast.Expression, bool) {
		e, ok := mainStmtExpr(p, 0)
		if !ok {
			return nil, false
		}
		c, ok := e.(ast.ListLiteralExpression)
		if !ok || len(c.Values) != 2 {
			return nil, false
		}
		return c.Values[0], true
	}},
	{"idx", split("fn main ( ) { z ["), split("] ; }"), func(p ast.Program) (ast.Expression, bool) {
		e, ok := mainStmtExpr(p, 0)
		if !ok {
			return nil, false
		}
		c, ok := e.(ast.IndexExpression)
		return c.Index, ok
	}},
	{"grp", split("fn main ( ) { ("), split(") ; }"), func(p ast.Program) (ast.Expression, bool) {
		e, ok := mainStmtExpr(p, 0)
		if !ok {
			return nil, false
		}
		c, ok := e.(ast.GroupedExpression)
		return c.Inner, ok
	}},
	{"while", split("fn main ( ) { while"), split("{ } }"), func(p ast.Program) (ast.Expression, bool) {
		s, ok := mainStmt(p, 0)
		if !ok {
			return nil, false
		}
		l, ok := s.(ast.WhileStatement)
		return l.Condition, ok
	}},
	{"if", split("fn main ( ) { if"), split("{ } ; }"), func(p ast.Program) (ast.Expression, bool) {
		e, ok := mainStmtExpr(p, 0)
		if !ok {
			return nil, false
		}
		c, ok := e.(ast.IfExpression)
		return c.Condition, ok
	}},
	{"objval", split("fn main ( ) { new { k :"), split("} ; }"), func(p ast.Program) (ast.Expression, bool) {
		e, ok := mainStmtExpr(p, 0)
		if !ok {
			return nil, false
		}
		c, ok := e.(ast.ObjectLiteralExpression)
		if !ok || len(c.Fields) != 1 {
			return nil, false
		}
		return c.Fields[0].Expression, true
	}},
	{"glob", split("let g ="), split("; fn main ( ) { }"), func(p ast.Program) (ast.Expression, bool) {
		if len(p.Globals) != 1 {
			return nil, false
		}
		return p.Globals[0].Expression, true
	}},
	{"matcharm", split("fn main ( ) { match z { 1 =>"), split(", _ => 0 } ; }"), func(p ast.Program) (ast.Expression, bool) {
		e, ok := mainStmtExpr(p, 0)
		if !ok {
			return nil, false
		}
		m, ok := e.(ast.MatchExpression)
		if !ok || len(m.Arms) != 2 {
			return nil, false
		}
		return m.Arms[0].Action, true
	}},
	{"matchctl", split("fn main ( ) { match"), split("{ } ; }"), func(p ast.Program) (ast.Expression, bool) {
		e, ok := mainStmtExpr(p, 0)
		if !ok {
			return nil, false
		}
		m, ok := e.(ast.MatchExpression)
		return m.ControlExpression, ok
	}},
	{"forin", split("fn main ( ) { for i in"), split("{ } }"), func(p ast.Program) (ast.Expression, bool) {
		s, ok := mainStmt(p, 0)
		if !ok {
			return nil, false
		}
		f, ok := s.(ast.ForStatement)
		return f.IterExpression, ok
	}},
	{"fnlit", split("fn main ( ) { let f = fn ( ) -> int {"), split("} ; }"), func(p ast.Program) (ast.Expression, bool) {
		s, ok := mainStmt(p, 0)
		if !ok {
			return nil, false
		}
		l, ok := s.(ast.LetStatement)
		if !ok {
			return nil, false
		}
		f, ok := l.Expression.(ast.FunctionLiteralExpression)
		if !ok || len(f.Body.Statements) != 0 {
			return nil, false
		}
		return f.Body.Expression, f.Body.Expression != nil
	}},
	{"elseif", split("fn main ( ) { if z { } else if"), split("{ } ; }"), func(p ast.Program) (ast.Expression, bool) {
		e, ok := mainStmtExpr(p, 0)
		if !ok {
			return nil, false
		}
		i, ok := e.(ast.IfExpression)
		if !ok || i.ElseBlock == nil {
			return nil, false
		}
		i2, ok := i.ElseBlock.Expression.(ast.IfExpression)
		return i2.Condition, ok
	}},
	{"spawnarg", split("fn main ( ) { spawn f ("), split(") ; }"), func(p ast.Program) (ast.Expression, bool) {
		e, ok := mainStmtExpr(p, 0)
		if !ok {
			return nil, false
		}
		c, ok := e.(ast.CallExpression)
		if !ok || !c.IsSpawn || len(c.Arguments.List) != 1 {
			return nil, false
		}
		return c.Arguments.List[0], true
	}},
	{"trigarg", split("fn main ( ) { trigger cb on ev ("), split(") ; }"), func(p ast.Program) (ast.Expression, bool) {
		s, ok := mainStmt(p, 0)
		if !ok {
			return nil, false
		}
		t, ok := s.(ast.TriggerStatement)
		if !ok || len(t.EventArguments.List) != 1 {
			return nil, false
		}
		return t.EventArguments.List[0], true
	}},
	{"blocktail", split("fn main ( ) { let v = {"), split("} ; }"), func(p ast.Program) (ast.Expression, bool) {
		s, ok := mainStmt(p, 0)
		if !ok {
			return nil, false
		}
		l, ok := s.(ast.LetStatement)
		if !ok {
			return nil, false
		}
		b, ok := l.Expression.(ast.BlockExpression)
		if !ok || len(b.Block.Statements) != 0 {
			return nil, false
		}
		return b.Block.Expression, b.Block.Expression != nil
	}},
}

func ctxByName(name string) *context {
	for i := range contexts {
		if contexts[i].name == name {
			return &contexts[i]
		}
	}
	return &contexts[0]
}

// ---------------------------------------------------------------------------------------------
// Running the real parser
// ---------------------------------------------------------------------------------------------

type parsed struct {
	prog    ast.Program
	ok      bool   // no hard error, no soft errors, no panic
	class   string // ok | hard:<msg> | soft:<msg> | go-panic:<msg>
	message string
	dump    string
	frames  string
}

const invalidLHS = "Invalid left-hand side of assignment"

func parse(src string) (out parsed) {
	defer func() {
		if r := recover(); r != nil {
			out = parsed{class: "go-panic:" + util.NormPanic(fmt.Sprint(r)), message: fmt.Sprint(r), frames: repoFrame(string(debug.Stack()))}
		}
	}()
	prog, soft, hard := hms.Parse(src, "main")
	switch {
	case hard != nil:
		return parsed{class: "hard:" + normMsg(hard.Message), message: hard.Message}
	case len(soft) > 0:
		return parsed{prog: prog, class: "soft:" + normMsg(soft[0].Message), message: soft[0].Message}
	}
	return parsed{prog: prog, ok: true, class: "ok", dump: exprgen.Dump(prog)}
}

func repoFrame(stack string) string {
	for _, l := range strings.Split(stack, "\n") {
		if i := strings.Index(l, "homescript/v3/homescript/"); i >= 0 && !strings.HasPrefix(l, "\t") {
			f := l[i+len("homescript/v3/homescript/"):]
			if j := strings.LastIndex(f, "("); j > 0 {
				f = f[:j]
			}
			return f
		}
	}
	return ""
}

// normMsg keeps the stable part of a syntax error message (drops quoted token texts).
func normMsg(m string) string {
	m = util.NormPanic(m)
	return m
}

// ---------------------------------------------------------------------------------------------
// Verdict accumulation for one case (a case bundles many micro-checks)
// ---------------------------------------------------------------------------------------------

type acc struct {
	res     fw.Result
	fails   []fw.SubViolation
	cover   map[string]bool
	obs     map[string]int64
	evals   int64
	multiOp bool // an intended tree with >= 2 table constructs was compared
	varied  bool // a variant differing textually from the base was compared
	broken  string
	example string
}

func newAcc() *acc { return &acc{cover: map[string]bool{}, obs: map[string]int64{}} }

func (a *acc) fail(sig, why string, detail any) {
	if len(a.fails) < 12 {
		a.fails = append(a.fails, fw.SubViolation{Why: why, Sig: sig, Detail: detail})
	}
	a.obs["failures"]++
}

func (a *acc) result() fw.Result {
	r := fw.Result{Verdict: fw.Held, Evals: a.evals, Obs: a.obs}
	for k := range a.cover {
		r.Cover = append(r.Cover, k)
	}
	sortStrings(r.Cover)
	r.Nontrivial = a.multiOp && a.varied
	if a.broken != "" {
		r.Verdict = fw.Inconclusive
		r.Why = "harness self-check failed: " + a.broken
		r.Cover = append(r.Cover, "harness-selfcheck-failed")
		r.Nontrivial = false
		return r
	}
	if len(a.fails) > 0 {
		r.Verdict = fw.Violated
		r.Why, r.Sig, r.Detail = a.fails[0].Why, a.fails[0].Sig, a.fails[0].Detail
		// keep one representative per signature
		seen := map[string]bool{r.Sig: true}
		for _, f := range a.fails[1:] {
			if !seen[f.Sig] {
				seen[f.Sig] = true
				r.More = append(r.More, f)
			}
		}
	}
	return r
}

func sortStrings(xs []string) {
	for i := 1; i < len(xs); i++ {
		for j := i; j > 0 && xs[j] < xs[j-1]; j-- {
			xs[j], xs[j-1] = xs[j-1], xs[j]
		}
	}
}

// firstDiff returns the top-most pair of differing nodes.
func firstDiff(want, got *exprgen.Node) (w, g *exprgen.Node) {
	if want == nil || got == nil {
		return want, got
	}
	if want.K != got.K || want.Op != got.Op || want.I != got.I || want.F != got.F || want.B != got.B || len(want.Kids) != len(got.Kids) || len(want.Keys) != len(got.Keys) {
		return want, got
	}
	for i := range want.Keys {
		if want.Keys[i] != got.Keys[i] {
			return want, got
		}
	}
	for i := range want.Kids {
		if !exprgen.Equal(want.Kids[i], got.Kids[i]) {
			return firstDiff(want.Kids[i], got.Kids[i])
		}
	}
	return nil, nil
}

func headOf(n *exprgen.Node) string {
	if n == nil {
		return "nil"
	}
	switch n.K {
	case exprgen.KBin, exprgen.KAssign, exprgen.KPrefix:
		return n.K + n.Op
	case exprgen.KCast:
		return "cast"
	case exprgen.KInt, exprgen.KIdent, exprgen.KStr, exprgen.KFloat, exprgen.KBool, exprgen.KMember:
		return n.K
	case exprgen.KList, exprgen.KCall, exprgen.KObj:
		return fmt.Sprintf("%s/%d", n.K, len(n.Kids))
	}
	return n.K
}

// variant is one program text derived from the same intended tree.
type variant struct {
	src  string
	kind string // base | layout:<style> | tokens (redundant parentheses / trailing commas) | …
}

// judgeExpr checks one intended tree against the programs printed from it.
//
//	(1) every program parses to the intended tree (GroupedExpression stripped, spans ignored);
//	(2) all programs give the same whole-program tree;
//
// For trees whose assignment targets are not plain (identifier / index / member) the parser's
// "Invalid left-hand side of assignment" rejection is accepted as well (the grammar allows any
// expression there, the parser is stricter; the property only speaks about the tree that is built).
func (a *acc) judgeExpr(gen string, want *exprgen.Node, ctx *context, vs []variant) {
	a.judgeExprOpt(gen, want, ctx, vs, false)
}

// judgeExprOpt: with layoutOnly the intended tree is not demanded (the construct is outside what
// the operator table fixes); every rendering must still be accepted and give the base's tree.
func (a *acc) judgeExprOpt(gen string, want *exprgen.Node, ctx *context, vs []variant, layoutOnly bool) {
	plain := want.PlainAssignTargets()
	if a.example == "" || want.CountOps() >= 3 {
		a.example = vs[len(vs)-1].src
	}
	var base parsed
	for i, v := range vs {
		p := parse(v.src)
		a.evals++
		a.obs["sources_parsed"]++
		detail := func(extra map[string]any) map[string]any {
			d := map[string]any{"workload": gen, "ctx": ctx.name, "variant": v.kind, "source": v.src, "base_source": vs[0].src, "intended": want.Sexp(), "outcome": p.class}
			for k, x := range extra {
				d[k] = x
			}
			return d
		}
		if i == 0 {
			base = p
		}
		if strings.HasPrefix(p.class, "go-panic") {
			a.fail(fmt.Sprintf("go-panic:%s:%s", strings.TrimPrefix(p.class, "go-panic:"), p.frames), fmt.Sprintf("the parser panicked (%s) on %q", p.message, util.Clip(v.src, 300)), detail(nil))
			continue
		}
		if !p.ok {
			if !plain && p.message == invalidLHS {
				a.obs["rejected_nonplain_target"]++
			} else {
				a.fail("reject:"+gen+":"+variantClass(v.kind)+":"+p.class, fmt.Sprintf("a grammatical expression was rejected (%s): %q; intended tree %s", p.message, util.Clip(v.src, 300), want.Sexp()), detail(nil))
				continue
			}
		} else if layoutOnly {
			a.multiOp = true // layout cases: non-trivial = base accepted and a differing variant compared
			a.obs["layout_only_sources"]++
		} else {
			e, ok := ctx.extract(p.prog)
			if !ok {
				a.fail("shape:"+gen+":wrapper", fmt.Sprintf("the statement around the expression parsed to a different construct: %q", util.Clip(v.src, 300)), detail(map[string]any{"dump": p.dump}))
				continue
			}
			groups := 0
			got := exprgen.FromAst(e, &groups)
			a.obs["groups_stripped"] += int64(groups)
			if !exprgen.Equal(want, got) {
				w, g := firstDiff(want, got)
				a.fail(fmt.Sprintf("shape:%s->%s", headOf(w), headOf(g)),
					fmt.Sprintf("parse tree differs from the tree fixed by the operator table: source %q parsed as %s, intended %s (first difference: intended %s, parsed %s)", util.Clip(v.src, 300), got.Sexp(), want.Sexp(), w.Sexp(), g.Sexp()),
					detail(map[string]any{"parsed": got.Sexp()}))
				continue
			}
			if want.CountOps() >= 2 {
				a.multiOp = true
			}
		}
		if i > 0 {
			if v.src != vs[0].src {
				a.varied = true
			}
			a.obs["variants_compared"]++
			if p.class != base.class || p.dump != base.dump {
				a.fail("layout:"+variantClass(v.kind)+":"+diffClass(base, p), fmt.Sprintf("two renderings of one expression parse differently: %q -> %s, %q -> %s", util.Clip(vs[0].src, 300), base.class, util.Clip(v.src, 300), p.class), detail(map[string]any{"base_outcome": base.class}))
			}
		}
	}
}

func variantClass(kind string) string { return kind }

func diffClass(base, p parsed) string {
	if base.class != p.class {
		return "outcome:" + base.class + "->" + p.class
	}
	return "tree"
}
