package c07

// Statement-level and item-level forms (outside the operator table): checked for layout
// invariance only. Each is a complete program.
var snippets = []struct{ name, src string }{
	{"range-basic", `fn main() { let r = 1..10; let s = 1..=10; for i in 0..n { println(i); } }`},
	{"range-mix", `fn main() { let r = -1..n + 1; let q = a.len()..=b[0]; let t = (1..2); for i in (x + 1).to_range() { } }`},
	{"range-nested", `fn main() { f(1..2, [3..4, 5..=6], new { r: 7..8 }); let x = 1..2 == 1..2; }`},
	{"let-forms", `fn main() { let a = 1; let b: int = 2; let c: ?[str] = none; let d: { x: int, y: ?float } = new { x: 1, y: ?2.5 }; let e: fn(a: int) -> str = f; }`},
	{"types", `type A = int; pub type B = [A]; type C = { a_key: A, "another key": B, nested: { k: ?C } }; type D = ?[?int]; type E = fn() -> null; type F = { ? }; fn main() { }`},
	{"types-tc", `type C = { a: int, b: str, }; fn main() { let x: { a: int, } = new { a: 1, }; }`},
	{"return-forms", `fn f() -> int { return 1; } fn g() { return; } fn h() -> int { if c { return 1 + 2 * 3; } 4 } fn main() { }`},
	{"loops", `fn main() { loop { break; } while x < 10 { x += 1; continue; } for i in [1, 2, 3] { if i == 2 { break; } } loop { } while true { } for c in "str" { } }`},
	{"if-chain", `fn main() { if a { 1 } else if b { 2 } else if c && d { 3 } else { 4 }; let v = if x > 1 { "big" } else { "small" }; if a { } }`},
	{"match-forms", `fn main() { let v = match x { 1 => "one", 2 | 3 => "few", -1 => "neg", _ => "many", }; match s { "a" => { f(); } "b" => g(), _ => { } } match b { true => 1, false => 0 } }`},
	{"match-tc", `fn main() { match x { 1 => 2, _ => 3 }; match x { 1 => 2, _ => 3, }; match x { } }`},
	{"try-forms", `fn main() { try { risky(); } catch e { println(e.message, e.line); } let v = try { 1 } catch err { 2 }; }`},
	{"blocks", `fn main() { { let a = 1; a }; let b = { 1 + 2 }; { { { } } } }`},
	{"fn-literals", `fn main() { let f = fn() -> int { 42 }; let g = fn(a: int, b: str) { println(a, b); }; let h = fn(x: [int],) -> ?int { ?x[0] }; f(); (fn() { })(); }`},
	{"fn-defs", `fn a() { } fn b(x: int) -> int { x } pub fn c(x: int, y: ?str,) -> [int] { [x] } event fn d() { } fn main() { }`},
	{"imports", `import a from m; import { b, c } from m2; import { type T, templ U, } from m3; import trigger V from m5; import type W from m4; fn main() { }`},
	{"singleton", `$Conf = { @setting brightness: int, name: str, }; $Num = int; $Lst = [?int]; fn f(c: $Conf) -> int { c.brightness } fn main() { }`},
	{"impl", `import templ Light from devices; $L = { lit: bool }; impl Light for $L { fn toggle(self: $L) { self.lit = !self.lit; } pub fn dim(p: int) -> bool { true } } fn main() { }`},
	{"impl-with", `import templ Light from devices; $L = { lit: bool }; impl Light with { dimmable, color } for $L { fn toggle() { } } fn main() { }`},
	{"trigger", `import trigger minute from triggers; fn cb(e: int) { } fn main() { trigger cb at minute(1); trigger cb on minute(1 + 2, x,); }`},
	{"annotation", `#[trigger at minute(1 + 2, x)] fn x() { } #[foo, trigger in hour(3),] pub fn y() { } fn main() { }`},
	{"spawn", `fn w(a: int) { } fn main() { let h = spawn w(1); spawn w(2 * 3,); h.join(); }`},
	{"members", `fn main() { a.b.c.d(); a[0][1].x(1)(2)[3]; "s".len(); [1, 2].len(); new { k: 1 }.k; x.to_string().len().to_string(); }`},
	{"literals", `fn main() { 42; 3.14159265; 1f; false; on; off; "A string"; 'c'; "esc \" \\ \n \x41 é"; null; none; [ 1, 2, 3 ]; new { key: "Value" }; new { ? }; ( 42 ); -1; ?1; !true; }`},
	{"strings-with-comment-text", `fn main() { let a = "// not a comment"; let b = "/* nor this */"; let c = '"'; let d = "it's"; println(a, b, c, d); }`},
	{"assign-forms", `fn main() { ident = 42; list[-1] = 1; foo.bar = baz; a += 1; a -= 1; a *= 2; a /= 2; a %= 2; a **= 2; a <<= 1; a >>= 1; a ^= 1; x[i].y[j] = z; }`},
	{"assign-or-and", `fn main() { a |= 1; a &= 1; b = c || d && e | f & g; }`},
	{"casts", `fn main() { foo as int; x as ?[str]; (y as float) as int; z as { a: int }; w as fn() -> null; [] as [int]; }`},
	{"globals", `let a = 1; pub let b: str = "x"; let c = [1, 2,]; let d = new { k: a + 1 }; fn main() { }`},
	{"semicolons-optional", `fn main() { if a { } if b { } ; loop { break; } match x { } try { } catch e { } { } }`},
	{"fib", "fn fib(n: int) -> int {\n    if n < 2 {\n        n\n    } else {\n        fib(n - 1) + fib(n - 2)\n    }\n}\n\nfn main() {\n    for n in 2..40 {\n        println(n.to_string(), \"->\", fib(n))\n    }\n}\n"},
}

// List-like constructs of grammar.ebnf that allow a trailing comma: `without` and `with` must
// give the same tree and no syntax errors.
var listForms = []struct{ name, without, with string }{
	{"list", `fn main() { [1, 2]; [x]; [[1], [2, 3]]; }`, `fn main() { [1, 2,]; [x,]; [[1,], [2, 3,],]; }`},
	{"call-args", `fn main() { f(1, 2); g(x); h(f(1), 2); }`, `fn main() { f(1, 2,); g(x,); h(f(1,), 2,); }`},
	{"object", `fn main() { new { a: 1, b: 2 }; new { "k k": new { z: 0 } }; }`, `fn main() { new { a: 1, b: 2, }; new { "k k": new { z: 0, }, }; }`},
	{"fn-params", `fn f(a: int, b: str) { } fn g(x: int) -> int { x } fn main() { }`, `fn f(a: int, b: str,) { } fn g(x: int,) -> int { x } fn main() { }`},
	{"fn-literal-params", `fn main() { let f = fn(a: int, b: str) -> int { a }; }`, `fn main() { let f = fn(a: int, b: str,) -> int { a }; }`},
	{"object-type", `type T = { a: int, b: { c: str } }; fn main() { }`, `type T = { a: int, b: { c: str, }, }; fn main() { }`},
	{"singleton-object-type", `$S = { @setting a: int, b: str }; fn main() { }`, `$S = { @setting a: int, b: str, }; fn main() { }`},
	{"match-arms", `fn main() { match x { 1 => 2, _ => 3 }; }`, `fn main() { match x { 1 => 2, _ => 3, }; }`},
	{"import-list", `import { a, type B } from m; fn main() { }`, `import { a, type B, } from m; fn main() { }`},
	{"impl-with", `import templ T from m; $S = int; impl T with { a, b } for $S { } fn main() { }`, `import templ T from m; $S = int; impl T with { a, b, } for $S { } fn main() { }`},
	{"trigger-args", `fn main() { trigger cb on ev(1, 2); }`, `fn main() { trigger cb on ev(1, 2,); }`},
	{"spawn-args", `fn main() { spawn f(1, x); }`, `fn main() { spawn f(1, x,); }`},
}
