package c07

import (
	"testing"

	"hv/exprgen"
	"hv/util"
)

// TestStmtInputs lists the statement-level inputs the real parser does not accept as written
// (they are skipped by the stmt workload); informational.
func TestStmtInputs(t *testing.T) {
	for _, sn := range snippets {
		if _, ok := exprgen.Tokenize(sn.src); !ok {
			t.Errorf("snippet %s is not tokenizable", sn.name)
		}
		if p := parse(sn.src); !p.ok {
			t.Logf("snippet %s rejected: %s", sn.name, p.class)
		}
	}
	for _, sn := range spellSnippets {
		if _, ok := exprgen.Tokenize(sn.src); !ok {
			t.Errorf("snippet %s is not tokenizable", sn.name)
		}
		if p := parse(sn.src); !p.ok {
			t.Errorf("snippet %s rejected: %s", sn.name, p.class)
		}
	}
	for name, src := range util.Corpus() {
		if _, ok := exprgen.Tokenize(src); !ok {
			t.Logf("corpus %s is not tokenizable", name)
		}
		if p := parse(src); !p.ok {
			t.Logf("corpus %s rejected: %s", name, p.class)
		}
	}
}
