package c07

import (
	"fmt"
	"strings"

	hms "github.com/smarthome-go/homescript/v3/homescript"

	"hv/drive"
	"hv/exprgen"
)

// Probe parses, analyses and runs one program and reports what was observed (development aid).
func Probe(src string) string {
	var sb strings.Builder
	prog, soft, hard := hms.Parse(src, "main")
	if hard != nil {
		fmt.Fprintf(&sb, "HARD %d:%d-%d:%d %s\n", hard.Span.Start.Line, hard.Span.Start.Column, hard.Span.End.Line, hard.Span.End.Column, hard.Message)
	}
	for _, s := range soft {
		fmt.Fprintf(&sb, "SOFT %d:%d %s\n", s.Span.Start.Line, s.Span.Start.Column, s.Message)
	}
	if hard == nil {
		fmt.Fprintf(&sb, "DUMP %s\n", exprgen.Dump(prog))
	}
	ao := drive.Analyze(drive.Sources{"main": src}, "main", true)
	fmt.Fprintf(&sb, "ANALYZE errors=%d %s\n", ao.Errors, ao.ErrorSummary())
	for _, d := range ao.Diags {
		fmt.Fprintf(&sb, "  diag level=%v %d:%d %s\n", d.Level, d.Span.Start.Line, d.Span.Start.Column, d.Message)
	}
	if ao.Errors == 0 {
		run := drive.RunVM(ao.Modules, drive.Sources{"main": src}, "main", drive.VMOpts{})
		fmt.Fprintf(&sb, "VM outcome=%s output=%q\n", run.Outcome, run.Log.Output())
	}
	return sb.String()
}
