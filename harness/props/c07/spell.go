package c07

import (
	"fmt"
	"strconv"
	"strings"

	"github.com/smarthome-go/homescript/v3/homescript/lexer"

	"hv/exprgen"
	"hv/fw"
	"hv/util"
)

// ---------------------------------------------------------------------------------------------
// Literal spellings. Literal values are part of the tree: grammar.ebnf defines
// `number = DIGIT , { DIGIT | '_' } , [ '.' DIGIT+ | 'f' ]` — a decimal numeral, whatever its
// first digit is. The tree built for `010` therefore holds ten, for `0_10` ten, for `02.50` 2.5.
// Every spelling of one numeral must give the tree (and the value) of the canonical spelling:
//
//	spell      random trees over the whole table, numerals re-spelled in every variant
//	litdirect  every (value, spelling) of a directed list inside small expressions
//	stmtspell  statement / item forms and the shipped corpus with all numerals re-spelled
//	vspell     int/bool trees with re-spelled numerals, evaluated on the VM
// ---------------------------------------------------------------------------------------------

func isDigits(s string) bool {
	if s == "" {
		return false
	}
	for i := 0; i < len(s); i++ {
		if s[i] < '0' || s[i] > '9' {
			return false
		}
	}
	return true
}

// numeral classifies a token: "int" (digits), "float" (digits '.' digits), "floatf" (digits 'f').
func numeral(t string) string {
	switch {
	case isDigits(t):
		return "int"
	case strings.HasSuffix(t, "f") && isDigits(t[:len(t)-1]):
		return "floatf"
	}
	if i := strings.IndexByte(t, '.'); i > 0 && isDigits(t[:i]) && isDigits(t[i+1:]) {
		return "float"
	}
	return ""
}

// lexerDigitSeparatorsOK observes the real lexer on `1_000` / `0_10` (pure function of the code
// under test): one Int token whose text, separators dropped, is the digit string.
func lexerDigitSeparatorsOK() (ok bool) {
	defer func() {
		if recover() != nil {
			ok = false
		}
	}()
	for _, s := range []string{"1_000", "0_10", "1_2_3"} {
		l := lexer.NewLexer(s, "x")
		t, err := l.NextToken()
		if err != nil || t.Kind != lexer.Int || strings.ReplaceAll(t.Value, "_", "") != strings.ReplaceAll(s, "_", "") {
			return false
		}
		if e, err := l.NextToken(); err != nil || e.Kind != lexer.EOF {
			return false
		}
	}
	return true
}

// respell returns another spelling of the same numeral: leading zeros (ints and floats), trailing
// zeros of the fraction (floats). No digit separators here: these renderings go through the
// layout engine, whose reference tokenizer leaves separators to the directed workload.
func respell(r *fw.Rng, t string) string {
	switch numeral(t) {
	case "int", "floatf":
		return strings.Repeat("0", 1+r.Intn(3)) + t
	case "float":
		if r.Intn(3) == 0 {
			return t + strings.Repeat("0", 1+r.Intn(2))
		}
		return strings.Repeat("0", 1+r.Intn(2)) + t
	}
	return t
}

// respellTokens re-spells each numeral token with probability pct %.
func respellTokens(r *fw.Rng, toks []string, pct int) (out []string, changed int) {
	out = make([]string, len(toks))
	for i, t := range toks {
		out[i] = t
		if numeral(t) != "" && r.Intn(100) < pct {
			out[i] = respell(r, t)
			changed++
		}
	}
	return out, changed
}

// spellPool: values whose leading-zero spelling reads differently in another base, or not at all
// (digits 8 and 9), small and large.
var spellPool = []int64{0, 1, 7, 8, 9, 10, 17, 19, 64, 77, 80, 100, 123, 511, 777, 1000, 4096, 65536, 1234567, 1234567890, 9223372036854775807}

// enrich gives some int leaves of a tree a value from spellPool (in place; the tree is fresh).
func enrich(r *fw.Rng, t *exprgen.Node) (ints int) {
	t.Walk(func(m *exprgen.Node) {
		if m.K == exprgen.KInt {
			ints++
			if r.Intn(2) == 0 {
				m.I = fw.Pick(r, spellPool)
			}
		}
	})
	return ints
}

// spellRandom: random trees; every variant re-spells the numerals (and is laid out / parenthesised
// like in the `random` workload).
func (w *work) spellRandom(n, depth, k int) {
	g := &exprgen.GenOpts{R: w.r, MaxDepth: depth, Ranges: true}
	for i := 0; i < n; i++ {
		t := exprgen.RandomTree(g)
		if enrich(w.r, t) == 0 {
			t = exprgen.Bin(fw.Pick(w.r, exprgen.InfixOps), t, exprgen.Int(fw.Pick(w.r, spellPool)))
		}
		if !w.selfCheckTree(t) {
			return
		}
		post := func(toks []string) ([]string, string) {
			out, changed := respellTokens(w.r, toks, 75)
			w.a.obs["numerals_respelled"] += int64(changed)
			if changed == 0 {
				return out, ""
			}
			return out, "+spelling"
		}
		ctx := w.pickCtx()
		w.a.cover["ctx:"+ctx.name] = true
		vs := w.variantsOf(func(po *exprgen.PrintOpts) []string { return exprgen.Tokens(t, po) }, post, ctx, k)
		w.a.judgeExpr("spell", t, ctx, vs)
	}
}

// spellings of the decimal digit string d (value preserved by the grammar's reading).
func spellingsOf(d string, separators bool) []string {
	out := []string{"0" + d, "00" + d, "0000" + d}
	if !separators {
		return out
	}
	out = append(out, "0_"+d, "00_"+d, "0_0"+d)
	if len(d) >= 2 {
		out = append(out, d[:1]+"_"+d[1:], d[:len(d)-1]+"_"+d[len(d)-1:])
		out = append(out, strings.Join(strings.Split(d, ""), "_"))
	}
	if len(d) > 3 {
		// groups of three from the right: 1_234_567
		var parts []string
		for e := len(d); e > 0; e -= 3 {
			s := e - 3
			if s < 0 {
				s = 0
			}
			parts = append([]string{d[s:e]}, parts...)
		}
		out = append(out, strings.Join(parts, "_"), "0"+strings.Join(parts, "_"))
	}
	return out
}

// litDirect: value v in small expressions (as operand, under a prefix operator, as index, as
// argument, as exponent on both sides); base = canonical spelling, variants = every spelling.
func (w *work) litDirect(v int64, separators bool) {
	d := strconv.FormatInt(v, 10)
	lit := func() *exprgen.Node { return exprgen.Int(v) }
	shapes := []*exprgen.Node{
		exprgen.Bin("+", exprgen.Id("a"), exprgen.Bin("*", lit(), exprgen.Id("b"))),
		exprgen.Bin("-", exprgen.Prefix("-", lit()), exprgen.Id("b")),
		exprgen.Bin("**", lit(), exprgen.Bin("**", exprgen.Id("b"), lit())),
		exprgen.Call(exprgen.Index(exprgen.Id("x"), lit()), lit(), exprgen.List(lit())),
		exprgen.Bin("=", exprgen.Id("a"), exprgen.Bin("==", exprgen.Cast(lit(), "float"), exprgen.Member(lit(), "m"))),
	}
	w.a.cover["lit:"+d] = true
	for si, t := range shapes {
		if !w.selfCheckTree(t) {
			return
		}
		base := exprgen.Tokens(t, nil)
		ctxs := []*context{&contexts[0], w.pickCtx()}
		if si == 0 {
			ctxs = append(ctxs, ctxByName("matcharm"), ctxByName("glob"))
		}
		for _, ctx := range ctxs {
			w.a.cover["ctx:"+ctx.name] = true
			render := func(sp string) string {
				toks := join(ctx.pre, base, ctx.post)
				for i, tk := range toks {
					if tk == d {
						toks[i] = sp
					}
				}
				return strings.Join(toks, " ")
			}
			vs := []variant{{src: render(d), kind: "base"}}
			for _, sp := range spellingsOf(d, separators) {
				kind := "spelling-leading-zeros"
				if strings.Contains(sp, "_") {
					kind = "spelling-separators"
				}
				w.a.cover["style:"+kind] = true
				w.a.obs["numerals_respelled"]++
				vs = append(vs, variant{src: render(sp), kind: kind})
			}
			w.a.judgeExpr("litdirect", t, ctx, vs)
		}
	}
}

// stmtSpell: a whole program with its numerals re-spelled must give the tree of the program as
// written (statement / item level positions of literals: match patterns, ranges, trigger and
// annotation arguments, globals, ...).
func (w *work) stmtSpell() {
	p := w.p
	toks, ok := exprgen.Tokenize(p.Src)
	if !ok {
		w.a.cover["stmtspell:not-tokenizable"] = true
		return
	}
	nums := 0
	for _, t := range toks {
		if numeral(t) != "" {
			nums++
		}
	}
	if nums == 0 {
		w.a.cover["stmtspell:no-numerals"] = true
		return
	}
	base := parse(p.Src)
	w.a.evals++
	w.a.obs["sources_parsed"]++
	if !base.ok {
		w.a.cover["stmtspell:base-rejected"] = true
		return
	}
	w.a.example = p.Name
	for j := 0; j < p.K; j++ {
		pct := 100
		if j > 0 {
			pct = 50
		}
		alt, changed := respellTokens(w.r, toks, pct)
		if changed == 0 {
			continue
		}
		style := []int{exprgen.StyleCanonical, exprgen.StyleMixed, exprgen.StyleLines, exprgen.StyleTight}[j%4]
		src := w.layout(alt, style)
		q := parse(src)
		w.a.evals++
		w.a.obs["sources_parsed"]++
		w.a.obs["variants_compared"]++
		w.a.obs["numerals_respelled"] += int64(changed)
		w.a.multiOp, w.a.varied = true, true
		if q.class != base.class || q.dump != base.dump {
			sig := "spelling:stmtspell:" + diffClass(base, q)
			if strings.HasPrefix(q.class, "go-panic") {
				sig = fmt.Sprintf("go-panic:%s:%s", strings.TrimPrefix(q.class, "go-panic:"), q.frames)
			}
			w.a.fail(sig, fmt.Sprintf("writing the numerals of %s with leading zeros (same decimal value) changes the parse (%s -> %s %s): %q", p.Name, base.class, q.class, q.message, util.Clip(src, 400)),
				map[string]any{"workload": "stmtspell", "name": p.Name, "base_source": p.Src, "source": src, "base_outcome": base.class, "outcome": q.class, "first_dump_difference": dumpDiff(base.dump, q.dump)})
		}
	}
}

// spellSnippets: literals in the positions that are not expression operands.
var spellSnippets = []struct{ name, src string }{
	{"literal-positions", `let g = 10; let h: float = 2.5; fn main() { match x { 10 => 1, -8 => 2, 0 | 19 => 3, 1.5 => 4, _ => 5 }; for i in 10..=20 { } for j in 8..n { } a[10] = 8; trigger cb on ev(100, 9); let o = new { k: 64, "k 2": [77, 80] }; 18 as float; f(77)(80)[90]; while n < 100 { n += 10; } return 9; }`},
	{"literal-annotation", `#[trigger at minute(10, 8)] fn x() { } fn main() { let r = 1000..=9000; let f = 10f; let s = spawn w(64, 19); }`},
}

// vspellItems: value items whose numerals are re-spelled with leading zeros.
func (w *work) vspellItems(n, depth int, directed bool) []vitem {
	var items []vitem
	if directed {
		for _, v := range spellPool[n%len(spellPool) : min(n%len(spellPool)+3, len(spellPool))] {
			d := strconv.FormatInt(v, 10)
			sp := strings.Repeat("0", 1+w.r.Intn(3)) + d
			items = append(items, vitem{toks: split("println ( " + sp + " ) ;"), n: 1, at: 0, inCall: true, want: exprgen.Int(v), expect: d})
			if v < 1<<40 {
				t := exprgen.Bin("+", exprgen.Bin("*", exprgen.Int(v), exprgen.Int(2)), exprgen.Int(v))
				items = append(items, vitem{toks: split("println ( " + sp + " * 2 + 0" + d + " ) ;"), n: 1, at: 0, inCall: true, want: t, expect: strconv.FormatInt(v*3, 10)})
			}
		}
		return items
	}
	for i := 0; i < n; i++ {
		t, v := exprgen.TypedTree(w.r, depth, w.r.Intn(4) == 0)
		if !w.selfCheckTree(t) {
			break
		}
		toks, changed := respellTokens(w.r, w.exprTokens(t), 70)
		w.a.obs["numerals_respelled"] += int64(changed)
		items = append(items, vitem{toks: join(split("println ("), toks, split(") ;")), n: 1, at: 0, inCall: true, want: t, expect: v.String()})
	}
	return items
}
