// Package c07 checks property C07 — "Parse trees follow the documented grammar and ignore layout"
// (DESIGN.md §3 C07) by runtime monitoring of the real parser:
//
//	(1) shape: expressions are generated as trees (or as flat operator sequences parsed by the
//	    harness' own reference parser), printed with the minimum parentheses the property's operator
//	    table requires, parsed with homescript.Parse, converted back (GroupedExpression stripped,
//	    spans ignored) and compared with the intended tree;
//	(2) layout: whitespace/comment variants, redundant parentheses and trailing commas must give
//	    the same whole-program tree (span-insensitive reflective dump);
//	(3) value: int/bool expressions over literals are also analysed, compiled and run on the VM
//	    and the printed value is compared with the harness' evaluation of the intended tree;
//	(4) brace-terminated operands (withblock.go) and numeral spellings (spell.go): see there.
//
// The intended trees come from the operator table in the property text (exprgen/node.go), never
// from lexer.TokenKind.Prec.
package c07

import (
	"fmt"
	"sort"
	"strings"

	"github.com/smarthome-go/homescript/v3/homescript/lexer"
	"github.com/smarthome-go/homescript/v3/homescript/parser/ast"

	"hv/drive"
	"hv/exprgen"
	"hv/fw"
	"hv/util"
)

type c07 struct{}

func init() { fw.Register(c07{}) }

func (c07) ID() string { return "C07" }

// Known-finding names this check knows about (see FINDINGS.md).
const (
	kfLexerOrAnd   = "KF-lexer-or-and"        // lexer swallows the character after | || |= & && &= (owned by C06)
	kfLexerTab     = "KF-lexer-tab"           // tab rejected (owned by C06)
	kfParenTarget  = "KF-paren-assign-target" // `(a) = 1` rejected
	tagTight       = "tight-or-and"
	tagParenTarget = "paren-assign-lhs"
)

func (c07) Info(tier string) fw.Info {
	return fw.Info{
		Level: "exploration",
		Rule: "expressions over the operator table of the property text (19 infix operators, `as`, 12 assignment operators, prefix - ! ?, call/index/member): " +
			"ALL ordered pairs `a op1 b op2 c` and ALL ordered triples `a op1 b op2 c op3 d` of the 32 binary-like operators (intended tree = harness reference parser driven by the property's table), " +
			"prefix x binary x postfix combinations on both sides (36 x 36 operand forms per operator), random trees of depth <= 7 printed with the minimum parentheses the table requires, " +
			"typed int/bool trees over literals whose value is also computed on the VM, directed value pairs (literals chosen so that the two groupings evaluate differently), " +
			"compound assignments by value, every list-like construct with/without trailing comma, the shipped corpus and hand-written statement forms re-laid-out (ranges and statements: layout invariance only). " +
			"Brace-terminated operands — block / if / match / try expressions, function and object literals — stand UNPARENTHESISED under every binary-like operator (left, right, middle, both sides), every prefix / postfix form and as range sides (13 forms x 32 operators, plus random trees with such leaves; intended tree = table tree over a placeholder whose node is the one the parser builds for the operand standing alone), each additionally rendered with a line break / line comment in every single gap; the same operands with known values are evaluated on the VM. " +
			"Numerals: the decimal value is part of the tree, so every spelling the grammar gives the same value (leading zeros, digit separators where the lexer is observed to accept them, trailing fraction zeros) must give the canonical spelling's tree — random trees, a directed (value x spelling) list, all statement forms and corpus files re-spelled, and values on the VM. " +
			"Each expression is rendered as base text + k variants (tight, random whitespace/newlines/comments, one token per line, redundant parentheses around operands, trailing commas) in a seed-chosen statement context. " +
			"non-trivial = an intended tree with >= 2 table constructs was reproduced by the parser AND at least one variant that differs textually from the base was compared (value cases: >= 1 value of a tree with >= 2 constructs compared; layout cases: base accepted and >= 1 differing variant compared); distinct = distinct (workload, parameters, seed)",
		Assumptions: []string{
			"assignment is read as left-associative (the property lists only `**` as right-associative); `a = b = c` is therefore (a = b) = c, which the parser rejects as an invalid target: accepted",
			"for intended trees whose assignment target is not an identifier/index/member expression the parser's 'Invalid left-hand side of assignment' rejection is accepted as well as the exact tree (the grammar allows any expression as target; the property speaks about the tree that is built)",
			"`x as T ** y` is read as (x as T) ** y: the right side of `as` is a type, so this is the only grammatical reading although `**` binds tighter than `as`",
			"range `..`, blocks, if/match/try, statements and items are outside the operator table: only layout invariance is checked; ranges inside generated trees are always fully parenthesised",
			"whitespace = space, LF, CRLF (tab only when the lexer is observed to accept it and KF-lexer-tab is not open); `..=`, `$name`, `@name` are treated as single tokens",
			"while " + kfLexerOrAnd + " is open, or the real lexer is observed (at case-generation time) to mis-lex `a||b&c|=d`, the default renderings keep a whitespace character after | || |= & && &=; tight renderings then live only in the separately tagged workload '" + tagTight + "'",
			"redundant parentheses around an assignment target (`(a) = 1`, finding " + kfParenTarget + ") are generated only by the tagged workload '" + tagParenTarget + "' so that this one defect cannot flood the others; the pair/triple enumerations are complete, everything else is seed-sampled (Exhaustive refers to the enumerations)",
			"a with-block expression (block, if, match, try) that starts a statement or a block's result and is followed by an operator has a second grammatical reading (ExpressionStatement = ExpressionWithBlock [';'], then another statement): in the contexts stmt/tail/fnlit/blocktail only layout invariance is demanded for such expressions, everywhere else the operand is one node of the table tree",
			"numerals are decimal whatever their first digit is (grammar.ebnf: number = DIGIT { DIGIT | '_' } ...): `010` is ten; digit separators are only used when the real lexer is observed (at case-generation time) to lex `1_000`, `0_10`, `1_2_3` as one number",
			"value check: literals only, results inside the region where the property fixes the arithmetic (no division by zero, shift counts 0..63, ** with exponent >= 0 and |result| < 2^53)",
		},
		Exhaustive:   true,
		CaseTimeoutS: 60,
		BatchSize:    40,
	}
}

type payload struct {
	G        string        `json:"g"`
	Seed     uint64        `json:"seed,omitempty"`
	Op1      string        `json:"op1,omitempty"`
	Op2      string        `json:"op2,omitempty"`
	N        int           `json:"n,omitempty"`
	K        int           `json:"k,omitempty"`
	Depth    int           `json:"depth,omitempty"`
	Tabs     bool          `json:"tabs,omitempty"`
	Tight    bool          `json:"tight,omitempty"`
	KeepLHS  bool          `json:"keep_lhs,omitempty"`
	ForceLHS bool          `json:"force_lhs,omitempty"`
	Name     string        `json:"name,omitempty"`
	Src      string        `json:"src,omitempty"`
	Alt      string        `json:"alt,omitempty"`
	Srcs     []string      `json:"srcs,omitempty"`
	Want     *exprgen.Node `json:"want,omitempty"`
	Ctx      string        `json:"ctx,omitempty"`
	Seps     bool          `json:"seps,omitempty"` // digit separators are observed to lex as part of a number
	V        int64         `json:"v,omitempty"`
}

// lexerAcceptsTab observes the real lexer on a tab (pure function of the code under test).
func lexerAcceptsTab() (ok bool) {
	defer func() {
		if recover() != nil {
			ok = false
		}
	}()
	l := lexer.NewLexer("\t1\t", "x")
	t, err := l.NextToken()
	return err == nil && t.Kind == lexer.Int
}

// lexerTightOrAndOK observes the real lexer on `a||b&c|=d`: all seven tokens must come out.
func lexerTightOrAndOK() (ok bool) {
	defer func() {
		if recover() != nil {
			ok = false
		}
	}()
	l := lexer.NewLexer("a||b&c|=d", "x")
	want := []lexer.TokenKind{lexer.Identifier, lexer.Or, lexer.Identifier, lexer.BitAnd, lexer.Identifier, lexer.BitOrAssign, lexer.Identifier, lexer.EOF}
	for _, k := range want {
		t, err := l.NextToken()
		if err != nil || t.Kind != k {
			return false
		}
	}
	return true
}

func (c07) Cases(tier string, seed uint64) []fw.Case {
	r := fw.NewRng(seed ^ 0xC07C07)
	thorough := tier == "thorough"
	tabs := !fw.KFOpen(kfLexerTab) && lexerAcceptsTab()
	// Redundant parentheses around assignment targets are confined to the always-on, tagged
	// workload `parenlhs` (finding KF-paren-assign-target), so that this one defect cannot flood
	// the other workloads whether or not it is listed.
	keepLHS := true
	// tight renderings of | || |= & && &= join the main workloads only once the lexer is observed
	// to handle them and the finding is not open; the tagged workload `tight` always has them
	tightMain := !fw.KFOpen(kfLexerOrAnd) && lexerTightOrAndOK()
	var cases []fw.Case
	n := 0
	add := func(kind string, p payload, tags ...string) {
		p.G = kind
		p.Tabs = tabs
		p.Tight = p.Tight || tightMain
		cases = append(cases, fw.MkCase(fmt.Sprintf("c07-%s-%05d", kind, n), kind, p, tags...))
		n++
	}
	ops := exprgen.AllBinaryLike

	// (1) all ordered pairs, (2) all ordered triples
	kp, kt, kpp := 8, 4, 2
	if thorough {
		kp, kt, kpp = 32, 16, 8
	}
	for _, a := range ops {
		for _, b := range ops {
			add("pairs", payload{Op1: a, Op2: b, Seed: r.Next(), K: kp, KeepLHS: keepLHS})
		}
	}
	for _, a := range ops {
		for _, b := range ops {
			add("triples", payload{Op1: a, Op2: b, Seed: r.Next(), K: kt, KeepLHS: keepLHS})
		}
	}
	// (3) prefix x binary x postfix; one case per (binary operator, left prefix form)
	for _, a := range ops {
		for lp := range prefixForms {
			add("prepost", payload{Op1: a, N: lp, Seed: r.Next(), K: kpp, KeepLHS: keepLHS})
		}
	}
	// (4) random trees
	nr, perCase, kr := 20000, 20, 4
	if thorough {
		nr, kr = 400000, 6
	}
	for i := 0; i < nr/perCase; i++ {
		add("random", payload{Seed: r.Next(), N: perCase, Depth: 2 + i%6, K: kr, KeepLHS: keepLHS})
	}
	// (5) values on the VM
	nv, perProg := 9000, 15
	if thorough {
		nv = 150000
	}
	for i := 0; i < nv/perProg; i++ {
		add("value", payload{Seed: r.Next(), N: perProg, Depth: 2 + i%5})
	}
	for _, a := range exprgen.InfixOps {
		add("vpairs", payload{Op1: a, Seed: r.Next()})
	}
	add("vpairs", payload{Op1: "pre-", Seed: r.Next()})
	add("vpairs", payload{Op1: "pre!", Seed: r.Next()})
	for _, a := range exprgen.AssignOps {
		add("vassign", payload{Op1: a, Seed: r.Next()})
	}
	// (6) trailing commas in every list-like construct
	for _, lf := range listForms {
		tags := []string{"tc-" + lf.name}
		add("lists", payload{Name: lf.name, Src: lf.without, Alt: lf.with, Seed: r.Next(), K: 4}, tags...)
	}
	// (6b) parentheses around single nodes in the positions which analyzer and back ends treat specially
	for _, mf := range meaningForms {
		add("meaning", payload{Name: mf.name, Seed: r.Next()})
	}
	// (7) statement forms and the shipped corpus: layout invariance
	ks := 12
	if thorough {
		ks = 80
	}
	for _, sn := range snippets {
		add("stmt", payload{Name: "snippet/" + sn.name, Src: sn.src, Seed: r.Next(), K: ks})
	}
	corpus := util.Corpus()
	for _, name := range drive.SortedKeys(corpus) {
		add("stmt", payload{Name: name, Src: corpus[name], Seed: r.Next(), K: ks})
	}
	// (8) tight renderings of | || |= & && &= (poisoned while the lexer defect is open)
	nt := 48
	if tightMain && thorough {
		nt = 400
	}
	for i := 0; i < nt; i++ {
		add("tight", payload{Seed: r.Next(), N: 8, Depth: 2 + i%3, K: 3, Tight: true, KeepLHS: true}, tagTight)
	}
	// (9) parenthesised assignment targets
	for _, a := range exprgen.AssignOps {
		add("parenlhs", payload{Op1: a, Seed: r.Next(), K: 2}, tagParenTarget)
	}
	np := 36
	if thorough && !fw.KFOpen(kfParenTarget) {
		np = 300
	}
	for i := 0; i < np; i++ {
		add("parenlhs", payload{Seed: r.Next(), N: 8, Depth: 2 + i%4, K: 3, ForceLHS: true}, tagParenTarget)
	}
	// (10) brace-terminated operands (block / if / match / try, function and object literals)
	// unparenthesised under every operator of the table, with a line break in every single gap
	kb, nbr, nvb := 4, 60, 60
	if thorough {
		kb, nbr, nvb = 12, 1500, 800
	}
	for fi := range braceForms {
		for _, op := range ops {
			add("wblock", payload{Name: "op", N: fi, Op1: op, Seed: r.Next(), K: kb, KeepLHS: keepLHS})
		}
		add("wblock", payload{Name: "post", N: fi, Seed: r.Next(), K: kb, KeepLHS: keepLHS})
	}
	for i := 0; i < nbr; i++ {
		add("wblock", payload{Name: "random", Seed: r.Next(), N: 10, Depth: 2 + i%5, K: kb, KeepLHS: keepLHS})
	}
	for i := 0; i < nvb; i++ {
		add("vblock", payload{Seed: r.Next(), N: 6, Depth: 2 + i%4})
	}
	// (11) literal spellings: the numeral's decimal value is part of the tree
	seps := lexerDigitSeparatorsOK()
	nsp, nvs := 100, 80
	if thorough {
		nsp, nvs = 3000, 2000
	}
	for i := 0; i < nsp; i++ {
		add("spell", payload{Seed: r.Next(), N: 12, Depth: 2 + i%5, K: 4, KeepLHS: keepLHS})
	}
	for _, v := range spellPool {
		add("litdirect", payload{V: v, Seps: seps, Seed: r.Next()})
	}
	// small programs: one rejected numeral must not hide the values of the others
	for i := 0; i < len(spellPool); i += 3 {
		add("vspell", payload{Name: "directed", N: i, Seed: r.Next()})
	}
	for i := 0; i < nvs; i++ {
		add("vspell", payload{Seed: r.Next(), N: 4, Depth: 2 + i%4})
	}
	for _, sn := range spellSnippets {
		add("stmt", payload{Name: "snippet/" + sn.name, Src: sn.src, Seed: r.Next(), K: ks})
		add("stmtspell", payload{Name: "snippet/" + sn.name, Src: sn.src, Seed: r.Next(), K: 8})
	}
	for _, sn := range snippets {
		add("stmtspell", payload{Name: "snippet/" + sn.name, Src: sn.src, Seed: r.Next(), K: 4})
	}
	for _, name := range drive.SortedKeys(corpus) {
		add("stmtspell", payload{Name: name, Src: corpus[name], Seed: r.Next(), K: 4})
	}
	return cases
}

// ---------------------------------------------------------------------------------------------
// Worker side
// ---------------------------------------------------------------------------------------------

type work struct {
	p     payload
	r     *fw.Rng
	a     *acc
	alone map[string]*exprgen.Node // operands parsed standing alone (withblock.go)
}

var styleNames = []string{"canonical", "tight", "mixed", "comments", "lines"}

func (w *work) layout(toks []string, style int) string {
	o := &exprgen.LayoutOpts{R: w.r, Style: style, Tabs: w.p.Tabs, TightOrAnd: w.p.Tight}
	s := exprgen.Layout(toks, o)
	w.a.obs["comments_inserted"] += int64(o.Comments)
	w.a.obs["newlines_inserted"] += int64(o.Newlines)
	w.a.obs["empty_gaps"] += int64(o.Empty)
	w.a.cover["style:"+styleNames[style]] = true
	// self-check of the layout engine against the harness' reference tokenizer: a variant must
	// consist of exactly the same tokens
	if back, ok := exprgen.Tokenize(s); !ok || strings.Join(back, "\x00") != strings.Join(toks, "\x00") {
		w.a.broken = fmt.Sprintf("Tokenize(Layout(toks)) != toks for %q", util.Clip(s, 300))
	}
	return s
}

func join(parts ...[]string) []string {
	var out []string
	for _, p := range parts {
		out = append(out, p...)
	}
	return out
}

// variants renders an intended tree as base text + k variants inside a context.
func (w *work) variants(want *exprgen.Node, ctx *context, k int) []variant {
	return w.variantsOf(func(po *exprgen.PrintOpts) []string { return exprgen.Tokens(want, po) }, nil, ctx, k)
}

// variantsOf is the variant engine behind variants: print renders the expression's tokens (nil
// options = canonical), post (optional) rewrites the expression tokens of every non-base variant
// in a meaning-preserving way (e.g. other spellings of the same literal) and reports what it did.
func (w *work) variantsOf(print func(po *exprgen.PrintOpts) []string, post func(toks []string) ([]string, string), ctx *context, k int) []variant {
	base := print(nil)
	full := join(ctx.pre, base, ctx.post)
	vs := []variant{{src: exprgen.Layout(full, &exprgen.LayoutOpts{Style: exprgen.StyleCanonical}), kind: "base"}}
	for j := 1; j <= k; j++ {
		full, suffix := full, ""
		if post != nil {
			alt, what := post(append([]string{}, base...))
			full, suffix = join(ctx.pre, alt, ctx.post), what
		}
		mode := j
		if j > 4 {
			mode = 1 + w.r.Intn(4)
		}
		if w.p.ForceLHS {
			mode = 2
		}
		switch mode {
		case 1:
			vs = append(vs, variant{src: w.layout(full, exprgen.StyleTight), kind: "layout-tight" + suffix})
		case 3:
			vs = append(vs, variant{src: w.layout(full, exprgen.StyleComments), kind: "layout-comments" + suffix})
		case 4:
			st := exprgen.StyleMixed
			if w.r.Intn(3) == 0 {
				st = exprgen.StyleLines
			}
			vs = append(vs, variant{src: w.layout(full, st), kind: "layout-" + styleNames[st] + suffix})
		default:
			po := &exprgen.PrintOpts{R: w.r, AtomParens: 25, NodeParens: 20, TrailComma: 50, KeepAssignLHS: w.p.KeepLHS, ForceAssignLHS: w.p.ForceLHS, AltQuotes: true}
			toks := print(po)
			if post != nil {
				toks, suffix = post(toks)
			}
			kind := "tokens"
			switch {
			case po.LHSParens > 0:
				kind = "paren-assign-lhs"
			case po.Redundant > 0 && po.Trailing > 0:
				kind = "parens+trailing-comma"
			case po.Redundant > 0:
				kind = "parens"
			case po.Trailing > 0:
				kind = "trailing-comma"
			}
			w.a.obs["redundant_parens"] += int64(po.Redundant)
			w.a.obs["trailing_commas"] += int64(po.Trailing)
			w.a.obs["required_parens"] += int64(po.Required)
			st := exprgen.StyleCanonical
			if w.r.Intn(2) == 0 {
				st = exprgen.StyleMixed
				kind += "+layout"
			}
			vs = append(vs, variant{src: w.layout(join(ctx.pre, toks, ctx.post), st), kind: kind + suffix})
		}
	}
	return vs
}

func hasRange(n *exprgen.Node) bool {
	found := false
	n.Walk(func(m *exprgen.Node) {
		if m.K == exprgen.KRange {
			found = true
		}
	})
	return found
}

// selfCheckTree: printer and reference parser (both written from the property's table) must agree.
func (w *work) selfCheckTree(t *exprgen.Node) bool {
	if hasRange(t) {
		return true
	}
	toks := exprgen.Tokens(t, nil)
	back, err := exprgen.RefParse(toks)
	if err != nil || !exprgen.Equal(back, t) {
		w.a.broken = fmt.Sprintf("RefParse(Tokens(t)) != t for t=%s tokens=%q back=%s err=%v", t.Sexp(), strings.Join(toks, " "), back.Sexp(), err)
		return false
	}
	return true
}

// flat: a flat token sequence; the intended tree is what the reference parser makes of it, and
// printing that tree with minimal parentheses must give the sequence back.
func (w *work) flat(gen string, toks []string, ctx *context, k int) {
	want, err := exprgen.RefParse(toks)
	if err != nil {
		w.a.broken = err.Error()
		return
	}
	if back := exprgen.Tokens(want, nil); strings.Join(back, " ") != strings.Join(toks, " ") {
		// The one flat sequence that is not a minimal printing: `x as T ** y`. The right side of
		// `as` is a type, so (x as T) ** y is the only grammatical reading although `**` binds
		// tighter than `as`; the printer (rightly) parenthesises the cast there.
		again, err := exprgen.RefParse(back)
		if !castBeforePow(toks) || err != nil || !exprgen.Equal(again, want) {
			w.a.broken = fmt.Sprintf("Tokens(RefParse(s)) != s for s=%q: %q", strings.Join(toks, " "), strings.Join(back, " "))
			return
		}
		w.a.obs["cast_before_pow_sequences"]++
	}
	w.a.judgeExpr(gen, want, ctx, w.variants(want, ctx, k))
}

func castBeforePow(toks []string) bool {
	seenAs := false
	for _, t := range toks {
		if t == "as" {
			seenAs = true
		} else if t == "**" && seenAs {
			return true
		}
	}
	return false
}

func (w *work) pickCtx() *context { return &contexts[w.r.Intn(len(contexts))] }

var castTypes = []string{"int", "float", "? int", "[ str ]", "bool"}

// operandAfter returns the operand tokens following operator op (a type after `as`).
func (w *work) operandAfter(op, name string) []string {
	if op == "as" {
		return split(fw.Pick(w.r, castTypes))
	}
	return []string{name}
}

var prefixForms = [][]string{{}, {"-"}, {"!"}, {"?"}, {"-", "!"}, {"?", "-"}}
var postfixForms = [][]string{{}, split("( y )"), split("[ i ]"), split(". m"), split(". m ( y , 2 )"), split("( ) [ i ] . m")}

func (c07) Run(c fw.Case) (res fw.Result) {
	var p payload
	fw.Decode(c, &p)
	w := &work{p: p, r: fw.NewRng(p.Seed ^ 0x5EED), a: newAcc()}
	w.a.cover["gen:"+c.Kind] = true
	defer func() {
		if r := recover(); r != nil {
			res = fw.Result{Verdict: fw.Inconclusive, Why: fmt.Sprintf("harness panic: %v", r), Cover: []string{"harness-selfcheck-failed"}}
		}
	}()
	switch c.Kind {
	case "pairs":
		toks := join([]string{"a", p.Op1}, w.operandAfter(p.Op1, "b"), []string{p.Op2}, w.operandAfter(p.Op2, "c"))
		for _, ctx := range []*context{&contexts[0], w.pickCtx()} {
			w.a.cover["ctx:"+ctx.name] = true
			w.flat("pairs", toks, ctx, p.K)
		}
		// the same pair with prefix/postfix decorated operands: F(a) op1 F(b) op2 F(c)
		for i := 0; i < 6; i++ {
			form := func(name string) []string {
				return join(fw.Pick(w.r, prefixForms), []string{name}, fw.Pick(w.r, postfixForms))
			}
			opnd := func(op, name string) []string {
				if op == "as" {
					return w.operandAfter(op, name)
				}
				return form(name)
			}
			w.flat("pairs", join(form("a"), []string{p.Op1}, opnd(p.Op1, "b"), []string{p.Op2}, opnd(p.Op2, "c")), w.pickCtx(), 2)
		}
	case "triples":
		for _, op3 := range exprgen.AllBinaryLike {
			toks := join([]string{"a", p.Op1}, w.operandAfter(p.Op1, "b"), []string{p.Op2}, w.operandAfter(p.Op2, "c"), []string{op3}, w.operandAfter(op3, "d"))
			ctx := w.pickCtx()
			w.a.cover["ctx:"+ctx.name] = true
			w.flat("triples", toks, ctx, p.K)
		}
	case "prepost":
		lp := prefixForms[p.N%len(prefixForms)]
		for _, lx := range postfixForms {
			left := join(lp, []string{"a"}, lx)
			if p.Op1 == "as" {
				w.flat("prepost", join(left, []string{"as"}, w.operandAfter("as", "")), w.pickCtx(), p.K)
				continue
			}
			for _, rp := range prefixForms {
				for _, rx := range postfixForms {
					w.flat("prepost", join(left, []string{p.Op1}, rp, []string{"b"}, rx), w.pickCtx(), p.K)
				}
			}
		}
	case "random", "tight":
		for i := 0; i < p.N; i++ {
			var t *exprgen.Node
			if c.Kind == "tight" {
				t = w.tightTree(p.Depth)
			} else {
				t = exprgen.RandomTree(&exprgen.GenOpts{R: w.r, MaxDepth: p.Depth, Ranges: true})
			}
			if !w.selfCheckTree(t) {
				break
			}
			ctx := w.pickCtx()
			w.a.cover["ctx:"+ctx.name] = true
			w.a.cover[fmt.Sprintf("depth:%d", t.Depth())] = true
			w.a.judgeExpr(c.Kind, t, ctx, w.variants(t, ctx, p.K))
		}
	case "parenlhs":
		if p.N > 0 {
			// random trees with an assignment at the root or below, targets always parenthesised
			g := &exprgen.GenOpts{R: w.r, MaxDepth: p.Depth}
			for i := 0; i < p.N; i++ {
				t := exprgen.Bin(fw.Pick(w.r, exprgen.AssignOps), assignTarget(w.r), exprgen.RandomTree(g))
				if w.r.Intn(3) == 0 {
					t = exprgen.Bin(fw.Pick(w.r, exprgen.InfixOps), exprgen.RandomTree(g), t)
				}
				if !w.selfCheckTree(t) {
					break
				}
				ctx := w.pickCtx()
				vs := w.variants(t, ctx, p.K)
				// keep the base and the renderings that really parenthesise a target
				keep := vs[:1]
				for _, v := range vs[1:] {
					if strings.HasPrefix(v.kind, "paren-assign-lhs") {
						keep = append(keep, v)
					}
				}
				w.a.judgeExpr("parenlhs", t, ctx, keep)
			}
			break
		}
		for _, tgt := range [][]string{split("a"), split("a [ 0 ]"), split("a . m"), split("a . m [ i ] . n")} {
			plainToks := join(tgt, []string{p.Op1, "b", "+", "1"})
			want, err := exprgen.RefParse(plainToks)
			if err != nil {
				w.a.broken = err.Error()
				break
			}
			ctx := &contexts[0]
			full := func(t []string) string { return exprgen.Layout(join(ctx.pre, t, ctx.post), &exprgen.LayoutOpts{}) }
			vs := []variant{
				{src: full(plainToks), kind: "base"},
				{src: full(join([]string{"("}, tgt, []string{")", p.Op1, "b", "+", "1"})), kind: "paren-assign-lhs"},
				{src: full(join([]string{"(", "("}, tgt, []string{")", ")", p.Op1, "(", "b", "+", "1", ")"})), kind: "paren-assign-lhs"},
			}
			w.a.judgeExpr("parenlhs", want, ctx, vs)
		}
	case "value":
		var items []vitem
		for i := 0; i < p.N; i++ {
			t, v := exprgen.TypedTree(w.r, p.Depth, w.r.Intn(3) == 0)
			if !w.selfCheckTree(t) {
				break
			}
			items = append(items, w.printItem(t, v.String()))
		}
		w.runValues("value", items)
	case "vpairs":
		w.runValues("vpairs", w.valuePairs(p.Op1))
	case "vassign":
		w.runValues("vassign", w.valueAssigns(p.Op1))
	case "wblock":
		switch p.Name {
		case "op":
			w.wblockOp(braceForms[p.N%len(braceForms)], p.Op1, p.K)
		case "post":
			w.wblockPost(braceForms[p.N%len(braceForms)], p.K)
		default:
			w.wblockRandom(p.N, p.Depth, p.K)
		}
	case "vblock":
		var items []vitem
		for i := 0; i < p.N; i++ {
			it, ok := w.braceValueItem(p.Depth)
			if !ok {
				break
			}
			items = append(items, it)
		}
		w.runValues("vblock", items)
	case "spell":
		w.spellRandom(p.N, p.Depth, p.K)
	case "litdirect":
		w.litDirect(p.V, p.Seps)
	case "vspell":
		w.runValues("vspell", w.vspellItems(p.N, p.Depth, p.Name == "directed"))
	case "stmtspell":
		w.stmtSpell()
	case "lists":
		w.lists()
	case "stmt":
		w.stmt()
	case "src":
		w.explicit()
	case "meaning":
		w.meaning()
	default:
		return fw.Result{Verdict: fw.Inconclusive, Why: "unknown case kind " + c.Kind, Cover: []string{"harness-selfcheck-failed"}}
	}
	res = w.a.result()
	if res.Verdict == fw.Held && w.r.Intn(25) == 0 {
		res.Sample = map[string]any{"workload": c.Kind, "params": strings.TrimSpace(p.Op1 + " " + p.Op2 + " " + p.Name), "sources_parsed": w.a.obs["sources_parsed"], "example": w.a.example}
	}
	return res
}

func assignTarget(r *fw.Rng) *exprgen.Node {
	t := exprgen.Id(fw.Pick(r, []string{"a", "x", "foo"}))
	switch r.Intn(4) {
	case 0:
		return exprgen.Index(t, exprgen.Int(int64(r.Intn(3))))
	case 1:
		return exprgen.Member(t, "m")
	case 2:
		return exprgen.Member(exprgen.Index(t, exprgen.Id("i")), "n")
	}
	return t
}

// tightTree builds a small tree that contains at least one of | || |= & && &=.
func (w *work) tightTree(depth int) *exprgen.Node {
	g := &exprgen.GenOpts{R: w.r, MaxDepth: depth}
	sub := func() *exprgen.Node {
		if depth <= 1 {
			return exprgen.Id(fw.Pick(w.r, []string{"a", "b", "c", "x"}))
		}
		return exprgen.RandomTree(g)
	}
	switch op := fw.Pick(w.r, []string{"|", "||", "&", "&&", "|=", "&="}); op {
	case "|=", "&=":
		return exprgen.Bin(op, exprgen.Id("t"), sub())
	default:
		return exprgen.Bin(op, sub(), sub())
	}
}

func (c07) OnCrash(c fw.Case, cr fw.Crash) fw.Result {
	switch cr.Kind {
	case "watchdog", "killed":
		return fw.Result{Verdict: fw.Inconclusive, Why: cr.Kind + ": " + cr.Message}
	}
	return fw.Result{Verdict: fw.Violated, Nontrivial: true,
		Sig: fmt.Sprintf("%s:%s:%s", cr.Kind, util.NormPanic(cr.Message), cr.TopFrame),
		Why: fmt.Sprintf("worker died (%s: %s) at %s while running case %s of workload %s", cr.Kind, util.Clip(cr.Message, 200), cr.TopFrame, c.ID, c.Kind)}
}

// Finalize: the run is broken when a harness self-check failed or a main workload observed
// nothing non-trivial.
func (c07) Finalize(tier string, results []fw.Result, coverage map[string]any) string {
	nontriv := map[string]int{}
	total := map[string]int{}
	for _, r := range results {
		gen := ""
		for _, k := range r.Cover {
			if k == "harness-selfcheck-failed" {
				return "harness self-check failed in case " + r.ID + ": " + r.Why
			}
			if strings.HasPrefix(k, "gen:") {
				gen = k[4:]
			}
		}
		if gen == "" {
			continue
		}
		total[gen]++
		if r.Nontrivial {
			nontriv[gen]++
		}
	}
	coverage["nontrivial_by_workload"] = nontriv
	coverage["cases_by_workload"] = total
	var missing []string
	for _, g := range []string{"pairs", "triples", "prepost", "random", "value", "vpairs", "vassign", "lists", "meaning", "stmt", "wblock", "vblock", "spell", "litdirect", "vspell", "stmtspell"} {
		if total[g] > 0 && nontriv[g] == 0 {
			missing = append(missing, g)
		}
	}
	sort.Strings(missing)
	if len(missing) > 0 {
		return "workloads without any non-trivial case: " + strings.Join(missing, ",")
	}
	return ""
}

// ---------------------------------------------------------------------------------------------
// Value check
// ---------------------------------------------------------------------------------------------

// vitem is a group of statements inside main() that ends by printing one value.
type vitem struct {
	toks   []string      // tokens of all statements of the item
	n      int           // number of statements
	at     int           // statement (within the item) that holds the checked expression
	inCall bool          // the expression is the single argument of a call statement
	want   *exprgen.Node // intended tree of the checked expression
	expect string        // expected printed line
}

func (w *work) exprTokens(t *exprgen.Node) []string {
	if w.r.Intn(2) == 0 {
		return exprgen.Tokens(t, nil)
	}
	po := &exprgen.PrintOpts{R: w.r, AtomParens: 15, NodeParens: 15, KeepAssignLHS: true}
	toks := exprgen.Tokens(t, po)
	w.a.obs["redundant_parens"] += int64(po.Redundant)
	return toks
}

func (w *work) printItem(t *exprgen.Node, expect string) vitem {
	return vitem{toks: join(split("println ("), w.exprTokens(t), split(") ;")), n: 1, at: 0, inCall: true, want: t, expect: expect}
}

func (w *work) runValues(gen string, items []vitem) {
	if len(items) == 0 || w.a.broken != "" {
		return
	}
	toks := split("fn main ( ) {")
	for _, it := range items {
		toks = append(toks, it.toks...)
	}
	toks = append(toks, "}")
	style := []int{exprgen.StyleCanonical, exprgen.StyleTight, exprgen.StyleMixed, exprgen.StyleLines}[w.r.Intn(4)]
	src := w.layout(toks, style)
	w.a.example = util.Clip(src, 400)
	detail := func(extra map[string]any) map[string]any {
		d := map[string]any{"workload": gen, "source": src}
		for k, x := range extra {
			d[k] = x
		}
		return d
	}
	// (1) shape of every checked expression
	p := parse(src)
	w.a.evals++
	w.a.obs["sources_parsed"]++
	if !p.ok {
		sig := "reject:" + gen + ":" + p.class
		if strings.HasPrefix(p.class, "go-panic") {
			sig = fmt.Sprintf("go-panic:%s:%s", strings.TrimPrefix(p.class, "go-panic:"), p.frames)
		}
		w.a.fail(sig, fmt.Sprintf("a well-formed program was not parsed (%s): %q", p.message, util.Clip(src, 400)), detail(nil))
		return
	}
	si := 0
	shapesOK := true
	for _, it := range items {
		e, ok := mainStmtExpr(p.prog, si+it.at)
		if ok && it.inCall {
			call, isCall := e.(ast.CallExpression)
			if isCall && len(call.Arguments.List) == 1 {
				e = call.Arguments.List[0]
			} else {
				ok = false
			}
		}
		si += it.n
		if !ok {
			w.a.fail("shape:"+gen+":wrapper", fmt.Sprintf("statement structure differs from what was printed: %q", util.Clip(src, 400)), detail(map[string]any{"dump": p.dump}))
			shapesOK = false
			break
		}
		got := exprgen.FromAst(e, nil)
		if !exprgen.Equal(it.want, got) {
			wd, gd := firstDiff(it.want, got)
			w.a.fail(fmt.Sprintf("shape:%s->%s", headOf(wd), headOf(gd)),
				fmt.Sprintf("parse tree differs from the tree fixed by the operator table: %q parsed as %s, intended %s", strings.Join(it.toks, " "), got.Sexp(), it.want.Sexp()),
				detail(map[string]any{"item": strings.Join(it.toks, " "), "parsed": got.Sexp(), "intended": it.want.Sexp()}))
			shapesOK = false
		}
	}
	// (2) values
	srcs := drive.Sources{"main": src}
	ao := drive.Analyze(srcs, "main", true)
	if ao.Errors > 0 {
		w.a.fail("value:rejected:"+gen, fmt.Sprintf("a program that is well-typed under the intended trees was rejected: %s; source %q", util.Clip(ao.ErrorSummary(), 300), util.Clip(src, 400)), detail(map[string]any{"errors": ao.ErrorSummary()}))
		return
	}
	run := drive.RunVM(ao.Modules, srcs, "main", drive.VMOpts{})
	w.a.evals++
	if run.Outcome.Class != "ok" {
		w.a.fail("value:vm-"+run.Outcome.Class+":"+gen, fmt.Sprintf("the VM did not finish a program whose intended value is defined: %s; source %q", run.Outcome, util.Clip(src, 400)), detail(map[string]any{"outcome": run.Outcome.String()}))
		return
	}
	lines := strings.Split(strings.TrimSuffix(run.Log.Output(), "\n"), "\n")
	if len(lines) != len(items) {
		w.a.fail("value:lines:"+gen, fmt.Sprintf("expected %d printed lines, got %d: %q", len(items), len(lines), util.Clip(run.Log.Output(), 300)), detail(map[string]any{"output": run.Log.Output()}))
		return
	}
	for i, it := range items {
		w.a.evals++
		w.a.obs["values_compared"]++
		if lines[i] != it.expect {
			w.a.fail("value:wrong:"+gen, fmt.Sprintf("%q printed %s, the intended tree %s evaluates to %s", strings.Join(it.toks, " "), lines[i], it.want.Sexp(), it.expect),
				detail(map[string]any{"item": strings.Join(it.toks, " "), "printed": lines[i], "expected": it.expect, "intended": it.want.Sexp()}))
			continue
		}
		if it.want.CountOps() >= 2 && shapesOK {
			w.a.multiOp = true
			w.a.varied = true
		}
	}
}

var pairPool = []*exprgen.Node{
	exprgen.Int(0), exprgen.Int(1), exprgen.Int(2), exprgen.Int(3), exprgen.Int(5), exprgen.Int(7), exprgen.Bool(false), exprgen.Bool(true),
}

type pairCand struct {
	want  *exprgen.Node
	val   exprgen.Val
	score int
}

// valuePairs: for operator op1 and every infix operator op2, literals a, b, c such that the
// intended tree of `a op1 b op2 c` is well-typed and defined and — whenever such literals exist —
// the other grouping evaluates to a different value (or is ill-typed).
func (w *work) valuePairs(op1 string) []vitem {
	var items []vitem
	pick := func(cands []pairCand) {
		if len(cands) == 0 {
			return
		}
		sort.SliceStable(cands, func(i, j int) bool { return cands[i].score > cands[j].score })
		best := cands[0].score
		nb := 0
		for nb < len(cands) && cands[nb].score == best {
			nb++
		}
		// two of the best candidates, seed-chosen
		for k := 0; k < 2 && k < nb; k++ {
			c := cands[(w.r.Intn(nb)+k)%nb]
			items = append(items, w.printItem(c.want, c.val.String()))
			w.a.cover[fmt.Sprintf("vpair-score:%d", c.score)] = true
		}
	}
	score := func(v1 exprgen.Val, alt *exprgen.Node) int {
		v2, err := exprgen.Eval(alt)
		switch {
		case err == nil && v2 != v1:
			return 3 // a wrong grouping silently gives another value
		case err == exprgen.ErrType:
			return 2 // a wrong grouping is ill-typed
		case err == exprgen.ErrUnsafe:
			return 1
		}
		return 0
	}
	if strings.HasPrefix(op1, "pre") {
		pre := op1[3:]
		for _, op := range exprgen.InfixOps {
			var cands []pairCand
			for _, a := range pairPool {
				for _, b := range pairPool {
					want := exprgen.Bin(op, exprgen.Prefix(pre, a), b)
					v1, err := exprgen.Eval(want)
					if err != nil {
						continue
					}
					cands = append(cands, pairCand{want, v1, score(v1, exprgen.Prefix(pre, exprgen.Bin(op, a, b)))})
				}
			}
			pick(cands)
		}
		return items
	}
	for _, op2 := range exprgen.InfixOps {
		var cands []pairCand
		for _, a := range pairPool {
			for _, b := range pairPool {
				for _, c := range pairPool {
					toks := join(exprgen.Tokens(a, nil), []string{op1}, exprgen.Tokens(b, nil), []string{op2}, exprgen.Tokens(c, nil))
					want, err := exprgen.RefParse(toks)
					if err != nil {
						w.a.broken = err.Error()
						return nil
					}
					v1, err := exprgen.Eval(want)
					if err != nil {
						continue
					}
					var alt *exprgen.Node
					if want.Kids[0].K == exprgen.KBin { // (a op1 b) op2 c
						alt = exprgen.Bin(op1, a, exprgen.Bin(op2, b, c))
					} else {
						alt = exprgen.Bin(op2, exprgen.Bin(op1, a, b), c)
					}
					cands = append(cands, pairCand{want, v1, score(v1, alt)})
				}
			}
		}
		pick(cands)
	}
	return items
}

type assignCand struct {
	x0, rhs *exprgen.Node
	res     exprgen.Val
	score   int
}

// valueAssigns: `let x = A; x op= B op2 C; println(x);` for every infix operator op2 that is
// well-typed with op=; the whole right-hand side must be assigned.
func (w *work) valueAssigns(aop string) []vitem {
	var items []vitem
	infix := strings.TrimSuffix(aop, "=")
	k := 0
	for _, op2 := range exprgen.InfixOps {
		var chosen *assignCand
		for _, x0 := range pairPool {
			for _, b := range pairPool {
				for _, c := range pairPool {
					rhs := exprgen.Bin(op2, b, c)
					rv, err := exprgen.Eval(rhs)
					if err != nil {
						continue
					}
					x0v, _ := exprgen.Eval(x0)
					if x0v.IsBool != rv.IsBool {
						continue
					}
					res := rv
					if infix != "" {
						res2, err := exprgen.Eval(exprgen.Bin(infix, x0, rhs))
						if err != nil || res2.IsBool != x0v.IsBool {
							continue
						}
						res = res2
					}
					// prefer right-hand sides where assigning only `b` would give another value
					sc := 0
					alt := exprgen.Val(rv)
					if bv, err := exprgen.Eval(b); err == nil && bv.IsBool == x0v.IsBool {
						alt = bv
						if infix != "" {
							if a2, err := exprgen.Eval(exprgen.Bin(infix, x0, b)); err == nil {
								alt = a2
							}
						}
						if alt != res {
							sc = 1
						}
					} else {
						sc = 1
					}
					if chosen == nil || sc > chosen.score || (sc == chosen.score && w.r.Intn(7) == 0) {
						chosen = &assignCand{x0, rhs, res, sc}
					}
				}
			}
		}
		if chosen == nil {
			continue
		}
		name := fmt.Sprintf("x%d", k)
		k++
		want := exprgen.Bin(aop, exprgen.Id(name), chosen.rhs)
		toks := join([]string{"let", name, "="}, exprgen.Tokens(chosen.x0, nil), []string{";"}, exprgen.Tokens(want, nil), []string{";"}, split("println ( "+name+" ) ;"))
		items = append(items, vitem{toks: toks, n: 3, at: 1, want: want, expect: chosen.res.String()})
	}
	return items
}

// ---------------------------------------------------------------------------------------------
// Layout-only workloads
// ---------------------------------------------------------------------------------------------

func (w *work) compareLayouts(gen, name string, base parsed, baseSrc string, toks []string, k int) {
	for j := 0; j < k; j++ {
		style := 1 + (j % (exprgen.NumStyles - 1))
		src := w.layout(toks, style)
		p := parse(src)
		w.a.evals++
		w.a.obs["sources_parsed"]++
		w.a.obs["variants_compared"]++
		if src != baseSrc {
			w.a.varied = true
		}
		if p.class != base.class || p.dump != base.dump {
			sig := fmt.Sprintf("layout:%s:layout-%s:%s", gen, styleNames[style], diffClass(base, p))
			if strings.HasPrefix(p.class, "go-panic") {
				sig = fmt.Sprintf("go-panic:%s:%s", strings.TrimPrefix(p.class, "go-panic:"), p.frames)
			}
			w.a.fail(sig, fmt.Sprintf("re-laying-out %s changes the parse (%s -> %s %s): %q", name, base.class, p.class, p.message, util.Clip(src, 400)),
				map[string]any{"workload": gen, "name": name, "base_source": baseSrc, "source": src, "base_outcome": base.class, "outcome": p.class, "first_dump_difference": dumpDiff(base.dump, p.dump)})
		}
	}
}

func dumpDiff(a, b string) string {
	i := 0
	for i < len(a) && i < len(b) && a[i] == b[i] {
		i++
	}
	if i == len(a) && i == len(b) {
		return ""
	}
	lo := i - 60
	if lo < 0 {
		lo = 0
	}
	return fmt.Sprintf("base: …%s | variant: …%s", util.Clip(a[lo:], 200), util.Clip(b[lo:], 200))
}

func (w *work) stmt() {
	p := w.p
	toks, ok := exprgen.Tokenize(p.Src)
	if !ok {
		w.a.cover["stmt:not-tokenizable"] = true
		return
	}
	base := parse(p.Src)
	w.a.evals++
	w.a.obs["sources_parsed"]++
	if !base.ok {
		w.a.cover["stmt:base-rejected"] = true
		w.a.obs["stmt_base_rejected"]++
		w.a.example = p.Name + ": " + base.class
		return
	}
	w.a.multiOp = true // layout cases: the non-trivial condition is "base accepted and a differing variant compared"
	w.a.example = p.Name
	w.compareLayouts("stmt", p.Name, base, p.Src, toks, p.K)
}

func (w *work) lists() {
	p := w.p
	a, b := parse(p.Src), parse(p.Alt)
	w.a.evals += 2
	w.a.obs["sources_parsed"] += 2
	w.a.example = p.Alt
	if !a.ok {
		w.a.fail("reject:lists:"+p.Name+":"+a.class, fmt.Sprintf("list form without trailing comma rejected (%s): %q", a.message, p.Src), map[string]any{"source": p.Src})
		return
	}
	if b.class != a.class || b.dump != a.dump {
		w.a.fail("trailing-comma:"+p.Name+":"+diffClass(a, b), fmt.Sprintf("a trailing comma changes the parse of %s (%s -> %s %s): %q vs %q", p.Name, a.class, b.class, b.message, p.Src, p.Alt),
			map[string]any{"without": p.Src, "with": p.Alt, "outcome_without": a.class, "outcome_with": b.class, "first_dump_difference": dumpDiff(a.dump, b.dump)})
		return
	}
	w.a.multiOp, w.a.varied = true, true
	w.a.obs["trailing_commas"] += int64(strings.Count(p.Alt, ",") - strings.Count(p.Src, ","))
	// and both under re-layout
	if toks, ok := exprgen.Tokenize(p.Alt); ok {
		w.compareLayouts("lists", p.Name, a, p.Src, toks, p.K)
	}
}

// explicit: pinned sources (witnesses of findings): Srcs[0] is the base rendering.
func (w *work) explicit() {
	p := w.p
	if len(p.Srcs) == 0 {
		return
	}
	if p.Want != nil {
		ctx := ctxByName(p.Ctx)
		var vs []variant
		for i, s := range p.Srcs {
			kind := "variant"
			if i == 0 {
				kind = "base"
			}
			vs = append(vs, variant{src: s, kind: kind})
		}
		w.a.judgeExpr("src", p.Want, ctx, vs)
		return
	}
	base := parse(p.Srcs[0])
	w.a.evals++
	for _, s := range p.Srcs[1:] {
		q := parse(s)
		w.a.evals++
		w.a.varied = true
		if q.class != base.class || q.dump != base.dump {
			w.a.fail("layout:src:"+diffClass(base, q), fmt.Sprintf("two renderings parse differently: %q -> %s, %q -> %s %s", p.Srcs[0], base.class, s, q.class, q.message), map[string]any{"base_source": p.Srcs[0], "source": s})
		}
	}
	w.a.multiOp = base.ok
}
