package c07

import (
	"fmt"
	"strings"

	"github.com/smarthome-go/homescript/v3/homescript/parser/ast"

	"hv/exprgen"
	"hv/fw"
	"hv/util"
)

// ---------------------------------------------------------------------------------------------
// Brace-terminated operands: `{ .. }`, `if`, `match`, `try` (the grammar's ExpressionWithBlock)
// and their neighbours that also end with `}` (function literal, object literal) used
// UNPARENTHESISED as an operand of the operator table: left/right operand of every binary-like
// operator, base of call / index / member, operand of a prefix operator, side of a range.
//
// An operand "that is already a single node" is one node wherever it stands: the intended tree is
// the operator-table tree over a placeholder identifier, with the placeholder replaced by the node
// the real parser builds for the operand standing alone (`let v = <operand>;`, observed at run
// time, span-insensitive). The texts are the placeholder's printings with the operand's tokens
// substituted, so redundant parentheses around the operand, every layout style and — because the
// closing `}` is where a statement could also end — a line break / line comment in every single
// gap of the expression are exercised.
// ---------------------------------------------------------------------------------------------

type braceForm struct {
	name      string
	toks      []string
	withBlock bool // ExpressionWithBlock of the grammar (`;` optional after it as a statement)
}

var braceForms = []braceForm{
	{"block", split("{ 1 }"), true},
	{"block-stmts", split("{ f ( ) ; x }"), true},
	{"block-empty", split("{ }"), true},
	{"if", split("if c { 1 }"), true},
	{"if-else", split("if c { 10 } else { 20 }"), true},
	{"if-elseif", split("if c { 1 } else if d { 2 } else { 3 }"), true},
	{"match", split("match x { 1 => 2 , _ => 3 }"), true},
	{"match-empty", split("match x { }"), true},
	{"match-blockarms", split("match x { 1 => { f ( ) ; } _ => { } }"), true},
	{"try", split("try { f ( ) } catch e { 2 }"), true},
	// neighbours: not "with block" in the grammar, but they end with `}` as well
	{"fnlit", split("fn ( p : int ) -> int { p }"), false},
	{"obj", split("new { k : 1 }"), false},
	{"anyobj", split("new { ? }"), false},
}

// contexts in which the expression under test starts a statement (or is a block's result): there
// `<with-block expression> <operator> ..` has a second grammatical reading (ExpressionStatement =
// ExpressionWithBlock [';'] followed by another statement), so the operator-table tree is not
// demanded there — only that every layout of the token sequence gives the same tree.
var stmtStartCtx = map[string]bool{"stmt": true, "tail": true, "fnlit": true, "blocktail": true}

const phPrefix = "wbq" // placeholder identifiers wbq0, wbq1, ...

func placeholder(i int) string { return fmt.Sprintf("%s%d", phPrefix, i) }

// operand is one brace-terminated operand instance: its tokens and the node the real parser builds
// for it standing alone.
type operand struct {
	toks      []string
	leaf      *exprgen.Node
	withBlock bool
}

// standalone parses `fn main ( ) { let v = <toks> ; }` with the real parser and returns the
// expression's node (cached per token text).
func (w *work) standalone(toks []string) (*exprgen.Node, bool) {
	key := strings.Join(toks, " ")
	if w.alone == nil {
		w.alone = map[string]*exprgen.Node{}
	}
	if n, ok := w.alone[key]; ok {
		return n, n != nil
	}
	src := "fn main ( ) { let v = " + key + " ; }"
	p := parse(src)
	w.a.evals++
	w.a.obs["sources_parsed"]++
	var n *exprgen.Node
	if p.ok {
		if s, ok := mainStmt(p.prog, 0); ok {
			if l, ok := s.(ast.LetStatement); ok && len(p.prog.Functions[0].Body.Statements) == 1 {
				n = exprgen.FromAst(l.Expression, nil)
			}
		}
	}
	if n == nil {
		sig := "reject:operand-alone:" + p.class
		if strings.HasPrefix(p.class, "go-panic") {
			sig = fmt.Sprintf("go-panic:%s:%s", strings.TrimPrefix(p.class, "go-panic:"), p.frames)
		}
		w.a.fail(sig, fmt.Sprintf("a grammatical operand standing alone was not parsed as one let statement (%s %s): %q", p.class, p.message, src), map[string]any{"source": src, "outcome": p.class})
	}
	w.alone[key] = n
	return n, n != nil
}

// mapTree copies a tree, replacing every node for which f returns non-nil.
func mapTree(n *exprgen.Node, f func(*exprgen.Node) *exprgen.Node) *exprgen.Node {
	if r := f(n); r != nil {
		return r
	}
	c := *n
	c.Kids = make([]*exprgen.Node, len(n.Kids))
	for i, k := range n.Kids {
		c.Kids[i] = mapTree(k, f)
	}
	c.Keys = append([]string(nil), n.Keys...)
	return &c
}

// substitute replaces placeholder tokens by the operands' tokens.
func substitute(toks []string, ops map[string]operand) []string {
	out := make([]string, 0, len(toks)+8)
	for _, t := range toks {
		if o, ok := ops[t]; ok {
			out = append(out, o.toks...)
		} else {
			out = append(out, t)
		}
	}
	return out
}

// checkTokens: self-check of a hand-made rendering against the harness' reference tokenizer.
func (w *work) checkTokens(src string, toks []string) {
	if back, ok := exprgen.Tokenize(src); !ok || strings.Join(back, "\x00") != strings.Join(toks, "\x00") {
		w.a.broken = fmt.Sprintf("Tokenize(rendering) != tokens for %q", util.Clip(src, 300))
	}
}

var gapSeps = []struct{ name, text string }{
	{"lf", "\n"},
	{"line-comment", " // note\n"},
	{"crlf", "\r\n"},
	{"lf-indent", "\n    "},
	{"line-comment-op", " // - ( [ .\n"},
}

// gapVariants: the canonical rendering with a line break (plain, CRLF, or after a line comment)
// in exactly one gap, for every gap of the expression (including the ones around it).
func (w *work) gapVariants(ctx *context, expr []string) []variant {
	full := join(ctx.pre, expr, ctx.post)
	lo, hi := len(ctx.pre)-1, len(ctx.pre)+len(expr)-1 // gap g sits behind token g
	if lo < 0 {
		lo = 0
	}
	if hi > len(full)-2 {
		hi = len(full) - 2
	}
	rot := w.r.Intn(len(gapSeps))
	var vs []variant
	for g := lo; g <= hi; g++ {
		sep := gapSeps[(g+rot)%len(gapSeps)]
		var sb strings.Builder
		for i, t := range full {
			sb.WriteString(t)
			switch {
			case i == len(full)-1:
			case i == g:
				sb.WriteString(sep.text)
			default:
				sb.WriteByte(' ')
			}
		}
		src := sb.String()
		w.checkTokens(src, full)
		w.a.obs["newlines_inserted"]++
		w.a.cover["style:one-gap-"+sep.name] = true
		vs = append(vs, variant{src: src, kind: "gap-" + sep.name})
	}
	return vs
}

// judgeBrace judges one intended tree over placeholders: want has the operands' alone-nodes in
// place of the placeholders, the texts have their tokens.
func (w *work) judgeBrace(gen string, ph *exprgen.Node, ops map[string]operand, ctx *context, k int) {
	want := mapTree(ph, func(n *exprgen.Node) *exprgen.Node {
		if n.K == exprgen.KIdent {
			if o, ok := ops[n.Op]; ok {
				return o.leaf
			}
		}
		return nil
	})
	print := func(po *exprgen.PrintOpts) []string { return substitute(exprgen.Tokens(ph, po), ops) }
	vs := w.variantsOf(print, nil, ctx, k)
	base := print(nil)
	vs = append(vs, w.gapVariants(ctx, base)...)
	// statement-start position of a with-block operand: layout invariance only
	layoutOnly := false
	if stmtStartCtx[ctx.name] {
		first := exprgen.Tokens(ph, nil)[0]
		if o, ok := ops[first]; ok && o.withBlock {
			layoutOnly = true
		}
	}
	w.a.cover["ctx:"+ctx.name] = true
	if layoutOnly {
		keep := vs[:0:0]
		for _, v := range vs {
			if v.kind == "base" || strings.HasPrefix(v.kind, "layout-") || strings.HasPrefix(v.kind, "gap-") {
				keep = append(keep, v)
			}
		}
		vs = keep
		w.a.cover["brace:statement-start"] = true
	}
	w.a.judgeExprOpt(gen, want, ctx, vs, layoutOnly)
}

// braceFlat: a flat token sequence over placeholders and plain operands; intended tree = the
// reference parser's.
func (w *work) braceFlat(gen string, toks []string, ops map[string]operand, ctx *context, k int) {
	ph, err := exprgen.RefParse(toks)
	if err != nil {
		w.a.broken = err.Error()
		return
	}
	if back := exprgen.Tokens(ph, nil); strings.Join(back, " ") != strings.Join(toks, " ") {
		again, err := exprgen.RefParse(back)
		if !castBeforePow(toks) || err != nil || !exprgen.Equal(again, ph) {
			w.a.broken = fmt.Sprintf("Tokens(RefParse(s)) != s for s=%q: %q", strings.Join(toks, " "), strings.Join(back, " "))
			return
		}
	}
	w.judgeBrace(gen, ph, ops, ctx, k)
}

func (w *work) operandOf(f braceForm) (operand, bool) {
	leaf, ok := w.standalone(f.toks)
	return operand{toks: f.toks, leaf: leaf, withBlock: f.withBlock}, ok
}

// wblockOp: one (operand form, binary-like operator) bundle.
func (w *work) wblockOp(f braceForm, op string, k int) {
	o, ok := w.operandOf(f)
	if !ok {
		return
	}
	p := placeholder(0)
	ops := map[string]operand{p: o}
	w.a.cover["brace:"+f.name] = true
	op2 := fw.Pick(w.r, exprgen.InfixOps)
	var seqs [][]string
	// operand on the left / on the right / in the middle of pairs
	seqs = append(seqs, join([]string{p, op}, w.operandAfter(op, "b")))
	seqs = append(seqs, join([]string{p, op}, w.operandAfter(op, "b"), []string{op2, "c"}))
	seqs = append(seqs, join([]string{p, op2, "b", op}, w.operandAfter(op, "c")))
	if op != "as" {
		seqs = append(seqs, []string{"a", op, p})
		seqs = append(seqs, []string{"a", op, p, op2, "c"})
		seqs = append(seqs, []string{"a", op2, "b", op, p})
		seqs = append(seqs, []string{p, op, p}) // the same operand on both sides
	}
	// decorated: prefix operators in front of it, postfix operators behind it
	pre, post := fw.Pick(w.r, prefixForms[1:]), fw.Pick(w.r, postfixForms[1:])
	seqs = append(seqs, join(pre, []string{p, op}, w.operandAfter(op, "b")))
	seqs = append(seqs, join([]string{p}, post, []string{op}, w.operandAfter(op, "b")))
	if op != "as" {
		seqs = append(seqs, join([]string{"a", op}, pre, []string{p}, post))
	}
	for i, s := range seqs {
		if i == 0 {
			for _, ctx := range []*context{&contexts[0], ctxByName("let")} {
				w.braceFlat("wblock", s, ops, ctx, k)
			}
			continue
		}
		w.braceFlat("wblock", s, ops, w.pickCtx(), k)
	}
}

// wblockPost: one operand form under every postfix / prefix form and as a side of a range.
func (w *work) wblockPost(f braceForm, k int) {
	o, ok := w.operandOf(f)
	if !ok {
		return
	}
	p := placeholder(0)
	ops := map[string]operand{p: o}
	w.a.cover["brace:"+f.name] = true
	for _, post := range postfixForms[1:] {
		for _, ctx := range []*context{&contexts[0], ctxByName("let"), w.pickCtx()} {
			w.braceFlat("wblock", join([]string{p}, post), ops, ctx, k)
		}
		for _, pre := range prefixForms[1:] {
			w.braceFlat("wblock", join(pre, []string{p}, post), ops, w.pickCtx(), k)
		}
	}
	for _, pre := range prefixForms[1:] {
		w.braceFlat("wblock", join(pre, []string{p}), ops, w.pickCtx(), k)
	}
	// ranges are outside the table (sides are printed as single nodes): `F .. b`, `a ..= F`
	for _, rop := range []string{"..", "..="} {
		for _, kids := range [][]*exprgen.Node{{exprgen.Id(p), exprgen.Id("b")}, {exprgen.Id("a"), exprgen.Id(p)}, {exprgen.Id(p), exprgen.Id(p)}} {
			w.judgeBrace("wblock", &exprgen.Node{K: exprgen.KRange, Op: rop, Kids: kids}, ops, fw.Pick(w.r, []*context{&contexts[0], ctxByName("let"), ctxByName("forin"), ctxByName("arg")}), k)
		}
	}
}

// wblockRandom: random trees over the whole table in which some identifier leaves are replaced by
// brace-terminated operands.
func (w *work) wblockRandom(n, depth, k int) {
	g := &exprgen.GenOpts{R: w.r, MaxDepth: depth, Ranges: true}
	for i := 0; i < n; i++ {
		t := exprgen.RandomTree(g)
		if !w.selfCheckTree(t) {
			return
		}
		var ids []*exprgen.Node
		t.Walk(func(m *exprgen.Node) {
			if m.K == exprgen.KIdent {
				ids = append(ids, m)
			}
		})
		if len(ids) == 0 {
			t = exprgen.Bin(fw.Pick(w.r, exprgen.InfixOps), exprgen.Id("a"), t)
			ids = []*exprgen.Node{t.Kids[0]}
		}
		ops := map[string]operand{}
		chosen := map[*exprgen.Node]string{}
		for j := 0; j < 1+w.r.Intn(2); j++ {
			f := fw.Pick(w.r, braceForms)
			o, ok := w.operandOf(f)
			if !ok {
				return
			}
			p := placeholder(j)
			ops[p] = o
			chosen[fw.Pick(w.r, ids)] = p
			w.a.cover["brace:"+f.name] = true
		}
		ph := mapTree(t, func(m *exprgen.Node) *exprgen.Node {
			if p, ok := chosen[m]; ok {
				return exprgen.Id(p)
			}
			return nil
		})
		w.a.cover[fmt.Sprintf("depth:%d", ph.Depth())] = true
		w.judgeBrace("wblock", ph, ops, w.pickCtx(), k)
	}
}

// ---------------------------------------------------------------------------------------------
// Values: typed int/bool trees in which some literal leaves are wrapped into a brace-terminated
// operand of the same value; the printed value must be the one of the intended tree.
// ---------------------------------------------------------------------------------------------

// valueForms wrap the literal L (other: another literal of the same type) into a with-block
// expression that evaluates to L.
var valueForms = []struct {
	name string
	make func(l, other string) string
}{
	{"block", func(l, o string) string { return "{ " + l + " }" }},
	{"block-let", func(l, o string) string { return "{ let q = " + l + " ; q }" }},
	{"if-true", func(l, o string) string { return "if true { " + l + " } else { " + o + " }" }},
	{"if-false", func(l, o string) string { return "if false { " + o + " } else { " + l + " }" }},
	{"match", func(l, o string) string { return "match 1 { 1 => " + l + " , _ => " + o + " }" }},
	{"match-default", func(l, o string) string { return "match 2 { 1 => " + o + " , _ => " + l + " }" }},
	{"try", func(l, o string) string { return "try { " + l + " } catch e { " + o + " }" }},
}

func (w *work) braceValueItem(depth int) (vitem, bool) {
	t, v := exprgen.TypedTree(w.r, depth, w.r.Intn(3) == 0)
	if !w.selfCheckTree(t) {
		return vitem{}, false
	}
	var lits []*exprgen.Node
	t.Walk(func(m *exprgen.Node) {
		if m.K == exprgen.KInt || m.K == exprgen.KBool {
			lits = append(lits, m)
		}
	})
	ops := map[string]operand{}
	chosen := map[*exprgen.Node]string{}
	for j := 0; j < 1+w.r.Intn(3) && len(lits) > 0; j++ {
		m := fw.Pick(w.r, lits)
		if _, dup := chosen[m]; dup {
			continue
		}
		l, other := "", ""
		if m.K == exprgen.KBool {
			l, other = fmt.Sprint(m.B), fmt.Sprint(!m.B)
		} else {
			l, other = fmt.Sprint(m.I), fmt.Sprint(m.I+1+int64(w.r.Intn(5)))
		}
		f := fw.Pick(w.r, valueForms)
		toks := split(f.make(l, other))
		leaf, ok := w.standalone(toks)
		if !ok {
			return vitem{}, false
		}
		p := placeholder(len(ops))
		ops[p] = operand{toks: toks, leaf: leaf, withBlock: true}
		chosen[m] = p
		w.a.cover["vbrace:"+f.name] = true
	}
	ph := mapTree(t, func(m *exprgen.Node) *exprgen.Node {
		if p, ok := chosen[m]; ok {
			return exprgen.Id(p)
		}
		return nil
	})
	want := mapTree(ph, func(m *exprgen.Node) *exprgen.Node {
		if m.K == exprgen.KIdent {
			if o, ok := ops[m.Op]; ok {
				return o.leaf
			}
		}
		return nil
	})
	var toks []string
	if w.r.Intn(2) == 0 {
		toks = exprgen.Tokens(ph, nil)
	} else {
		po := &exprgen.PrintOpts{R: w.r, AtomParens: 15, NodeParens: 15, KeepAssignLHS: true}
		toks = exprgen.Tokens(ph, po)
		w.a.obs["redundant_parens"] += int64(po.Redundant)
	}
	return vitem{toks: join(split("println ("), substitute(toks, ops), split(") ;")), n: 1, at: 0, inCall: true, want: want, expect: v.String()}, true
}
