package c02

// Program families added in the fourth strengthening round. All of them feed the same oracle as the
// operator matrix (Run): the program is given to the REAL analyzer; if (and only if) it is accepted
// it is compiled and executed on the interpreter and on the crash-isolated VM, and the host must
// get normal completion or an interrupt value, the probed dynamic kinds must match and an ok run
// must leave no residue.
//
//   fnlit      function literals written in every construct of their parent (try body, nested try,
//              catch body, try value, the three loops, match arm, if, operand of an unfinished
//              expression, another literal) x body shapes (trailing value, return, conditional
//              return, return out of own try / loop, throw, break/continue) x call sites (no try
//              active, inside try, nested try, through a named helper, helper with own try, try in
//              a loop, operand of an unfinished expression). Valid by construction; the literals
//              capture nothing (KF-vm-closure-capture).
//   member     object types with a data field named like a builtin member x field types x value
//              sources (literal, parse_json cast / annotated let, nested below an option, list element,
//              parameter) x uses
//              (as field, as method, other builtin methods, assignment, string index); plus the
//              any-object with such keys. What the analyzer admits is run.
//   nearvalid  programs breaking ONE rule of the language each; they are only executed when the
//              real analyzer accepts them (on an unchanged tree nearly all are rejected and cost
//              analysis time only): "whatever the analyzer admits must not crash the host".
//                ginit   global initialisers with one non-constant operand in every operand
//                        position of every expression kind
//                flow    a value of type B flowing into a slot of type A for every slot kind
//                        (result, assignment, shadowing let, list element, push, index/field
//                        assignment, object literal, if/match/try value, option payload,
//                        unwrap_or, parameter of a literal, loop variable) x all (A, B)
//                diverge a diverging branch (return/break/continue/throw/loop) next to a value
//                        branch of type B, followed by a use at type A; missing results
//                ctrl    misplaced control flow, wrong arity, calls of non-functions ...
//   json       (valid) dynamically typed values from parse_json flowing into every declared type
//              through an annotated let and through a cast: the runtime validation must turn every
//              mismatch into an interrupt.

import (
	"fmt"
	"sort"
	"strings"

	"github.com/smarthome-go/homescript/v3/homescript/analyzer/ast"
	herrors "github.com/smarthome-go/homescript/v3/homescript/errors"

	"hv/fw"
)

// useOf gives, for a declared type, a statement that uses variable `a` at exactly that type.
var useOf = map[string]string{
	"int": "probe(a + 1);", "float": "probe(a + 1.0);", "bool": "probe(!a);", "str": "probe(a + \"x\");",
	"[int]":      "probe(a.len()); for e in a { probe(e + 1); }",
	"?int":       "probe(a.unwrap_or(0) + 1);",
	"{ a: int }": "probe(a.a + 1);", "{ ? }": "probe(a.keys());", "range": "probe(a.start + 1);",
	"?str": "probe(a.unwrap_or(\"\") + \"x\");", "[str]": "for e in a { probe(e + \"x\"); }", "{ a: str }": "probe(a.a + \"x\");",
}

var extraTypes = []typ{
	{"?str", []string{`?"s"`, "none"}, "option"},
	{"[str]", []string{`["x"]`, "[]"}, "list"},
	{"{ a: str }", []string{`new { a: "s" }`}, "object"},
}

func flowTypes() []typ { return append(append([]typ{}, types...), extraTypes...) }

// sample value of a type that is not the first boundary value (non-empty where possible)
func (t typ) sample() string {
	switch t.name {
	case "int":
		return "7"
	case "float":
		return "1.5"
	case "str":
		return `"ab"`
	case "[int]":
		return "[1, 2, 3]"
	case "?int":
		return "?5"
	case "range":
		return "1..3"
	}
	return t.vals[0]
}

func wrapMain(pre, body string) string {
	var sb strings.Builder
	sb.WriteString(pre)
	sb.WriteString("fn main() {\n    try {\n")
	for _, l := range strings.Split(strings.TrimRight(body, "\n"), "\n") {
		sb.WriteString("        " + l + "\n")
	}
	sb.WriteString("    } catch e {\n        println(\"caught\", e.message);\n    }\n    println(\"end\");\n}\n")
	return sb.String()
}

type famCase struct{ kind, shape, src, want string }

// ---------------------------------------------------------------------------------------------
// fnlit
// ---------------------------------------------------------------------------------------------

const litSig = "fn(x: int) -> int"

func fnlitFamily(full bool) []famCase {
	type named struct{ name, text string }
	bodies := []named{
		{"value", "x + 1"},
		{"return", "return x + 1;"},
		{"cond-return", "if x > 2 { return 1; } 5"},
		{"return-in-try", "try { if x > 2 { return 1; } 5 } catch e { println(e.message); 7 }"},
		{"return-in-for", "for j in 0..5 { if j + x > 3 { return j; } } 9"},
		{"return-in-for-in-try", "try { for j in 0..5 { if j > x { return j; } } 9 } catch e { println(e.message); 7 }"},
		{"return-in-try-in-for", "for j in 0..5 { try { if j > x { return j; } } catch e { println(e.message); } } 9"},
		{"return-in-loop-in-try", "loop { try { return x; } catch e { println(e.message); } }"},
		{"return-in-match", "match x { 3 => { return 30; }, _ => 4 }"},
		{"throw", "if x > 2 { throw(\"boom\"); } 5"},
		{"throw-caught-inside", "try { if x > 2 { throw(\"in\"); } 5 } catch e { println(e.message); 6 }"},
		{"break", "let r = 0; for j in 0..5 { if j > x { break; } r += j; } r"},
		{"break-continue-in-try", "let r = 0; for j in 0..5 { try { if j > x { break; } if j == 1 { continue; } r += j; } catch e { println(e.message); } } r"},
		{"return-in-catch", "try { if x > 2 { throw(\"in\"); } 5 } catch e { return 8; }"},
	}
	dflt := litSig + " { x }"
	// placement: statements that store LIT in f (declared before with the same signature)
	places := []named{
		{"plain", "f = LIT;"},
		{"try-body", "try { f = LIT; } catch e { println(\"c\", e.message); }"},
		{"try-try-body", "try { try { f = LIT; } catch e { println(\"c\", e.message); } } catch e2 { println(\"c2\", e2.message); }"},
		{"catch-body", "try { throw(\"t\"); } catch e { println(e.message); f = LIT; }"},
		{"try-value", "f = try { LIT } catch e { println(e.message); " + dflt + " };"},
		{"catch-value", "f = try { throw(\"t\"); " + dflt + " } catch e { println(e.message); LIT };"},
		{"for-body", "for i in 0..2 { println(i); f = LIT; }"},
		{"while-body", "let n = 0; while n < 1 { n += 1; f = LIT; }"},
		{"loop-body", "loop { f = LIT; break; }"},
		{"list-operand", "let l = [" + dflt + ", LIT]; f = l[1];"},
		{"call-operand", "let k = 10 + apply(LIT, 3) * 2; println(k);"},
		{"match-arm", "f = match 1 { 1 => LIT, _ => " + dflt + " };"},
		{"if-branch", "if true { f = LIT; }"},
		{"in-literal", "let mk = fn() -> " + litSig + " { LIT }; f = mk();"},
		{"in-literal-in-try", "try { let mk = fn() -> " + litSig + " { LIT }; f = mk(); } catch e { println(e.message); }"},
		{"try-in-for", "for i in 0..2 { try { println(i); f = LIT; } catch e { println(e.message); } }"},
		{"for-in-try", "try { for i in 0..2 { println(i); f = LIT; } } catch e { println(e.message); }"},
		{"try-in-loop-break", "loop { try { f = LIT; break; } catch e { println(e.message); } }"},
	}
	calls := []named{
		{"no-try", "println(f(1)); println(f(3));"},
		{"in-try", "try { println(f(1)); println(f(3)); throw(\"after\"); } catch e { println(\"caught\", e.message); }"},
		{"in-try-try", "try { try { println(f(1)); println(f(3)); throw(\"after\"); } catch e { println(\"caught\", e.message); throw(\"again\"); } } catch e2 { println(\"caught2\", e2.message); }"},
		{"helper", "println(apply(f, 1)); println(apply(f, 3));"},
		{"helper-try", "println(apply_try(f, 1)); println(apply_try(f, 3));"},
		{"try-in-for", "for i in 0..2 { try { println(f(i * 3)); throw(\"t\"); } catch e { println(\"c\", e.message); } }"},
		{"operand", "println(100 + f(3) * 2, [f(1), f(3)]);"},
		{"try-value", "let v = try { f(3) } catch e { println(e.message); 0 - 1 }; println(v);"},
	}
	pre := "fn apply(f: " + litSig + ", v: int) -> int { f(v) }\n" +
		"fn apply_try(f: " + litSig + ", v: int) -> int { try { f(v) } catch e { println(\"h\", e.message); 0 - 1 } }\n"
	var out []famCase
	for pi, pl := range places {
		for bi, b := range bodies {
			lit := litSig + " { " + b.text + " }"
			for ci, c := range calls {
				// quick: every (placement, body) pair with the call sites "no try active", "inside try"
				// and one of the others in rotation; thorough: the full product
				if !full && ci >= 2 && ci != 2+(pi+bi)%(len(calls)-2) {
					continue
				}
				src := pre + "fn main() {\n    let f = " + dflt + ";\n    " + strings.ReplaceAll(pl.text, "LIT", lit) + "\n    " + c.text + "\n    println(\"end\");\n}\n"
				out = append(out, famCase{"fnlit", "fnlit:" + pl.name + "/" + b.name + "/" + c.name, src, ""})
			}
		}
	}
	return out
}

// ---------------------------------------------------------------------------------------------
// member
// ---------------------------------------------------------------------------------------------

// builtinMemberNames asks the analyzer's own member tables for the builtin member names of object
// values (the names a data field can collide with) and adds representatives of the other types.
func builtinMemberNames() []string {
	set := map[string]bool{}
	func() {
		defer func() { recover() }()
		sp := herrors.Span{}
		for n := range ast.NewObjectType(nil, sp).Fields(sp) {
			set[n] = true
		}
	}()
	for _, n := range []string{"keys", "to_json", "to_json_indent", "to_string", "len", "get", "set", "unwrap", "push", "start", "val"} {
		set[n] = true
	}
	var names []string
	for n := range set {
		names = append(names, n)
	}
	sort.Strings(names)
	return names
}

func memberFamily(full bool) []famCase {
	objBuiltin := map[string]bool{}
	func() {
		defer func() { recover() }()
		sp := herrors.Span{}
		for n := range ast.NewObjectType(nil, sp).Fields(sp) {
			objBuiltin[n] = true
		}
	}()
	for _, n := range []string{"keys", "to_json", "to_json_indent"} {
		objBuiltin[n] = true
	}
	type ft struct{ name, val, json, val2, kind, use string }
	fts := []ft{
		{"int", "3", "3", "4", "int", "probe(r.N + 1);"},
		{"str", `"s"`, `\"s\"`, `"t"`, "str", "probe(r.N + \"x\");"},
		{"[str]", `["p", "q"]`, `[\"p\", \"q\"]`, `["z"]`, "list", "probe(r.N.len()); for e in r.N { probe(e + \"x\"); }"},
		{"bool", "true", "true", "false", "bool", "probe(!r.N);"},
	}
	type use struct{ name, text, want string }
	var out []famCase
	for _, n := range builtinMemberNames() {
		for fi, f := range fts {
			// quick: names that collide with a builtin member of objects get the full treatment, the
			// member names of other types (and the control name) two field types, three sources and
			// the main uses
			reduced := !full && !objBuiltin[n]
			if reduced && fi%2 == 1 {
				continue
			}
			tdef := "type T = { " + n + ": " + f.name + ", other: int };\n"
			uses := []use{
				{"field", "probe(r.N);", f.kind},
				{"field-typed", f.use, ""},
				{"call", "probe(r.N());", ""},
				{"call-len", "probe(r.N().len());", ""},
				{"call-iter", "for k in r.N() { probe(k); }", ""},
				{"call-let", "let m = r.N; probe(m());", ""},
				{"assign", "r.N = " + f.val2 + "; " + f.use, ""},
				{"keys", "probe(r.keys()); for k in r.keys() { probe(k + \"x\"); }", ""},
				{"to_json", "probe(r.to_json() + \"x\");", ""},
				{"to_json_indent", "probe(r.to_json_indent() + \"x\");", ""},
				{"str-index", "probe(r[\"N\"]);", ""},
				{"display", "println(r); probe(r.other + 1);", ""},
				{"to-anyobj", "let o2 = r as { ? }; probe(o2.keys()); probe(o2.get(\"N\"));", ""},
			}
			srcs := []struct{ name, pre, text string }{
				{"literal", tdef, "let r: T = new { N: " + f.val + ", other: 1 };"},
				{"json", tdef, "let r = \"{\\\"N\\\": " + f.json + ", \\\"other\\\": 1}\".parse_json() as T;"},
				{"json-let", tdef, "let r: T = \"{\\\"N\\\": " + f.json + ", \\\"other\\\": 1}\".parse_json();"},
				{"nested", tdef, "let w = \"{\\\"w\\\": {\\\"N\\\": " + f.json + ", \\\"other\\\": 1}}\".parse_json() as { w: ?T }; let r = w.w.unwrap();"},
				{"list-elem", tdef, "let l = \"[{\\\"N\\\": " + f.json + ", \\\"other\\\": 1}]\".parse_json() as [T]; let r = l[0];"},
				{"inline-type", "", "let r = \"{\\\"N\\\": " + f.json + ", \\\"other\\\": 1}\".parse_json() as { N: " + f.name + ", other: int };"},
			}
			for si, s := range srcs {
				if reduced && (si == 2 || si >= 4) {
					continue
				}
				for ui, u := range uses {
					if reduced && (ui == 3 || ui == 4 || ui == 5 || ui == 9 || ui == 10) {
						continue
					}
					body := strings.ReplaceAll(s.text+"\n"+u.text, "N", n)
					out = append(out, famCase{"member", "member:" + s.name + "/" + u.name + ":" + n + ":" + f.name, wrapMain(s.pre, body), u.want})
				}
			}
			// parameter position: the use happens in a function receiving the object
			for _, u := range uses[:6] {
				if reduced {
					break
				}
				pre := tdef + "fn take(r: T) {\n    " + strings.ReplaceAll(u.text, "N", n) + "\n}\n"
				body := strings.ReplaceAll("let r = \"{\\\"N\\\": "+f.json+", \\\"other\\\": 1}\".parse_json() as T;\ntake(r);", "N", n)
				out = append(out, famCase{"member", "member:param/" + u.name + ":" + n + ":" + f.name, wrapMain(pre, body), ""})
			}
			// any-object with such a key
			anyUses := []use{
				{"keys", "probe(o.keys());", "list"},
				{"get", "probe(o.get(\"N\"));", "option"},
				{"arrow", "probe(o->N);", "option"},
				{"tilde-arrow", "let x: " + f.name + " = o~>N; probe(x);", f.kind},
				{"to_json", "probe(o.to_json() + \"x\");", ""},
				{"dot-call", "probe(o.N());", ""},
				{"dot", "probe(o.N);", ""},
			}
			for _, u := range anyUses {
				body := strings.ReplaceAll("let o = new { ? };\no.set(\"N\", "+f.val+");\n"+u.text, "N", n)
				out = append(out, famCase{"member", "member:anyobj-key/" + u.name + ":" + n + ":" + f.name, wrapMain("", body), u.want})
			}
		}
	}
	return out
}

// ---------------------------------------------------------------------------------------------
// nearvalid: ginit
// ---------------------------------------------------------------------------------------------

func ginitFamily() []famCase {
	type slot struct{ name, text, ty string } // X = the non-constant operand; ty = its type
	shapes := []slot{
		{"bare", "X", "int"}, {"group", "(X)", "int"}, {"neg", "-X", "int"}, {"some", "?X", "int"}, {"not", "!X", "bool"},
		{"list1", "[X]", "int"}, {"list2", "[1, X]", "int"}, {"obj", "new { a: X }", "int"}, {"obj2", "new { a: 1, b: X }", "int"},
		{"range-l", "X..5", "int"}, {"range-r", "1..X", "int"},
		{"index-i", "[1, 2, 3][X]", "int"}, {"index-b", "[X, 2][0]", "int"},
		{"member", "[X].len", "int"}, {"member-call", "[1, X].len()", "int"}, {"member-str", "X.len", "str"},
		{"cast", "X as float", "int"}, {"cast-group", "(1 + X) as float", "int"}, {"block", "{ X }", "int"},
		{"nest-r", "1 + (2 * X)", "int"}, {"nest-l", "(X * 2) + 1", "int"}, {"nest-rr", "1 + (2 + (3 + X))", "int"}, {"nest-list", "[1, 2 + X]", "int"},
		{"nest-neg", "-(1 - X)", "int"}, {"chain-r", "1 + 2 + X", "int"}, {"chain-l", "X + 1 + 2", "int"}, {"chain-m", "1 + X + 2", "int"},
		{"str-r", "\"a\" + X", "str"}, {"str-l", "X + \"a\"", "str"}, {"and-r", "true && X", "bool"}, {"and-l", "X && true", "bool"},
		{"or-r", "false || X", "bool"}, {"or-l", "X || false", "bool"}, {"eq-r", "1 == X", "int"}, {"eq-l", "X == 1", "int"},
	}
	for _, op := range []string{"+", "-", "*", "/", "%", "**", "<<", ">>", "|", "&", "^", "<", ">=", "!="} {
		shapes = append(shapes, slot{"bin-r " + op, "40 " + op + " X", "int"}, slot{"bin-l " + op, "X " + op + " 2", "int"})
	}
	nonconst := map[string][]slot{
		"int": {
			{"call", "f()", ""}, {"call-arg", "id(2)", ""}, {"global", "h", ""}, {"later-global", "later", ""}, {"literal-call", "(fn() -> int { 1 })()", ""},
			{"if", "(if true { 1 } else { 2 })", ""}, {"match", "(match 1 { 1 => 2, _ => 3 })", ""}, {"try", "(try { 1 } catch e { 2 })", ""},
			{"block-stmt", "{ let q = 1; q }", ""}, {"method", "\"12\".len()", ""}, {"assign", "{ h = 2; h }", ""}, {"rec-self", "g", ""},
		},
		"str":  {{"call", "s()", ""}, {"global", "hs", ""}, {"method", "1.to_string()", ""}, {"if", "(if true { \"a\" } else { \"b\" })", ""}},
		"bool": {{"call", "b()", ""}, {"global", "hb", ""}, {"method", "\"a\".contains(\"a\")", ""}, {"if", "(if true { true } else { false })", ""}},
	}
	pre := "fn f() -> int { 2 }\nfn id(n: int) -> int { n }\nfn s() -> str { \"s\" }\nfn b() -> bool { true }\nlet h = 7;\nlet hs = \"x\";\nlet hb = true;\n"
	post := "let later = 3;\n\nfn main() {\n    println(g);\n    probe(g);\n    println(later, h, hs, hb, f(), id(1), s(), b());\n    println(\"end\");\n}\n"
	var out []famCase
	// the valid neighbours: the same shapes with a constant in the slot (constant global initialisers
	// of every expression kind, run by the module initialiser before main).
	// Kept out: constant initialisers that raise a runtime error (let g = 1 / 0; let g = [1][3];) —
	// GENUINE DEFECT of the unchanged tree: runtime.NewVM panics on the host's goroutine ("Fatal: VM
	// encountered exception during initialization code"), it has no way to return the interrupt
	// (same root cause as KF-vm-newvm-panics-on-cancel of C10); the interpreter returns the error.
	consts := map[string]string{"int": "2", "str": "\"s\"", "bool": "true"}
	for _, sh := range shapes {
		src := pre + "let g = " + strings.ReplaceAll(sh.text, "X", consts[sh.ty]) + ";\n" + post
		out = append(out, famCase{"ginit-const", "ginit-const:" + sh.name, src, ""})
	}
	for _, sh := range shapes {
		for _, nc := range nonconst[sh.ty] {
			src := pre + "let g = " + strings.ReplaceAll(sh.text, "X", nc.text) + ";\n" + post
			out = append(out, famCase{"nearvalid", "ginit:" + sh.name + ":" + nc.name, src, ""})
		}
	}
	return out
}

// ---------------------------------------------------------------------------------------------
// nearvalid: flow
// ---------------------------------------------------------------------------------------------

func flowFamily(full bool) []famCase {
	type pos struct {
		name string
		mk   func(a, b typ) (pre, body string)
	}
	u := func(a typ) string { return useOf[a.name] }
	poss := []pos{
		{"result", func(a, b typ) (string, string) {
			return "fn mk() -> " + a.name + " { " + b.sample() + " }\n", "let a = mk();\n" + u(a)
		}},
		{"return", func(a, b typ) (string, string) {
			return "fn mk(c: bool) -> " + a.name + " {\n    if c { return " + b.sample() + "; }\n    " + a.sample() + "\n}\n", "let a = mk(true);\n" + u(a)
		}},
		{"literal-result", func(a, b typ) (string, string) {
			return "", "let mk = fn() -> " + a.name + " { " + b.sample() + " };\nlet a = mk();\n" + u(a)
		}},
		{"assign", func(a, b typ) (string, string) {
			return "", "let a: " + a.name + " = " + a.sample() + ";\na = " + b.sample() + ";\n" + u(a)
		}},
		{"assign-in-branch", func(a, b typ) (string, string) {
			return "", "let a = " + a.sample() + ";\nif a == a { a = " + b.sample() + "; }\n" + u(a)
		}},
		{"shadow", func(a, b typ) (string, string) {
			return "", "let a: " + a.name + " = " + a.sample() + ";\nprobe(a);\nlet a = " + b.sample() + ";\n" + u(a)
		}},
		{"shadow-inner-block", func(a, b typ) (string, string) {
			return "", "let a: " + a.name + " = " + a.sample() + ";\n{\n    let a = " + b.sample() + ";\n    probe(a);\n}\n" + u(a)
		}},
		{"shadow-param", func(a, b typ) (string, string) {
			return "fn take(a: " + b.name + ") {\n    let a: " + a.name + " = " + a.sample() + ";\n    " + u(a) + "\n}\n", "take(" + b.sample() + ");"
		}},
		{"list-elem", func(a, b typ) (string, string) {
			return "", "let l = [" + a.sample() + ", " + b.sample() + "];\nlet a = l[1];\n" + u(a)
		}},
		{"push", func(a, b typ) (string, string) {
			return "", "let l: [" + a.name + "] = [" + a.sample() + "];\nl.push(" + b.sample() + ");\nlet a = l[1];\n" + u(a)
		}},
		{"index-assign", func(a, b typ) (string, string) {
			return "", "let l = [" + a.sample() + "];\nl[0] = " + b.sample() + ";\nlet a = l[0];\n" + u(a)
		}},
		{"field-assign", func(a, b typ) (string, string) {
			return "", "let o = new { f: " + a.sample() + " };\no.f = " + b.sample() + ";\nlet a = o.f;\n" + u(a)
		}},
		{"object-literal", func(a, b typ) (string, string) {
			return "", "let o: { f: " + a.name + " } = new { f: " + b.sample() + " };\nlet a = o.f;\n" + u(a)
		}},
		{"if-else", func(a, b typ) (string, string) {
			return "", "let c = 1 > 2;\nlet a = if c { " + a.sample() + " } else { " + b.sample() + " };\n" + u(a)
		}},
		{"match-arm", func(a, b typ) (string, string) {
			return "", "let a = match 2 { 1 => " + a.sample() + ", _ => " + b.sample() + " };\n" + u(a)
		}},
		{"try-catch", func(a, b typ) (string, string) {
			return "fn thrower() { throw(\"t\"); }\n", "let a = try { thrower(); " + a.sample() + " } catch e2 { println(e2.message); " + b.sample() + " };\n" + u(a)
		}},
		{"option-payload", func(a, b typ) (string, string) {
			return "", "let o: ?" + a.name + " = ?" + b.sample() + ";\nlet a = o.unwrap();\n" + u(a)
		}},
		{"unwrap-or", func(a, b typ) (string, string) {
			return "", "let o: ?" + a.name + " = none;\nlet a = o.unwrap_or(" + b.sample() + ");\n" + u(a)
		}},
		{"literal-param", func(a, b typ) (string, string) {
			return "", "let g = fn(a: " + a.name + ") { " + u(a) + " };\ng(" + b.sample() + ");"
		}},
		{"fn-value", func(a, b typ) (string, string) {
			return "fn user(a: " + a.name + ") { " + u(a) + " }\nfn other(a: " + b.name + ") { probe(a); }\n", "let g = other;\ng = user;\ng(" + b.sample() + ");"
		}},
		{"loop-var", func(a, b typ) (string, string) {
			return "", "let l = [" + b.sample() + "];\nfor a in l { " + u(a) + " }"
		}},
		{"global", func(a, b typ) (string, string) {
			return "let ga: " + a.name + " = " + b.sample() + ";\n", "let a = ga;\n" + u(a)
		}},
	}
	var out []famCase
	ts := flowTypes()
	if !full {
		ts = types // nested mismatches ([int] <- [str] ...) are reached through the list, option and object positions
	}
	for _, p := range poss {
		for _, a := range ts {
			if strings.HasPrefix(a.name, "?") && p.name == "option-payload" || strings.HasPrefix(a.name, "?") && p.name == "unwrap-or" {
				continue
			}
			for _, b := range ts {
				pre, body := p.mk(a, b)
				out = append(out, famCase{"nearvalid", "flow:" + p.name + ":" + a.name + "<-" + b.name, wrapMain(pre, body), ""})
			}
		}
	}
	return out
}

// ---------------------------------------------------------------------------------------------
// nearvalid: diverge, ctrl
// ---------------------------------------------------------------------------------------------

func divergeFamily(full bool) []famCase {
	// value types: the branch that yields a value has type B, the use afterwards needs type A
	vts := []typ{types[0], types[3], types[2], types[4]} // int str bool [int]
	divs := []struct{ name, text string }{
		{"return", "return;"}, {"return-val", "return 0;"}, {"break", "break;"}, {"continue", "continue;"}, {"throw", "throw(\"d\");"}, {"empty", ""},
	}
	ctxs := []struct{ name, text string }{
		{"if-else", "let a = if c { VB } else { DIV };"},
		{"else-if", "let a = if c { VB } else if n > 100 { DIV } else { DIV };"},
		{"if-then", "let a = if !c { DIV } else { VB };"},
		{"if-no-else", "let a = if !c { DIV };"},
		{"match-arm", "let a = match n { 0 => VB, _ => { DIV } };"},
		{"try-body", "let a = try { DIV } catch e2 { VB };"},
		{"catch-body", "let a = try { VB } catch e2 { DIV };"},
		{"block", "let a = { if !c { DIV } VB };"},
		{"block-tail", "let a = { DIV };"},
	}
	var out []famCase
	for _, cx := range ctxs {
		for _, d := range divs {
			for ai, a := range vts {
				for bi, b := range vts {
					// quick: one fitting pair and the misfits int<-str, str<-int, bool<-str, [int]<-int
					if !full && !(ai == 0 && bi <= 1 || ai == 1 && bi == 0 || ai == 2 && bi == 1 || ai == 3 && bi == 0) {
						continue
					}
					ret := ""
					if d.name == "return-val" {
						ret = " -> int"
					}
					tail := ""
					if ret != "" {
						tail = "\n    0"
					}
					line := strings.ReplaceAll(strings.ReplaceAll(cx.text, "VB", b.sample()), "DIV", d.text)
					pre := "fn work(c: bool, n: int)" + ret + " {\n    for i in 0..2 {\n        " + line + "\n        " + useOf[a.name] + "\n        println(i);\n    }" + tail + "\n}\n"
					out = append(out, famCase{"nearvalid", "diverge:" + cx.name + "/" + d.name + ":" + a.name + "<-" + b.name, wrapMain(pre, "work(true, 0);"), ""})
				}
			}
		}
	}
	// missing results: a function / literal / block whose value path ends without a value of the declared type
	mts := flowTypes()
	if !full {
		mts = []typ{types[0], types[3], types[4], types[5], types[6]}
	}
	for _, a := range mts {
		for i, body := range []string{
			"if v > 1 { return RA; }",
			"if v > 1 { return RA; } else { }",
			"while v > 1 { return RA; }",
			"for i in 0..v { return RA; }",
			"if v > 1 { RA } else { return RA; };",
			"let q = v;",
			"",
			"return;",
			"if v > 1 { throw(\"x\"); }",
			"match v { 5 => { return RA; }, _ => { } }",
			"try { if v > 1 { return RA; } } catch e { }",
			"loop { if v > 1 { break; } return RA; }",
		} {
			b := strings.ReplaceAll(body, "RA", a.sample())
			pre := "fn mk(v: int) -> " + a.name + " {\n    " + b + "\n}\n"
			out = append(out, famCase{"nearvalid", fmt.Sprintf("diverge:missing-result/%d:%s", i, a.name), wrapMain(pre, "let a = mk(0);\n"+useOf[a.name]), ""})
			lit := "let mk = fn(v: int) -> " + a.name + " { " + b + " };\nlet a = mk(0);\n" + useOf[a.name]
			out = append(out, famCase{"nearvalid", fmt.Sprintf("diverge:missing-result-literal/%d:%s", i, a.name), wrapMain("", lit), ""})
		}
	}
	return out
}

func ctrlFamily() []famCase {
	progs := []struct{ name, pre, body string }{
		{"break-in-fn", "", "break;"},
		{"continue-in-fn", "", "continue;"},
		{"break-in-if", "", "if 1 < 2 { break; }"},
		{"break-in-try", "", "try { break; } catch e2 { }"},
		{"break-in-match", "", "match 1 { 1 => { break; }, _ => { } }"},
		{"break-in-literal-in-for", "", "for i in 0..3 { let g = fn() { break; }; g(); println(i); }"},
		{"continue-in-literal-in-while", "", "let n = 0; while n < 3 { n += 1; let g = fn() { continue; }; g(); }"},
		{"break-in-literal-in-loop-in-try", "", "try { loop { let g = fn() { break; }; g(); break; } } catch e2 { }"},
		{"break-after-loop", "", "for i in 0..3 { println(i); } break;"},
		{"break-in-for-iter", "", "for i in { break; 0..3 } { println(i); }"},
		{"break-in-while-cond", "", "while { break; true } { println(1); }"},
		{"return-value-in-void", "fn v() { return 1; }\n", "v();"},
		{"return-value-in-main", "", "return 1;"},
		{"return-void-in-int", "fn v() -> int { return; }\n", "probe(v() + 1);"},
		{"return-in-global", "let g = { return 1; };\n", "probe(g);"},
		{"void-as-value", "fn v() { }\n", "let a: int = v(); probe(a + 1);"},
		{"void-in-arith", "fn v() { }\n", "probe(v() + 1);"},
		{"null-in-list", "fn v() { }\n", "let l = [1, v()]; probe(l[1] + 1);"},
		{"while-as-value", "", "let a: int = while false { }; probe(a + 1);"},
		{"for-as-value", "", "let a: int = for i in 0..1 { }; probe(a + 1);"},
		{"loop-as-value", "", "let a: int = loop { break; }; probe(a + 1);"},
		{"assign-as-value", "", "let b = 1; let a: int = (b = 2); probe(a + 1);"},
		{"too-few-args", "fn two(a: int, b: int) -> int { a + b }\n", "probe(two(1));"},
		{"too-many-args", "fn two(a: int, b: int) -> int { a + b }\n", "probe(two(1, 2, 3));"},
		{"no-args", "fn two(a: int, b: int) -> int { a + b }\n", "probe(two());"},
		{"literal-too-few-args", "", "let two = fn(a: int, b: int) -> int { a + b }; probe(two(1));"},
		{"literal-too-many-args", "", "let two = fn(a: int, b: int) -> int { a + b }; probe(two(1, 2, 3));"},
		{"method-too-few-args", "", "let l = [1]; l.push(); probe(l);"},
		{"method-too-many-args", "", "let l = [1]; probe(l.len(1));"},
		{"method-wrong-arg", "", "probe(\"abc\".repeat(\"x\"));"},
		{"call-int", "", "let a = 1; a();"},
		{"call-str", "", "let a = \"s\"; probe(a());"},
		{"call-list", "", "let a = [1]; probe(a(0));"},
		{"call-object", "", "let a = new { f: 1 }; a();"},
		{"call-field", "", "let a = new { f: 1 }; probe(a.f());"},
		{"call-result", "fn one() -> int { 1 }\n", "probe(one()());"},
		{"call-option", "", "let g = ?fn() -> int { 1 }; probe(g());"},
		{"member-of-fn", "fn one() -> int { 1 }\n", "probe(one.len());"},
		{"member-of-null", "fn v() { }\n", "probe(v().to_string());"},
		{"unknown-member", "", "let a = 1; probe(a.nope());"},
		{"unknown-field", "", "let o = new { f: 1 }; probe(o.g + 1);"},
		{"field-of-option", "", "let o = ?new { f: 1 }; probe(o.f + 1);"},
		{"index-fn", "fn one() -> int { 1 }\n", "probe(one[0]);"},
		{"index-null", "fn v() { }\n", "probe(v()[0]);"},
		{"for-over-int", "", "for i in 3 { probe(i); }"},
		{"for-over-bool", "", "for i in true { probe(i); }"},
		{"for-over-object", "", "for i in new { f: 1 } { probe(i); }"},
		{"for-over-option", "", "for i in ?[1] { probe(i); }"},
		{"for-over-fn", "fn one() -> int { 1 }\n", "for i in one { probe(i); }"},
		{"for-over-null", "fn v() { }\n", "for i in v() { probe(i); }"},
		{"if-int-cond", "", "if 1 { probe(1); }"},
		{"if-option-cond", "", "if ?true { probe(1); }"},
		{"while-str-cond", "", "while \"\" { break; }"},
		{"not-int", "", "probe(!1 && true);"},
		{"undeclared", "", "probe(zz + 1);"},
		{"use-before-let", "", "probe(a + 1); let a = 1;"},
		{"use-out-of-scope", "", "{ let q = 1; probe(q); } probe(q + 1);"},
		{"loop-var-after-loop", "", "for i in 0..2 { probe(i); } probe(i + 1);"},
		{"catch-var-after-catch", "", "try { throw(\"t\"); } catch e2 { probe(e2.message); } probe(e2.message);"},
		{"param-of-other-fn", "fn one(p: int) -> int { p }\n", "probe(one(1)); probe(p + 1);"},
		{"local-of-caller", "fn peek() -> int { secret + 1 }\n", "let secret = 1; probe(peek() + secret);"},
		{"literal-local-of-caller", "", "let peek = fn() -> int { hidden + 1 }; let hidden = 1; probe(peek() + hidden);"},
		{"type-as-value", "type T = { f: int };\n", "probe(T);"},
		{"fn-plus", "fn one() -> int { 1 }\n", "probe(one + 1);"},
		{"fn-eq", "fn one() -> int { 1 }\n", "probe(one == one);"},
		{"none-unannotated", "", "let a = none; probe(a);"},
		{"empty-list-unannotated", "", "let a = []; a.push(1); probe(a[0] + 1);"},
		{"none-plus", "", "let a: ?int = none; probe(a + 1);"},
		{"mixed-list", "", "let l = [1, \"s\"]; probe(l[1] + 1);"},
		{"mixed-match", "", "let a = match 1 { 1 => 1, _ => \"s\" }; probe(a + 1);"},
		{"match-literal-type", "", "let a = match 1 { \"s\" => 1, _ => 2 }; probe(a + 1);"},
		{"match-no-default", "", "let a: int = match 5 { 1 => 1 }; probe(a + 1);"},
		{"object-missing-field", "", "let o: { f: int, g: int } = new { f: 1 }; probe(o.g + 1);"},
		{"object-extra-field", "", "let o: { f: int } = new { f: 1, g: 2 }; probe(o.f + 1);"},
		{"object-cast-missing", "", "let o = new { f: 1 } as { f: int, g: int }; probe(o.g + 1);"},
		{"list-cast-elem", "", "let l = [1] as [str]; probe(l[0] + \"x\");"},
		{"option-cast", "", "let o = ?1 as ?str; probe(o.unwrap() + \"x\");"},
		{"fn-cast", "fn one() -> int { 1 }\n", "let g = one as fn() -> str; probe(g() + \"x\");"},
		{"fn-sig-mismatch", "fn one(a: int) -> int { a }\nfn app(g: fn(a: str) -> str) -> str { g(\"s\") }\n", "probe(app(one) + \"x\");"},
		{"fn-ret-mismatch", "fn one() -> int { 1 }\nfn app(g: fn() -> str) -> str { g() }\n", "probe(app(one) + \"x\");"},
		{"fn-arity-mismatch", "fn one(a: int) -> int { a }\nfn app(g: fn() -> int) -> int { g() }\n", "probe(app(one) + 1);"},
		{"fn-list-mixed", "fn one(a: int) -> int { a }\nfn zero() -> int { 0 }\n", "let l = [one, zero]; probe(l[1](1) + 1);"},
		{"spawn-too-few", "fn two(a: int, b: int) -> int { a + b }\n", "let t = spawn two(1); probe(t.join() + 1);"},
		{"spawn-wrong-arg", "fn two(a: int, b: int) -> int { a + b }\n", "let t = spawn two(1, \"s\"); probe(t.join() + 1);"},
		{"spawn-non-fn", "", "let a = 1; let t = spawn a(); probe(t);"},
		{"spawn-join-type", "fn one() -> int { 1 }\n", "let t = spawn one(); probe(t.join() + \"x\");"},
		{"duplicate-fn", "fn one() -> int { 1 }\nfn one() -> str { \"s\" }\n", "probe(one() + 1);"},
		{"duplicate-param", "fn dup(a: int, a: str) -> int { a + 1 }\n", "probe(dup(1, \"s\"));"},
		{"duplicate-global", "let g = 1;\nlet g = \"s\";\n", "probe(g + 1);"},
		{"global-shadows-fn", "fn one() -> int { 1 }\nlet one = 2;\n", "probe(one());"},
		{"local-shadows-fn-then-call", "fn one() -> int { 1 }\n", "let one = 2; probe(one());"},
		{"main-with-params", "", ""},
		{"recursive-type", "type R = { next: R };\n", "let r = \"{}\".parse_json() as R; probe(r.next);"},
		{"unknown-type", "", "let a: Nope = 1; probe(a + 1);"},
		{"import-missing", "import { nope } from missing;\n", "probe(nope());"},
		{"import-missing-item", "import { nope } from main;\n", "probe(nope());"},
		{"compound-on-literal", "", "1 += 2;"},
		{"assign-to-call", "fn one() -> int { 1 }\n", "one() = 2;"},
		{"assign-to-fn", "fn one() -> int { 1 }\nfn two() -> int { 2 }\n", "one = two; probe(one());"},
		{"assign-to-range-end", "", "let r = 1..3; r.end = \"s\"; for i in r { probe(i); }"},
		{"assign-builtin-member", "", "let l = [1]; l.len = 3; probe(l.len());"},
		{"assign-str-index", "", "let s = \"abc\"; s[0] = \"x\"; probe(s);"},
		{"assign-loop-var-type", "", "for i in 0..2 { i = \"s\"; probe(i); }"},
		{"any-implicit", "", "let a = \"1\".parse_json(); probe(a + 1);"},
		{"any-arith", "", "probe(\"1\".parse_json() + 1);"},
		{"any-member", "", "probe(\"[1]\".parse_json().len());"},
		{"any-index", "", "probe(\"[1]\".parse_json()[0] + 1);"},
		{"any-call", "", "probe(\"1\".parse_json()());"},
		{"any-cond", "", "if \"true\".parse_json() { probe(1); }"},
		{"any-iter", "", "for i in \"[1]\".parse_json() { probe(i); }"},
		{"any-arg", "fn one(a: int) -> int { a }\n", "probe(one(\"1\".parse_json()) + 1);"},
		{"any-return", "fn one() -> int { \"\\\"s\\\"\".parse_json() }\n", "probe(one() + 1);"},
		{"any-in-list", "", "let l = [1, \"\\\"s\\\"\".parse_json()]; probe(l[1] + 1);"},
		{"any-match", "", "let a = match \"1\".parse_json() { 1 => 1, _ => 2 }; probe(a + 1);"},
	}
	var out []famCase
	for _, p := range progs {
		src := wrapMain(p.pre, p.body)
		if p.name == "main-with-params" {
			src = "fn main(a: int) {\n    probe(a + 1);\n}\n"
		}
		out = append(out, famCase{"nearvalid", "ctrl:" + p.name, src, ""})
	}
	return out
}

// ---------------------------------------------------------------------------------------------
// json (valid): runtime validation of dynamically typed values
// ---------------------------------------------------------------------------------------------

func jsonFamily(full bool) []famCase {
	jsons := []string{"0", "-1", "1.5", "1.0", "true", `\"s\"`, `\"\"`, "[1]", "[]", "null", `{\"a\": 1}`, `{\"a\": \"s\"}`, "{}", `[1, \"s\"]`, "[[1]]", `[null]`, `{\"a\": null}`, `{\"a\": 1, \"b\": 2}`, `{\"a\": {\"a\": 1}}`, "[1.5]", "9223372036854775808", "1e400", "nope"}
	forms := []struct{ name, text string }{
		{"let", "let a: TY = \"JS\".parse_json();"},
		{"cast", "let a = \"JS\".parse_json() as TY;"},
		{"arg", "take(\"JS\".parse_json());"},
		{"result", "let a = mk();"},
		{"list-elem-cast", "let l = \"[JS]\".parse_json() as [TY]; let a = l[0];"},
		{"option-cast", "let o = \"JS\".parse_json() as ?TY; let a = o.unwrap();"},
		{"field-cast", "let o = \"{\\\"f\\\": JS}\".parse_json() as { f: TY }; let a = o.f;"},
		{"anyobj-get", "let o = \"{\\\"f\\\": JS}\".parse_json() as { ? }; let a = o.get(\"f\").unwrap() as TY;"},
		{"anyobj-tilde", "let o = \"{\\\"f\\\": JS}\".parse_json() as { ? }; let a: TY = o~>f;"},
	}
	var out []famCase
	jts := flowTypes()
	if !full {
		jts = append(append([]typ{}, types...), extraTypes[1])
		jsons = []string{"0", "1.5", "true", `\"s\"`, "[1]", "[]", "null", `{\"a\": 1}`, `{\"a\": \"s\"}`, "{}", `[1, \"s\"]`, "[null]", `{\"a\": null}`, "9223372036854775808", "nope"}
	}
	for _, a := range jts {
		if a.name == "range" {
			continue
		}
		for fi, f := range forms {
			if !full && (fi == 5 || fi == 7) {
				continue
			}
			for _, js := range jsons {
				line := strings.ReplaceAll(strings.ReplaceAll(f.text, "TY", a.name), "JS", js)
				pre, body := "", line+"\n"+useOf[a.name]
				switch f.name {
				case "arg":
					pre = "fn take(a: " + a.name + ") {\n    " + useOf[a.name] + "\n}\n"
					body = line
				case "result":
					pre = "fn mk() -> " + a.name + " {\n    \"" + js + "\".parse_json()\n}\n"
				}
				out = append(out, famCase{"json", "json:" + f.name + ":" + a.name + "<-" + strings.ReplaceAll(js, `\"`, `'`), wrapMain(pre, body), ""})
			}
		}
	}
	return out
}

func familyCases(full bool) []fw.Case {
	var all []famCase
	all = append(all, fnlitFamily(full)...)
	all = append(all, memberFamily(full)...)
	all = append(all, ginitFamily()...)
	all = append(all, flowFamily(full)...)
	all = append(all, divergeFamily(full)...)
	all = append(all, ctrlFamily()...)
	all = append(all, jsonFamily(full)...)
	all = append(all, optFieldFamily(full)...)
	out := make([]fw.Case, 0, len(all))
	for i, c := range all {
		out = append(out, fw.MkCase(fmt.Sprintf("c02-f-%d", i), c.kind, Payload{Src: c.src, Shape: c.shape, Want: c.want}))
	}
	for i, c := range modulesFamily(full) {
		out = append(out, fw.MkCase(fmt.Sprintf("c02-fm-%d", i), c.kind, Payload{Src: c.src, Mods: c.mods, Shape: c.shape, Want: c.want}))
	}
	return out
}
