// Package c02 checks property C02: an accepted program can never crash, wedge or confuse the host.
package c02

import (
	"fmt"
	"strings"

	"github.com/smarthome-go/homescript/v3/homescript/runtime"
	vvalue "github.com/smarthome-go/homescript/v3/homescript/runtime/value"

	"hv/drive"
	"hv/fw"
	"hv/prog"
	"hv/props/c01"
	"hv/util"
)

type c02 struct{}

func init() { fw.Register(c02{}) }

func (c02) ID() string { return "C02" }

func (c02) Info(tier string) fw.Info {
	return fw.Info{
		Level: "exploration",
		Rule: "(1) operator matrix: every (binary operator | compound assignment | prefix operator | cast | index) x operand type pair over {int, float, bool, str, [int], ?int, {a:int}, {?}, range} that the REAL analyzer admits (admissibility is discovered by asking the analyzer), x all operand value pairs from boundary pools (zero divisors, negative/huge shift counts, MinInt64/-1, extreme floats, empty lists, none, out-of-range indices), each as a one-expression program guarded by try, run on the VM (crash-isolated) and the interpreter; " +
			"(1b) construct families (families.go): function literals written in every construct of their parent x body shapes (return/break/continue/throw below own try/loop) x call sites with fewer/more active try blocks; object types with data fields named like builtin members x value sources x uses as field / as method; constant global initialisers of every expression kind; parse_json values flowing into every declared type; " +
			"NEAR-VALID programs breaking one language rule each (non-constant operand in every position of a global initialiser, a value of type B flowing into every kind of slot of type A, diverging branches next to misfitting values, missing results, misplaced control flow, wrong arity, calls of non-functions): executed only if the real analyzer accepts them - whatever the analyzer admits must not crash the host; " +
			"(2) the generated programs of C01 re-run under hostile CoreLimits triples and interpreter call limits. Oracle: the process survives and the host gets normal completion or an interrupt value; the dynamic kind of the result handed to the host (probe) matches the static type; wedging is decided by a step budget. " +
			"non-trivial = accepted by the analyzer and executed on both backends; distinct = distinct program text x limits",
		Assumptions:  []string{"memory bombs through data growth are capped by the address-space limit of the worker and not explored"},
		Exhaustive:   false,
		CaseTimeoutS: 60,
		BatchSize:    400,
	}
}

type typ struct {
	name string // homescript type text
	vals []string
	kind string // expected dynamic kind name of values of this type
}

var types = []typ{
	{"int", []string{"0", "1", "-1", "2", "7", "63", "64", "-64", "9223372036854775807", "(-9223372036854775807 - 1)"}, "int"},
	{"float", []string{"0.0", "-0.0", "1.5", "-2.5", "3.0", "179769313486231570000000000000000000000000000000000000000000000000000000000000000000000000000000000000000000000000000000000000000000000000000000000000000000000000000000000000000000000000000000000000000000000000000000000000000000000000000000000000000000000000000000000000000000000000000000000000000.0", "0.1"}, "float"},
	{"bool", []string{"true", "false"}, "bool"},
	{"str", []string{`""`, `"a"`, `"ab"`, `"é"`, `"1"`}, "str"},
	{"[int]", []string{"[]", "[1]", "[1, 2, 3]"}, "list"},
	{"?int", []string{"none", "?0", "?5"}, "option"},
	{"{ a: int }", []string{"new { a: 0 }", "new { a: 1 }"}, "object"},
	{"{ ? }", []string{"new { ? }"}, "any-object"},
	{"range", []string{"0..0", "1..3", "3..1", "0..=2"}, "range"},
}

var binOps = []string{"+", "-", "*", "/", "%", "**", "<<", ">>", "|", "&", "^", "==", "!=", "<", ">", "<=", ">=", "&&", "||"}
var assignOps = []string{"=", "+=", "-=", "*=", "/=", "%=", "**=", "<<=", ">>=", "|=", "&=", "^="}
var prefixOps = []string{"-", "!", "?"}
var castTargets = []string{"int", "float", "bool", "str", "[int]", "?int", "{ ? }", "{ a: int }", "[float]", "?float"}

// Payload of a matrix case or a limits case.
type Payload struct {
	// matrix
	Src   string `json:"src,omitempty"`
	Shape string `json:"shape,omitempty"` // e.g. "bin:int / int"
	Want  string `json:"want,omitempty"`  // expected dynamic kind of the probed result ("" = unknown)
	// Mods: further modules (name -> text) next to the entry module "main"
	Mods map[string]string `json:"mods,omitempty"`
	// TreeOnly: run on the interpreter only (constructs the VM does not implement: captured variables)
	TreeOnly bool `json:"tree_only,omitempty"`
	// limits sweep
	Gen       *c01.Payload        `json:"gen,omitempty"`
	Limits    *runtime.CoreLimits `json:"limits,omitempty"`
	CallLimit uint                `json:"call_limit,omitempty"`
}

func program(ta, va, tb, vb, body string) string {
	var sb strings.Builder
	sb.WriteString("fn main() {\n")
	fmt.Fprintf(&sb, "    let a: %s = %s;\n", ta, va)
	if tb != "" {
		fmt.Fprintf(&sb, "    let b: %s = %s;\n", tb, vb)
	}
	sb.WriteString("    try {\n")
	sb.WriteString(body)
	sb.WriteString("    } catch e {\n        println(\"caught\", e.message);\n    }\n")
	sb.WriteString("    println(\"end\");\n}\n")
	return sb.String()
}

func admitted(src string) (ok bool) {
	defer func() {
		if recover() != nil {
			ok = false
		}
	}()
	return drive.Analyze(drive.Sources{"main": src}, "main", true).Errors == 0
}

func resultKind(op string, lhs typ) string {
	switch op {
	case "==", "!=", "<", ">", "<=", ">=", "&&", "||":
		return "bool"
	}
	return lhs.kind
}

func (c02) Cases(tier string, seed uint64) []fw.Case {
	var cases []fw.Case
	n := 0
	add := func(shape, src, want string) {
		cases = append(cases, fw.MkCase(fmt.Sprintf("c02-m-%d", n), "matrix", Payload{Src: src, Shape: shape, Want: want}))
		n++
	}
	for _, op := range binOps {
		for _, ta := range types {
			for _, tb := range types {
				body := "        let r = a " + op + " b;\n        probe(r);\n"
				if !admitted(program(ta.name, ta.vals[0], tb.name, tb.vals[0], body)) {
					continue
				}
				for _, va := range ta.vals {
					for _, vb := range tb.vals {
						add("bin:"+ta.name+" "+op+" "+tb.name, program(ta.name, va, tb.name, vb, body), resultKind(op, ta))
					}
				}
			}
		}
	}
	for _, op := range assignOps {
		for _, ta := range types {
			for _, tb := range types {
				body := "        a " + op + " b;\n        probe(a);\n"
				if !admitted(program(ta.name, ta.vals[0], tb.name, tb.vals[0], body)) {
					continue
				}
				for _, va := range ta.vals {
					for _, vb := range tb.vals {
						add("assign:"+ta.name+" "+op+" "+tb.name, program(ta.name, va, tb.name, vb, body), ta.kind)
					}
				}
			}
		}
	}
	for _, op := range prefixOps {
		for _, ta := range types {
			body := "        let r = " + op + "a;\n        probe(r);\n"
			if !admitted(program(ta.name, ta.vals[0], "", "", body)) {
				continue
			}
			want := ta.kind
			if op == "?" {
				want = "option"
			}
			for _, va := range ta.vals {
				add("prefix:"+op+ta.name, program(ta.name, va, "", "", body), want)
			}
		}
	}
	for _, to := range castTargets {
		for _, ta := range types {
			body := "        let r = a as " + to + ";\n        probe(r);\n"
			if !admitted(program(ta.name, ta.vals[0], "", "", body)) {
				continue
			}
			for _, va := range ta.vals {
				add("cast:"+ta.name+" as "+to, program(ta.name, va, "", "", body), "")
			}
		}
	}
	// indexing
	idxVals := map[string][]string{"int": {"0", "1", "-1", "2", "3", "-3", "-4", "9223372036854775807", "(-9223372036854775807 - 1)"}, "str": {`""`, `"a"`, `"b"`, `"len"`, `"to_string"`}}
	for _, ta := range types {
		for it, ivs := range idxVals {
			body := "        let r = a[b];\n        probe(r);\n"
			if !admitted(program(ta.name, ta.vals[0], it, ivs[0], body)) {
				// any-typed results need an annotation
				body = "        let r: int = a[b];\n        probe(r);\n"
				if !admitted(program(ta.name, ta.vals[0], it, ivs[0], body)) {
					continue
				}
			}
			for _, va := range ta.vals {
				for _, iv := range ivs {
					add("index:"+ta.name+"["+it+"]", program(ta.name, va, it, iv, body), "")
				}
			}
		}
	}
	// index assignment
	for _, iv := range idxVals["int"] {
		for _, va := range []string{"[]", "[1]", "[1, 2, 3]"} {
			add("index-assign:[int][int]", program("[int]", va, "int", iv, "        a[b] = 5;\n        a[b] += 1;\n        probe(a);\n"), "list")
		}
	}
	// annotated lets and arguments: every (declared type, value type) pair the analyzer admits,
	// followed by a use of the value at its declared type
	uses := map[string]string{"int": "probe(a + 1);", "float": "probe(a + 1.0);", "bool": "probe(!a);", "str": "probe(a + \"x\");", "[int]": "probe(a.len()); for e in a { probe(e + 1); }",
		"?int": "probe(a.unwrap_or(0) + 1);", "{ a: int }": "probe(a.a + 1);", "{ ? }": "probe(a.keys());", "range": "probe(a.start + 1);",
		"?str": "probe(a.unwrap_or(\"\") + \"x\");", "[str]": "for e in a { probe(e + \"x\"); }", "{ a: str }": "probe(a.a + \"x\");"}
	extra := []typ{{"?str", []string{`?"s"`, "none"}, "option"}, {"[str]", []string{`["x"]`, "[]"}, "list"}, {"{ a: str }", []string{`new { a: "s" }`}, "object"}}
	all := append(append([]typ{}, types...), extra...)
	for _, ta := range all {
		for _, tb := range all {
			for form := 0; form < 2; form++ {
				mk := func(vb string) string {
					if form == 0 {
						return "fn main() {\n    let b: " + tb.name + " = " + vb + ";\n    try {\n        let a: " + ta.name + " = b;\n        " + uses[ta.name] + "\n    } catch e {\n        println(\"caught\", e.message);\n    }\n}\n"
					}
					return "fn f(a: " + ta.name + ") {\n    " + uses[ta.name] + "\n}\nfn main() {\n    try {\n        f(" + vb + ");\n    } catch e {\n        println(\"caught\", e.message);\n    }\n}\n"
				}
				if !admitted(mk(tb.vals[0])) {
					continue
				}
				for _, vb := range tb.vals {
					add(fmt.Sprintf("annot%d:%s<-%s", form, ta.name, tb.name), mk(vb), "")
				}
			}
		}
	}
	// (1b) construct families and near-valid programs (families.go)
	cases = append(cases, familyCases(tier == "thorough")...)
	// (2) limits sweep over generated programs
	r := fw.NewRng(seed ^ 0xC02)
	nl := 1500
	if tier == "thorough" {
		nl = 40000
	}
	triples := []runtime.CoreLimits{{CallStackMaxSize: 1, StackMaxSize: 1, MaxMemorySize: 1}, {CallStackMaxSize: 2, StackMaxSize: 8, MaxMemorySize: 4}, {CallStackMaxSize: 16, StackMaxSize: 32, MaxMemorySize: 64},
		{CallStackMaxSize: 100, StackMaxSize: 500, MaxMemorySize: 10000}, {CallStackMaxSize: 10000, StackMaxSize: 10000, MaxMemorySize: 10000}, {CallStackMaxSize: 3, StackMaxSize: 500, MaxMemorySize: 10000},
		{CallStackMaxSize: 100, StackMaxSize: 3, MaxMemorySize: 10000}, {CallStackMaxSize: 100, StackMaxSize: 500, MaxMemorySize: 7}}
	callLimits := []uint{1, 8, 1000}
	for i := 0; i < nl; i++ {
		pl := c01.Payload{Seed: r.Next(), Size: 5 + r.Intn(12), Preset: "main"}
		lim := triples[i%len(triples)]
		cases = append(cases, fw.MkCase(fmt.Sprintf("c02-l-%d", i), "limits", Payload{Gen: &pl, Limits: &lim, CallLimit: callLimits[i%len(callLimits)]}))
	}
	return cases
}

func kindOf(v vvalue.Value) string {
	switch v.Kind() {
	case vvalue.IntValueKind:
		return "int"
	case vvalue.FloatValueKind:
		return "float"
	case vvalue.BoolValueKind:
		return "bool"
	case vvalue.StringValueKind:
		return "str"
	case vvalue.ListValueKind:
		return "list"
	case vvalue.OptionValueKind:
		return "option"
	case vvalue.ObjectValueKind:
		return "object"
	case vvalue.AnyObjectValueKind:
		return "any-object"
	case vvalue.RangeValueKind:
		return "range"
	case vvalue.NullValueKind:
		return "null"
	}
	return v.Kind().String()
}

func okOutcome(o drive.Outcome) bool {
	switch o.Class {
	case "ok", "fatal", "terminate", "exit":
		return true
	}
	return false
}

func (c02) Run(c fw.Case) fw.Result {
	var p Payload
	fw.Decode(c, &p)
	res := fw.Result{Verdict: fw.Held}
	if p.Gen != nil {
		return runLimits(p, res)
	}
	src := drive.Sources{"main": p.Src}
	for _, name := range drive.SortedKeys(p.Mods) {
		src[name] = p.Mods[name]
		p.Src += "\n// ---- module " + name + " ----\n" + p.Mods[name] // rendering used in the verdict texts
	}
	fam := strings.SplitN(p.Shape, ":", 2)[0]
	res.Cover = []string{"shape:" + fam}
	ao := drive.Analyze(src, "main", true)
	if ao.Errors > 0 {
		res.Cover = append(res.Cover, "not-admitted-for-these-values", "rejected:"+fam)
		return res
	}
	res.Nontrivial = true
	res.Cover = append(res.Cover, "admitted:"+fam)
	tr := drive.RunTree(ao.Modules, src, "main", drive.TreeOpts{StepBudget: 2_000_000})
	if !okOutcome(tr.Outcome) {
		res.Verdict = fw.Violated
		res.Sig = "tree:" + tr.Outcome.Class + ":" + p.Shape + ":" + util.NormPanic(tr.Outcome.Message)
		res.Why = fmt.Sprintf("interpreter: %s for %s\n%s", gist(tr.Outcome), p.Shape, p.Src)
	}
	if p.TreeOnly {
		return res
	}
	ao = drive.Analyze(src, "main", true)
	vm := drive.RunVM(ao.Modules, src, "main", drive.VMOpts{StepBudget: 2_000_000})
	fail := func(sig, why string) {
		if res.Verdict == fw.Violated {
			res.More = append(res.More, fw.SubViolation{Sig: sig, Why: why})
		} else {
			res.Verdict, res.Sig, res.Why = fw.Violated, sig, why
		}
	}
	if !okOutcome(vm.Outcome) {
		fail("vm:"+vm.Outcome.Class+":"+p.Shape, fmt.Sprintf("VM: %s for %s\n%s", vm.Outcome, p.Shape, p.Src))
	}
	if p.Want != "" {
		for _, pv := range vm.Probes {
			if k := kindOf(pv); k != p.Want {
				fail("vm:wrong-dynamic-kind:"+p.Shape, fmt.Sprintf("VM handed a %s to the host where the static type says %s, for %s\n%s", k, p.Want, p.Shape, p.Src))
			}
		}
	}
	if vm.Outcome.Class == "ok" {
		for _, rs := range vm.Residues {
			if rs.Stack != 0 || rs.CallStack != 0 || rs.MP != 0 || rs.Handlers != 0 {
				fail("vm:residue:"+p.Shape, fmt.Sprintf("residue %+v for %s\n%s", rs, p.Shape, p.Src))
			}
		}
	}
	res.Obs = map[string]int64{"vm_" + vm.Outcome.Class: 1, "tree_" + tr.Outcome.Class: 1}
	if strings.HasSuffix(c.ID, "7") && strings.Contains(p.Shape, "/") {
		res.Sample = map[string]any{"shape": p.Shape, "src": p.Src, "vm": vm.Outcome.String(), "tree": tr.Outcome.String()}
	}
	return res
}

// gist renders an outcome for a verdict text; of a very long Go panic message (the interpreter
// dumps its scopes) the head and the tail, which names the failure, are kept.
func gist(o drive.Outcome) string {
	s := o.String()
	if r := []rune(s); len(r) > 400 {
		s = string(r[:120]) + " [...] " + string(r[len(r)-240:])
	}
	return s
}

func runLimits(p Payload, res fw.Result) fw.Result {
	pr, _ := c01.Build(*p.Gen)
	src := pr.Source()
	res.Hash = fw.HashOf(src, p.Limits, p.CallLimit)
	res.Cover = []string{"limits"}
	ao := drive.Analyze(src, "main", true)
	if ao.Errors > 0 {
		return res
	}
	m := prog.Run(pr, nil, 0)
	if m.Discard {
		return res
	}
	res.Nontrivial = true
	budget := int64(m.Steps)*50 + 200000
	tr := drive.RunTree(ao.Modules, src, "main", drive.TreeOpts{CallLimit: p.CallLimit, StepBudget: budget})
	if !okOutcome(tr.Outcome) {
		res.Verdict = fw.Violated
		res.Sig = "tree:limits:" + tr.Outcome.Class + ":" + util.NormPanic(tr.Outcome.Message)
		res.Why = fmt.Sprintf("interpreter under call limit %d: %s\n%s", p.CallLimit, tr.Outcome, src["main"])
	}
	ao = drive.Analyze(src, "main", true)
	vm := drive.RunVM(ao.Modules, src, "main", drive.VMOpts{Limits: *p.Limits, StepBudget: budget})
	if !okOutcome(vm.Outcome) {
		sig, why := "vm:limits:"+vm.Outcome.Class, fmt.Sprintf("VM under limits %+v: %s\n%s", *p.Limits, vm.Outcome, src["main"])
		if res.Verdict == fw.Violated {
			res.More = append(res.More, fw.SubViolation{Sig: sig, Why: why})
		} else {
			res.Verdict, res.Sig, res.Why = fw.Violated, sig, why
		}
	}
	res.Obs = map[string]int64{"vm_" + vm.Outcome.Class + "_" + vm.Outcome.Kind: 1, "tree_" + tr.Outcome.Class + "_" + tr.Outcome.Kind: 1}
	return res
}

func hasTag(pr *prog.Program, tag string) bool {
	for _, t := range prog.Hazards(pr) {
		if t == tag {
			return true
		}
	}
	return false
}

func (c02) OnCrash(c fw.Case, cr fw.Crash) fw.Result {
	var p Payload
	fw.Decode(c, &p)
	if cr.Kind == "watchdog" || cr.Kind == "killed" {
		return fw.Result{Verdict: fw.Inconclusive, Why: cr.Kind + ": " + cr.Message}
	}
	shape := p.Shape
	src := p.Src
	for _, name := range drive.SortedKeys(p.Mods) {
		src += "\n// ---- module " + name + " ----\n" + p.Mods[name]
	}
	if p.Gen != nil {
		shape = fmt.Sprintf("limits:%+v", *p.Limits)
		pr, _ := c01.Build(*p.Gen)
		src = pr.Source()["main"]
	}
	return fw.Result{Verdict: fw.Violated, Nontrivial: true,
		Sig: fmt.Sprintf("vm:crash:%s:%s:%s:%s", cr.Kind, shape, util.NormPanic(cr.Message), cr.TopFrame),
		Why: fmt.Sprintf("the host process died (%s: %s) at %s for %s\n%s", cr.Kind, util.Clip(cr.Message, 300), cr.TopFrame, shape, src)}
}
