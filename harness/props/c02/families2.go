package c02

// Program families added in the fifth strengthening round. Same oracle as families.go: the program
// is executed only when the REAL analyzer accepts it; both back ends must hand control back to the
// host (normal completion or an interrupt value), probed dynamic kinds must match the static type.
//
//   optfield   dynamically typed values (parse_json, script-built any-objects) validated against
//              object types WITH OPTIONAL FIELDS: field option types x target shapes (required +
//              optional, optional only, two optionals, nested) x sources in which the optional
//              field is present / null / ABSENT / of the wrong type (and the required one present
//              or absent) x every runtime validation path (cast, annotated let, argument, result,
//              list element, option payload, nested field, any-object member) x uses of the
//              optional field afterwards (read, unwrap_or, is_none, assignment, display, to_json,
//              widening back to an any-object). Whatever the validation lets through must be a
//              value that has every field its static type promises.
//   modules    MULTI-MODULE programs: an imported pub fn using every kind of module-level entity
//              of ITS OWN module (global, mutated global, private function, extracted singleton,
//              private function extracting a singleton, function literal, recursion, throw, try,
//              a function imported from a third module which extracts a singleton of that module)
//              x call sites in the importing module (direct, inside try, operand of an unfinished
//              expression, through a function value, through a helper taking a function, in a
//              loop, inside a function literal, inside a function that itself extracts a singleton
//              of the importing module) x importing modules that declare nothing / an own
//              singleton / module-level entities with the same names as the library's.

import (
	"fmt"
	"sort"
	"strings"
)

// ---------------------------------------------------------------------------------------------
// optfield
// ---------------------------------------------------------------------------------------------

func optFieldFamily(full bool) []famCase {
	type ot struct{ name, json, badJSON, val, dflt, kind, use string }
	ots := []ot{
		{"?int", "3", `\"s\"`, "?4", "0", "int", "probe(r.u.unwrap_or(0) + 1);"},
		{"?str", `\"s\"`, "3", `?"t"`, `""`, "str", "probe(r.u.unwrap_or(\"\") + \"x\");"},
		{"?[int]", "[1, 2]", "[true]", "?[7]", "[0]", "list", "for e in r.u.unwrap_or([0]) { probe(e + 1); }"},
		{"?{ a: int }", `{\"a\": 1}`, `{\"b\": 1}`, "?new { a: 2 }", "new { a: 0 }", "object", "probe(r.u.unwrap_or(new { a: 0 }).a + 1);"},
		{"??int", "3", "true", "??4", "?0", "option", "probe(r.u.unwrap_or(?0).unwrap_or(0) + 1);"},
	}
	// target shapes: U = the optional field type; the accessed optional field is always `u`
	shapes := []struct{ name, text, req string }{
		{"req+opt", "{ a: int, u: U }", "a"},
		{"opt-only", "{ u: U }", ""},
		{"two-opt", "{ u: U, v: ?int }", ""},
		{"opt-first", "{ u: U, z: str }", "z"},
	}
	// sources: what the JSON object holds for the optional field u (and the required field)
	type srcv struct{ name, u string; dropReq, extra bool }
	srcvs := []srcv{
		{"present", "GOOD", false, false},
		{"null", "null", false, false},
		{"absent", "", false, false},
		{"wrong-type", "BAD", false, false},
		{"absent+extra", "", false, true},
		{"absent-all", "", true, false},
		{"present-no-req", "GOOD", true, false},
	}
	mkJSON := func(o ot, req string, s srcv) string {
		var parts []string
		if req != "" && !s.dropReq {
			v := "1"
			if req == "z" {
				v = `\"zz\"`
			}
			parts = append(parts, `\"`+req+`\": `+v)
		}
		switch s.u {
		case "GOOD":
			parts = append(parts, `\"u\": `+o.json)
		case "BAD":
			parts = append(parts, `\"u\": `+o.badJSON)
		case "null":
			parts = append(parts, `\"u\": null`)
		}
		if s.extra {
			parts = append(parts, `\"more\": true`)
		}
		return "{" + strings.Join(parts, ", ") + "}"
	}
	// validation paths: TY = target type, JS = the JSON object text, IDX = number of the source.
	// One program holds one try block per source (a fixed cost per executed program dominates).
	forms := []struct{ name, preOnce, prePer, text string }{
		{"cast", "", "", "let r = \"JS\".parse_json() as TY;"},
		{"let", "", "", "let r: TY = \"JS\".parse_json();"},
		{"arg", "fn take(r: TY) {\n    USE\n}\n", "", "take(\"JS\".parse_json() as TY);"},
		{"result", "", "fn mkIDX() -> TY {\n    \"JS\".parse_json() as TY\n}\n", "let r = mkIDX();"},
		{"list-elem", "", "", "let l = \"[JS]\".parse_json() as [TY]; let r = l[0];"},
		{"option-payload", "", "", "let o = \"JS\".parse_json() as ?TY; let r = o.unwrap();"},
		{"nested-field", "", "", "let w = \"{\\\"w\\\": JS}\".parse_json() as { w: TY }; let r = w.w;"},
		{"anyobj-get", "", "", "let o = \"{\\\"w\\\": JS}\".parse_json() as { ? }; let r = o.get(\"w\").unwrap() as TY;"},
		{"anyobj-tilde", "", "", "let o = \"{\\\"w\\\": JS}\".parse_json() as { ? }; let r: TY = o~>w;"},
		{"alias", "type T = TY;\n", "", "let r = \"JS\".parse_json() as T;"},
		{"recast", "", "", "let r0 = \"JS\".parse_json() as TY; let r = r0 as TY;"},
	}
	type use struct{ name, text, want string }
	var out []famCase
	n := 0
	for _, o := range ots {
		uses := []use{
			{"read", "probe(r.u);", "option"},
			{"typed", o.use, ""},
			{"is-none", "probe(r.u.is_none()); probe(r.u.is_some());", "bool"},
			{"assign", "r.u = " + o.val + "; probe(r.u); " + o.use, ""},
			{"assign-none", "r.u = none; probe(r.u);", "option"},
			{"let-copy", "let c = r.u; probe(c); let d = r; probe(d.u);", "option"},
			{"display", "println(r); println(r.u);", ""},
			{"to-json", "probe(r.to_json() + \"x\"); probe(r.keys());", ""},
			{"to-anyobj", "let o2 = r as { ? }; probe(o2.keys()); probe(o2.get(\"u\"));", ""},
			{"eq", "probe(r.u == r.u); probe(r == r);", "bool"},
			{"match-unwrap", "if r.u.is_some() { probe(r.u.unwrap()); } else { probe(r.u.unwrap_or(" + o.dflt + ")); }", o.kind},
		}
		for shi, sh := range shapes {
			ty := strings.ReplaceAll(sh.text, "U", o.name)
			for fi, f := range forms {
				// quick: the two basic shapes with every validation path, the others (and the nested
				// option) with the cast, the annotated let and the nested field
				if !full && (shi >= 2 || o.name == "??int" && shi >= 1) && fi != 0 && fi != 1 && fi != 6 {
					continue
				}
				for ui, u := range uses {
					// quick: the plain read always, two of the other uses in rotation
					k := len(uses) - 1
					if !full && ui >= 1 && ui != 1+n%k && ui != 1+(n+5)%k {
						continue
					}
					pre := strings.NewReplacer("TY", ty, "USE", u.text).Replace(f.preOnce)
					var body strings.Builder
					for si, s := range srcvs {
						rep := strings.NewReplacer("TY", ty, "JS", mkJSON(o, sh.req, s), "USE", u.text, "IDX", fmt.Sprint(si))
						pre += rep.Replace(f.prePer)
						body.WriteString("println(\"" + s.name + "\");\ntry {\n    " + rep.Replace(f.text) + "\n")
						if f.name != "arg" {
							body.WriteString("    " + u.text + "\n")
						}
						body.WriteString("} catch e2 {\n    println(\"caught\", e2.message);\n}\n")
					}
					out = append(out, famCase{kind: "optfield", shape: "optfield:" + f.name + "/" + u.name + ":" + sh.name + ":" + o.name, src: wrapMain(pre, body.String()), want: u.want})
				}
				n++
			}
		}
	}
	// values built by the script itself and hidden in an any-object, validated against the same
	// types when they are taken out again: objects with / without the optional field
	for _, o := range ots {
		ty := "{ a: int, u: " + o.name + " }"
		for _, f := range []struct{ name, text string }{
			{"get-cast", "let r = o.get(\"w\").unwrap() as TY;"}, {"tilde", "let r: TY = o~>w;"}, {"arrow-cast", "let r = (o->w).unwrap() as TY;"},
		} {
			var body strings.Builder
			for _, v := range []string{"new { a: 1 }", "new { a: 1, u: " + o.val + " }", "new { a: 1, u: " + o.dflt + " }", "new { u: " + o.val + " }", "new { a: 1, more: 2 }", "new { ? }", "1"} {
				body.WriteString("try {\n    let o = new { ? };\n    o.set(\"w\", " + v + ");\n    " + strings.ReplaceAll(f.text, "TY", ty) + "\n    probe(r.u);\n    " + o.use + "\n} catch e2 {\n    println(\"caught\", e2.message);\n}\n")
			}
			out = append(out, famCase{kind: "optfield", shape: "optfield:built-anyobj/" + f.name + ":" + o.name, src: wrapMain("", body.String())})
		}
	}
	// near-valid neighbours: statically typed objects lacking the optional field
	for _, o := range ots {
		ty := "{ a: int, u: " + o.name + " }"
		for i, body := range []string{
			"let r = new { a: 1 } as TY;\nprobe(r.u);",
			"let r: TY = new { a: 1 };\nprobe(r.u);",
			"let s = new { a: 1 };\nlet r = s as TY;\nprobe(r.u);",
			"let r: TY = new { a: 1, u: none };\nprobe(r.u);",
			"let l: [TY] = [new { a: 1 }];\nprobe(l[0].u);",
			"let r = ?new { a: 1 } as ?TY;\nprobe(r.unwrap().u);",
			"let r = new { a: 1, u: " + o.val + " } as { a: int };\nlet q = r as TY;\nprobe(q.u);",
		} {
			out = append(out, famCase{kind: "nearvalid", shape: fmt.Sprintf("optfield-static/%d:%s", i, o.name), src: wrapMain("", strings.ReplaceAll(body, "TY", ty))})
		}
	}
	return out
}

// ---------------------------------------------------------------------------------------------
// modules
// ---------------------------------------------------------------------------------------------

const modDeep = `$Deep = { d: int };
let depth = 100;

pub fn deep_extract(s: $Deep, by: int) -> int {
    s.d += by;
    s.d + depth
}

pub fn deep_plain(by: int) -> int { by + depth }

fn main() {}
`

// every pub fn of the library has the signature fn(by: int) -> int
const modLib = `import { deep_extract, deep_plain } from deep;

$State = { n: int, log: [str] };
$Other = { flag: bool, name: str };
let base = 5;
let names = ["a", "b"];

fn helper(x: int) -> int { x + base }

fn inner(s: $State, by: int) -> int {
    s.n += by;
    s.log.push("inner " + by.to_string());
    s.n
}

pub fn plain(by: int) -> int { by * 2 }

pub fn with_global(by: int) -> int { by + base + names.len() }

pub fn mut_global(by: int) -> int {
    base += by;
    names.push(by.to_string());
    base
}

pub fn with_helper(by: int) -> int { helper(by) }

pub fn extract(s: $State, by: int) -> int {
    s.n += by;
    s.log.push("extract " + by.to_string());
    s.n
}

pub fn extract_only(s: $State) -> int {
    s.n += 1;
    s.n + s.log.len()
}

pub fn extract_wrapped(by: int) -> int { extract_only() + by }

pub fn extract_two(s: $State, o: $Other, by: int) -> int {
    o.flag = !o.flag;
    o.name += "x";
    if o.flag { s.n += by; }
    s.n + o.name.len()
}

pub fn extract_global(s: $State, by: int) -> int { s.n + helper(by) }

pub fn extract_private(by: int) -> int { inner(by) + inner(1) }

pub fn extract_try(s: $State, by: int) -> int {
    try {
        if by > 2 { throw("lib: too big"); }
        s.n + by
    } catch e {
        s.log.push(e.message);
        0 - s.log.len()
    }
}

pub fn extract_throw(s: $State, by: int) -> int {
    s.n += 1;
    if by > 2 { throw("lib: " + s.n.to_string()); }
    s.n
}

pub fn thrower(by: int) -> int {
    if by > 2 { throw("lib: plain"); }
    by
}

pub fn with_literal(by: int) -> int {
    let f = fn(x: int) -> int { x + 1 };
    f(by) + f(base)
}

pub fn recursive(by: int) -> int {
    if by <= 0 { base } else { 1 + recursive(by - 1) }
}

pub fn extract_recursive(s: $State, by: int) -> int {
    s.n += 1;
    if by <= 0 { s.n } else { extract_recursive(by - 1) }
}

pub fn via_deep(by: int) -> int { deep_extract(by) + deep_plain(by) }

pub fn extract_via_deep(s: $State, by: int) -> int {
    s.n += deep_extract(by);
    s.n
}

pub fn fn_value(by: int) -> int {
    let f = extract;
    let g = helper;
    f(by) + g(by)
}

fn main() {}
`

// modCase is a family case with further modules next to the entry module.
type modCase struct {
	famCase
	mods map[string]string
}

func modulesFamily(full bool) []modCase {
	fns := []string{"plain", "with_global", "mut_global", "with_helper", "extract", "extract_wrapped", "extract_two", "extract_global", "extract_private",
		"extract_try", "extract_throw", "thrower", "with_literal", "recursive", "extract_recursive", "via_deep", "extract_via_deep", "fn_value"}
	// importing modules: PRE is placed between the import and main
	mains := []struct{ name, pre string }{
		{"bare", ""},
		{"own-singleton", "$Local = { hits: int };\nfn touch(l: $Local) -> int {\n    l.hits += 1;\n    l.hits\n}\n"},
		{"same-names", "let base = \"main-base\";\nlet names = 7;\nfn helper(x: str) -> str { x + base }\nfn inner(q: bool) -> bool { !q }\n"},
		{"same-singleton", "$State = { s: str };\nfn local(st: $State) -> str {\n    st.s += \"m\";\n    st.s\n}\n"},
	}
	sites := []struct{ name, pre, body string }{
		{"direct", "", "probe(F(1));\nprobe(F(3));"},
		{"in-try", "", "try {\n    probe(F(1));\n    probe(F(3));\n    throw(\"after\");\n} catch e2 {\n    println(\"c2\", e2.message);\n}"},
		{"operand", "", "println(100 + F(2) * 2, [F(1), F(0)]);"},
		{"fn-value", "", "let f = F;\nprobe(f(1));\nprobe(f(3));"},
		{"helper", "fn apply(f: fn(by: int) -> int, v: int) -> int { f(v) }\n", "probe(apply(F, 1));\nprobe(apply(F, 3));"},
		{"loop", "", "for i in 0..3 {\n    try { probe(F(i + 1)); } catch e2 { println(\"c2\", e2.message); }\n}"},
		{"in-literal", "", "let g = fn(v: int) -> int { F(v) + 1 };\nprobe(g(1));\nprobe(g(2));"},
		{"in-local-fn", "fn wrap(v: int) -> int {\n    let k = F(v);\n    k + F(0)\n}\n", "probe(wrap(1));\nprobe(wrap(2));"},
		{"in-extracting-fn", "$Wrap = { calls: int };\nfn wrapx(w: $Wrap, v: int) -> int {\n    w.calls += 1;\n    let k = F(v);\n    w.calls += 1;\n    k + w.calls\n}\n", "probe(wrapx(1));\nprobe(wrapx(2));"},
		{"list-of-fns", "", "let l = [F, F];\nfor f in l { probe(f(1)); }"},
	}
	mods := map[string]string{"lib": modLib, "deep": modDeep}
	var out []modCase
	extraOf := map[string]string{"own-singleton": "probe(touch());\n", "same-names": "probe(helper(\"h\"));\nprobe(inner(true));\n", "same-singleton": "probe(local());\n"}
	indent := func(t string) string { return "    " + strings.ReplaceAll(t, "\n", "\n    ") }
	for fi, fn := range fns {
		for mi, m := range mains {
			// quick: every function with two of the importing modules in rotation
			if !full && mi != fi%len(mains) && mi != (fi+1)%len(mains) {
				continue
			}
			// one program holds all call sites, one try block each (a fixed cost per executed program
			// dominates); the site passing the function to a helper is kept apart: functions with an
			// extraction do not fit the helper's parameter type and the analyzer says so
			for _, group := range []string{"sites", "helper"} {
				pre := "import { " + fn + " } from lib;\n" + m.pre
				body := extraOf[m.name]
				for _, s := range sites {
					if (s.name == "helper") != (group == "helper") {
						continue
					}
					pre += strings.ReplaceAll(s.pre, "F", fn)
					body += "println(\"" + s.name + "\");\ntry {\n" + indent(strings.ReplaceAll(s.body, "F", fn)) + "\n} catch e3 {\n    println(\"c3\", e3.message);\n}\n"
				}
				body += extraOf[m.name]
				out = append(out, modCase{famCase{kind: "modules", shape: "modules:" + fn + "/" + group + "/" + m.name, src: wrapMain(pre, body)}, mods})
			}
		}
	}
	// all functions of the library imported at once, called in sequence (state carried between calls)
	sorted := append([]string{}, fns...)
	sort.Strings(sorted)
	for mi, m := range mains {
		var body strings.Builder
		for _, fn := range fns {
			body.WriteString("try { probe(" + fn + "(2)); probe(" + fn + "(3)); } catch e2 { println(\"c2\", e2.message); }\n")
		}
		pre := "import { " + strings.Join(sorted, ", ") + " } from lib;\nimport { deep_extract } from deep;\n" + m.pre
		out = append(out, modCase{famCase{kind: "modules", shape: fmt.Sprintf("modules:all/%d/%s", mi, m.name), src: wrapMain(pre, body.String()+"probe(deep_extract(1));\n"), want: "int"}, mods})
	}
	return out
}
