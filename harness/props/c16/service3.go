package c16

import (
	"strconv"
	"strings"

	"hv/fw"
	"hv/valuni"
)

// ---------------------------------------------------------------------------------------------
// Fourth part of the service.
//
// Variant "out": functions that WRITE TO THE HOST. What a call writes is part of what the call
// does: it must be the same text whenever the same call is made in the same state, and a write must
// leave nothing behind in the host connection (a lock of the executor, a partial line) that changes
// - or blocks - a later write. The family is the product
//   builtin (print / println / debug)  x  arguments (none, one, several; texts that are empty)
//   x  place of the write (straight line, twice per call, in a loop, in a try left by throw, before a
//      return out of a loop, before an uncaught throw, in a thread, in two threads side by side)
//   x  origin of the text (argument, global that earlier calls wrote).
//
// Variant "single": SINGLETONS whose values are the compiler's defaults (the host has none stored),
// read and changed through extraction parameters and directly. Together with the host operation
// "@newvm" (the host builds a new VM from the SAME compile output, as a host does that compiles a
// script once and starts a VM per event or after a failure) they check that nothing a VM did is
// left behind in the compiled program: the new VM starts from the initial state.
// ---------------------------------------------------------------------------------------------

// opNewVM is the host operation "replace the VM by a new one built from the same compile output".
const opNewVM = "@newvm"

func pickStrList(r *fw.Rng) valuni.Val {
	n := fw.Pick(r, []int{0, 1, 2, 2, 4})
	out := valuni.Val{K: valuni.VList, Elems: []valuni.Val{}}
	for i := 0; i < n; i++ {
		out.Elems = append(out.Elems, pickStr(r))
	}
	return out
}

func strList(xs ...string) valuni.Val {
	out := valuni.Val{K: valuni.VList, Elems: []valuni.Val{}}
	for _, x := range xs {
		out.Elems = append(out.Elems, sv(x))
	}
	return out
}

// outFns: the functions of the out family that complete (favoured in histories of the variant).
var outFns = []string{"say", "say_ln", "say_none", "say_ln_none", "say_many", "say_twice", "say_each", "say_debug",
	"say_catch", "say_until", "say_cnt", "say_name", "say_thread", "say_fan", "rename", "say_fail_if"}

func addOutSpecs(add func(*fnSpec)) {
	c := []string{"cnt"}
	itoa := func(i int64) string { return strconv.FormatInt(i, 10) }

	add(&fnSpec{Name: "say", Only: "out", Params: []param{p("label", tStr)}, Ret: tInt, Reads: c, Writes: c,
		Src: `fn say(label: str) -> int {
    cnt += 1;
    print(label);
    cnt
}`,
		Model: func(st *state, e env, a []valuni.Val) (valuni.Val, *failure) {
			st.cnt++
			st.out += a[0].S
			return iv(st.cnt), nil
		},
		GenOK: gen(pickStr), Weight: 6})
	add(&fnSpec{Name: "say_ln", Only: "out", Params: []param{p("label", tStr)}, Ret: tInt,
		Src: `fn say_ln(label: str) -> int {
    println(label);
    label.len()
}`,
		Model: func(st *state, e env, a []valuni.Val) (valuni.Val, *failure) {
			st.out += a[0].S + "\n"
			return iv(utf8Len(a[0].S)), nil
		},
		GenOK: gen(pickStr), Weight: 3})
	add(&fnSpec{Name: "say_none", Only: "out", Ret: tInt, Reads: c,
		Src: `fn say_none() -> int {
    print();
    cnt
}`,
		Model: func(st *state, e env, a []valuni.Val) (valuni.Val, *failure) { return iv(st.cnt), nil },
		GenOK: gen(), Weight: 3})
	add(&fnSpec{Name: "say_ln_none", Only: "out", Ret: tNull,
		Src: `fn say_ln_none() {
    println();
}`,
		Model: func(st *state, e env, a []valuni.Val) (valuni.Val, *failure) {
			st.out += "\n"
			return valuni.NullV(), nil
		},
		GenOK: gen(), Weight: 1})
	add(&fnSpec{Name: "say_many", Only: "out", Params: []param{p("a", tStr), p("n", tInt), p("b", tBool)}, Ret: tStr,
		Src: `fn say_many(a: str, n: int, b: bool) -> str {
    print(a, n, b);
    a
}`,
		Model: func(st *state, e env, a []valuni.Val) (valuni.Val, *failure) {
			st.out += a[0].S + " " + itoa(a[1].I) + " " + strconv.FormatBool(a[2].B)
			return a[0], nil
		},
		GenOK: gen(pickStr, pickInt, pickBool)})
	add(&fnSpec{Name: "say_twice", Only: "out", Params: []param{p("a", tStr), p("b", tStr)}, Ret: tStr,
		Src: `fn say_twice(a: str, b: str) -> str {
    print(a);
    print(b);
    a + b
}`,
		Model: func(st *state, e env, a []valuni.Val) (valuni.Val, *failure) {
			st.out += a[0].S + a[1].S
			return sv(a[0].S + a[1].S), nil
		},
		GenOK: gen(pickStr, pickStr), Weight: 4})
	add(&fnSpec{Name: "say_each", Only: "out", Params: []param{p("xs", valuni.List(tStr))}, Ret: tInt,
		Src: `fn say_each(xs: [str]) -> int {
    let n = 0;
    for x in xs {
        print(x);
        n += 1;
    }
    n
}`,
		Model: func(st *state, e env, a []valuni.Val) (valuni.Val, *failure) {
			for _, x := range a[0].Elems {
				st.out += x.S
			}
			return iv(int64(len(a[0].Elems))), nil
		},
		GenOK: gen(pickStrList), Weight: 3})
	add(&fnSpec{Name: "say_debug", Only: "out", Params: []param{p("x", tInt)}, Ret: tInt,
		Src: `fn say_debug(x: int) -> int {
    debug(x);
    x
}`,
		Model: func(st *state, e env, a []valuni.Val) (valuni.Val, *failure) {
			st.out += "DEBUG: " + itoa(a[0].I) + "\n"
			return a[0], nil
		},
		GenOK: gen(pickInt)})
	add(&fnSpec{Name: "say_catch", Only: "out", Params: []param{p("label", tStr)}, Ret: tInt,
		Src: `fn say_catch(label: str) -> int {
    try {
        print(label);
        throw("said");
    } catch e {
        print(e.message);
        return 0 - label.len();
    }
}`,
		Model: func(st *state, e env, a []valuni.Val) (valuni.Val, *failure) {
			st.out += a[0].S + "said"
			return iv(0 - utf8Len(a[0].S)), nil
		},
		GenOK: gen(pickStr)})
	add(&fnSpec{Name: "say_until", Only: "out", Params: []param{p("xs", valuni.List(tStr)), p("stop", tStr)}, Ret: tInt,
		Src: `fn say_until(xs: [str], stop: str) -> int {
    let n = 0;
    for x in xs {
        if x == stop {
            return n;
        }
        print(x);
        n += 1;
    }
    -1
}`,
		Model: func(st *state, e env, a []valuni.Val) (valuni.Val, *failure) {
			for k, x := range a[0].Elems {
				if x.S == a[1].S {
					return iv(int64(k)), nil
				}
				st.out += x.S
			}
			return iv(-1), nil
		},
		GenOK: gen(pickStrList, pickStr)})
	// the text comes from globals that earlier calls wrote (name may be the empty string after rename(""))
	add(&fnSpec{Name: "say_cnt", Only: "out", Ret: tInt, Reads: c,
		Src: `fn say_cnt() -> int {
    print(cnt);
    cnt
}`,
		Model: func(st *state, e env, a []valuni.Val) (valuni.Val, *failure) {
			st.out += itoa(st.cnt)
			return iv(st.cnt), nil
		},
		GenOK: gen(), Weight: 3})
	add(&fnSpec{Name: "say_name", Only: "out", Ret: tStr, Reads: []string{"name"}, Then: []string{"say", "say_cnt"},
		Src: `fn say_name() -> str {
    print(name);
    name
}`,
		Model: func(st *state, e env, a []valuni.Val) (valuni.Val, *failure) {
			st.out += st.name
			return sv(st.name), nil
		},
		GenOK: gen(), Weight: 3})
	// threads write
	add(&fnSpec{Name: "say_thread", Only: "out", Params: []param{p("a", tStr)}, Ret: tInt, Threads: 1,
		Src: `fn say_worker(s: str) {
    print(s);
}

fn say_thread(a: str) -> int {
    spawn say_worker(a);
    1
}`,
		Model: func(st *state, e env, a []valuni.Val) (valuni.Val, *failure) {
			st.out += a[0].S
			return iv(1), nil
		},
		GenOK: gen(pickStr)})
	add(&fnSpec{Name: "say_fan", Only: "out", Params: []param{p("a", tStr), p("b", tStr)}, Ret: tInt, Threads: 2,
		Src: `fn say_fan(a: str, b: str) -> int {
    spawn say_worker(a);
    spawn say_worker(b);
    2
}`,
		Model: func(st *state, e env, a []valuni.Val) (valuni.Val, *failure) {
			st.outAlt = append(st.outAlt, st.out+a[1].S+a[0].S)
			st.out += a[0].S + a[1].S
			return iv(2), nil
		},
		GenOK: gen(pickStr, pickStr)})
	// a write, then the call fails / may fail
	add(&fnSpec{Name: "say_fail", Only: "out", Params: []param{p("label", tStr)}, Ret: tNull,
		Src: `fn say_fail(label: str) {
    print(label);
    throw("said:" + label);
}`,
		Model: func(st *state, e env, a []valuni.Val) (valuni.Val, *failure) {
			st.out += a[0].S
			return valuni.Val{}, &failure{Kind: "UncaughtThrow", Msg: "said:" + a[0].S}
		},
		GenFail: gen(pickStr)})
	add(&fnSpec{Name: "say_fail_if", Only: "out", Params: []param{p("label", tStr), p("x", tInt)}, Ret: tInt,
		Src: `fn say_fail_if(label: str, x: int) -> int {
    println(label, x);
    if x < 0 {
        throw("negative");
    }
    x
}`,
		Model: func(st *state, e env, a []valuni.Val) (valuni.Val, *failure) {
			st.out += a[0].S + " " + itoa(a[1].I) + "\n"
			if a[1].I < 0 {
				return valuni.Val{}, &failure{Kind: "UncaughtThrow", Msg: "negative"}
			}
			return a[1], nil
		},
		GenOK: func(r *fw.Rng, st *state, e env) []valuni.Val {
			return []valuni.Val{pickStr(r), iv(fw.Pick(r, []int64{0, 1, 64, maxI}))}
		},
		GenFail: func(r *fw.Rng, st *state, e env) []valuni.Val {
			return []valuni.Val{pickStr(r), iv(fw.Pick(r, []int64{-1, minI}))}
		}})
}

// singletonDefs: the singletons of variant "single"; no host of this check has a stored value for them,
// so every VM starts with the defaults the compiler derives from the types.
const singletonDefs = "$Stats = { hits: [int], total: int, last: ?str, tag: str, box: { n: int, l: [int] } };\n" +
	"$Flags = { active: bool, level: int };\n"

var tStSnap = valuni.Obj(valuni.F("hits", valuni.List(tInt)), valuni.F("last", valuni.Opt(tStr)), valuni.F("tag", tStr), valuni.F("total", tInt))

// singleObservers: functions whose results show the whole state of the singletons.
var singleObservers = []string{"st_snapshot", "st_total", "st_hits", "st_last", "st_box_get", "fl_get"}

// singleFns: the functions of the singleton family (favoured in histories of the variant).
var singleFns = []string{"st_record", "st_record", "st_tag", "st_box", "fl_toggle", "st_both", "st_direct", "st_clear",
	"st_snapshot", "st_total", "st_hits", "st_last", "st_box_get", "fl_get"}

func optS(p *string) valuni.Val {
	if p == nil {
		return valuni.NoneV()
	}
	return valuni.SomeV(sv(*p))
}

func addSingletonSpecs(add func(*fnSpec)) {
	s, f := []string{"$Stats"}, []string{"$Flags"}
	both := []string{"$Stats", "$Flags"}

	add(&fnSpec{Name: "st_record", Only: "single", Params: []param{p("n", tInt)}, Ret: tInt, Reads: s, Writes: s, Then: singleObservers,
		Src: `fn st_record(s: $Stats, n: int) -> int {
    s.hits.push(n);
    s.total += n;
    s.last = ?"seen";
    s.hits.len()
}`,
		Model: func(st *state, e env, a []valuni.Val) (valuni.Val, *failure) {
			st.sHits = append(st.sHits, a[0].I)
			st.sTotal += a[0].I
			seen := "seen"
			st.sLast = &seen
			return iv(int64(len(st.sHits))), nil
		},
		GenOK: gen(pickSmall), Weight: 6})
	add(&fnSpec{Name: "st_total", Only: "single", Ret: tInt, Reads: s,
		Src: `fn st_total() -> int {
    $Stats.total
}`,
		Model: func(st *state, e env, a []valuni.Val) (valuni.Val, *failure) { return iv(st.sTotal), nil },
		GenOK: gen(), Weight: 3})
	add(&fnSpec{Name: "st_hits", Only: "single", Ret: valuni.List(tInt), Reads: s,
		Src: `fn st_hits() -> [int] {
    $Stats.hits
}`,
		Model: func(st *state, e env, a []valuni.Val) (valuni.Val, *failure) { return intList(st.sHits), nil },
		GenOK: gen(), Weight: 3})
	add(&fnSpec{Name: "st_last", Only: "single", Ret: valuni.Opt(tStr), Reads: s,
		Src: `fn st_last(s: $Stats) -> ?str {
    s.last
}`,
		Model: func(st *state, e env, a []valuni.Val) (valuni.Val, *failure) { return optS(st.sLast), nil },
		GenOK: gen()})
	add(&fnSpec{Name: "st_tag", Only: "single", Params: []param{p("t", tStr)}, Ret: tStr, Reads: s, Writes: s, Then: singleObservers,
		Src: `fn st_tag(s: $Stats, t: str) -> str {
    let old = s.tag;
    s.tag = t;
    old
}`,
		Model: func(st *state, e env, a []valuni.Val) (valuni.Val, *failure) {
			old := st.sTag
			st.sTag = a[0].S
			return sv(old), nil
		},
		GenOK: gen(pickStr), Weight: 3})
	add(&fnSpec{Name: "st_box", Only: "single", Params: []param{p("n", tInt)}, Ret: tInt, Reads: s, Writes: s, Then: singleObservers,
		Src: `fn st_box(s: $Stats, n: int) -> int {
    s.box.n += n;
    s.box.l.push(n);
    s.box.n * 10 + s.box.l.len()
}`,
		Model: func(st *state, e env, a []valuni.Val) (valuni.Val, *failure) {
			st.sBoxN += a[0].I
			st.sBoxL = append(st.sBoxL, a[0].I)
			return iv(st.sBoxN*10 + int64(len(st.sBoxL))), nil
		},
		GenOK: gen(pickSmall), Weight: 3})
	add(&fnSpec{Name: "st_box_get", Only: "single", Ret: valuni.List(tInt), Reads: s,
		Src: `fn st_box_get() -> [int] {
    let out = [$Stats.box.n];
    for v in $Stats.box.l {
        out.push(v);
    }
    out
}`,
		Model: func(st *state, e env, a []valuni.Val) (valuni.Val, *failure) {
			return intList(append([]int64{st.sBoxN}, st.sBoxL...)), nil
		},
		GenOK: gen()})
	add(&fnSpec{Name: "fl_toggle", Only: "single", Ret: tBool, Reads: f, Writes: f, Then: singleObservers,
		Src: `fn fl_toggle(f: $Flags) -> bool {
    f.active = !f.active;
    f.active
}`,
		Model: func(st *state, e env, a []valuni.Val) (valuni.Val, *failure) {
			st.fActive = !st.fActive
			return bv(st.fActive), nil
		},
		GenOK: gen(), Weight: 3})
	add(&fnSpec{Name: "fl_get", Only: "single", Ret: tStr, Reads: f,
		Src: `fn fl_get() -> str {
    $Flags.active.to_string() + "/" + $Flags.level.to_string()
}`,
		Model: func(st *state, e env, a []valuni.Val) (valuni.Val, *failure) {
			return sv(strconv.FormatBool(st.fActive) + "/" + strconv.FormatInt(st.fLevel, 10)), nil
		},
		GenOK: gen()})
	add(&fnSpec{Name: "st_both", Only: "single", Params: []param{p("n", tInt)}, Ret: tInt, Reads: both, Writes: both, Then: singleObservers,
		Src: `fn st_both(s: $Stats, f: $Flags, n: int) -> int {
    f.level = f.level + n;
    s.total = s.total - n;
    f.level * 100 + s.total
}`,
		Model: func(st *state, e env, a []valuni.Val) (valuni.Val, *failure) {
			st.fLevel += a[0].I
			st.sTotal -= a[0].I
			return iv(st.fLevel*100 + st.sTotal), nil
		},
		GenOK: gen(pickSmall), Weight: 3})
	add(&fnSpec{Name: "st_direct", Only: "single", Params: []param{p("n", tInt)}, Ret: tInt, Reads: s, Writes: s, Then: singleObservers,
		Src: `fn st_direct(n: int) -> int {
    $Stats.total = $Stats.total + n;
    $Stats.hits.push(n);
    $Stats.total
}`,
		Model: func(st *state, e env, a []valuni.Val) (valuni.Val, *failure) {
			st.sTotal += a[0].I
			st.sHits = append(st.sHits, a[0].I)
			return iv(st.sTotal), nil
		},
		GenOK: gen(pickSmall), Weight: 3})
	add(&fnSpec{Name: "st_clear", Only: "single", Ret: tInt, Reads: s, Writes: s, Then: singleObservers,
		Src: `fn st_clear(s: $Stats) -> int {
    let n = s.hits.len();
    let e: [int] = [];
    s.hits = e;
    s.last = none;
    n
}`,
		Model: func(st *state, e env, a []valuni.Val) (valuni.Val, *failure) {
			n := int64(len(st.sHits))
			st.sHits, st.sLast = nil, nil
			return iv(n), nil
		},
		GenOK: gen(), Weight: 1})
	add(&fnSpec{Name: "st_snapshot", Only: "single", Ret: tStSnap, Reads: s,
		Src: `fn st_snapshot(s: $Stats) -> { hits: [int], last: ?str, tag: str, total: int } {
    new { hits: s.hits, last: s.last, tag: s.tag, total: s.total }
}`,
		Model: func(st *state, e env, a []valuni.Val) (valuni.Val, *failure) {
			return valuni.ObjV(valuni.KV{K: "hits", V: intList(st.sHits)}, valuni.KV{K: "last", V: optS(st.sLast)}, valuni.KV{K: "tag", V: sv(st.sTag)}, valuni.KV{K: "total", V: iv(st.sTotal)}), nil
		},
		GenOK: gen(), Weight: 4})
	// the changes of a failed call stay (and go with the VM)
	add(&fnSpec{Name: "st_fail", Only: "single", Params: []param{p("n", tInt)}, Ret: tNull, Reads: s, Writes: s,
		Src: `fn st_fail(s: $Stats, n: int) {
    s.total += n;
    throw("stats");
}`,
		Model: func(st *state, e env, a []valuni.Val) (valuni.Val, *failure) {
			st.sTotal += a[0].I
			return valuni.Val{}, &failure{Kind: "UncaughtThrow", Msg: "stats"}
		},
		GenFail: gen(pickSmall)})
}

// ---- fixed histories of the two families (every function, every pooled text; independent of the seed) ----

func op(fn string, args ...valuni.Val) Op {
	if args == nil {
		args = none()
	}
	return Op{Fn: fn, Args: args}
}

// outSweep: every function of the out family with every pooled text, on one VM.
func outSweep(host string) Payload {
	pl := Payload{Variant: Variant{Order: 5, Init: "zero", Out: true}, Limits: smallLimits, Host: host}
	for _, s := range strPool {
		pl.Ops = append(pl.Ops, op("say", sv(s)), op("say_cnt"))
	}
	for _, s := range strPool {
		pl.Ops = append(pl.Ops, op("say_ln", sv(s)), op("say_many", sv(s), iv(-7), bv(true)), op("say_catch", sv(s)),
			op("say_twice", sv(s), sv("|")), op("say_twice", sv("|"), sv(s)), op("say_thread", sv(s)), op("say_fan", sv(s), sv("+")),
			op("say_fail_if", sv(s), iv(1)), op("rename", sv(s)), op("say_name"), op("say", sv("-")))
	}
	pl.Ops = append(pl.Ops, op("say_none"), op("say", sv("after")), op("say_ln_none"), op("say_debug", iv(minI)),
		op("say_each", strList()), op("say_each", strList("", "a", "", "b")), op("say_until", strList("x", "", "y", "z"), sv("y")),
		op("say_until", strList("", ""), sv("q")), op("say_twice", sv(""), sv("")), op("say_fan", sv(""), sv("")), op("say_cnt"),
		op(opNewVM), op("say_cnt"), op("say_name"), op("say_none"), op("say", sv("again")))
	return pl
}

// singleSweep: change everything (singletons and globals), look at everything, build a new VM from the
// same compile output, look again - three VMs in a row.
func singleSweep(host, init string) Payload {
	pl := Payload{Variant: Variant{Order: 9, Init: init, Single: true, Out: true}, Limits: smallLimits, Host: host}
	look := []Op{op("st_snapshot"), op("st_total"), op("st_hits"), op("st_last"), op("st_box_get"), op("fl_get"),
		op("snapshot"), op("all"), op("cfg_b"), op("win_sum"), op("opts"), op("say_name"), op("say_cnt")}
	change := []Op{op("st_record", iv(3)), op("st_record", iv(4)), op("st_tag", sv("a")), op("st_box", iv(2)), op("fl_toggle"),
		op("st_both", iv(7)), op("st_direct", iv(9)),
		op("append", iv(5)), op("extend", intList([]int64{1, 2})), op("set_cfg", cfgVal(12, "twelve")), op("win_set_start", iv(2)), op("win_sum"), op("set_window", iv(1), iv(5)),
		op("rename", sv("")), op("remember", valuni.SomeV(iv(6))), op("toggle"), op("incr"), op("scale", fv(2))}
	pl.Ops = append(pl.Ops, look...)
	for k := 0; k < 2; k++ {
		pl.Ops = append(pl.Ops, change...)
		pl.Ops = append(pl.Ops, look...)
		pl.Ops = append(pl.Ops, op(opNewVM))
		pl.Ops = append(pl.Ops, look...)
	}
	// a VM that has failed is replaced
	pl.Ops = append(pl.Ops, op("st_record", iv(1)), op("st_fail", iv(50)), op(opNewVM))
	pl.Ops = append(pl.Ops, look...)
	return pl
}

func familyFavour(v Variant) string {
	var fs []string
	if v.Out {
		fs = append(fs, outFns...)
	}
	if v.Single {
		fs = append(fs, singleFns...)
	}
	return strings.Join(fs, ",")
}
