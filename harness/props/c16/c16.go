// Package c16 checks property C16: host invocations on one VM are correct, repeatable and leave
// no residue. Seeded random histories of SpawnSync calls on one VM of a compiled "service"
// program are judged, call by call, against a sequential state-machine model of the service
// written in Go; after every call the residue of the core (verifCoreExit hook), the core list,
// the core-list lock (TryLock, never blocking) and the goroutines inside Core.Run are inspected.
// service.go holds the single-core functions, service2.go the stored iterables (ranges in globals,
// fields, elements, locals) and the relay functions (work handed over to threads), exits.go the family
// of functions that are left from an operand position (operand position x way of leaving x syntax).
package c16

import (
	"crypto/sha256"
	"encoding/binary"
	"fmt"
	"sort"
	"strings"

	"hv/fw"
)

type c16 struct{}

func init() { fw.Register(c16{}) }

func (c16) ID() string { return "C16" }

func (c16) Info(tier string) fw.Info {
	return fw.Info{
		Level: "exploration",
		Rule: "each case is one history of 5-60 host invocations (SpawnSync, 10% as SpawnAsync+Wait+HandleTermination) on ONE VM of a compiled service program " +
			fmt.Sprintf("(%d functions over 10 globals; variants: shuffled definition order, two sets of initial global values, three core limit sets, optional trigger annotation + event function (NewVM -> annotation argument function -> main), optional no-op cancel function, optional relay functions, optional exits family); ", len(specs)) +
			"functions and well-typed argument values (boundary ints/floats/strings, lists, objects, options, any-objects) are drawn from a PRNG seeded by VERIF_SEED; about 1 call in 30 is a failing one (uncaught throw - also out of a for loop and in the last thread of a hand-over chain -, index out of bounds, division by zero, call-stack overflow, fatal error inside try inside a loop). " +
			"Stored iterables: a range in a global (bounds assignable), ranges in an object field / a list element / a local, a string and lists are iterated by for loops that are left by return, break, continue, a caught and an uncaught throw, nested in themselves and re-entered through a call; the generator often calls an observer (or the same function again) right after such a call. " +
			"Relay variant (1 history in 6): the invoked function hands its work over to threads (one thread, chains of two and three threads each started by the previous one, two chains side by side, the invoking core busy meanwhile), every stage spins 0-30000 iterations so that cores finish - and are reaped by Wait - in every order; for half of these histories the schedule is perturbed through the verifYield/verifCoreExit hooks: a core about to start a thread and a thread about to signal its exit is held (at most 25 ms) until Wait has removed every core that finished before (the verdict never depends on the waiting time). " +
			fmt.Sprintf("Exits variant (1 history in 5, plus one fixed history per operand position that calls every member with every pooled argument): functions that are left from an operand position while other operands wait on the stack - %d positions (right operand of infix operators one and three deep and in a condition; right-hand side of = and of the compound operators for a local, a global, a field, an element, a nested place and places in globals; the index of a read, of an assignment target and of both; first / middle / last / nested argument of a named call, argument of a called value, of a method, next to a function literal; element of a list literal, field of an object literal, end of a range; condition of an if and control value of a match inside an operand; inside a try and next to a finished loop inside an operand) x 6 ways of leaving (return; continue and break of a while, a for and a loop loop with 0-2000 iterations; throw caught by a handler around the statement; the returning function itself called in operand position) x 3 syntaxes of the leaving operand (block, if-else, match); ", len(exitPositions)) +
			fmt.Sprintf("Hosts: 1 history in 5 (and half of the family histories below) is driven through the repository's own testing host (homescript.TestingVmExecutor + TestingVmScopeAdditions) instead of the harness host; %d family histories use the out variant (functions that write to the host: print / println / debug with no, one, several arguments and empty texts; two writes per call, writes in a loop, in a try left by throw, before a return out of a loop, before an uncaught throw, by one thread and by two threads side by side; texts from arguments and from globals earlier calls wrote) and / or the single variant (two singletons whose values are the compiler's defaults, read and changed through extraction parameters and directly: list push, compound assignment, option, nested object, whole-field replacement); 2 in 3 of them contain 1-3 host operations @newvm: the host builds a NEW VM from the SAME compile output (also right after a failed VM has been probed), which must start from the initial state (the model is reset); six fixed histories call every function of the two families with every pooled text on both hosts and rebuild the VM after changing every global and singleton. ", familyCount(tier)) +
			"After every call that was executed and ended as the model says, the text the call wrote to the host must be the text the function writes (either order for two threads), and what the host had collected before must still be there; NewVM writes nothing. The host's own lock (the print mutex of the testing host) must be free after NewVM and after every call, and around every single write (writes of the cores are passed on one at a time; a write that finds or leaves the mutex locked is recorded, NO further write is passed on - it would block forever - and the history ends with that verdict). " +
			"Fresh variant (1 history in 5 of the others, plus four fixed histories - both hosts, both initial states - that make every call three times in a row, then build a new VM from the same compile output and repeat everything): values that belong to one call. Literals (list, empty list, object, any-object new { ? }, nested list, option around a list, literals evaluated once per loop iteration, a literal stored in a global) are changed in place by the function that evaluates them (push, element / field assignment, set) and must be new values at every evaluation - next call, next iteration, next VM; parameters of type [int], [[int]], { n: int, xs: [int] }, ?[int], ?{ .. }, ?[?int] are changed in place by the callee, the host passes the bare T, Some(T) and none for ?T from a pool of three payloads per type. Half of all histories are run by a host that keeps the composite values it has passed and passes the very same value again when an equal argument is needed (reuse); after every call of every history the values the host passed must still be what the host passed (a call that changes them leaves something behind that changes the result of a later call given the same value). " +
			"Every call is compared with a sequential model of the service (globals state machine in Go): a completed call must return exactly the model's value with the declared dynamic type (nil/null for null functions), a failing call must fail with the model's fatal kind (and thrown message). " +
			"After every completed call: every core started during the call (counted at verifYield(\"spawn\")) has signalled its exit before the call returned, their number is 1 + the number of threads the function starts, and the core of the invoked function exited with operand stack = exactly the return value (null for null functions), no call frames, memory pointer 0, no exception handlers. After every call: core list empty, Cores.Lock acquirable by TryLock (a leaked lock is reported and NO further call is attempted, so no worker ever blocks), no goroutine left inside runtime.(*Core).Run (a goroutine blocked in a channel send after the call returned can never proceed). " +
			"AFTER A FAILED CALL the VM must answer later calls with a failure instead of blocking: Wait() cancels the shared context on failure; whenever the context is observed cancelled before a call (ctx.Err() != nil), ANY failure answer is accepted and a regular result is a violation (the call must not execute: the model state is not advanced); histories with a real cancel function end with one arbitrary call, one call of a few instructions (less than one 50-instruction scheduling cycle) and one of thousands. With a no-op cancel function the context stays live, later calls really execute and must agree with the model (which keeps the partial effects of the failed call). Blocking (lock precondition) and a host crash are rejected in both modes. " +
			"non-trivial = some completed call of the history read a global that an EARLIER call of the same history wrote (the model marks reads/writes per function); distinct = distinct payload. " +
			"While a finding is open its construct is kept out of the main workload and exercised by a small tagged workload: " + kfLock + " (main histories end at the first failed call and the lock state after it is not evaluated), " + kfAnyObj + " (no { ? } return type), " + kfOrphan + " (no spawn-then-throw), " + kfExpr + " (no return out of an operand position).",
		Assumptions: []string{
			"one host goroutine calls the VM at a time (concurrent host calls are outside the statement); arguments are well-typed (SpawnSync refuses others by design)",
			"the step budget per call (3M instructions) exceeds every modelled call of the invoked function's core by an order of magnitude (threads are not budgeted); exceeding it is reported as a violation (the call does not return), the wall-clock watchdog only yields inconclusive",
			"call depths between half and twice the call-stack limit are not generated (the limit is polled every 50 instructions)",
			"the model shares no code with /repo; value conversion uses hv/valuni",
		},
		CaseTimeoutS: 40,
		BatchSize:    map[string]int{"quick": 24, "thorough": 80}[tier],
	}
}

func counts(tier string) (hist, poisoned int) {
	if tier == "thorough" {
		return 24000, 60
	}
	return 1200, 24
}

// familyCount: histories of the out / single variants (hosts, restarts).
func familyCount(tier string) int {
	if tier == "thorough" {
		return 4000
	}
	return 180
}

func (c16) Cases(tier string, seed uint64) []fw.Case {
	nHist, nPois := counts(tier)
	// fw.NewRng(seed+k) is the stream of fw.NewRng(seed) shifted by k draws: hash the seed first so that
	// different VERIF_SEEDs give unrelated case lists
	hs := sha256.Sum256([]byte(fmt.Sprintf("C16/%d", seed)))
	root0 := binary.LittleEndian.Uint64(hs[:8])
	root := fw.NewRng(root0)
	lockOpen := fw.KFOpen(kfLock)
	anyOpen := fw.KFOpen(kfAnyObj)
	orphanOpen := fw.KFOpen(kfOrphan)
	exprOpen := fw.KFOpen(kfExpr)

	var out []fw.Case
	mk := func(id, kind string, pl Payload, firstFail int) {
		out = append(out, fw.MkCase(id, kind, pl, tagsOf(pl, firstFail)...))
	}
	variant := func(r *fw.Rng) Variant {
		return Variant{Order: r.Next() % 1000, Init: fw.Pick(r, []string{"zero", "rich"}), Trigger: r.Chance(1, 4)}
	}
	histLen := func(r *fw.Rng) int {
		switch r.Intn(4) {
		case 0:
			return 5 + r.Intn(10)
		case 1:
			return 15 + r.Intn(15)
		default:
			return 30 + r.Intn(31)
		}
	}

	// ---- main workload -------------------------------------------------------------------------
	for i := 0; i < nHist; i++ {
		r := root.Fork()
		o := genOpts{variant: variant(r), limits: fw.Pick(r, limitSets), n: histLen(r), failAt: -1, avoid: map[string]bool{}}
		if anyOpen {
			o.avoid[tagRetAnyObj] = true
		}
		shape := r.Intn(10)
		switch {
		case shape < 3: // no failing call at all
		case shape < 7: // random failures
			o.failNum, o.failDen = 1, 30
		default: // a failure at a chosen position, the history goes on afterwards (if permitted)
			o.failAt = 1 + r.Intn(o.n-1)
			o.failNum, o.failDen = 1, 30
		}
		o.stopAtFailure = lockOpen
		if !lockOpen {
			o.noCancel = r.Chance(1, 3)
		}
		if !orphanOpen && r.Chance(1, 50) {
			o.variant.Spawn = true
			o.variant.Trigger = false
			o.favour = "fanout_fail"
			o.noCancel = false
			o.failAt = 1 + r.Intn(o.n-1)
		}
		if !exprOpen && r.Chance(1, 3) {
			o.variant.Leaky = true
		}
		if !o.variant.Spawn && r.Chance(1, 6) {
			o.variant.Relay = true
			o.favour = relayFavour
			if o.n > 30 {
				o.n = 30
			}
		}
		// the exits variant is decided by a stream of its own (the other histories stay what they were)
		if x := fw.NewRng(root0 ^ (uint64(i)+1)*0x9e3779b97f4a7c15); !exprOpen && !o.variant.Spawn && !o.variant.Relay && x.Chance(1, 4) {
			o.variant.Exits = true
			o.favour = strings.Join(exitFns, ",")
		}
		// the fresh variant and the host that keeps its payloads are decided by a stream of their own
		z := fw.NewRng(root0 ^ (uint64(i)+1)*0xd6e8feb86659fd93)
		if !o.variant.Spawn && !o.variant.Relay && !o.variant.Exits && z.Chance(1, 5) {
			o.variant.Fresh = true
			o.favour = strings.Join(freshFns, ",")
		}
		reuse := z.Chance(1, 2)
		pl, ff := genHistory(r, o)
		pl.Reuse = reuse
		pl.SkipLockAfterFailure = lockOpen
		pl.Reap = o.variant.Relay && r.Bool()
		// the host is decided by a stream of its own (the invocations stay what they were): 1 history in 5 is
		// driven through the repository's testing host
		if y := fw.NewRng(root0 ^ (uint64(i)+1)*0xc2b2ae3d27d4eb4f); y.Chance(1, 5) {
			pl.Host = hostTesting
		}
		mk(fmt.Sprintf("h%05d", i), "hist", pl, ff)
	}

	// ---- writes to the host, singletons, VMs rebuilt from the same compile output (service3.go) -------
	// (streams of their own: the histories above stay what they were)
	fam := fw.NewRng(root0 ^ 0x5851f42d4c957f2d)
	for i := 0; i < familyCount(tier); i++ {
		r := fam.Fork()
		v := variant(r)
		switch r.Intn(3) {
		case 0:
			v.Out = true
		case 1:
			v.Single = true
		default:
			v.Out, v.Single = true, true
		}
		o := genOpts{variant: v, limits: fw.Pick(r, limitSets), n: histLen(r), failAt: -1, avoid: map[string]bool{tagRetAnyObj: anyOpen}}
		o.favour = familyFavour(v)
		switch shape := r.Intn(10); {
		case shape < 4:
		case shape < 7:
			o.failNum, o.failDen = 1, 30
		default:
			o.failAt = 1 + r.Intn(o.n-1)
			o.failNum, o.failDen = 1, 30
		}
		o.stopAtFailure = lockOpen
		if !lockOpen {
			o.noCancel = r.Chance(1, 3)
		}
		// 0-3 VMs rebuilt from the same compile output (2 histories in 3 have at least one)
		if nr := fw.Pick(r, []int{0, 1, 1, 1, 2, 3}); nr > 0 && o.n >= 8 {
			seen := map[int]bool{}
			for k := 0; k < nr; k++ {
				pos := 2 + r.Intn(o.n-5)
				if !seen[pos] {
					seen[pos] = true
					o.restartAt = append(o.restartAt, pos)
				}
			}
			sort.Ints(o.restartAt)
		}
		pl, ff := genHistory(r, o)
		pl.SkipLockAfterFailure = lockOpen
		if r.Bool() {
			pl.Host = hostTesting
		}
		mk(fmt.Sprintf("f%05d", i), "family", pl, ff)
	}
	// fixed histories: every function of the families with every pooled text, on both hosts
	if !lockOpen {
		for _, hk := range []string{"", hostTesting} {
			name := map[string]string{"": "harness", hostTesting: hostTesting}[hk]
			mk("fs:out:"+name, "family-sweep", outSweep(hk), -1)
			for _, init := range []string{"zero", "rich"} {
				pl := singleSweep(hk, init)
				mk("fs:single:"+name+":"+init, "family-sweep", pl, indexOfFn(pl, "st_fail"))
			}
		}
	}

	// ---- values that belong to one call: every function of the fresh family, every payload in every form,
	// each call three times with the host's same values, on both hosts, then on a new VM (service4.go) ----
	for _, hk := range []string{"", hostTesting} {
		name := map[string]string{"": "harness", hostTesting: hostTesting}[hk]
		for _, init := range []string{"zero", "rich"} {
			pl := freshSweep(hk, init)
			pl.SkipLockAfterFailure = lockOpen
			mk("fr:"+name+":"+init, "fresh-sweep", pl, -1)
		}
	}

	// ---- exits from operand positions: every function of the family with every pooled argument ----
	if !exprOpen {
		for i, pl := range exitSweeps() {
			pl.SkipLockAfterFailure = lockOpen
			mk(fmt.Sprintf("xs%02d:%s", i, exitPositions[i].name), "exit-sweep", pl, -1)
		}
	}

	// ---- poisoned workloads (one construct each) --------------------------------------------------
	if lockOpen {
		for i := 0; i < nPois; i++ {
			r := root.Fork()
			n := 4 + r.Intn(20)
			o := genOpts{variant: variant(r), limits: fw.Pick(r, limitSets), n: n, failAt: 1 + r.Intn(n-2), failNum: 1, failDen: 30, avoid: map[string]bool{tagRetAnyObj: anyOpen}, noCancel: r.Bool()}
			pl, ff := genHistory(r, o)
			mk(fmt.Sprintf("pf%04d", i), "after-failure", pl, ff)
		}
	}
	if anyOpen {
		for i := 0; i < nPois; i++ {
			r := root.Fork()
			o := genOpts{variant: variant(r), limits: fw.Pick(r, limitSets), n: 3 + r.Intn(10), failAt: -1, favour: "as_any", avoid: map[string]bool{}}
			pl, ff := genHistory(r, o)
			if !hasFn(pl, "as_any") {
				pl.Ops = append(pl.Ops, Op{Fn: "as_any"})
			}
			pl.SkipLockAfterFailure = lockOpen
			mk(fmt.Sprintf("ao%04d", i), "ret-anyobj", pl, ff)
		}
	}
	if orphanOpen {
		for i := 0; i < nPois; i++ {
			r := root.Fork()
			v := variant(r)
			v.Spawn, v.Trigger = true, false
			n := 2 + r.Intn(8)
			o := genOpts{variant: v, limits: fw.Pick(r, limitSets), n: n, failAt: n - 1, favour: "fanout_fail", stopAtFailure: true, avoid: map[string]bool{tagRetAnyObj: anyOpen}}
			pl, ff := genHistory(r, o)
			if !hasFn(pl, "fanout_fail") {
				pl.Ops = append(pl.Ops[:len(pl.Ops)-1], Op{Fn: "fanout_fail"})
			}
			pl.SkipLockAfterFailure = lockOpen
			mk(fmt.Sprintf("sp%04d", i), "spawn-then-fail", pl, ff)
		}
	}
	if exprOpen {
		for i := 0; i < nPois; i++ {
			r := root.Fork()
			v := variant(r)
			v.Leaky = true
			o := genOpts{variant: v, limits: fw.Pick(r, limitSets), n: 3 + r.Intn(10), failAt: -1, favour: "leaky", avoid: map[string]bool{tagRetAnyObj: anyOpen}}
			pl, ff := genHistory(r, o)
			if !hasFn(pl, "leaky") {
				pl.Ops = append(pl.Ops, Op{Fn: "leaky", Args: none()})
				pl.Ops[len(pl.Ops)-1].Args = append(pl.Ops[len(pl.Ops)-1].Args, iv(5))
			}
			pl.SkipLockAfterFailure = lockOpen
			mk(fmt.Sprintf("lk%04d", i), "expr-exit", pl, ff)
		}
	}

	// ---- pinned minimal witnesses (always run; they carry the tags of their constructs) ---------
	for _, w := range pinned() {
		mk("pin:"+w.name, "pinned", w.pl, w.firstFail)
	}
	return out
}

// relayFavour: the functions of the relay variant that hand their work over to threads.
const relayFavour = "relay_start,relay_start,relay_start3,relay_fan,relay_busy,relay_direct,relay_fail"

func indexOfFn(pl Payload, fn string) int {
	for i, op := range pl.Ops {
		if op.Fn == fn {
			return i
		}
	}
	return -1
}

func hasFn(pl Payload, fn string) bool {
	for _, op := range pl.Ops {
		if op.Fn == fn {
			return true
		}
	}
	return false
}

func (c16) Run(c fw.Case) fw.Result {
	var pl Payload
	fw.Decode(c, &pl)
	h := runHistory(pl)
	res := fw.Result{Verdict: fw.Held, Nontrivial: h.nontriv, Evals: int64(h.calls), Obs: h.obs}
	if res.Evals == 0 {
		res.Evals = 1
	}
	h.cover[lenBucket(len(pl.Ops))] = true
	h.cover["variant:init-"+pl.Variant.Init] = true
	if pl.Variant.Trigger {
		h.cover["variant:trigger"] = true
	}
	if pl.NoCancel {
		h.cover["variant:no-op-cancel"] = true
	}
	if pl.Variant.Relay {
		h.cover["variant:relay"] = true
	}
	if pl.Variant.Exits {
		h.cover["variant:exits"] = true
	}
	if pl.Variant.Out {
		h.cover["variant:out"] = true
	}
	if pl.Variant.Single {
		h.cover["variant:single"] = true
	}
	if pl.Variant.Fresh {
		h.cover["variant:fresh"] = true
	}
	if pl.Reuse {
		h.cover["host:passes-kept-values-again"] = true
	}
	if pl.Reap {
		h.cover["schedule:reap-before-spawn-and-exit"] = true
	}
	h.cover[fmt.Sprintf("limits:%d", pl.Limits.CallStack)] = true
	res.Cover = sortedKeys(h.cover)
	switch {
	case len(h.viol) > 0:
		res.Verdict = fw.Violated
		res.Why, res.Sig, res.Detail = h.viol[0].why, h.viol[0].sig, h.viol[0].detail
		for _, v := range h.viol[1:] {
			res.More = append(res.More, fw.SubViolation{Why: v.why, Sig: v.sig, Detail: v.detail})
		}
	case h.inconcl != "":
		res.Verdict = fw.Inconclusive
		res.Why = h.inconcl
	}
	if fw.HashOf(c.Payload)[0] == '0' && res.Verdict == fw.Held { // ~6 % of the cases
		res.Sample = map[string]any{"variant": pl.Variant, "limits": pl.Limits, "no_cancel": pl.NoCancel, "host": pl.Host, "history": h.trace}
	}
	return res
}

func (c16) OnCrash(c fw.Case, cr fw.Crash) fw.Result {
	var pl Payload
	fw.Decode(c, &pl)
	last := ""
	if len(pl.Ops) > 0 {
		last = fmt.Sprintf(" (history of %d calls, last %s)", len(pl.Ops), pl.Ops[len(pl.Ops)-1])
	}
	switch cr.Kind {
	case "watchdog", "killed", "oom":
		return fw.Result{Verdict: fw.Inconclusive, Why: "worker died: " + cr.Kind + " " + cr.Message + last}
	case "step-budget":
		return fw.Result{Verdict: fw.Violated, Sig: "crash:step-budget", Why: "a call executed more than 3M instructions although every modelled call needs fewer than 400k: the call does not return" + last}
	}
	msg := cr.Message
	if strings.Contains(msg, "all goroutines are asleep") {
		return fw.Result{Verdict: fw.Violated, Sig: "crash:deadlock", Why: "the Go runtime reported a deadlock: a host call blocked forever" + last}
	}
	return fw.Result{Verdict: fw.Violated, Sig: "crash:" + cr.Kind + ":" + cr.TopFrame, Why: "the host process crashed during a host invocation: " + msg + " in " + cr.TopFrame + last}
}

// Finalize fails the run as broken when the monitors saw nothing.
func (c16) Finalize(tier string, results []fw.Result, coverage map[string]any) string {
	var calls, completed, residue, samples int64
	harness := 0
	for _, r := range results {
		calls += r.Obs["calls"]
		completed += r.Obs["completed_calls"]
		residue += r.Obs["residue_checks"]
		samples += r.Obs["goroutine_samples"]
		if r.Verdict == fw.Inconclusive && strings.HasPrefix(r.Why, "harness:") {
			harness++
		}
	}
	if harness > 0 {
		return fmt.Sprintf("%d cases could not be run (harness error, see INCONCLUSIVE lines)", harness)
	}
	if completed == 0 || residue == 0 || samples == 0 {
		return fmt.Sprintf("monitors observed nothing: %d calls, %d completed, %d residue checks, %d goroutine samples", calls, completed, residue, samples)
	}
	return ""
}
