package c16

import (
	"errors"
	"fmt"
	"sync"

	hms "github.com/smarthome-go/homescript/v3/homescript"
	vvalue "github.com/smarthome-go/homescript/v3/homescript/runtime/value"

	"hv/drive"
	"hv/util"
)

// The hosts of an invocation sequence. Payload.Host selects one:
//
//	""        the in-memory host of the harness (drive.VMExec: effect log)
//	"testing" the repository's own testing host, homescript.TestingVmExecutor with
//	          homescript.TestingVmScopeAdditions - the host of every testing entry point of the repository
//
// Both see the same service programs; the oracle is the same (results, residue, the text written per
// call). A host owns state of its own that a call may leave changed - the testing host a print buffer and
// the mutex that guards it - and "a completed call leaves nothing behind (... locks) that changes the
// result of a later call / blocks it forever" covers that state too: the mutex must be free whenever no
// write is in progress. That is observed without ever blocking (TryLock), like Cores.Lock.
const hostTesting = "testing"

type host interface {
	executor() vvalue.Executor
	scope() map[string]vvalue.Value
	// output: everything the VMs of the history have written so far
	output() string
	// lockHeld: a description of a lock of the host that is held although no write is in progress ("" = none)
	lockHeld() string
	// writeFault: set by the executor when a write found / left the host's lock held (the write that did it)
	writeFault() string
}

// ---- harness host ------------------------------------------------------------------------------------

type harnessHost struct{ exec drive.VMExec }

func (h harnessHost) executor() vvalue.Executor      { return h.exec }
func (h harnessHost) scope() map[string]vvalue.Value { return h.exec.VMScope() }
func (h harnessHost) output() string                 { return h.exec.L.Output() }
func (h harnessHost) lockHeld() string               { return "" }
func (h harnessHost) writeFault() string             { return "" }

// ---- the repository's testing host -----------------------------------------------------------------------

// watchedTesting is homescript.TestingVmExecutor (every method is the repository's) with a watch on its
// mutex around WriteStringTo: writes of the cores are passed on one at a time, so whenever a write is about
// to be passed on, and again when it has returned, nobody can legitimately hold PintBufMutex. If it is held
// then, the write that left it locked is recorded and no further write is passed on (it would block forever,
// and with it the call, Wait and every later call); the history ends with that verdict.
type watchedTesting struct {
	hms.TestingVmExecutor
	w *writeWatch
}

type writeWatch struct {
	mu     sync.Mutex
	writes int
	fault  string
}

func (t watchedTesting) WriteStringTo(s string) error {
	t.w.mu.Lock()
	defer t.w.mu.Unlock()
	t.w.writes++
	if t.w.fault != "" {
		return errors.New("verif: write not passed on, the host's print mutex is held")
	}
	if !t.PintBufMutex.TryLock() {
		t.w.fault = fmt.Sprintf("write %d (%q) found the mutex held although no write was in progress", t.w.writes, util.Clip(s, 40))
		return errors.New("verif: write not passed on, the host's print mutex is held")
	}
	t.PintBufMutex.Unlock()
	err := t.TestingVmExecutor.WriteStringTo(s)
	if !t.PintBufMutex.TryLock() {
		t.w.fault = fmt.Sprintf("write %d, WriteStringTo(%q), returned with the mutex still locked", t.w.writes, util.Clip(s, 40))
		return err
	}
	t.PintBufMutex.Unlock()
	return err
}

type testingHost struct{ exec watchedTesting }

func newTestingHost() testingHost {
	return testingHost{exec: watchedTesting{
		TestingVmExecutor: hms.TestingVmExecutor{PrintToStdout: false, PrintBuf: new(string), PintBufMutex: &sync.Mutex{}},
		w:                 &writeWatch{},
	}}
}

func (h testingHost) executor() vvalue.Executor      { return h.exec }
func (h testingHost) scope() map[string]vvalue.Value { return hms.TestingVmScopeAdditions() }

// output is read between calls only (no core is running then)
func (h testingHost) output() string {
	h.exec.w.mu.Lock()
	defer h.exec.w.mu.Unlock()
	return *h.exec.PrintBuf
}

func (h testingHost) lockHeld() string {
	h.exec.w.mu.Lock()
	defer h.exec.w.mu.Unlock()
	if !h.exec.PintBufMutex.TryLock() {
		return "TestingVmExecutor.PintBufMutex is locked (TryLock fails) although no core is running: the next print / println / debug on this host blocks forever"
	}
	h.exec.PintBufMutex.Unlock()
	return ""
}

func (h testingHost) writeFault() string {
	h.exec.w.mu.Lock()
	defer h.exec.w.mu.Unlock()
	return h.exec.w.fault
}

func newHost(kind string, src drive.Sources) (host, error) {
	switch kind {
	case "":
		return harnessHost{exec: drive.VMExec{L: &drive.Log{}, Src: src}}, nil
	case hostTesting:
		return newTestingHost(), nil
	}
	return nil, fmt.Errorf("unknown host %q", kind)
}
