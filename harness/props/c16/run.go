package c16

import (
	"context"
	"fmt"
	"math"
	goruntime "runtime"
	"sort"
	"strconv"
	"strings"
	"sync"
	"time"

	"github.com/smarthome-go/homescript/v3/homescript/analyzer/ast"
	"github.com/smarthome-go/homescript/v3/homescript/compiler"
	herrors "github.com/smarthome-go/homescript/v3/homescript/errors"
	"github.com/smarthome-go/homescript/v3/homescript/runtime"
	vvalue "github.com/smarthome-go/homescript/v3/homescript/runtime/value"

	"hv/drive"
	"hv/fw"
	"hv/util"
	"hv/valuni"
)

// Op is one host invocation.
type Op struct {
	Fn   string       `json:"fn"`
	Args []valuni.Val `json:"args,omitempty"`
	// Async: the host uses SpawnAsync + Wait + HandleTermination (what cmd/ does for main)
	// instead of SpawnSync.
	Async bool `json:"async,omitempty"`
}

func (o Op) String() string {
	parts := make([]string, len(o.Args))
	for i, a := range o.Args {
		parts[i] = a.String()
	}
	s := o.Fn + "(" + strings.Join(parts, ", ") + ")"
	if o.Async {
		s = "async " + s
	}
	return s
}

// Limits of the cores of a case.
type Limits struct {
	CallStack uint `json:"callstack"`
	Stack     uint `json:"stack"`
	Memory    uint `json:"memory"`
}

// Payload is one history on one VM.
type Payload struct {
	Variant Variant `json:"variant"`
	Limits  Limits  `json:"limits"`
	Ops     []Op    `json:"ops"`
	// NoCancel: the host hands NewVM a cancel function that does nothing (the context stays
	// live after a failed call, so later calls really execute).
	NoCancel bool `json:"no_cancel,omitempty"`
	// SkipLockAfterFailure: do not evaluate the lock state after a failed call (set in the main
	// workload while KF-vm-wait-leaks-rlock is open; such histories end at the failed call).
	SkipLockAfterFailure bool `json:"skip_lock_after_failure,omitempty"`
	// Reap: schedule perturbation for calls that run on several cores. A core that is about to start a
	// thread, and a thread that is about to signal its exit, is held (for at most 25 ms) until the
	// host's Wait has removed every core that had finished before from the core list. This makes the
	// orders "a core is reaped, then another one is started / finishes" happen on fast machines too;
	// the verdict of a case never depends on the waiting time.
	Reap bool `json:"reap,omitempty"`
	// Host: "" = the in-memory host of the harness, "testing" = the repository's testing host (host.go).
	Host string `json:"host,omitempty"`
	// Reuse: the host keeps the composite values it has passed and passes the very same value (not an equal
	// new one) whenever a later call of the history needs an equal argument - one payload for several callbacks.
	Reuse bool `json:"reuse,omitempty"`
}

type exitRec struct {
	ptr      *runtime.Core
	core     uint
	stack    int
	frames   int
	mp       int64
	handlers int
}

// monitor collects hook events of the VM under test (one VM at a time per worker process).
type monitor struct {
	mu     sync.Mutex
	exits  []exitRec
	steps  int64
	budget int64
	// main: the core that runs the invoked function of the current call (the first one that executes an instruction)
	main *runtime.Core
	// spawns: cores created during the current call (the one of the invoked function included)
	spawns int
}

func (m *monitor) stepsNow() int64 {
	m.mu.Lock()
	defer m.mu.Unlock()
	return m.steps
}

const coreRunFrame = "homescript/runtime.(*Core).Run("

// coreGoroutines returns id -> state of all goroutines currently inside runtime.(*Core).Run.
func coreGoroutines() map[string]string {
	buf := make([]byte, 1<<18)
	for {
		n := goruntime.Stack(buf, true)
		if n < len(buf) {
			buf = buf[:n]
			break
		}
		buf = make([]byte, 2*len(buf))
	}
	out := map[string]string{}
	for _, block := range strings.Split(string(buf), "\n\n") {
		if !strings.Contains(block, coreRunFrame) {
			continue
		}
		head, _, _ := strings.Cut(block, "\n")
		// goroutine 12 [chan send]:
		rest := strings.TrimPrefix(head, "goroutine ")
		id, st, _ := strings.Cut(rest, " ")
		st = strings.TrimSuffix(strings.TrimPrefix(st, "["), "]:")
		if i := strings.Index(st, ","); i >= 0 { // "chan send, 2 minutes"
			st = st[:i]
		}
		out[id] = st
	}
	return out
}

type violation struct {
	why, sig string
	detail   any
}

// histRun is the observation of one history.
type histRun struct {
	viol      []violation
	inconcl   string
	cover     map[string]bool
	obs       map[string]int64
	calls     int
	nontriv   bool
	trace     []string
	completed int
	// note: appended to the explanation of every violation (which VM of the history is being called)
	note string
}

func (h *histRun) violate(sig, why string, detail any) {
	for _, v := range h.viol {
		if v.sig == sig {
			return
		}
	}
	h.viol = append(h.viol, violation{why: why + h.note, sig: sig, detail: detail})
}

func astTypeOf(s *fnSpec, declared map[string]ast.AnalyzedFunctionDefinition) (runtime.FunctionInvocationSignature, error) {
	sp := herrors.Span{}
	if s.RetAny {
		// what cmd/testing_run.go declares for annotation argument functions
		return runtime.FunctionInvocationSignature{Params: []runtime.FunctionInvocationSignatureParam{}, ReturnType: ast.NewListType(ast.NewAnyType(sp), sp)}, nil
	}
	def, ok := declared[s.Name]
	if !ok {
		return runtime.FunctionInvocationSignature{}, fmt.Errorf("function %s is not in the analysed program", s.Name)
	}
	sig := runtime.FunctionInvocationSignature{Params: []runtime.FunctionInvocationSignatureParam{}, ReturnType: def.ReturnType}
	// singleton extraction parameters (s: $Stats) are filled in by the function itself, the host passes the others
	var passed []ast.AnalyzedFnParam
	for _, prm := range def.Parameters.List {
		if !prm.IsSingletonExtractor {
			passed = append(passed, prm)
		}
	}
	if len(passed) != len(s.Params) {
		return sig, fmt.Errorf("function %s: %d declared parameters, spec has %d", s.Name, len(passed), len(s.Params))
	}
	for i, prm := range passed {
		if prm.Ident.Ident() != s.Params[i].Name {
			return sig, fmt.Errorf("function %s: parameter %d is %s, spec says %s", s.Name, i, prm.Ident.Ident(), s.Params[i].Name)
		}
		sig.Params = append(sig.Params, runtime.FunctionInvocationSignatureParam{Ident: prm.Ident.Ident(), Type: prm.Type})
	}
	return sig, nil
}

// sameVal: same dynamic kinds and same content; floats bit-exact except that all NaNs are equal.
func sameVal(a, b valuni.Val) bool {
	if a.K != b.K {
		return false
	}
	switch a.K {
	case valuni.VFloat:
		x, y := float64(a.F), float64(b.F)
		if math.IsNaN(x) || math.IsNaN(y) {
			return math.IsNaN(x) && math.IsNaN(y)
		}
		return x == y && math.Signbit(x) == math.Signbit(y)
	case valuni.VList:
		if len(a.Elems) != len(b.Elems) {
			return false
		}
		for i := range a.Elems {
			if !sameVal(a.Elems[i], b.Elems[i]) {
				return false
			}
		}
		return true
	case valuni.VObj, valuni.VAnyObj:
		if len(a.Keys) != len(b.Keys) {
			return false
		}
		for i := range a.Keys {
			if a.Keys[i] != b.Keys[i] || !sameVal(a.Vals[i], b.Vals[i]) {
				return false
			}
		}
		return true
	case valuni.VSome:
		return sameVal(*a.Inner, *b.Inner)
	}
	return valuni.StructEq(a, b)
}

func retKind(t valuni.Type) string {
	return t.Shape()
}

// runHistory executes a history against the real VM and judges every call against the model.
func runHistory(pl Payload) (h *histRun) {
	h = &histRun{cover: map[string]bool{}, obs: map[string]int64{}}
	v := pl.Variant
	src := drive.Sources{"main": v.Source()}
	ao := drive.Analyze(src, "main", true)
	if ao.Errors > 0 {
		h.inconcl = "harness: the service program is rejected by the analyzer: " + util.Clip(ao.ErrorSummary(), 400)
		return h
	}
	declared := map[string]ast.AnalyzedFunctionDefinition{}
	for _, f := range ao.Modules["main"].Functions {
		declared[f.Ident.Ident()] = f
	}
	prog, err := drive.Compile(ao.Modules, "main")
	if err != nil {
		h.inconcl = "harness: the service program does not compile: " + err.Error()
		return h
	}

	// literal (mangled) names of annotation argument functions, as a host finds them
	literal := map[string]string{}
	for key, anns := range prog.Annotations {
		if key.Module != "main" {
			continue
		}
		for _, it := range anns.Items {
			if t, ok := it.(compiler.TriggerCompiledAnnotation); ok {
				literal["TRIGGER_args_for_"+key.UnmangledFunction] = t.ArgumentFunctionIdent
			}
		}
	}

	mon := &monitor{budget: 3_000_000}
	var vm runtime.VM
	// reaped: every core of the current call that has signalled its exit has left the core list
	reaped := func(started int) bool {
		if !vm.Cores.Lock.TryRLock() {
			return false
		}
		n := len(vm.Cores.Cores)
		vm.Cores.Lock.RUnlock()
		mon.mu.Lock()
		live := started - len(mon.exits)
		mon.mu.Unlock()
		return n <= live
	}
	hold := func(started int) {
		for k := 0; k < 100 && !reaped(started); k++ {
			time.Sleep(250 * time.Microsecond)
		}
	}
	runtime.VerifCoreExit = func(c *runtime.Core) {
		if pl.Reap {
			mon.mu.Lock()
			thread, started := mon.main != nil && c != mon.main, mon.spawns
			mon.mu.Unlock()
			if thread {
				hold(started)
			}
		}
		mon.mu.Lock()
		mon.exits = append(mon.exits, exitRec{ptr: c, core: c.Corenum, stack: len(c.Stack), frames: len(c.CallStack), mp: c.MemoryPointer, handlers: len(c.ExceptionCatchLabels)})
		mon.mu.Unlock()
	}
	runtime.VerifStep = func(c *runtime.Core) {
		// the budget applies to the core that runs the invoked function (the first core of the call that
		// executes an instruction); threads it spawns may legitimately run until they are cancelled
		mon.mu.Lock()
		if mon.main == nil {
			mon.main = c
		}
		over := false
		if c == mon.main {
			mon.steps++
			over = mon.steps > mon.budget
		}
		mon.mu.Unlock()
		if over {
			panic(fw.StepBudgetMsg)
		}
	}
	runtime.VerifYield = func(site string) {
		if site == "spawn" {
			mon.mu.Lock()
			started := mon.spawns
			mon.mu.Unlock()
			if pl.Reap && started > 0 { // not the host's own spawn of the invoked function
				hold(started)
			}
			mon.mu.Lock()
			mon.spawns++
			mon.mu.Unlock()
		}
	}
	defer func() {
		runtime.VerifCoreExit = nil
		runtime.VerifStep = nil
		runtime.VerifYield = nil
	}()

	baseline := coreGoroutines() // leftovers of earlier cases of this worker process
	newCoreGoroutines := func() map[string]string {
		out := map[string]string{}
		for id, st := range coreGoroutines() {
			if _, old := baseline[id]; !old {
				out[id] = st
			}
		}
		return out
	}
	// settle: after a call has returned no goroutine may remain inside Core.Run. A goroutine that
	// is blocked in a channel send can never proceed (nothing receives from a core that has left
	// the core list); one that is still runnable is given a bounded number of yields.
	baseNum := goruntime.NumGoroutine()
	calls := 0
	settle := func() (leaked map[string]string, unsettled bool) {
		calls++
		// cheap pre-check: no goroutine beyond those that existed before the VM was created; the
		// stacks are parsed whenever there is one more, on every 8th call and at the first call
		if goruntime.NumGoroutine() <= baseNum && calls%8 != 1 {
			h.obs["goroutine_count_checks"]++
			return nil, false
		}
		for i := 0; i < 400; i++ {
			g := newCoreGoroutines()
			h.obs["goroutine_samples"]++
			if len(g) == 0 {
				return nil, false
			}
			blocked := true
			for _, st := range g {
				if st != "chan send" {
					blocked = false
				}
			}
			if blocked && i >= 2 {
				return g, false
			}
			goruntime.Gosched()
			time.Sleep(250 * time.Microsecond)
		}
		return newCoreGoroutines(), true
	}

	hst, herr := newHost(pl.Host, src)
	if herr != nil {
		h.inconcl = "harness: " + herr.Error()
		return h
	}
	if pl.Host == "" {
		h.cover["host:harness"] = true
	} else {
		h.cover["host:"+pl.Host] = true
	}
	limits := runtime.CoreLimits{CallStackMaxSize: pl.Limits.CallStack, StackMaxSize: pl.Limits.Stack, MaxMemorySize: pl.Limits.Memory}
	e := env{callStackMax: int64(pl.Limits.CallStack)}

	// hostLocks: the host's own locks must be free whenever no call is in progress
	hostLocks := func(when string) bool {
		if f := hst.writeFault(); f != "" {
			h.violate("lock:host:left-by-write", fmt.Sprintf("%s: the host's print mutex (TestingVmExecutor.PintBufMutex) is left locked by a completed write: %s. Every later print / println / debug on this host - in this call, in a thread, in any later call - blocks forever, and with it Wait and SpawnSync", when, f), h.trace)
			return false
		}
		if l := hst.lockHeld(); l != "" {
			h.violate("lock:host:held:"+strings.SplitN(when, " ", 2)[0], fmt.Sprintf("%s: %s", when, l), h.trace)
			return false
		}
		h.obs["host_lock_checks"]++
		return true
	}

	// boot: the host builds a VM from the compile output (NewVM runs @init). Every VM gets a context and a
	// cancel function of its own; the executor (and what it has collected) stays.
	var ctx *context.Context
	var cancels []context.CancelFunc
	defer func() {
		for _, c := range cancels {
			c()
		}
	}()
	written := ""
	vms := 0
	boot := func(when string) bool {
		c, realCancel := context.WithCancel(context.Background())
		cancels = append(cancels, realCancel)
		var cancel context.CancelFunc = realCancel
		if pl.NoCancel {
			cancel = func() {}
		}
		ctx = &c
		if pv := protect(func() { vm = runtime.NewVM(prog, hst.executor(), &c, &cancel, hst.scope(), limits) }); pv != nil {
			h.violate("newvm:panic", when+": NewVM panicked on the host goroutine: "+util.Clip(fmt.Sprint(pv), 300), h.trace)
			return false
		}
		vms++
		mon.mu.Lock()
		mon.exits = nil
		mon.mu.Unlock()
		if !vm.Cores.Lock.TryLock() {
			h.violate("lock:held:after-init", when+": Cores.Lock cannot be acquired after NewVM returned", h.trace)
			return false
		}
		nInit := len(vm.Cores.Cores)
		vm.Cores.Lock.Unlock()
		if nInit != 0 {
			h.violate("residue:cores:@init", fmt.Sprintf("%s: after NewVM returned (it runs @init through SpawnSync), %d cores are still in the core list (the next Wait would poll a finished core forever)", when, nInit), h.trace)
			return false
		}
		if !hostLocks(when + ", after NewVM returned") {
			return false
		}
		if out := hst.output(); out != written {
			h.violate("output:@init", fmt.Sprintf("%s: NewVM (the initialisation of the globals) wrote %q to the host; the program writes nothing there", when, util.Clip(strings.TrimPrefix(out, written), 200)), h.trace)
			return false
		}
		return true
	}
	if !boot("first VM") {
		return h
	}

	// the host's argument values: new storage per call, or (Payload.Reuse) one value per distinct composite
	// argument of the history, passed again whenever an equal argument is needed
	kept := map[string]vvalue.Value{}
	hostValue := func(a valuni.Val) vvalue.Value {
		if !pl.Reuse || !isComposite(a) {
			return *valuni.ToVM(a)
		}
		key := fmt.Sprintf("%d:%s", a.K, a.String())
		if x, ok := kept[key]; ok {
			h.obs["args_passed_again"]++
			return x
		}
		x := *valuni.ToVM(a)
		kept[key] = x
		return x
	}

	st := newState(v.Init)
	failedAt := -1 // index of the first failed call (model or observed) on the current VM
	// abandoned: no further call may be attempted on the current VM (it would block); a new VM may follow
	abandoned := false
	restartNext := func(i int) bool { return i+1 < len(pl.Ops) && pl.Ops[i+1].Fn == opNewVM }

	for i, op := range pl.Ops {
		if op.Fn == opNewVM {
			// the host replaces the VM by a new one built from the SAME compile output: it starts from the
			// initial state (globals, singletons), whatever the VMs before it did - and whether they failed
			if !boot(fmt.Sprintf("op %d %s (VM %d of the history)", i, opNewVM, vms+1)) {
				return h
			}
			st = newState(v.Init)
			failedAt, abandoned = -1, false
			h.note = fmt.Sprintf(" [the call is made on VM %d of the history, which the host built at op %d (%s) from the same compile output as the VMs before it: a new VM must start from the initial state of the globals and singletons, whatever earlier VMs did]", vms, i, opNewVM)
			h.obs["restarts"]++
			h.cover["restart"] = true
			h.trace = append(h.trace, fmt.Sprintf("%d %s", i, opNewVM))
			continue
		}
		if abandoned {
			h.inconcl = "harness: history continues on a VM that must not be called any more"
			return h
		}
		spec := specByName[op.Fn]
		if spec == nil || !v.has(spec.Only) {
			h.inconcl = "harness: unknown function " + op.Fn
			return h
		}
		sig, err := astTypeOf(spec, declared)
		if err != nil {
			h.inconcl = "harness: " + err.Error()
			return h
		}
		for k, a := range op.Args {
			// well-typed = what SpawnSync admits without a conversion of a leaf: the type itself, a T for a ?T
			if k >= len(spec.Params) || !valuni.Conforms(a, spec.Params[k].T, false) {
				h.inconcl = fmt.Sprintf("harness: op %d %s: argument %d is not well-typed", i, op, k)
				return h
			}
		}
		if len(op.Args) != len(spec.Params) {
			h.inconcl = fmt.Sprintf("harness: op %d %s: wrong number of arguments", i, op)
			return h
		}

		// precondition of "does not block forever": the core-list lock must be free
		if !vm.Cores.Lock.TryLock() {
			h.violate("lock:held:before-call", fmt.Sprintf("call %d %s not attempted: Cores.Lock is held although no call is in progress (the call would block forever)", i, op), h.trace)
			return h
		}
		vm.Cores.Lock.Unlock()
		h.obs["lock_checks"]++

		// a VM whose context is cancelled (it does that itself when a call fails) must refuse the call:
		// nothing executes, the model state stays as it is
		cancelled := (*ctx).Err() != nil
		if cancelled && failedAt < 0 {
			h.violate("cancel:without-failure", fmt.Sprintf("before call %d %s the context of the VM is cancelled although no call of the history has failed", i, op), h.trace)
			return h
		}

		// the model
		var want valuni.Val
		var wantFail *failure
		st.out, st.outAlt = "", nil
		if !cancelled {
			want, wantFail = spec.Model(st, e, op.Args)
		}

		// the implementation
		args := make([]vvalue.Value, len(op.Args))
		// stale: a kept value that an earlier call has changed (reported then) is not held against this call
		stale := make([]bool, len(op.Args))
		for k, a := range op.Args {
			args[k] = hostValue(a)
			if pl.Reuse && isComposite(a) {
				if now, err := valuni.FromVM(args[k]); err != nil || !sameVal(now, a) {
					stale[k] = true
				}
			}
		}
		inv := runtime.FunctionInvocation{Function: spec.Name, LiteralName: spec.Literal, Args: args, FunctionSignature: sig}
		if spec.Literal {
			name, ok := literal[spec.Name]
			if !ok {
				h.inconcl = "harness: the compiler output has no annotation argument function " + spec.Name
				return h
			}
			inv.Function = name
		}
		mon.mu.Lock()
		mon.exits = mon.exits[:0]
		mon.steps = 0
		mon.main = nil
		mon.spawns = 0
		mon.mu.Unlock()
		var res runtime.FunctionInvocationResult
		pv := protect(func() {
			if op.Async {
				core := vm.SpawnAsync(inv, nil, nil, nil)
				coreNum, interrupt := vm.Wait()
				res = vm.HandleTermination(core, inv, interrupt, coreNum)
			} else {
				res = vm.SpawnSync(inv, nil, nil)
			}
		})
		h.calls++
		h.obs["calls"]++
		h.cover["fn:"+spec.Name] = true
		if pv != nil {
			h.violate("panic:"+spec.Name+":"+util.NormPanic(fmt.Sprint(pv)), fmt.Sprintf("call %d %s panicked on the host goroutine: %s", i, op, util.Clip(fmt.Sprint(pv), 300)), h.trace)
			return h
		}
		// the host's own locks (judged first: a write that is refused because the host's mutex is held makes the call fail)
		if !hostLocks(fmt.Sprintf("after call %d %s returned", i, op)) {
			return h
		}
		mon.mu.Lock()
		exits := append([]exitRec{}, mon.exits...)
		mainCore, spawns := mon.main, mon.spawns
		mon.mu.Unlock()
		// the argument values are the host's: the call received them, what it does to its parameters must not
		// stay behind in them (a host that passes the same value again would get another answer)
		for k, a := range op.Args {
			if !isComposite(a) || stale[k] {
				continue
			}
			h.obs["arg_checks"]++
			now, err := valuni.FromVM(args[k])
			if err != nil || !sameVal(now, a) {
				got := "a malformed value"
				if err == nil {
					got = now.String()
				}
				h.violate("args:changed:"+spec.Name+":"+spec.Params[k].T.Shape(), fmt.Sprintf("call %d %s: after the call returned, the value the host passed for parameter %s (declared %s) is %s; the host passed %s. The call worked on the host's own value instead of on the value the boundary admitted: what it did to its parameter stays behind in the argument and changes the result of every later call that is given this value again", i, op, spec.Params[k].Name, spec.Params[k].T, util.Clip(got, 200), util.Clip(a.String(), 200)), h.trace)
			}
		}

		obsFailed := res.Exception != nil
		var oc drive.Outcome
		if obsFailed {
			oc = drive.VMOutcome(&res.Exception.Interrupt)
		}
		afterFailure := failedAt >= 0
		line := fmt.Sprintf("%d %s", i, op)

		switch {
		case afterFailure:
			h.obs["calls_after_failure"]++
			// a failure answer is always acceptable after a failure; a successful answer must be the right one
			if obsFailed {
				h.cover["after-failure:failure:"+oc.Class] = true
				h.trace = append(h.trace, line+" => failure "+oc.Class+"/"+oc.Kind)
			} else {
				h.cover["after-failure:success"] = true
				if cancelled {
					got := "no value"
					if res.ReturnValue != nil {
						if g, err := valuni.FromVM(res.ReturnValue); err == nil {
							got = g.String()
						}
					}
					h.violate("after-failure:success-on-cancelled-vm:"+spec.Name, fmt.Sprintf("call %d %s was made after call %d had failed and the VM had cancelled its context; the VM executed it (%d instructions) and answered with the regular result %s instead of a failure", i, op, failedAt, mon.stepsNow(), util.Clip(got, 200)), h.trace)
					return h
				}
				if wantFail != nil {
					h.violate("after-failure:success-instead-of-failure:"+spec.Name, fmt.Sprintf("call %d %s (after the failed call %d) returned successfully, but the function must fail with %s", i, op, failedAt, wantFail.Kind), h.trace)
					return h
				}
				if !h.checkValue(i, op, spec, want, res, "after-failure:") {
					return h
				}
				h.trace = append(h.trace, line+" => "+want.String())
			}
		case wantFail != nil:
			if !obsFailed {
				h.violate("outcome:success-instead-of-failure:"+spec.Name, fmt.Sprintf("call %d %s returned successfully, but the function must fail with %s", i, op, wantFail.Kind), h.trace)
				return h
			}
			h.obs["failed_calls"]++
			h.cover["fail:"+wantFail.Kind] = true
			if oc.Class != "fatal" || oc.Kind != wantFail.Kind {
				h.violate("outcome:wrong-failure:"+spec.Name+":"+oc.Class+"/"+oc.Kind, fmt.Sprintf("call %d %s failed with %s, expected fatal/%s", i, op, oc, wantFail.Kind), h.trace)
				return h
			}
			if wantFail.Kind == "UncaughtThrow" && oc.Message != wantFail.Msg && !strings.HasPrefix(res.Exception.Interrupt.Message(), wantFail.Msg+"\n") {
				h.violate("outcome:wrong-message:"+spec.Name, fmt.Sprintf("call %d %s failed with message %q, the program threw %q", i, op, util.Clip(res.Exception.Interrupt.Message(), 200), wantFail.Msg), h.trace)
				return h
			}
			h.trace = append(h.trace, line+" => failure "+oc.Class+"/"+oc.Kind)
		default:
			if obsFailed {
				h.violate("outcome:unexpected-failure:"+spec.Name+":"+oc.Class+"/"+oc.Kind, fmt.Sprintf("call %d %s failed with %s, expected %s", i, op, util.Clip(oc.String(), 300), want), h.trace)
				return h
			}
			if !h.checkValue(i, op, spec, want, res, "") {
				return h
			}
			h.completed++
			h.obs["completed_calls"]++
			h.cover["ret:"+retKind(spec.Ret)] = true
			h.trace = append(h.trace, line+" => "+want.String())
			// non-triviality: this call read a global which an earlier call of the history wrote
			for _, g := range spec.Reads {
				if st.written[g] {
					h.nontriv = true
				}
			}
			for _, g := range spec.Writes {
				st.written[g] = true
			}
		}
		// ---- the text the call wrote to the host -----------------------------------------------------
		outNow := hst.output()
		wrote := strings.TrimPrefix(outNow, written)
		appended := strings.HasPrefix(outNow, written)
		written = outNow
		if !appended {
			h.violate("output:rewritten:"+spec.Name, fmt.Sprintf("call %d %s: the text the host had collected before the call is no longer a prefix of what it holds now", i, op), h.trace)
			return h
		}
		// judged whenever the call was executed and ended the way the model says (after a failed call any failure
		// answer is acceptable, so a failing call is not judged then)
		if !cancelled && obsFailed == (wantFail != nil) && !(afterFailure && obsFailed) {
			ok := wrote == st.out
			for _, alt := range st.outAlt {
				ok = ok || wrote == alt
			}
			h.obs["output_checks"]++
			if st.out != "" {
				h.obs["output_checks_nonempty"]++
			}
			if !ok {
				h.violate("output:"+spec.Name, fmt.Sprintf("call %d %s wrote %q to the host, the function writes %q", i, op, util.Clip(wrote, 200), util.Clip(st.out, 200)), h.trace)
				return h
			}
		}
		if (obsFailed || wantFail != nil) && failedAt < 0 {
			failedAt = i
		}

		// ---- residue of a completed call ----------------------------------------------------
		if !obsFailed {
			h.obs["residue_checks"]++
			h.cover[fmt.Sprintf("cores-per-call:%d", spawns)] = true
			var x *exitRec
			for k := range exits {
				if exits[k].ptr == mainCore && mainCore != nil {
					x = &exits[k]
				}
			}
			switch {
			case len(exits) < spawns:
				h.violate("residue:cores-running:"+spec.Name, fmt.Sprintf("call %d %s returned as completed while %d of the %d cores it had started had not signalled their exit: threads of the call are left running (or are never waited for) after the call", i, op, spawns-len(exits), spawns), h.trace)
			case len(exits) != spawns || x == nil:
				h.violate("residue:exit-events:"+spec.Name, fmt.Sprintf("call %d %s: %d cores were started and %d signalled their exit during the call (the core of the invoked function among them: %v)", i, op, spawns, len(exits), x != nil), h.trace)
			case spawns != 1+spec.Threads:
				h.violate("residue:thread-count:"+spec.Name, fmt.Sprintf("call %d %s ran on %d cores, the function starts %d threads", i, op, spawns, spec.Threads), h.trace)
			}
			if x != nil {
				// every function leaves exactly its result (null for a function without one)
				if x.stack != 1 {
					h.violate("residue:stack:"+spec.Name, fmt.Sprintf("call %d %s completed with %d operand-stack entries (expected 1: exactly the return value)", i, op, x.stack), h.trace)
				}
				if x.frames != 0 {
					h.violate("residue:frames:"+spec.Name, fmt.Sprintf("call %d %s completed with %d call frames left", i, op, x.frames), h.trace)
				}
				if x.mp != 0 {
					h.violate("residue:mp:"+spec.Name, fmt.Sprintf("call %d %s completed with memory pointer %d", i, op, x.mp), h.trace)
				}
				if x.handlers != 0 {
					h.violate("residue:handlers:"+spec.Name, fmt.Sprintf("call %d %s completed with %d exception handlers still registered", i, op, x.handlers), h.trace)
				}
			}
			if spawns > 1 {
				h.obs["threaded_calls"]++
			}
		}
		// ---- VM-level residue after every call -------------------------------------------------
		lockFree := true
		if obsFailed && pl.SkipLockAfterFailure {
			// not evaluated (see Info.Rule); such histories end here
			if i != len(pl.Ops)-1 && !restartNext(i) {
				h.inconcl = "harness: history continues after a failed call although the lock check is disabled"
				return h
			}
			lockFree = false
			if n := len(vm.Cores.Cores); n != 0 { // no core of this single-threaded service is running any more
				h.violate("residue:cores:"+spec.Name, fmt.Sprintf("after call %d %s returned, %d cores are still in the core list", i, op, n), h.trace)
			}
		} else if !vm.Cores.Lock.TryLock() {
			phase := "after-completed-call"
			if obsFailed {
				phase = "after-failed-call"
			}
			h.violate("lock:leaked:"+phase, fmt.Sprintf("after call %d %s returned, Cores.Lock is still held (TryLock fails): the next call on this VM would block forever", i, op), h.trace)
			lockFree = false
		} else {
			n := len(vm.Cores.Cores)
			vm.Cores.Lock.Unlock()
			h.obs["lock_checks"]++
			if n != 0 {
				h.violate("residue:cores:"+spec.Name, fmt.Sprintf("after call %d %s returned, %d cores are still in the core list (the next Wait would poll a finished core forever)", i, op, n), h.trace)
				lockFree = false // do not attempt another call: Wait would never return
			}
		}
		if leaked, unsettled := settle(); len(leaked) > 0 {
			if unsettled {
				h.inconcl = fmt.Sprintf("call %d %s: a core goroutine is still running after the call returned (states %v); not decided", i, op, leaked)
				return h
			}
			phase := "after-completed-call"
			if obsFailed {
				phase = "after-failed-call"
			}
			h.violate("goroutine:leak:"+phase, fmt.Sprintf("after call %d %s returned, %d goroutine(s) remain inside runtime.(*Core).Run blocked in a channel send that nothing will ever receive", i, op, len(leaked)), h.trace)
			for id, stt := range leaked { // do not report the same goroutines again
				baseline[id] = stt
			}
		}
		if !lockFree {
			if obsFailed && pl.SkipLockAfterFailure && restartNext(i) {
				abandoned = true
				continue
			}
			return h // never attempt a call that would deadlock
		}
		if len(h.viol) >= 3 {
			return h
		}
	}
	return h
}

// checkValue compares a successful answer with the model.
func (h *histRun) checkValue(i int, op Op, spec *fnSpec, want valuni.Val, res runtime.FunctionInvocationResult, pre string) bool {
	if spec.Ret.K == valuni.TNull {
		if res.ReturnValue != nil && res.ReturnValue.Kind() != vvalue.NullValueKind {
			h.violate(pre+"ret:value:"+spec.Name, fmt.Sprintf("call %d %s of a null function returned a %s", i, op, res.ReturnValue.Kind()), h.trace)
			return false
		}
		return true
	}
	if res.ReturnValue == nil {
		h.violate(pre+"ret:nil:"+retKind(spec.Ret)+":"+spec.Name, fmt.Sprintf("call %d %s completed but the host received no return value (nil); the function returned %s of declared type %s", i, op, want, spec.Ret), h.trace)
		return false
	}
	got, err := valuni.FromVM(res.ReturnValue)
	if err != nil {
		h.violate(pre+"ret:malformed:"+spec.Name, fmt.Sprintf("call %d %s returned a malformed value: %v", i, op, err), h.trace)
		return false
	}
	if !sameVal(got, want) {
		cls := "value"
		if !valuni.HasType(got, spec.Ret) {
			cls = "type"
		}
		h.violate(pre+"ret:"+cls+":"+spec.Name, fmt.Sprintf("call %d %s returned %s, expected %s (declared return type %s)", i, op, util.Clip(got.String(), 300), util.Clip(want.String(), 300), spec.Ret), h.trace)
		return false
	}
	if !valuni.HasType(got, spec.Ret) {
		h.inconcl = fmt.Sprintf("harness: the model value %s of %s does not have the declared type %s", want, spec.Name, spec.Ret)
		return false
	}
	return true
}

// isComposite: values with storage of their own (a call could change them in place).
func isComposite(a valuni.Val) bool {
	switch a.K {
	case valuni.VList, valuni.VObj, valuni.VAnyObj:
		return true
	case valuni.VSome:
		return isComposite(*a.Inner)
	}
	return false
}

func protect(f func()) (pv any) {
	defer func() {
		if r := recover(); r != nil {
			pv = r
		}
	}()
	f()
	return nil
}

func sortedKeys(m map[string]bool) []string {
	out := make([]string, 0, len(m))
	for k := range m {
		out = append(out, k)
	}
	sort.Strings(out)
	return out
}

func lenBucket(n int) string {
	switch {
	case n < 5:
		return "len:<5"
	case n < 15:
		return "len:5-14"
	case n < 30:
		return "len:15-29"
	}
	return "len:30-" + strconv.Itoa(60)
}
