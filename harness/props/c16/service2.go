package c16

import (
	"hv/fw"
	"hv/valuni"
)

// ---------------------------------------------------------------------------------------------
// Second part of the service: iterables that live in stored data (globals, fields, elements,
// locals) and are iterated by several loops / several invocations, and functions whose work is
// handed over to threads.
// ---------------------------------------------------------------------------------------------

// rangeVals is the model of `for v in a..b` / `a..=b`: ascending when a < b, descending otherwise;
// the end is excluded unless the range is inclusive.
func rangeVals(a, b int64, incl bool) []int64 {
	var out []int64
	if a < b {
		for v := a; v < b; v++ {
			out = append(out, v)
		}
	} else {
		for v := a; v > b; v-- {
			out = append(out, v)
		}
	}
	if incl {
		out = append(out, b)
	}
	return out
}

func (st *state) window() []int64 { return rangeVals(st.winA, st.winB, st.winIncl) }

func sumOf(xs []int64) int64 {
	var s int64
	for _, x := range xs {
		s += x
	}
	return s
}

func firstGT(xs []int64, x int64) int64 {
	for _, v := range xs {
		if v > x {
			return v
		}
	}
	return -1
}

func indexOf(xs []int64, x int64) int {
	for i, v := range xs {
		if v == x {
			return i
		}
	}
	return -1
}

var (
	planSpan  = rangeVals(2, 9, false)
	spanRows  = [][]int64{rangeVals(0, 4, false), rangeVals(7, 3, true), rangeVals(5, 5, false)}
	wordLen   = int64(len("homescript"))
	boundPool = []int64{-3, 0, 1, 2, 5, 6, 9, 12}
	// spinPool: iterations a thread spins before it goes on (0: at once; the large ones outlast
	// several polling intervals of VM.Wait, so that cores finish and are reaped in every order)
	spinPool = []int64{0, 0, 0, 40, 40, 2500, 9000, 30000}
)

func pickBound(r *fw.Rng) valuni.Val { return iv(fw.Pick(r, boundPool)) }
func pickSpin(r *fw.Rng) valuni.Val  { return iv(fw.Pick(r, spinPool)) }

// winObservers: functions whose result depends on where an iteration over the stored range starts.
var winObservers = []string{"win_sum", "win_first_gt", "win_count_until", "win_pairs", "win_via_call", "win_odd_sum"}

func addStoredIterSpecs(add func(*fnSpec)) {
	w := []string{"window"}

	// ---- a range stored in a global: loops over it left by return / break / continue / throw, nested, re-entered ----
	add(&fnSpec{Name: "win_first_gt", Params: []param{p("x", tInt)}, Ret: tInt, Reads: w, Then: winObservers,
		Src: `fn win_first_gt(x: int) -> int {
    for s in window {
        if s > x {
            return s;
        }
    }
    -1
}`,
		Model: func(st *state, e env, a []valuni.Val) (valuni.Val, *failure) {
			return iv(firstGT(st.window(), a[0].I)), nil
		},
		GenOK: gen(pickBound), Weight: 4})
	add(&fnSpec{Name: "win_sum", Ret: tInt, Reads: w,
		Src: `fn win_sum() -> int {
    let t = 0;
    for s in window {
        t += s;
    }
    t
}`,
		Model: func(st *state, e env, a []valuni.Val) (valuni.Val, *failure) { return iv(sumOf(st.window())), nil },
		GenOK: gen(), Weight: 3})
	add(&fnSpec{Name: "win_count_until", Params: []param{p("stop", tInt)}, Ret: tInt, Reads: w, Then: winObservers,
		Src: `fn win_count_until(stop: int) -> int {
    let n = 0;
    for s in window {
        if s == stop {
            break;
        }
        n += 1;
    }
    n
}`,
		Model: func(st *state, e env, a []valuni.Val) (valuni.Val, *failure) {
			vals := st.window()
			if i := indexOf(vals, a[0].I); i >= 0 {
				return iv(int64(i)), nil
			}
			return iv(int64(len(vals))), nil
		},
		GenOK: gen(pickBound), Weight: 3})
	add(&fnSpec{Name: "win_odd_sum", Ret: tInt, Reads: w,
		Src: `fn win_odd_sum() -> int {
    let t = 0;
    for s in window {
        if s % 2 == 0 {
            continue;
        }
        t += s;
    }
    t
}`,
		Model: func(st *state, e env, a []valuni.Val) (valuni.Val, *failure) {
			var t int64
			for _, v := range st.window() {
				if v%2 != 0 {
					t += v
				}
			}
			return iv(t), nil
		},
		GenOK: gen()})
	add(&fnSpec{Name: "win_catch_at", Params: []param{p("x", tInt)}, Ret: tInt, Reads: w, Then: winObservers,
		Src: `fn win_catch_at(x: int) -> int {
    let n = 0;
    try {
        for s in window {
            if s == x {
                throw("hit");
            }
            n += 1;
        }
    } catch _e {
        return 0 - n - 1;
    }
    n
}`,
		Model: func(st *state, e env, a []valuni.Val) (valuni.Val, *failure) {
			vals := st.window()
			if i := indexOf(vals, a[0].I); i >= 0 {
				return iv(int64(-i - 1)), nil
			}
			return iv(int64(len(vals))), nil
		},
		GenOK: gen(pickBound), Weight: 3})
	add(&fnSpec{Name: "win_fail_at", Params: []param{p("x", tInt)}, Ret: tInt, Reads: w, Then: winObservers,
		Src: `fn win_fail_at(x: int) -> int {
    let n = 0;
    for s in window {
        if s == x {
            throw("window");
        }
        n += 1;
    }
    n
}`,
		Model: func(st *state, e env, a []valuni.Val) (valuni.Val, *failure) {
			vals := st.window()
			if indexOf(vals, a[0].I) >= 0 {
				return valuni.Val{}, &failure{Kind: "UncaughtThrow", Msg: "window"}
			}
			return iv(int64(len(vals))), nil
		},
		GenOK: func(r *fw.Rng, st *state, e env) []valuni.Val {
			return []valuni.Val{iv(fw.Pick(r, []int64{100, -100, 4711}))}
		},
		GenFail: func(r *fw.Rng, st *state, e env) []valuni.Val {
			vals := st.window()
			if len(vals) == 0 {
				return nil
			}
			return []valuni.Val{iv(fw.Pick(r, vals))}
		}})
	add(&fnSpec{Name: "win_pairs", Ret: tInt, Reads: w,
		Src: `fn win_pairs() -> int {
    let n = 0;
    for a in window {
        for b in window {
            if b == a {
                break;
            }
            n += 1;
        }
    }
    n
}`,
		Model: func(st *state, e env, a []valuni.Val) (valuni.Val, *failure) {
			var n int64
			vals := st.window()
			for _, x := range vals {
				for _, y := range vals {
					if y == x {
						break
					}
					n++
				}
			}
			return iv(n), nil
		},
		GenOK: gen()})
	add(&fnSpec{Name: "win_via_call", Ret: tInt, Reads: w,
		Src: `fn win_via_call() -> int {
    let t = 0;
    for s in window {
        t += win_first_gt(s);
    }
    t
}`,
		Model: func(st *state, e env, a []valuni.Val) (valuni.Val, *failure) {
			var t int64
			vals := st.window()
			for _, s := range vals {
				t += firstGT(vals, s)
			}
			return iv(t), nil
		},
		GenOK: gen()})
	add(&fnSpec{Name: "set_window", Params: []param{p("a", tInt), p("b", tInt)}, Ret: tNull, Writes: w,
		Src: `fn set_window(a: int, b: int) {
    window = a..b;
}`,
		Model: func(st *state, e env, a []valuni.Val) (valuni.Val, *failure) {
			st.winA, st.winB, st.winIncl = a[0].I, a[1].I, false
			return valuni.NullV(), nil
		},
		GenOK: gen(pickBound, pickBound)})
	add(&fnSpec{Name: "set_window_incl", Params: []param{p("a", tInt), p("b", tInt)}, Ret: tNull, Writes: w,
		Src: `fn set_window_incl(a: int, b: int) {
    window = a..=b;
}`,
		Model: func(st *state, e env, a []valuni.Val) (valuni.Val, *failure) {
			st.winA, st.winB, st.winIncl = a[0].I, a[1].I, true
			return valuni.NullV(), nil
		},
		GenOK: gen(pickBound, pickBound), Weight: 1})
	add(&fnSpec{Name: "win_set_start", Params: []param{p("a", tInt)}, Ret: tInt, Reads: w, Writes: w,
		Src: `fn win_set_start(a: int) -> int {
    window.start = a;
    window.end
}`,
		Model: func(st *state, e env, a []valuni.Val) (valuni.Val, *failure) {
			st.winA = a[0].I
			return iv(st.winB), nil
		},
		GenOK: gen(pickBound), Weight: 1})

	// ---- ranges at places (field of an object, element of a list), a local range, a string ----
	add(&fnSpec{Name: "plan_first_gt", Params: []param{p("x", tInt)}, Ret: tInt,
		Src: `fn plan_first_gt(x: int) -> int {
    for v in plan.span {
        if v > x {
            return v;
        }
    }
    -1
}`,
		Model: func(st *state, e env, a []valuni.Val) (valuni.Val, *failure) {
			return iv(firstGT(planSpan, a[0].I)), nil
		},
		GenOK: gen(pickBound), Then: []string{"plan_first_gt"}})
	add(&fnSpec{Name: "spans_count_until", Params: []param{p("i", tInt), p("stop", tInt)}, Ret: tInt,
		Src: `fn spans_count_until(i: int, stop: int) -> int {
    let n = 0;
    for v in spans[i] {
        if v == stop {
            break;
        }
        n += 1;
    }
    n
}`,
		Model: func(st *state, e env, a []valuni.Val) (valuni.Val, *failure) {
			vals := spanRows[a[0].I]
			if i := indexOf(vals, a[1].I); i >= 0 {
				return iv(int64(i)), nil
			}
			return iv(int64(len(vals))), nil
		},
		GenOK: func(r *fw.Rng, st *state, e env) []valuni.Val {
			return []valuni.Val{iv(fw.Pick(r, []int64{0, 1, 2})), iv(fw.Pick(r, []int64{0, 2, 3, 5, 6, 99}))}
		}, Then: []string{"spans_count_until"}})
	add(&fnSpec{Name: "local_twice", Params: []param{p("a", tInt), p("b", tInt), p("k", tInt)}, Ret: valuni.List(tInt),
		Src: `fn local_twice(a: int, b: int, k: int) -> [int] {
    let r = a..b;
    for i in r {
        if i == k {
            break;
        }
    }
    let s = 0;
    for i in r {
        s += i;
    }
    r.start = k;
    let t = 0;
    for i in r {
        t += i;
    }
    [s, t]
}`,
		Model: func(st *state, e env, a []valuni.Val) (valuni.Val, *failure) {
			return valuni.ListV(iv(sumOf(rangeVals(a[0].I, a[1].I, false))), iv(sumOf(rangeVals(a[2].I, a[1].I, false)))), nil
		},
		GenOK: gen(pickBound, pickBound, pickBound)})
	add(&fnSpec{Name: "word_count_until", Params: []param{p("k", tInt)}, Ret: tInt,
		Src: `fn word_count_until(k: int) -> int {
    let n = 0;
    for _c in word {
        if n == k {
            break;
        }
        n += 1;
    }
    n
}`,
		Model: func(st *state, e env, a []valuni.Val) (valuni.Val, *failure) {
			if a[0].I >= 0 && a[0].I < wordLen {
				return a[0], nil
			}
			return iv(wordLen), nil
		},
		GenOK: func(r *fw.Rng, st *state, e env) []valuni.Val {
			return []valuni.Val{iv(fw.Pick(r, []int64{0, 1, 4, 9, 10, 50, -1}))}
		}, Then: []string{"word_count_until"}})
	add(&fnSpec{Name: "items_catch_at", Params: []param{p("x", tInt)}, Ret: tInt, Reads: []string{"items"}, Then: []string{"sum", "first_ge"},
		Src: `fn items_catch_at(x: int) -> int {
    let n = 0;
    try {
        for v in items {
            if v == x {
                throw("hit");
            }
            n += 1;
        }
    } catch _e {
        return 0 - n - 1;
    }
    n
}`,
		Model: func(st *state, e env, a []valuni.Val) (valuni.Val, *failure) {
			if i := indexOf(st.items, a[0].I); i >= 0 {
				return iv(int64(-i - 1)), nil
			}
			return iv(int64(len(st.items))), nil
		},
		GenOK: func(r *fw.Rng, st *state, e env) []valuni.Val {
			if len(st.items) > 0 && r.Chance(2, 3) {
				return []valuni.Val{iv(fw.Pick(r, st.items))}
			}
			return []valuni.Val{pickInt(r)}
		}})
}

// spin is the source of a loop that keeps a thread busy for n iterations.
const spin = `    let i = 0;
    while i < n {
        i += 1;
    }
`

func addRelaySpecs(add func(*fnSpec)) {
	rd, wr := []string{"relay"}, []string{"relay"}
	both := []string{"relay", "relay_b"}
	obs := []string{"relay_get", "relay_both"}

	add(&fnSpec{Name: "relay_get", Only: "relay", Ret: tInt, Reads: rd,
		Src: `fn relay_get() -> int {
    relay
}`,
		Model: func(st *state, e env, a []valuni.Val) (valuni.Val, *failure) { return iv(st.relay), nil },
		GenOK: gen(), Weight: 4})
	add(&fnSpec{Name: "relay_both", Only: "relay", Ret: valuni.List(tInt), Reads: both,
		Src: `fn relay_both() -> [int] {
    [relay, relay_b]
}`,
		Model: func(st *state, e env, a []valuni.Val) (valuni.Val, *failure) {
			return valuni.ListV(iv(st.relay), iv(st.relayB)), nil
		},
		GenOK: gen(), Weight: 3})
	// one thread, no hand-over
	add(&fnSpec{Name: "relay_direct", Only: "relay", Params: []param{p("d", tInt), p("n", tInt)}, Ret: tInt, Reads: rd, Writes: wr, Then: obs, Threads: 1,
		Src: `fn relay_last(d: int, n: int) {
` + spin + `    relay = relay + d;
}

fn relay_direct(d: int, n: int) -> int {
    spawn relay_last(d, n);
    d
}`,
		Model: func(st *state, e env, a []valuni.Val) (valuni.Val, *failure) {
			st.relay += a[0].I
			return a[0], nil
		},
		GenOK: gen(pickSmall, pickSpin), Weight: 3})
	// two-stage hand-over: the invoked function returns at once, its thread starts the thread that does the work
	add(&fnSpec{Name: "relay_start", Only: "relay", Params: []param{p("d", tInt), p("n", tInt)}, Ret: tInt, Reads: rd, Writes: wr, Then: obs, Threads: 2,
		Src: `fn relay_mid(d: int, n: int) {
` + spin + `    spawn relay_last(d, n);
}

fn relay_start(d: int, n: int) -> int {
    spawn relay_mid(d, n);
    d
}`,
		Model: func(st *state, e env, a []valuni.Val) (valuni.Val, *failure) {
			st.relay += a[0].I
			return a[0], nil
		},
		GenOK: gen(pickSmall, pickSpin), Weight: 6})
	// three stages
	add(&fnSpec{Name: "relay_start3", Only: "relay", Params: []param{p("d", tInt), p("n", tInt)}, Ret: tInt, Reads: rd, Writes: wr, Then: obs, Threads: 3,
		Src: `fn relay_first(d: int, n: int) {
` + spin + `    spawn relay_mid(d, n);
}

fn relay_start3(d: int, n: int) -> int {
    spawn relay_first(d, n);
    d + 1
}`,
		Model: func(st *state, e env, a []valuni.Val) (valuni.Val, *failure) {
			st.relay += a[0].I
			return iv(a[0].I + 1), nil
		},
		GenOK: gen(pickSmall, pickSpin), Weight: 3})
	// fan-out of two chains writing different globals
	add(&fnSpec{Name: "relay_fan", Only: "relay", Params: []param{p("d", tInt), p("n", tInt), p("m", tInt)}, Ret: tInt, Reads: both, Writes: both, Then: obs, Threads: 4,
		Src: `fn relay_last_b(d: int, n: int) {
` + spin + `    relay_b = relay_b - d;
}

fn relay_mid_b(d: int, n: int) {
` + spin + `    spawn relay_last_b(d, n);
}

fn relay_fan(d: int, n: int, m: int) -> int {
    spawn relay_mid(d, n);
    spawn relay_mid_b(d, m);
    2
}`,
		Model: func(st *state, e env, a []valuni.Val) (valuni.Val, *failure) {
			st.relay += a[0].I
			st.relayB -= a[0].I
			return iv(2), nil
		},
		GenOK: gen(pickSmall, pickSpin, pickSpin), Weight: 3})
	// the invoked function itself stays busy while the chain runs (it may finish first, in between or last)
	add(&fnSpec{Name: "relay_busy", Only: "relay", Params: []param{p("d", tInt), p("m", tInt), p("n", tInt)}, Ret: tInt, Reads: rd, Writes: wr, Then: obs, Threads: 2,
		Src: `fn relay_busy(d: int, m: int, n: int) -> int {
    spawn relay_mid(d, m);
` + spin + `    i
}`,
		Model: func(st *state, e env, a []valuni.Val) (valuni.Val, *failure) {
			st.relay += a[0].I
			if a[2].I < 0 {
				return iv(0), nil
			}
			return a[2], nil
		},
		GenOK: gen(pickSmall, pickSpin, pickSpin), Weight: 3})
	// the last stage of a hand-over fails: the call fails
	add(&fnSpec{Name: "relay_fail", Only: "relay", Params: []param{p("n", tInt)}, Ret: tInt, Threads: 2,
		Src: `fn relay_last_fail(n: int) {
` + spin + `    throw("relay");
}

fn relay_mid_fail(n: int) {
` + spin + `    spawn relay_last_fail(n);
}

fn relay_fail(n: int) -> int {
    spawn relay_mid_fail(n);
    n
}`,
		Model: func(st *state, e env, a []valuni.Val) (valuni.Val, *failure) {
			return valuni.Val{}, &failure{Kind: "UncaughtThrow", Msg: "relay"}
		},
		GenFail: gen(pickSpin), Weight: 4})
}
