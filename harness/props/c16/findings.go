package c16

import "hv/valuni"

type witness struct {
	name      string
	pl        Payload
	firstFail int
}

var smallLimits = Limits{CallStack: 256, Stack: 120, Memory: 4000}

// pinned returns the minimal witnesses of the findings of this check (FINDINGS.md). They are part
// of every run and carry the tags of their constructs: while a finding is open they are matched
// to it, once it is fixed they must pass.
func pinned() []witness {
	zero := Variant{Order: 1, Init: "zero"}
	spawn := Variant{Order: 1, Init: "zero", Spawn: true}
	leaky := Variant{Order: 1, Init: "zero", Leaky: true}
	return []witness{
		// KF-vm-wait-leaks-rlock: one failed call leaves Cores.Lock read-locked; the second call is never attempted
		{name: "rlock-after-throw", firstFail: 0, pl: Payload{Variant: zero, Limits: smallLimits, Ops: []Op{
			{Fn: "fail_if", Args: []valuni.Val{iv(-1)}}, {Fn: "get"}}}},
		{name: "rlock-after-fatal-live-context", firstFail: 1, pl: Payload{Variant: zero, Limits: smallLimits, NoCancel: true, Ops: []Op{
			{Fn: "incr"}, {Fn: "div", Args: []valuni.Val{iv(1), iv(0)}}, {Fn: "incr"}, {Fn: "fail", Args: []valuni.Val{sv("x")}}, {Fn: "get"}}}},
		// KF-vm-anyobj-return-dropped
		{name: "anyobj-return", firstFail: -1, pl: Payload{Variant: zero, Limits: smallLimits, Ops: []Op{{Fn: "as_any"}}}},
		// KF-vm-failed-call-orphans-cores
		{name: "spawn-then-throw", firstFail: 0, pl: Payload{Variant: spawn, Limits: smallLimits, Ops: []Op{{Fn: "fanout_fail"}}}},
		// KF-vm-expr-exit-leak seen through a host call
		{name: "return-from-operand", firstFail: -1, pl: Payload{Variant: leaky, Limits: smallLimits, Ops: []Op{
			{Fn: "leaky", Args: []valuni.Val{iv(5)}}}}},
	}
}
