package c16

import (
	"encoding/json"
	"fmt"
	"os"
	"testing"
	"time"

	"hv/fw"
)

func TestDump(t *testing.T) {
	os.WriteFile("/var/tmp/c16/t/v0.hms", []byte(Variant{Order: 1, Init: "zero"}.Source()), 0o644)
	os.WriteFile("/var/tmp/c16/t/v1.hms", []byte(Variant{Order: 2, Init: "rich", Trigger: true, Spawn: true, Leaky: true}.Source()), 0o644)
}

func TestTiming(t *testing.T) {
	r := fw.NewRng(5)
	for k := 0; k < 4; k++ {
		pl, _ := genHistory(r, genOpts{variant: Variant{Order: 3, Init: "zero"}, limits: limitSets[k], n: 40, failAt: -1, avoid: map[string]bool{tagRetAnyObj: true}})
		t0 := time.Now()
		h := runHistory(pl)
		fmt.Println(limitSets[k], len(pl.Ops), h.calls, time.Since(t0), h.viol, h.inconcl, h.obs)
	}
}

func TestKFLines(t *testing.T) {
	type kf struct{ status, name, pin, what, sig, tag string }
	kfs := []kf{
		{"fixed", "0385937", "rlock-after-throw", "after a failed call (uncaught throw or fatal error) VM.Wait returned still holding Cores.Lock.RLock: the next SpawnSync/SpawnAsync on the same VM blocked forever in spawnCore", "", ""},
		{"fixed", "0385937", "rlock-after-fatal-live-context", "calls after a failed call (host cancel function is a no-op, so they really execute) blocked forever on the leaked read lock; they must answer with the model's values / failures", "", ""},
		{"fixed", "e4c50db", "spawn-then-throw", "when a call failed while threads it had spawned were still running, each of them blocked forever in its final send on the unbuffered SignalHandle (one leaked goroutine per thread)", "", ""},
		{"open", kfAnyObj, "anyobj-return", "HandleTermination skips return values of declared type { ? }: the host receives nil instead of the any-object the function returned", `^(after-failure:)?ret:nil:anyobj:`, tagRetAnyObj},
		{"open", kfExpr, "return-from-operand", "a host call of a function that returns out of an operand position (1000 + { return x; }) completes with the abandoned operand left below the return value on the core's operand stack", `^residue:stack:leaky$`, tagExprExit},
	}
	f, _ := os.Create("/var/tmp/c16/kf_lines.txt")
	defer f.Close()
	for _, k := range kfs {
		for _, w := range pinned() {
			if w.name != k.pin {
				continue
			}
			c := fw.MkCase("", "pinned", w.pl, tagsOf(w.pl, w.firstFail)...)
			wj, _ := json.Marshal(map[string]any{"kind": c.Kind, "payload": c.Payload, "tags": c.Tags})
			if k.status == "fixed" {
				fmt.Fprintf(f, "fixed: property=C16 %s %s :: {\"witness\":%s}\n", k.name, k.what, wj)
				continue
			}
			sj, _ := json.Marshal(k.sig)
			fmt.Fprintf(f, "open: property=C16 %s %s :: {\"witness\":%s,\"sig\":%s,\"tag\":%q}\n", k.name, k.what, wj, sj, k.tag)
		}
	}
}

func TestSeeds(t *testing.T) {
	for _, s := range []uint64{1, 2, 3} {
		cs := c16{}.Cases("quick", s)
		tot := 0
		for _, c := range cs {
			var pl Payload
			fw.Decode(c, &pl)
			tot += len(pl.Ops)
		}
		fmt.Println(s, len(cs), tot, string(cs[0].Payload)[:200])
	}
}
