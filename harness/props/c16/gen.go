package c16

import (
	"strings"

	"hv/fw"
	"hv/valuni"
)

// Tags of constructs which open findings make unusable in the main workload.
const (
	tagAfterFailure = "after-failure"          // the history observes the VM after a failed call
	tagRetAnyObj    = "ret-anyobj"             // a function with declared return type { ? } is called
	tagSpawnFail    = "spawn-then-fail"        // a call spawns threads and then fails
	tagExprExit     = "exit-from-expr-context" // a function returns out of an operand position
)

// Names of the findings (see FINDINGS.md).
const (
	kfLock   = "KF-vm-wait-leaks-rlock"
	kfAnyObj = "KF-vm-anyobj-return-dropped"
	kfOrphan = "KF-vm-failed-call-orphans-cores"
	kfExpr   = "KF-vm-expr-exit-leak"
)

var limitSets = []Limits{
	{CallStack: 2048, Stack: 500, Memory: 100000},
	{CallStack: 256, Stack: 120, Memory: 4000},
	{CallStack: 256, Stack: 120, Memory: 4000},
	{CallStack: 64, Stack: 60, Memory: 1000},
}

type genOpts struct {
	variant Variant
	limits  Limits
	n       int // number of invocations (upper bound when stopAtFailure)
	// failNum/failDen: chance per invocation of choosing a failing call
	failNum, failDen int
	stopAtFailure    bool
	// failAt >= 0: the invocation with this index is a failing one (overrides the chance)
	failAt   int
	avoid    map[string]bool // spec tags that must not occur
	favour   string          // function chosen with probability 1/3 (several: separated by commas, one is drawn per invocation)
	noCancel bool
	// restartAt: positions (numbers of operations emitted so far, ascending) at which the host replaces the VM by
	// a new one built from the same compile output; a VM that has failed and has been probed is replaced at once
	// while positions are left
	restartAt []int
}

// Probes of a VM that has failed: calls that need only a handful of instructions (less than one
// scheduling cycle of a core) and calls that need thousands.
var (
	shortProbes = []Op{{Fn: "get"}, {Fn: "nothing"}, {Fn: "toggle"}, {Fn: "incr"}, {Fn: "name_len"}, {Fn: "sub", Args: []valuni.Val{iv(7), iv(2)}}}
	longProbes  = []Op{{Fn: "while_ret", Args: []valuni.Val{iv(5000)}}, {Fn: "loop_ret", Args: []valuni.Val{iv(300)}}, {Fn: "sum_try_mid", Args: []valuni.Val{iv(30)}}}
)

func weightOf(s *fnSpec) int {
	if s.Weight > 0 {
		return s.Weight
	}
	return 2
}

func pickSpec(r *fw.Rng, cands []*fnSpec) *fnSpec {
	total := 0
	for _, s := range cands {
		total += weightOf(s)
	}
	k := r.Intn(total)
	for _, s := range cands {
		k -= weightOf(s)
		if k < 0 {
			return s
		}
	}
	return cands[len(cands)-1]
}

// genHistory draws a history; the model runs alongside so that arguments can depend on the state
// (indices inside / outside the list, depths relative to the limits) and so that the generator
// knows where the first failure is. Returns the payload and the index of the first failing call (-1).
func genHistory(r *fw.Rng, o genOpts) (Payload, int) {
	pl := Payload{Variant: o.variant, Limits: o.limits, NoCancel: o.noCancel}
	st := newState(o.variant.Init)
	e := env{callStackMax: int64(o.limits.CallStack)}
	var okSpecs, failSpecs []*fnSpec
	for _, s := range o.variant.enabled() {
		if s.Tag != "" && o.avoid[s.Tag] {
			continue
		}
		if s.GenOK != nil {
			okSpecs = append(okSpecs, s)
		}
		if s.GenFail != nil {
			failSpecs = append(failSpecs, s)
		}
	}
	firstFail := -1 // first failing call of the history
	curFail := -1   // first failing call on the current VM
	emit := func(s *fnSpec, args []valuni.Val) bool {
		op := Op{Fn: s.Name, Args: args, Async: r.Chance(1, 10)}
		pl.Ops = append(pl.Ops, op)
		_, f := s.Model(st, e, args)
		if f != nil && firstFail < 0 {
			firstFail = len(pl.Ops) - 1
		}
		if f != nil && curFail < 0 {
			curFail = len(pl.Ops) - 1
		}
		return f != nil
	}
	nextRestart := 0
	restart := func() {
		pl.Ops = append(pl.Ops, Op{Fn: opNewVM})
		st = newState(o.variant.Init)
		curFail = -1
		nextRestart++
	}
	// the real usage pattern: annotation argument functions first, then main
	if o.variant.Trigger {
		emit(specByName[annotFn], none())
		if r.Bool() {
			emit(specByName["main"], none())
		}
	}
	favours := []string{}
	if o.favour != "" {
		favours = strings.Split(o.favour, ",")
	}
	for len(pl.Ops) < o.n {
		if nextRestart < len(o.restartAt) && len(pl.Ops) >= o.restartAt[nextRestart] {
			restart()
		}
		// a VM that has cancelled its context: one arbitrary call (below), one short and one long probe
		if curFail >= 0 && !o.noCancel && len(pl.Ops) >= curFail+2 {
			probes := []Op{fw.Pick(r, shortProbes), fw.Pick(r, longProbes)}
			if r.Bool() {
				probes[0], probes[1] = probes[1], probes[0]
			}
			for _, pr := range probes {
				emit(specByName[pr.Fn], pr.Args)
			}
			if nextRestart < len(o.restartAt) {
				restart()
				continue
			}
			break
		}
		favour := ""
		if len(favours) > 0 {
			favour = fw.Pick(r, favours)
		}
		wantFail := o.failAt == len(pl.Ops) || (o.failAt < 0 && o.failDen > 0 && r.Chance(o.failNum, o.failDen))
		var s *fnSpec
		var args []valuni.Val
		for try := 0; try < 20 && args == nil; try++ {
			if wantFail && len(failSpecs) > 0 {
				s = pickSpec(r, failSpecs)
				if favour != "" && specByName[favour].GenFail != nil && r.Chance(1, 2) {
					s = specByName[favour]
				}
				args = s.GenFail(r, st, e)
			} else {
				s = pickSpec(r, okSpecs)
				if favour != "" && specByName[favour].GenOK != nil && r.Chance(1, 3) {
					s = specByName[favour]
				}
				args = s.GenOK(r, st, e)
			}
		}
		if args == nil {
			s, args = specByName["get"], none()
		}
		failed := emit(s, args)
		if failed && o.stopAtFailure {
			break
		}
		// what the call may have left behind is looked at right away: by one of its observers or by the same function again
		if (curFail < 0 || o.noCancel) && len(s.Then) > 0 && r.Chance(2, 3) {
			t := s
			if k := r.Intn(len(s.Then) + 1); k < len(s.Then) {
				t = specByName[s.Then[k]]
			}
			if t.GenOK != nil && o.variant.has(t.Only) && !(t.Tag != "" && o.avoid[t.Tag]) {
				if targs := t.GenOK(r, st, e); targs != nil {
					emit(t, targs)
				}
			}
		}
	}
	return pl, firstFail
}

// tagsOf computes the construct tags of a history.
func tagsOf(pl Payload, firstFail int) []string {
	var tags []string
	seen := map[string]bool{}
	add := func(t string) {
		if t != "" && !seen[t] {
			seen[t] = true
			tags = append(tags, t)
		}
	}
	for _, op := range pl.Ops {
		if s := specByName[op.Fn]; s != nil {
			add(s.Tag)
		}
	}
	if firstFail >= 0 && !pl.SkipLockAfterFailure {
		add(tagAfterFailure)
	}
	return tags
}
