package c16

import (
	"strings"

	"hv/fw"
	"hv/valuni"
)

// ---------------------------------------------------------------------------------------------
// Third part of the service (variant "exits"): functions that are LEFT FROM AN OPERAND POSITION.
//
// While an expression is evaluated, the operands that were computed first wait on the operand
// stack of the core (the left operand of `+`, the earlier arguments of a call, the list under
// construction, the storage location - and for `+=` also the current value - of an assignment
// target ...). A `return`, `break`, `continue` or `throw` inside the operand that is evaluated
// next abandons the expression: nothing of it may stay behind ("a completed call leaves nothing
// behind - operand-stack entries ..."), neither for the host (residue of the finished core), nor
// for the function's caller (a stale entry is taken for an operand), nor inside a loop (one entry
// per iteration until the stack limit fails the call - and every later call of the history).
//
// The family is the product  operand position  x  way of leaving  x  syntax of the leaving operand:
//   positions: see exitPositions (every place where the compiler evaluates an operand while others wait)
//   ways:      xr_ return; xw_/xf_/xl_ continue and break of a while / for / loop loop; xc_ throw caught
//              in the same function; xv_ the returning function called in operand position itself
//   syntax:    block { if c { return x; } 2 } / if-else expression / match expression
// Every function is modelled by the same three Go closures of its position (init, step, result).
// ---------------------------------------------------------------------------------------------

// xst is the model state of one activation of a function of the family.
type xst struct {
	s    int64   // the local `s`
	a, b int64   // two further scalars (fields, globals)
	l    []int64 // a list
}

// xpos is one operand position.
type xpos struct {
	name string
	// pre: declarations (after `let s = 0;`); stmt: the statement that holds the operand, @H is the
	// operand which is left; res: statements and the final expression (an int) of the function.
	pre, stmt, res string
	init           func() *xst
	step           func(x *xst, h int64) // effect of stmt when the operand completes with value h
	result         func(x *xst) int64
	// thrown (optional): the statement itself catches what its operand throws; effect of stmt then
	thrown func(x *xst)
}

// exitHelpers are called by the statements of some positions.
const exitHelpers = `fn add3(a: int, b: int, c: int) -> int {
    a + b * 10 - c
}

fn apply1(f: fn(v: int) -> int, v: int) -> int {
    f(v)
}`

// exitGlobals: targets of assignments to global places (re-initialised by the functions that use them).
const exitGlobals = "let xg = 0;\nlet xo = new { n: 0, l: [0, 0] };\n"

func add3(a, b, c int64) int64 { return a + b*10 - c }

var nineList = []int64{3, 1, 4, 1, 5, 9, 2, 6, 5}

const nineSrc = "let l = [3, 1, 4, 1, 5, 9, 2, 6, 5];"

func weighted(l []int64) int64 {
	var t int64
	for k, v := range l {
		t += v * int64(k+1)
	}
	return t
}

var exitPositions = []xpos{
	// ---- no operand waits (the base line: statement level, initialiser, condition) ----
	{name: "let", stmt: "let t = @H;\ns += t;", res: "s",
		init: func() *xst { return &xst{} }, step: func(x *xst, h int64) { x.s += h }, result: func(x *xst) int64 { return x.s }},
	// ---- infix operators: 1 and 3 operands wait; a comparison in a condition ----
	{name: "infix", stmt: "s = s + 100 * @H;", res: "s",
		init: func() *xst { return &xst{} }, step: func(x *xst, h int64) { x.s += 100 * h }, result: func(x *xst) int64 { return x.s }},
	{name: "infix3", stmt: "s = (s + 1) - (2 * (3 + @H));", res: "s",
		init: func() *xst { return &xst{} }, step: func(x *xst, h int64) { x.s = (x.s + 1) - (2 * (3 + h)) }, result: func(x *xst) int64 { return x.s }},
	{name: "cmp", stmt: "if 4 < @H {\n    s += 1;\n}", res: "s",
		init: func() *xst { return &xst{} }, step: func(x *xst, h int64) {
			if 4 < h {
				x.s++
			}
		}, result: func(x *xst) int64 { return x.s }},
	// ---- compound assignment to variables: the current value waits ----
	{name: "cvar", stmt: "s += @H;", res: "s",
		init: func() *xst { return &xst{} }, step: func(x *xst, h int64) { x.s += h }, result: func(x *xst) int64 { return x.s }},
	{name: "cglob", pre: "xg = 3;", stmt: "xg -= @H;", res: "xg",
		init: func() *xst { return &xst{a: 3} }, step: func(x *xst, h int64) { x.a -= h }, result: func(x *xst) int64 { return x.a }},
	// ---- assignment to places: the storage location waits; compound: location and current value ----
	{name: "field", pre: "let o = new { n: 1, m: 5 };", stmt: "o.n = @H;", res: "o.n * 10 + o.m",
		init: func() *xst { return &xst{a: 1, b: 5} }, step: func(x *xst, h int64) { x.a = h }, result: func(x *xst) int64 { return x.a*10 + x.b }},
	{name: "cfield", pre: "let o = new { n: 1, m: 5 };", stmt: "o.n += @H;", res: "o.n * 10 + o.m",
		init: func() *xst { return &xst{a: 1, b: 5} }, step: func(x *xst, h int64) { x.a += h }, result: func(x *xst) int64 { return x.a*10 + x.b }},
	{name: "cfield_sub", pre: "let o = new { n: 1, m: 5 };", stmt: "o.m -= @H;", res: "o.n * 10 + o.m",
		init: func() *xst { return &xst{a: 1, b: 5} }, step: func(x *xst, h int64) { x.b -= h }, result: func(x *xst) int64 { return x.a*10 + x.b }},
	{name: "elem", pre: "let l = [3, 1, 4];", stmt: "l[1] = @H;", res: "l[0] * 100 + l[1] * 10 + l[2]",
		init: func() *xst { return &xst{l: []int64{3, 1, 4}} }, step: func(x *xst, h int64) { x.l[1] = h }, result: func(x *xst) int64 { return x.l[0]*100 + x.l[1]*10 + x.l[2] }},
	{name: "celem", pre: "let l = [3, 1, 4];", stmt: "l[2] += @H;", res: "l[0] * 100 + l[1] * 10 + l[2]",
		init: func() *xst { return &xst{l: []int64{3, 1, 4}} }, step: func(x *xst, h int64) { x.l[2] += h }, result: func(x *xst) int64 { return x.l[0]*100 + x.l[1]*10 + x.l[2] }},
	{name: "cnested", pre: "let o = new { n: 1, l: [0, 7] };", stmt: "o.l[1] += @H;", res: "o.n * 1000 + o.l[0] * 100 + o.l[1]",
		init: func() *xst { return &xst{a: 1, l: []int64{0, 7}} }, step: func(x *xst, h int64) { x.l[1] += h }, result: func(x *xst) int64 { return x.a*1000 + x.l[0]*100 + x.l[1] }},
	{name: "globfield", pre: "xo.n = 2;", stmt: "xo.n = @H;", res: "xo.n",
		init: func() *xst { return &xst{a: 2} }, step: func(x *xst, h int64) { x.a = h }, result: func(x *xst) int64 { return x.a }},
	{name: "cglobfield", pre: "xo.n = 2;", stmt: "xo.n += @H;", res: "xo.n",
		init: func() *xst { return &xst{a: 2} }, step: func(x *xst, h int64) { x.a += h }, result: func(x *xst) int64 { return x.a }},
	{name: "cglobelem", pre: "xo.l[1] = 4;", stmt: "xo.l[1] -= @H;", res: "xo.l[1]",
		init: func() *xst { return &xst{a: 4} }, step: func(x *xst, h int64) { x.a -= h }, result: func(x *xst) int64 { return x.a }},
	// ---- index operands: the indexed value waits (below it what the enclosing expression has pending) ----
	{name: "index", pre: nineSrc, stmt: "s += l[@H % 9];", res: "s",
		init: func() *xst { return &xst{} }, step: func(x *xst, h int64) { x.s += nineList[h%9] }, result: func(x *xst) int64 { return x.s }},
	{name: "index_place", pre: nineSrc, stmt: "l[@H % 9] += 10;", res: "let t = 0;\nfor k in 0..9 {\n    t += l[k] * (k + 1);\n}\nt",
		init: func() *xst { return &xst{l: append([]int64{}, nineList...)} }, step: func(x *xst, h int64) { x.l[h%9] += 10 }, result: func(x *xst) int64 { return weighted(x.l) }},
	{name: "index_both", pre: nineSrc, stmt: "l[0] += l[@H % 9];", res: "l[0]",
		init: func() *xst { return &xst{l: append([]int64{}, nineList...)} }, step: func(x *xst, h int64) { x.l[0] += x.l[h%9] }, result: func(x *xst) int64 { return x.l[0] }},
	// ---- call arguments: the earlier arguments (and a called value) wait ----
	{name: "arg_mid", stmt: "s = add3(s, @H, 5);", res: "s",
		init: func() *xst { return &xst{} }, step: func(x *xst, h int64) { x.s = add3(x.s, h, 5) }, result: func(x *xst) int64 { return x.s }},
	{name: "arg_last", stmt: "s = add3(s, 1, @H);", res: "s",
		init: func() *xst { return &xst{} }, step: func(x *xst, h int64) { x.s = add3(x.s, 1, h) }, result: func(x *xst) int64 { return x.s }},
	{name: "arg_first", stmt: "s = s + add3(@H, 1, 2);", res: "s",
		init: func() *xst { return &xst{} }, step: func(x *xst, h int64) { x.s += add3(h, 1, 2) }, result: func(x *xst) int64 { return x.s }},
	{name: "arg_nested", stmt: "s = add3(s, add3(1, @H, 2), 3);", res: "s",
		init: func() *xst { return &xst{} }, step: func(x *xst, h int64) { x.s = add3(x.s, add3(1, h, 2), 3) }, result: func(x *xst) int64 { return x.s }},
	{name: "arg_value", pre: "let f = fn(a: int, b: int) -> int { a - b * 2 };", stmt: "s = f(s, @H);", res: "s",
		init: func() *xst { return &xst{} }, step: func(x *xst, h int64) { x.s -= h * 2 }, result: func(x *xst) int64 { return x.s }},
	{name: "arg_method", pre: "let acc: [int] = [];", stmt: "acc.push(@H);", res: "let t = 0;\nfor v in acc {\n    t = (t * 3 + v) % 1000003;\n}\nt * 10000 + acc.len()",
		init: func() *xst { return &xst{} }, step: func(x *xst, h int64) { x.l = append(x.l, h) }, result: func(x *xst) int64 {
			var t int64
			for _, v := range x.l {
				t = (t*3 + v) % 1000003
			}
			return t*10000 + int64(len(x.l))
		}},
	{name: "arg_lambda", stmt: "s = s + apply1(fn(v: int) -> int {\n    if v > 3 {\n        return 7;\n    }\n    v\n}, @H);", res: "s",
		init: func() *xst { return &xst{} }, step: func(x *xst, h int64) {
			if h > 3 {
				h = 7
			}
			x.s += h
		}, result: func(x *xst) int64 { return x.s }},
	// ---- literals under construction ----
	{name: "list_lit", stmt: "let t = [s, @H, 7];\ns = t[0] + t[1] * 2 + t[2];", res: "s",
		init: func() *xst { return &xst{} }, step: func(x *xst, h int64) { x.s += h*2 + 7 }, result: func(x *xst) int64 { return x.s }},
	{name: "obj_lit", stmt: "let t = new { a: s, b: @H, c: 1 };\ns = t.a + t.b * 2 + t.c;", res: "s",
		init: func() *xst { return &xst{} }, step: func(x *xst, h int64) { x.s += h*2 + 1 }, result: func(x *xst) int64 { return x.s }},
	{name: "range_end", stmt: "let rg = s..@H;\ns = rg.start + rg.end * 2 + 1;", res: "s",
		init: func() *xst { return &xst{} }, step: func(x *xst, h int64) { x.s += h*2 + 1 }, result: func(x *xst) int64 { return x.s }},
	// ---- an operand that is itself a compound expression: condition / control value / try / loop inside ----
	{name: "if_cond", stmt: "s = s + 10 * (if @H > 4 { 1 } else { 2 });", res: "s",
		init: func() *xst { return &xst{} }, step: func(x *xst, h int64) {
			if h > 4 {
				x.s += 10
			} else {
				x.s += 20
			}
		}, result: func(x *xst) int64 { return x.s }},
	{name: "match_ctl", stmt: "s = s + 10 * (match @H {\n    2 => 5,\n    _ => 1,\n});", res: "s",
		init: func() *xst { return &xst{} }, step: func(x *xst, h int64) {
			if h == 2 {
				x.s += 50
			} else {
				x.s += 10
			}
		}, result: func(x *xst) int64 { return x.s }},
	{name: "in_try", stmt: "s = s + 10 * try {\n    1 + @H\n} catch _e {\n    0\n};", res: "s",
		init: func() *xst { return &xst{} }, step: func(x *xst, h int64) { x.s += 10 * (1 + h) }, result: func(x *xst) int64 { return x.s },
		thrown: func(x *xst) { x.s += 10 * 0 }},
	{name: "inner_loop", stmt: "s = s + 10 * {\n    let k = 0;\n    while k < 5 {\n        k += 1;\n        if k == 2 {\n            continue;\n        }\n        if k > 3 {\n            break;\n        }\n    }\n    k + @H\n};", res: "s",
		init: func() *xst { return &xst{} }, step: func(x *xst, h int64) { x.s += 10 * (4 + h) }, result: func(x *xst) int64 { return x.s }},
}

// The operand that is left, in three syntaxes (chosen by position and form).
func holeReturn(k int) string {
	switch k % 3 {
	case 0:
		return "{\n    if x > 0 {\n        return x;\n    }\n    2\n}"
	case 1:
		return "(if x > 0 { return x; } else { 2 })"
	}
	return "(match x > 0 {\n    true => { return x; },\n    _ => 2,\n})"
}

func holeLoop(k int) string {
	switch k % 3 {
	case 0:
		return "{\n    if i % 3 == 0 {\n        continue;\n    }\n    if i > stop {\n        break;\n    }\n    i\n}"
	case 1:
		return "(if i % 3 == 0 { continue; } else if i > stop { break; } else { i })"
	}
	return "(match i % 3 {\n    0 => { continue; },\n    _ => if i > stop { break; } else { i },\n})"
}

func holeThrow(k int) string {
	if k%2 == 0 {
		return "{\n    if i % 3 == 0 {\n        throw(\"x\");\n    }\n    i\n}"
	}
	return "(if i % 3 == 0 { throw(\"x\") } else { i })"
}

func indent(s string, n int) string {
	pad := strings.Repeat(" ", n)
	lines := strings.Split(s, "\n")
	for i, l := range lines {
		if l != "" {
			lines[i] = pad + l
		}
	}
	return strings.Join(lines, "\n")
}

func withHole(stmt, hole string) string {
	// continuation lines of the hole keep the indentation of the line that holds @H
	lines := strings.Split(stmt, "\n")
	for i, l := range lines {
		if strings.Contains(l, "@H") {
			pad := l[:len(l)-len(strings.TrimLeft(l, " "))]
			h := strings.ReplaceAll(hole, "\n", "\n"+pad)
			lines[i] = strings.Replace(l, "@H", h, 1)
		}
	}
	return strings.Join(lines, "\n")
}

func exitSrc(head, pre, body, res string) string {
	var sb strings.Builder
	sb.WriteString(head + " {\n    let s = 0;\n")
	if pre != "" {
		sb.WriteString(indent(pre, 4) + "\n")
	}
	sb.WriteString(body)
	sb.WriteString(indent(res, 4) + "\n}")
	return sb.String()
}

const caughtFactor = 100000000

var (
	exitRetPool   = []int64{5, 1, maxI, 0, -3, 2}
	exitNPool     = []int64{0, 2, 3, 7, 12, 12, 60, 60, 400, 2000}
	exitStopPool  = []int64{7, 7, 1, 50, 5000}
	exitCatchPool = []int64{0, 2, 3, 7, 12, 60}
)

// loopModel: `i` runs from 1 to n; a multiple of 3 continues, the first other i above stop breaks.
func loopModel(ps xpos, n, stop int64) int64 {
	x := ps.init()
	for i := int64(1); i <= n; i++ {
		if i%3 == 0 {
			continue
		}
		if i > stop {
			break
		}
		ps.step(x, i)
	}
	return ps.result(x)
}

func retModel(ps xpos, v int64) int64 {
	if v > 0 {
		return v
	}
	x := ps.init()
	ps.step(x, 2)
	return ps.result(x)
}

// exitFns: the names of the family (the generator favours them in histories of the variant).
var exitFns []string

func addExitSpecs(add func(*fnSpec)) {
	add(&fnSpec{Name: "add3", Only: "exits", Params: []param{p("a", tInt), p("b", tInt), p("c", tInt)}, Ret: tInt, Src: exitHelpers,
		Model: func(st *state, e env, a []valuni.Val) (valuni.Val, *failure) {
			return iv(add3(a[0].I, a[1].I, a[2].I)), nil
		},
		GenOK: gen(pickSmall, pickSmall, pickSmall), Weight: 1})
	for k, ps := range exitPositions {
		ps := ps
		k := k
		one := func(prefix, head, body string, params []param, model func(a []valuni.Val) int64, genOK func(r *fw.Rng, st *state, e env) []valuni.Val, pre, res string, then ...string) {
			name := prefix + ps.name
			exitFns = append(exitFns, name)
			add(&fnSpec{Name: name, Only: "exits", Tag: tagExprExit, Params: params, Ret: tInt,
				Src:   exitSrc(strings.Replace(head, "@N", name, 1), pre, body, res),
				Model: func(st *state, e env, a []valuni.Val) (valuni.Val, *failure) { return iv(model(a)), nil },
				GenOK: genOK, Then: then})
		}
		px := []param{p("x", tInt)}
		pns := []param{p("n", tInt), p("stop", tInt)}
		genX := func(r *fw.Rng, st *state, e env) []valuni.Val { return []valuni.Val{iv(fw.Pick(r, exitRetPool))} }
		genNS := func(r *fw.Rng, st *state, e env) []valuni.Val {
			return []valuni.Val{iv(fw.Pick(r, exitNPool)), iv(fw.Pick(r, exitStopPool))}
		}
		loopM := func(a []valuni.Val) int64 { return loopModel(ps, a[0].I, a[1].I) }

		// return
		one("xr_", "fn @N(x: int) -> int", indent(withHole(ps.stmt, holeReturn(k)), 4)+"\n", px,
			func(a []valuni.Val) int64 { return retModel(ps, a[0].I) }, genX, ps.pre, ps.res, "xv_"+ps.name)
		// continue / break of the three loop kinds
		one("xw_", "fn @N(n: int, stop: int) -> int",
			"    let i = 0;\n    while i < n {\n        i += 1;\n"+indent(withHole(ps.stmt, holeLoop(k+1)), 8)+"\n    }\n", pns, loopM, genNS, ps.pre, ps.res, "xr_"+ps.name)
		one("xf_", "fn @N(n: int, stop: int) -> int",
			"    for i in 1..(n + 1) {\n"+indent(withHole(ps.stmt, holeLoop(k+2)), 8)+"\n    }\n", pns, loopM, genNS, ps.pre, ps.res, "xr_"+ps.name)
		one("xl_", "fn @N(n: int, stop: int) -> int",
			"    let i = 0;\n    loop {\n        i += 1;\n        if i > n {\n            break;\n        }\n"+indent(withHole(ps.stmt, holeLoop(k)), 8)+"\n    }\n", pns, loopM, genNS, ps.pre, ps.res, "xr_"+ps.name)
		// throw, caught in the same activation by a handler around the statement
		one("xc_", "fn @N(n: int) -> int",
			"    let i = 0;\n    while i < n {\n        i += 1;\n        try {\n"+indent(withHole(ps.stmt, holeThrow(k)), 12)+"\n        } catch _e {\n            caught += 1;\n        }\n    }\n",
			[]param{p("n", tInt)},
			func(a []valuni.Val) int64 {
				x := ps.init()
				var caught int64
				for i := int64(1); i <= a[0].I; i++ {
					if i%3 == 0 && ps.thrown != nil {
						ps.thrown(x)
					} else if i%3 == 0 {
						caught++
					} else {
						ps.step(x, i)
					}
				}
				return ps.result(x) + caught*caughtFactor
			},
			func(r *fw.Rng, st *state, e env) []valuni.Val { return []valuni.Val{iv(fw.Pick(r, exitCatchPool))} },
			strings.TrimPrefix(ps.pre+"\nlet caught = 0;", "\n"), "let base = {\n"+indent(ps.res, 4)+"\n};\nbase + caught * 100000000", "xr_"+ps.name)
		// the returning function is itself called in operand position (1000 waits below its frame)
		name := "xv_" + ps.name
		exitFns = append(exitFns, name)
		add(&fnSpec{Name: name, Only: "exits", Tag: tagExprExit, Params: px, Ret: tInt,
			Src: "fn " + name + "(x: int) -> int {\n    sub(1000, xr_" + ps.name + "(x)) + 1\n}",
			Model: func(st *state, e env, a []valuni.Val) (valuni.Val, *failure) {
				return iv(1000 - retModel(ps, a[0].I) + 1), nil
			},
			GenOK: genX, Weight: 1})
	}
}

// exitSweeps: one history per operand position that calls every function of the position with every
// argument of the pools (so every member of the family is exercised whatever the seed draws).
func exitSweeps() []Payload {
	var out []Payload
	for k, ps := range exitPositions {
		pl := Payload{Variant: Variant{Order: uint64(k + 1), Init: []string{"zero", "rich"}[k%2], Exits: true}, Limits: limitSets[k%len(limitSets)]}
		call := func(fn string, args ...int64) {
			op := Op{Fn: fn, Async: (len(pl.Ops)+k)%7 == 0}
			for _, a := range args {
				op.Args = append(op.Args, iv(a))
			}
			pl.Ops = append(pl.Ops, op)
		}
		for _, x := range exitRetPool {
			call("xr_"+ps.name, x)
			call("xv_"+ps.name, x)
		}
		for _, pre := range []string{"xw_", "xf_", "xl_"} {
			for _, ns := range [][2]int64{{0, 7}, {2, 7}, {3, 1}, {7, 7}, {12, 7}, {12, 1}, {60, 50}, {400, 5000}, {2000, 5000}, {12, 7}} {
				call(pre+ps.name, ns[0], ns[1])
			}
		}
		for _, n := range exitCatchPool {
			call("xc_"+ps.name, n)
		}
		call("get")
		out = append(out, pl)
	}
	return out
}
