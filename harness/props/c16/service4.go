package c16

import (
	"sort"
	"strconv"
	"strings"

	"hv/fw"
	"hv/valuni"
)

// ---------------------------------------------------------------------------------------------
// Fifth part of the service, variant "fresh": VALUES THAT BELONG TO ONE CALL.
//
// Two kinds of composite values exist only for the duration of one host invocation:
//
//   - the value of a LITERAL the function evaluates (a list, an object, an any-object new { ? }, an
//     option around a list, nested ones, a literal evaluated once per loop iteration): every
//     evaluation yields a new value. The functions lit_* build one, change it IN PLACE (push, element
//     and field assignment, set) and return what they see. Whatever a call did to "its" literal must be
//     gone when the same literal is evaluated again - by the next call on the same VM, by the next
//     iteration, by a new VM built from the same compile output.
//   - the ARGUMENTS the host passes: the call receives them (bare T for a ?T parameter, Some(T), none,
//     nested options), may change its own parameters in place (arg_*: list / nested list / object /
//     option-of-list / option-of-object / list of options) and returns what it made of them. The
//     host's values are the host's: a host that keeps a payload and passes the very same value again
//     (Payload.Reuse) must get the same answer as for an equal new value, i.e. a completed call leaves
//     nothing behind in the values it was given.
//
// The model is the plain reading of the source text (a literal is a new value; a parameter is a copy
// of what the boundary admitted: valuni.Convert).
// ---------------------------------------------------------------------------------------------

var (
	tIntList  = valuni.List(tInt)
	tGrid     = valuni.List(valuni.List(tInt))
	tBox      = valuni.Obj(valuni.F("n", tInt), valuni.F("xs", valuni.List(tInt)))
	tOptList  = valuni.Opt(valuni.List(tInt))
	tOptBox   = valuni.Opt(tBox)
	tOptElems = valuni.Opt(valuni.List(valuni.Opt(tInt)))
)

func boxVal(n int64, xs ...int64) valuni.Val {
	return valuni.ObjV(valuni.KV{K: "n", V: iv(n)}, valuni.KV{K: "xs", V: intList(xs)})
}

func gridVal(rows ...[]int64) valuni.Val {
	out := valuni.Val{K: valuni.VList, Elems: []valuni.Val{}}
	for _, r := range rows {
		out.Elems = append(out.Elems, intList(r))
	}
	return out
}

// The host's payloads: few of them, so that equal values come back within one history.
var (
	listPayloads = []valuni.Val{intList([]int64{20, 21}), intList([]int64{5}), intList([]int64{0, -1, maxI})}
	boxPayloads  = []valuni.Val{boxVal(1, 1), boxVal(-4), boxVal(7, 3, 3, 3)}
	gridPayloads = []valuni.Val{gridVal([]int64{1}, []int64{2, 3}), gridVal([]int64{}), gridVal([]int64{9, 9}, []int64{}, []int64{4})}
	keyPool      = []string{"a", "b", "k0", "é", ""}
)

// optForms: the forms in which a host may pass a T for a ?T parameter.
func optForms(r *fw.Rng, t valuni.Val) valuni.Val {
	switch r.Intn(5) {
	case 0:
		return valuni.NoneV()
	case 1:
		return valuni.SomeV(t)
	default:
		return t // the bare T (SpawnSync admits it and wraps it)
	}
}

func pickKey(r *fw.Rng) valuni.Val { return sv(fw.Pick(r, keyPool)) }

// admitted: what the boundary makes of an argument (bare T -> Some(T) for ?T, also nested).
func admitted(a valuni.Val, t valuni.Type) valuni.Val {
	c, ok, _ := valuni.Convert(a, t, false)
	if !ok {
		panic("c16: argument " + a.String() + " does not conform to " + t.String())
	}
	return c
}

func ints(v valuni.Val) []int64 {
	out := make([]int64, 0, len(v.Elems))
	for _, e := range v.Elems {
		out = append(out, e.I)
	}
	return out
}

// freshFns: the functions of the variant (favoured in its histories).
var freshFns = []string{"lit_any", "lit_any_n", "lit_list", "lit_empty", "lit_obj", "lit_nest", "lit_loop", "lit_opt", "lit_keep",
	"arg_list", "arg_box", "arg_grid", "arg_opt_list", "arg_opt_box", "arg_opt_elems"}

func addFreshSpecs(add func(*fnSpec)) {
	c := []string{"cnt"}
	lits := []string{"lit_any", "lit_any_n", "lit_loop", "lit_list", "lit_obj"}
	argsThen := []string{"arg_opt_list", "arg_list", "arg_opt_box", "get"}

	// ---- literals ------------------------------------------------------------------------------
	add(&fnSpec{Name: "lit_any", Only: "fresh", Params: []param{p("k", tStr), p("v", tInt)}, Ret: tStr, Then: lits,
		Src: `fn lit_any(k: str, v: int) -> str {
    let o = new { ? };
    o.set(k, v);
    o.keys().join("|")
}`,
		Model: func(st *state, e env, a []valuni.Val) (valuni.Val, *failure) { return a[0], nil },
		GenOK: gen(pickKey, pickSmall), Weight: 6})
	add(&fnSpec{Name: "lit_any_n", Only: "fresh", Params: []param{p("n", tInt)}, Ret: tInt, Then: lits,
		Src: `fn lit_any_n(n: int) -> int {
    let o = new { ? };
    let i = 0;
    while i < n {
        o.set("f" + i.to_string(), i);
        i += 1;
    }
    let p = new { ? };
    p.set("p", n);
    o.keys().len() * 10 + p.keys().len()
}`,
		Model: func(st *state, e env, a []valuni.Val) (valuni.Val, *failure) {
			n := a[0].I
			if n < 0 {
				n = 0
			}
			return iv(n*10 + 1), nil
		},
		GenOK: func(r *fw.Rng, st *state, e env) []valuni.Val {
			return []valuni.Val{iv(fw.Pick(r, []int64{0, 1, 2, 3, 5, -1}))}
		}, Weight: 4})
	add(&fnSpec{Name: "lit_list", Only: "fresh", Params: []param{p("x", tInt)}, Ret: tIntList, Then: lits,
		Src: `fn lit_list(x: int) -> [int] {
    let l = [1, 2];
    l.push(x);
    l[0] += x;
    l
}`,
		Model: func(st *state, e env, a []valuni.Val) (valuni.Val, *failure) {
			return intList([]int64{1 + a[0].I, 2, a[0].I}), nil
		},
		GenOK: gen(pickInt), Weight: 4})
	add(&fnSpec{Name: "lit_empty", Only: "fresh", Params: []param{p("x", tInt)}, Ret: tIntList, Then: lits,
		Src: `fn lit_empty(x: int) -> [int] {
    let l: [int] = [];
    l.push(x);
    l.push(x);
    l
}`,
		Model: func(st *state, e env, a []valuni.Val) (valuni.Val, *failure) {
			return intList([]int64{a[0].I, a[0].I}), nil
		},
		GenOK: gen(pickInt), Weight: 3})
	add(&fnSpec{Name: "lit_obj", Only: "fresh", Params: []param{p("x", tInt)}, Ret: tBox, Then: lits,
		Src: `fn lit_obj(x: int) -> { n: int, xs: [int] } {
    let o = new { n: 1, xs: [0] };
    o.n += x;
    o.xs.push(x);
    o
}`,
		Model: func(st *state, e env, a []valuni.Val) (valuni.Val, *failure) {
			return boxVal(1+a[0].I, 0, a[0].I), nil
		},
		GenOK: gen(pickInt), Weight: 4})
	add(&fnSpec{Name: "lit_nest", Only: "fresh", Params: []param{p("x", tInt)}, Ret: tGrid, Then: lits,
		Src: `fn lit_nest(x: int) -> [[int]] {
    let g = [[1], [2, 3]];
    g[1].push(x);
    g[0][0] = x;
    g
}`,
		Model: func(st *state, e env, a []valuni.Val) (valuni.Val, *failure) {
			return gridVal([]int64{a[0].I}, []int64{2, 3, a[0].I}), nil
		},
		GenOK: gen(pickInt), Weight: 3})
	// one literal evaluated once per iteration (and the function called again afterwards)
	add(&fnSpec{Name: "lit_loop", Only: "fresh", Params: []param{p("n", tInt)}, Ret: tStr, Then: lits,
		Src: `fn lit_loop(n: int) -> str {
    let out = "";
    for i in 0..n {
        let o = new { ? };
        o.set("k" + i.to_string(), i);
        let l = [0];
        l.push(i);
        let b = new { xs: [i] };
        b.xs.push(i);
        out += o.keys().join("|") + ":" + l.len().to_string() + ":" + b.xs.len().to_string() + ";";
    }
    out
}`,
		Model: func(st *state, e env, a []valuni.Val) (valuni.Val, *failure) {
			var sb strings.Builder
			for i := int64(0); i < a[0].I; i++ {
				sb.WriteString("k" + strconv.FormatInt(i, 10) + ":2:2;")
			}
			return sv(sb.String()), nil
		},
		GenOK: func(r *fw.Rng, st *state, e env) []valuni.Val {
			return []valuni.Val{iv(fw.Pick(r, []int64{0, 1, 2, 3, 6}))}
		}, Weight: 4})
	add(&fnSpec{Name: "lit_opt", Only: "fresh", Params: []param{p("x", tInt)}, Ret: tOptList, Then: lits,
		Src: `fn lit_opt(x: int) -> ?[int] {
    let o = ?[7];
    let l = o.unwrap();
    l.push(x);
    o
}`,
		Model: func(st *state, e env, a []valuni.Val) (valuni.Val, *failure) {
			return valuni.SomeV(intList([]int64{7, a[0].I})), nil
		},
		GenOK: gen(pickInt), Weight: 2})
	// a literal that is stored in a global and changed there by later calls: the literal itself stays what it is
	add(&fnSpec{Name: "lit_keep", Only: "fresh", Params: []param{p("x", tInt)}, Ret: tInt, Reads: []string{"items"}, Writes: []string{"items"},
		Then: []string{"append", "all", "sum"},
		Src: `fn lit_keep(x: int) -> int {
    items = [4, 4];
    items.push(x);
    items.len()
}`,
		Model: func(st *state, e env, a []valuni.Val) (valuni.Val, *failure) {
			st.items = []int64{4, 4, a[0].I}
			return iv(3), nil
		},
		GenOK: gen(pickInt), Weight: 3})

	// ---- arguments changed in place ---------------------------------------------------------------
	add(&fnSpec{Name: "arg_list", Only: "fresh", Params: []param{p("xs", tIntList), p("v", tInt)}, Ret: tIntList, Reads: c, Writes: c, Then: argsThen,
		Src: `fn arg_list(xs: [int], v: int) -> [int] {
    xs.push(v);
    xs[0] = v;
    cnt += xs.len();
    xs
}`,
		Model: func(st *state, e env, a []valuni.Val) (valuni.Val, *failure) {
			xs := append(ints(a[0]), a[1].I)
			xs[0] = a[1].I
			st.cnt += int64(len(xs))
			return intList(xs), nil
		},
		GenOK: func(r *fw.Rng, st *state, e env) []valuni.Val {
			return []valuni.Val{fw.Pick(r, listPayloads), pickSmall(r)}
		}, Weight: 4})
	add(&fnSpec{Name: "arg_box", Only: "fresh", Params: []param{p("o", tBox), p("v", tInt)}, Ret: tBox, Then: argsThen,
		Src: `fn arg_box(o: { n: int, xs: [int] }, v: int) -> { n: int, xs: [int] } {
    o.n = o.n + v;
    o.xs.push(v);
    o
}`,
		Model: func(st *state, e env, a []valuni.Val) (valuni.Val, *failure) {
			n, _ := a[0].Get("n")
			xs, _ := a[0].Get("xs")
			return boxVal(n.I+a[1].I, append(ints(xs), a[1].I)...), nil
		},
		GenOK: func(r *fw.Rng, st *state, e env) []valuni.Val {
			return []valuni.Val{fw.Pick(r, boxPayloads), pickSmall(r)}
		}, Weight: 4})
	add(&fnSpec{Name: "arg_grid", Only: "fresh", Params: []param{p("g", tGrid), p("v", tInt)}, Ret: tGrid, Then: argsThen,
		Src: `fn arg_grid(g: [[int]], v: int) -> [[int]] {
    g[0].push(v);
    let row: [int] = [];
    g.push(row);
    g
}`,
		Model: func(st *state, e env, a []valuni.Val) (valuni.Val, *failure) {
			g := a[0].Copy()
			g.Elems[0].Elems = append(g.Elems[0].Elems, a[1])
			g.Elems = append(g.Elems, intList(nil))
			return g, nil
		},
		GenOK: func(r *fw.Rng, st *state, e env) []valuni.Val {
			return []valuni.Val{fw.Pick(r, gridPayloads), pickSmall(r)}
		}, Weight: 3})
	add(&fnSpec{Name: "arg_opt_list", Only: "fresh", Params: []param{p("xs", tOptList), p("v", tInt)}, Ret: tIntList, Reads: c, Writes: c, Then: argsThen,
		Src: `fn arg_opt_list(xs: ?[int], v: int) -> [int] {
    if xs.is_none() {
        return [v];
    }
    let l = xs.unwrap();
    l.push(v);
    cnt += l.len();
    l
}`,
		Model: func(st *state, e env, a []valuni.Val) (valuni.Val, *failure) {
			o := admitted(a[0], tOptList)
			if o.K == valuni.VNone {
				return intList([]int64{a[1].I}), nil
			}
			xs := append(ints(*o.Inner), a[1].I)
			st.cnt += int64(len(xs))
			return intList(xs), nil
		},
		GenOK: func(r *fw.Rng, st *state, e env) []valuni.Val {
			return []valuni.Val{optForms(r, fw.Pick(r, listPayloads)), pickSmall(r)}
		}, Weight: 6})
	add(&fnSpec{Name: "arg_opt_box", Only: "fresh", Params: []param{p("o", tOptBox), p("v", tInt)}, Ret: tInt, Then: argsThen,
		Src: `fn arg_opt_box(o: ?{ n: int, xs: [int] }, v: int) -> int {
    if o.is_none() {
        return -1;
    }
    let b = o.unwrap();
    b.n += v;
    b.xs.push(v);
    b.n * 100 + b.xs.len()
}`,
		Model: func(st *state, e env, a []valuni.Val) (valuni.Val, *failure) {
			o := admitted(a[0], tOptBox)
			if o.K == valuni.VNone {
				return iv(-1), nil
			}
			n, _ := o.Inner.Get("n")
			xs, _ := o.Inner.Get("xs")
			return iv((n.I+a[1].I)*100 + int64(len(xs.Elems)+1)), nil
		},
		GenOK: func(r *fw.Rng, st *state, e env) []valuni.Val {
			return []valuni.Val{optForms(r, fw.Pick(r, boxPayloads)), pickSmall(r)}
		}, Weight: 4})
	// a list of options inside an option: the bare [int] is admitted, its elements arrive as Some(int)
	add(&fnSpec{Name: "arg_opt_elems", Only: "fresh", Params: []param{p("xs", tOptElems), p("v", tInt)}, Ret: valuni.List(valuni.Opt(tInt)), Then: argsThen,
		Src: `fn arg_opt_elems(xs: ?[?int], v: int) -> [?int] {
    if xs.is_none() {
        let e: [?int] = [];
        return e;
    }
    let l = xs.unwrap();
    l[0] = ?v;
    l.push(none);
    l
}`,
		Model: func(st *state, e env, a []valuni.Val) (valuni.Val, *failure) {
			o := admitted(a[0], tOptElems)
			if o.K == valuni.VNone {
				return valuni.Val{K: valuni.VList, Elems: []valuni.Val{}}, nil
			}
			l := o.Inner.Copy()
			l.Elems[0] = valuni.SomeV(a[1])
			l.Elems = append(l.Elems, valuni.NoneV())
			return l, nil
		},
		GenOK: func(r *fw.Rng, st *state, e env) []valuni.Val {
			l := fw.Pick(r, listPayloads)
			if r.Bool() { // elements already wrapped (some of them none)
				w := valuni.Val{K: valuni.VList, Elems: []valuni.Val{}}
				for k, x := range l.Elems {
					if k%2 == 1 {
						w.Elems = append(w.Elems, valuni.NoneV())
					} else {
						w.Elems = append(w.Elems, valuni.SomeV(x))
					}
				}
				l = w
			}
			return []valuni.Val{optForms(r, l), pickSmall(r)}
		}, Weight: 3})
	// an any-object parameter changed in place (until 87e6720 value.DeepCast handed an any-object argument on as it
	// was and the callee's set() was written into the host's value: TestArgAnyObjectAliased)
	add(&fnSpec{Name: "arg_any", Only: "fresh", Params: []param{p("o", valuni.AnyObj()), p("k", tStr), p("v", tInt)}, Ret: tInt,
		Src: `fn arg_any(o: { ? }, k: str, v: int) -> int {
    o.set(k, v);
    o.keys().len()
}`,
		Model: func(st *state, e env, a []valuni.Val) (valuni.Val, *failure) {
			return iv(int64(len(a[0].With(a[1].S, a[2]).Keys))), nil
		},
		GenOK: func(r *fw.Rng, st *state, e env) []valuni.Val {
			return []valuni.Val{valuni.AnyObjV(valuni.KV{K: "z", V: iv(1)}), pickKey(r), pickSmall(r)}
		}})
}

// freshSweep: every function of the variant with every pooled payload in every form, each call made three
// times in a row with the host's same values, observers in between, then a new VM from the same compile
// output and everything again.
func freshSweep(host, init string) Payload {
	pl := Payload{Variant: Variant{Order: 3, Init: init, Fresh: true}, Limits: smallLimits, Host: host, Reuse: true}
	var round []Op
	thrice := func(o Op) { round = append(round, o, o, o) }
	keys := append([]string{}, keyPool...)
	sort.Strings(keys)
	for i, k := range keys {
		thrice(op("lit_any", sv(k), iv(int64(i))))
	}
	for _, n := range []int64{3, 0, 1, 3} {
		thrice(op("lit_any_n", iv(n)))
		thrice(op("lit_loop", iv(n)))
	}
	for _, x := range []int64{5, -1, maxI} {
		thrice(op("lit_list", iv(x)))
		thrice(op("lit_empty", iv(x)))
		thrice(op("lit_obj", iv(x)))
		thrice(op("lit_nest", iv(x)))
		thrice(op("lit_opt", iv(x)))
		round = append(round, op("lit_keep", iv(x)), op("append", iv(x)), op("all"), op("lit_keep", iv(x)), op("all"))
	}
	forms := func(v valuni.Val) []valuni.Val { return []valuni.Val{v, valuni.SomeV(v), valuni.NoneV(), v} }
	for _, l := range listPayloads {
		thrice(op("arg_list", l, iv(9)))
		for _, f := range forms(l) {
			thrice(op("arg_opt_list", f, iv(-1)))
			thrice(op("arg_opt_elems", f, iv(3)))
		}
		round = append(round, op("get"))
	}
	for _, b := range boxPayloads {
		thrice(op("arg_box", b, iv(2)))
		for _, f := range forms(b) {
			thrice(op("arg_opt_box", f, iv(2)))
		}
	}
	for _, g := range gridPayloads {
		thrice(op("arg_grid", g, iv(6)))
	}
	pl.Ops = append(pl.Ops, round...)
	pl.Ops = append(pl.Ops, op(opNewVM))
	pl.Ops = append(pl.Ops, round...)
	return pl
}
