package c16

import (
	"encoding/json"
	"fmt"
	"os"
	"testing"

	"hv/drive"
	"hv/fw"
	"hv/valuni"
)

// Every variant of the service program must be accepted by the analyzer and compile.
func TestServiceIsAccepted(t *testing.T) {
	for order := uint64(0); order < 12; order++ {
		for _, v := range []Variant{
			{Order: order, Init: "zero"}, {Order: order, Init: "rich", Trigger: true},
			{Order: order, Init: "zero", Spawn: true}, {Order: order, Init: "rich", Leaky: true},
			{Order: order, Init: "zero", Relay: true}, {Order: order, Init: "rich", Relay: true, Trigger: true},
			{Order: order, Init: "zero", Exits: true}, {Order: order, Init: "rich", Exits: true, Leaky: true, Trigger: true},
			{Order: order, Init: "zero", Out: true}, {Order: order, Init: "rich", Single: true}, {Order: order, Init: "rich", Out: true, Single: true, Trigger: true},
		} {
			ao := drive.Analyze(drive.Sources{"main": v.Source()}, "main", true)
			if ao.Errors > 0 {
				t.Fatalf("variant %+v rejected: %s", v, ao.ErrorSummary())
			}
			if _, err := drive.Compile(ao.Modules, "main"); err != nil {
				t.Fatalf("variant %+v does not compile: %v", v, err)
			}
		}
	}
}

// Generated arguments are well-typed, the model's values have the declared return types and the
// model fails exactly when the generator says so.
func TestModelAndGeneratorsAgree(t *testing.T) {
	r := fw.NewRng(99)
	for _, lim := range limitSets {
		e := env{callStackMax: int64(lim.CallStack)}
		for _, s := range specs {
			for k := 0; k < 200; k++ {
				st := newState(fw.Pick(r, []string{"zero", "rich"}))
				for j := r.Intn(4); j > 0; j-- {
					st.items = append(st.items, int64(j))
				}
				for _, mode := range []string{"ok", "fail"} {
					var args []valuni.Val
					if mode == "ok" && s.GenOK != nil {
						args = s.GenOK(r, st, e)
					} else if mode == "fail" && s.GenFail != nil {
						args = s.GenFail(r, st, e)
					}
					if args == nil {
						continue
					}
					if len(args) != len(s.Params) {
						t.Fatalf("%s: %d args for %d params", s.Name, len(args), len(s.Params))
					}
					for i, a := range args {
						if !valuni.Conforms(a, s.Params[i].T, false) { // a bare T is admitted for a ?T parameter, as SpawnSync does
							t.Fatalf("%s: arg %d %s is not a %s", s.Name, i, a, s.Params[i].T)
						}
					}
					v, f := s.Model(st, e, args)
					if (f != nil) != (mode == "fail") {
						t.Fatalf("%s%v: generator mode %s but model failure=%v", s.Name, args, mode, f)
					}
					if f == nil && !valuni.HasType(v, s.Ret) {
						t.Fatalf("%s: model value %s is not a %s", s.Name, v, s.Ret)
					}
				}
			}
		}
	}
}

// Case lists are a pure function of (tier, seed) and differ between seeds.
func TestCasesDeterministic(t *testing.T) {
	a, b, c := c16{}.Cases("quick", 1), c16{}.Cases("quick", 1), c16{}.Cases("quick", 2)
	ja, _ := json.Marshal(a)
	jb, _ := json.Marshal(b)
	jc, _ := json.Marshal(c)
	if string(ja) != string(jb) {
		t.Fatal("case list is not deterministic")
	}
	if string(ja) == string(jc) {
		t.Fatal("case list does not depend on the seed")
	}
}

// C16_KF_OUT=<file> go test -tags verif -run TestKFLines: writes the lines proposed for known_findings.txt.
func TestKFLines(t *testing.T) {
	path := os.Getenv("C16_KF_OUT")
	if path == "" {
		t.Skip("C16_KF_OUT not set")
	}
	type kf struct{ status, name, pin, what, sig, tag string }
	kfs := []kf{
		{"fixed", "0385937", "rlock-after-throw", "after a failed call (uncaught throw or fatal error) VM.Wait returned still holding Cores.Lock.RLock: the next SpawnSync/SpawnAsync on the same VM blocked forever in spawnCore", "", ""},
		{"fixed", "0385937", "rlock-after-fatal-live-context", "calls after a failed call (host cancel function is a no-op, so they really execute) blocked forever on the leaked read lock; they must answer with the model's values / failures", "", ""},
		{"fixed", "e4c50db", "spawn-then-throw", "when a call failed while threads it had spawned were still running, each of them blocked forever in its final send on the unbuffered SignalHandle (one leaked goroutine per thread)", "", ""},
		{"open", kfAnyObj, "anyobj-return", "HandleTermination skips return values of declared type { ? }: the host receives nil instead of the any-object the function returned", `^(after-failure:)?ret:nil:anyobj:`, tagRetAnyObj},
		{"open", kfExpr, "return-from-operand", "a host call of a function that returns out of an operand position (1000 + { return x; }) completes with the abandoned operand left below the return value on the core's operand stack", `^residue:stack:leaky$`, tagExprExit},
	}
	f, err := os.Create(path)
	if err != nil {
		t.Fatal(err)
	}
	defer f.Close()
	for _, k := range kfs {
		for _, w := range pinned() {
			if w.name != k.pin {
				continue
			}
			c := fw.MkCase("", "pinned", w.pl, tagsOf(w.pl, w.firstFail)...)
			wj, _ := json.Marshal(map[string]any{"kind": c.Kind, "payload": c.Payload, "tags": c.Tags})
			if k.status == "fixed" {
				fmt.Fprintf(f, "fixed: property=C16 %s %s :: {\"witness\":%s}\n", k.name, k.what, wj)
				continue
			}
			sj, _ := json.Marshal(k.sig)
			fmt.Fprintf(f, "open: property=C16 %s %s :: {\"witness\":%s,\"sig\":%s,\"tag\":%q}\n", k.name, k.what, wj, sj, k.tag)
		}
	}
}

// TestArgAnyObjectAliased: an any-object argument was handed to the callee as it was, the callee's set() changed
// the host's value (repaired in /repo; arg_any is part of the fresh variant since). No violation may be left.
func TestArgAnyObjectAliased(t *testing.T) {
	o := valuni.AnyObjV(valuni.KV{K: "z", V: iv(1)})
	pl := Payload{Variant: Variant{Order: 1, Init: "zero", Fresh: true}, Limits: smallLimits, Reuse: true,
		Ops: []Op{op("arg_any", o, sv("a"), iv(1)), op("arg_any", o, sv("b"), iv(2))}}
	h := runHistory(pl)
	for _, v := range h.viol {
		t.Errorf("%s: %s", v.sig, v.why)
	}
	if h.inconcl != "" {
		t.Fatalf("inconclusive: %s", h.inconcl)
	}
}
