package c16

import (
	"fmt"
	"sort"
	"strconv"
	"strings"

	"hv/fw"
	"hv/valuni"
)

// ---------------------------------------------------------------------------------------------
// The service: one homescript program exporting many functions over a handful of globals, and a
// sequential state-machine model of it written directly in Go (shares no code with /repo).
// ---------------------------------------------------------------------------------------------

// Variant selects one concrete service program.
type Variant struct {
	// Order seeds the shuffle of the function definitions in the source text (compile order and
	// name mangling counters differ between variants; the behaviour must not).
	Order uint64 `json:"order"`
	// Init: "zero" | "rich" — initial values of the globals (set by @init inside NewVM).
	Init string `json:"init"`
	// Trigger: the program has a trigger annotation with an argument function and an event
	// function (real usage pattern: NewVM -> annotation argument functions -> main).
	Trigger bool `json:"trigger,omitempty"`
	// Spawn: the program has a function which spawns never-ending threads and then throws.
	Spawn bool `json:"spawn,omitempty"`
	// Leaky: the program has a function which returns out of an operand position (open finding
	// KF-vm-expr-exit-leak: leaves a slot below the return value).
	Leaky bool `json:"leaky,omitempty"`
	// Relay: the program has functions whose work is handed over to threads that outlive the
	// function body (spawn chains, fan-out); the call completes when the last thread has finished.
	Relay bool `json:"relay,omitempty"`
	// Exits: the program has the family of functions that are left (return, break, continue, caught
	// throw) from an operand position while other operands wait on the stack (exits.go).
	Exits bool `json:"exits,omitempty"`
	// Out: the program has the family of functions that write to the host (print / println / debug with no,
	// one and several arguments, empty texts, several writes per call, writes in loops, in try blocks, before
	// a throw, by threads); the model predicts the text every call writes (service3.go).
	Out bool `json:"out,omitempty"`
	// Single: the program declares singletons whose values are the compiler's defaults and functions that
	// read and change them (through extraction parameters and directly) (service3.go).
	Single bool `json:"single,omitempty"`
	// Fresh: the program has the family of functions about values that belong to one call: literals that are
	// evaluated again by every call and changed in place, parameters changed in place (service4.go).
	Fresh bool `json:"fresh,omitempty"`
	// FreshAny: additionally the function with an any-object parameter changed in place (see arg_any; never
	// generated, a genuine defect of the unchanged tree).
	FreshAny bool `json:"fresh_any,omitempty"`
}

// state is the model of the globals.
type state struct {
	cnt   int64
	items []int64
	name  string
	ratio float64
	flag  bool
	last  *int64
	cfgA  int64
	cfgB  string
	// window: a range stored in a global (bounds assignable)
	winA, winB int64
	winIncl    bool
	// relay, relayB: written only by the last stage of a hand-over chain of threads
	relay, relayB int64

	// singletons $Stats and $Flags (compiler defaults, whatever the initial values of the globals are)
	sHits   []int64
	sTotal  int64
	sLast   *string
	sTag    string
	sBoxN   int64
	sBoxL   []int64
	fActive bool
	fLevel  int64
	// out: the text the current call writes to the host (reset before every call); outAlt: further texts
	// that are acceptable as well (cores of one call writing side by side)
	out    string
	outAlt []string

	// bookkeeping for the non-triviality measurement
	written   map[string]bool
	crossRead bool
}

func newState(init string) *state {
	st := &state{written: map[string]bool{}}
	switch init {
	case "rich":
		seven := int64(7)
		st.cnt, st.items, st.name, st.ratio, st.flag, st.last, st.cfgA, st.cfgB = 41, []int64{3, -1, 20}, "zoë", -0.25, true, &seven, -9, ""
		st.winA, st.winB, st.winIncl = 8, 3, true
	default:
		st.cnt, st.items, st.name, st.ratio, st.flag, st.last, st.cfgA, st.cfgB = 0, nil, "init", 1.5, false, nil, 1, "x"
		st.winA, st.winB, st.winIncl = 0, 6, false
	}
	return st
}

func globalsSource(init string) string {
	if init == "rich" {
		return "let cnt = 41;\nlet items: [int] = [3, -1, 20];\nlet name = \"zoë\";\nlet ratio = -0.25;\nlet flag = true;\nlet last: ?int = ?7;\nlet cfg = new { a: -9, b: \"\" };\nlet window = 8..=3;\n" + constGlobals
	}
	return "let cnt = 0;\nlet items: [int] = [];\nlet name = \"init\";\nlet ratio = 1.5;\nlet flag = false;\nlet last: ?int = none;\nlet cfg = new { a: 1, b: \"x\" };\nlet window = 0..6;\n" + constGlobals
}

// constGlobals are stored data no function writes (iterated in place by book_first_ge, grid_count_until,
// plan_first_gt, spans_count_until, word_count_until), followed by the globals of the relay functions.
const constGlobals = "let book = new { rows: [5, 1, 9, 4], tag: \"b\" };\nlet grid: [[int]] = [[1, 5], [7, 2, 8], [4]];\n" +
	"let plan = new { span: 2..9, tag: \"p\" };\nlet spans = [0..4, 7..=3, 5..5];\nlet word = \"homescript\";\n" +
	"let relay = 0;\nlet relay_b = 0;\n"

// failure is the expected failure of a call.
type failure struct {
	Kind string // UncaughtThrow | IndexOutOfBounds | ValueError | StackOverFlow
	Msg  string // for UncaughtThrow: the thrown message
}

// env is what the model may depend on besides the state.
type env struct {
	callStackMax int64
}

type param struct {
	Name string
	T    valuni.Type
}

type fnSpec struct {
	Name   string
	Params []param
	Ret    valuni.Type
	Src    string
	// Reads/Writes: globals touched (for the non-triviality measurement only).
	Reads, Writes []string
	// Model computes the result and updates the state exactly as the source text says.
	Model func(st *state, e env, a []valuni.Val) (valuni.Val, *failure)
	// GenOK produces arguments for which the call completes; GenFail arguments for which it fails
	// (nil: impossible in this state).
	GenOK   func(r *fw.Rng, st *state, e env) []valuni.Val
	GenFail func(r *fw.Rng, st *state, e env) []valuni.Val
	// Only: restricts the spec to variants having the feature ("trigger", "spawn", "leaky", "relay", "exits", "out", "single").
	Only string
	// Tag: construct tag attached to every history that calls the function.
	Tag string
	// Literal: the function is invoked by its literal (mangled) name like an annotation argument function.
	Literal bool
	// RetAny: the host declares the return type [any] (annotation argument functions).
	RetAny bool
	// Weight in the random choice (default 2).
	Weight int
	// Then: functions that observe what this one may have left behind; the generator often calls one
	// of them (or the function itself again) right after it.
	Then []string
	// Threads: number of cores a completed call runs on besides the one of the invoked function.
	Threads int
}

var (
	tInt   = valuni.Int()
	tFloat = valuni.Float()
	tStr   = valuni.Str()
	tBool  = valuni.Bool()
	tNull  = valuni.Null()
)

func iv(i int64) valuni.Val   { return valuni.IntV(i) }
func sv(s string) valuni.Val  { return valuni.StrV(s) }
func bv(b bool) valuni.Val    { return valuni.BoolV(b) }
func fv(f float64) valuni.Val { return valuni.FloatV(f) }
func optI(p *int64) valuni.Val {
	if p == nil {
		return valuni.NoneV()
	}
	return valuni.SomeV(iv(*p))
}
func intList(xs []int64) valuni.Val {
	out := valuni.Val{K: valuni.VList, Elems: make([]valuni.Val, 0, len(xs))}
	for _, x := range xs {
		out.Elems = append(out.Elems, iv(x))
	}
	return out
}

const (
	minI = int64(-1 << 63)
	maxI = int64(1<<63 - 1)
)

var intPool = []int64{0, 1, -1, 2, -2, 7, 62, 63, 64, 1 << 31, 1<<53 + 1, minI, maxI, minI + 1, -100, 4711}
var smallPool = []int64{0, 1, 2, 3, 5, 9, 10, 42, 99, -1, -3}
var floatPool = []float64{0, negZero(), 0.1, 1.5, -2.25, 1e15, 1e308, 5e-324, 1.0 / 3.0, -1, 2}
var strPool = []string{"", "a", "b|c", "héllo wörld", "日本", "line\nbreak", "tab\there", "q\"uote", "  ", "0", "null"}

func negZero() float64 { z := 0.0; return -z }

func pickInt(r *fw.Rng) valuni.Val   { return iv(fw.Pick(r, intPool)) }
func pickSmall(r *fw.Rng) valuni.Val { return iv(fw.Pick(r, smallPool)) }
func pickFloat(r *fw.Rng) valuni.Val { return fv(fw.Pick(r, floatPool)) }
func pickStr(r *fw.Rng) valuni.Val   { return sv(fw.Pick(r, strPool)) }
func pickBool(r *fw.Rng) valuni.Val  { return bv(r.Bool()) }
func pickOptInt(r *fw.Rng) valuni.Val {
	if r.Chance(1, 3) {
		return valuni.NoneV()
	}
	return valuni.SomeV(pickInt(r))
}
func pickIntList(r *fw.Rng) valuni.Val {
	n := fw.Pick(r, []int{0, 1, 2, 7})
	out := valuni.Val{K: valuni.VList, Elems: []valuni.Val{}}
	for i := 0; i < n; i++ {
		out.Elems = append(out.Elems, pickInt(r))
	}
	return out
}

func none() []valuni.Val { return []valuni.Val{} }

func gen(fs ...func(r *fw.Rng) valuni.Val) func(r *fw.Rng, st *state, e env) []valuni.Val {
	return func(r *fw.Rng, st *state, e env) []valuni.Val {
		out := make([]valuni.Val, len(fs))
		for i, f := range fs {
			out[i] = f(r)
		}
		return out
	}
}

func p(name string, t valuni.Type) param { return param{name, t} }

var tCfg = valuni.Obj(valuni.F("a", tInt), valuni.F("b", tStr))
var tMix = valuni.Obj(valuni.F("a", tFloat), valuni.F("b", tInt), valuni.F("c", tStr), valuni.F("d", tBool), valuni.F("e", valuni.List(tInt)), valuni.F("f", valuni.Opt(tInt)))
var tSnap = valuni.Obj(valuni.F("cnt", tInt), valuni.F("flag", tBool), valuni.F("n", tInt), valuni.F("name", tStr))

func cfgVal(a int64, b string) valuni.Val {
	return valuni.ObjV(valuni.KV{K: "a", V: iv(a)}, valuni.KV{K: "b", V: sv(b)})
}

func utf8Len(s string) int64 { return int64(len([]rune(s))) }

// specs is the canonical list of service functions.
var specs = buildSpecs()

func buildSpecs() []*fnSpec {
	var out []*fnSpec
	add := func(s *fnSpec) { out = append(out, s) }

	// ---- argument order -------------------------------------------------------------------
	add(&fnSpec{Name: "echo3", Params: []param{p("a", tInt), p("b", tStr), p("c", tBool)}, Ret: tStr,
		Src: `fn echo3(a: int, b: str, c: bool) -> str {
    a.to_string() + "|" + b + "|" + c.to_string()
}`,
		Model: func(st *state, e env, a []valuni.Val) (valuni.Val, *failure) {
			return sv(strconv.FormatInt(a[0].I, 10) + "|" + a[1].S + "|" + strconv.FormatBool(a[2].B)), nil
		},
		GenOK: gen(pickInt, pickStr, pickBool), Weight: 3})
	add(&fnSpec{Name: "tri", Params: []param{p("a", tInt), p("b", tInt), p("c", tInt)}, Ret: valuni.List(tInt),
		Src: `fn tri(a: int, b: int, c: int) -> [int] {
    [a, b, c]
}`,
		Model: func(st *state, e env, a []valuni.Val) (valuni.Val, *failure) {
			return valuni.ListV(a[0], a[1], a[2]), nil
		},
		GenOK: gen(pickInt, pickInt, pickInt)})
	add(&fnSpec{Name: "mix", Params: []param{p("a", tFloat), p("b", tInt), p("c", tStr), p("d", tBool), p("e", valuni.List(tInt)), p("f", valuni.Opt(tInt))}, Ret: tMix,
		Src: `fn mix(a: float, b: int, c: str, d: bool, e: [int], f: ?int) -> { a: float, b: int, c: str, d: bool, e: [int], f: ?int } {
    new { a: a, b: b, c: c, d: d, e: e, f: f }
}`,
		Model: func(st *state, e env, a []valuni.Val) (valuni.Val, *failure) {
			return valuni.ObjV(valuni.KV{K: "a", V: a[0]}, valuni.KV{K: "b", V: a[1]}, valuni.KV{K: "c", V: a[2]}, valuni.KV{K: "d", V: a[3]}, valuni.KV{K: "e", V: a[4]}, valuni.KV{K: "f", V: a[5]}), nil
		},
		GenOK: gen(pickFloat, pickInt, pickStr, pickBool, pickIntList, pickOptInt), Weight: 3})
	add(&fnSpec{Name: "sub", Params: []param{p("a", tInt), p("b", tInt)}, Ret: tInt,
		Src: `fn sub(a: int, b: int) -> int {
    a - b
}`,
		Model: func(st *state, e env, a []valuni.Val) (valuni.Val, *failure) { return iv(a[0].I - a[1].I), nil },
		GenOK: gen(pickInt, pickInt), Weight: 3})
	add(&fnSpec{Name: "fsub", Params: []param{p("a", tFloat), p("b", tFloat)}, Ret: tFloat,
		Src: `fn fsub(a: float, b: float) -> float {
    a - b
}`,
		Model: func(st *state, e env, a []valuni.Val) (valuni.Val, *failure) {
			return fv(float64(a[0].F) - float64(a[1].F)), nil
		},
		GenOK: gen(pickFloat, pickFloat)})
	add(&fnSpec{Name: "cat", Params: []param{p("a", tStr), p("b", tStr)}, Ret: tStr,
		Src: `fn cat(a: str, b: str) -> str {
    a + b
}`,
		Model: func(st *state, e env, a []valuni.Val) (valuni.Val, *failure) { return sv(a[0].S + a[1].S), nil },
		GenOK: gen(pickStr, pickStr)})
	add(&fnSpec{Name: "implies", Params: []param{p("a", tBool), p("b", tBool)}, Ret: tBool,
		Src: `fn implies(a: bool, b: bool) -> bool {
    !a || b
}`,
		Model: func(st *state, e env, a []valuni.Val) (valuni.Val, *failure) { return bv(!a[0].B || a[1].B), nil },
		GenOK: gen(pickBool, pickBool)})

	// ---- counter ---------------------------------------------------------------------------
	add(&fnSpec{Name: "get", Ret: tInt, Reads: []string{"cnt"},
		Src: `fn get() -> int {
    cnt
}`,
		Model: func(st *state, e env, a []valuni.Val) (valuni.Val, *failure) { return iv(st.cnt), nil },
		GenOK: gen(), Weight: 4})
	add(&fnSpec{Name: "set", Params: []param{p("v", tInt)}, Ret: tNull, Writes: []string{"cnt"},
		Src: `fn set(v: int) {
    cnt = v;
}`,
		Model: func(st *state, e env, a []valuni.Val) (valuni.Val, *failure) {
			st.cnt = a[0].I
			return valuni.NullV(), nil
		},
		GenOK: gen(pickInt)})
	add(&fnSpec{Name: "incr", Ret: tInt, Reads: []string{"cnt"}, Writes: []string{"cnt"},
		Src: `fn incr() -> int {
    cnt += 1;
    cnt
}`,
		Model: func(st *state, e env, a []valuni.Val) (valuni.Val, *failure) { st.cnt++; return iv(st.cnt), nil },
		GenOK: gen(), Weight: 4})
	add(&fnSpec{Name: "add", Params: []param{p("d", tInt)}, Ret: tInt, Reads: []string{"cnt"}, Writes: []string{"cnt"},
		Src: `fn add(d: int) -> int {
    cnt = cnt + d;
    return cnt;
}`,
		Model: func(st *state, e env, a []valuni.Val) (valuni.Val, *failure) {
			st.cnt += a[0].I
			return iv(st.cnt), nil
		},
		GenOK: gen(pickInt)})
	add(&fnSpec{Name: "main", Ret: tNull, Reads: []string{"cnt"}, Writes: []string{"cnt"},
		Src: `fn main() {
    cnt += 1000;
}`,
		Model: func(st *state, e env, a []valuni.Val) (valuni.Val, *failure) {
			st.cnt += 1000
			return valuni.NullV(), nil
		},
		GenOK: gen(), Weight: 1})

	// ---- list ------------------------------------------------------------------------------
	add(&fnSpec{Name: "append", Params: []param{p("x", tInt)}, Ret: tInt, Reads: []string{"items"}, Writes: []string{"items"},
		Src: `fn append(x: int) -> int {
    items.push(x);
    items.len()
}`,
		Model: func(st *state, e env, a []valuni.Val) (valuni.Val, *failure) {
			st.items = append(st.items, a[0].I)
			return iv(int64(len(st.items))), nil
		},
		GenOK: gen(pickInt), Weight: 5})
	add(&fnSpec{Name: "extend", Params: []param{p("xs", valuni.List(tInt))}, Ret: tInt, Reads: []string{"items"}, Writes: []string{"items"},
		Src: `fn extend(xs: [int]) -> int {
    for x in xs {
        items.push(x);
    }
    items.len()
}`,
		Model: func(st *state, e env, a []valuni.Val) (valuni.Val, *failure) {
			for _, x := range a[0].Elems {
				st.items = append(st.items, x.I)
			}
			return iv(int64(len(st.items))), nil
		},
		GenOK: gen(pickIntList)})
	add(&fnSpec{Name: "sum", Ret: tInt, Reads: []string{"items"},
		Src: `fn sum() -> int {
    let s = 0;
    for x in items {
        s += x;
    }
    s
}`,
		Model: func(st *state, e env, a []valuni.Val) (valuni.Val, *failure) {
			var s int64
			for _, x := range st.items {
				s += x
			}
			return iv(s), nil
		},
		GenOK: gen(), Weight: 4})
	add(&fnSpec{Name: "all", Ret: valuni.List(tInt), Reads: []string{"items"},
		Src: `fn all() -> [int] {
    items
}`,
		Model: func(st *state, e env, a []valuni.Val) (valuni.Val, *failure) { return intList(st.items), nil },
		GenOK: gen(), Weight: 3})
	add(&fnSpec{Name: "clear", Ret: tNull, Writes: []string{"items"},
		Src: `fn clear() {
    let e: [int] = [];
    items = e;
}`,
		Model: func(st *state, e env, a []valuni.Val) (valuni.Val, *failure) {
			st.items = nil
			return valuni.NullV(), nil
		},
		GenOK: gen(), Weight: 1})
	add(&fnSpec{Name: "idx", Params: []param{p("i", tInt)}, Ret: tInt, Reads: []string{"items"},
		Src: `fn idx(i: int) -> int {
    items[i]
}`,
		Model: func(st *state, e env, a []valuni.Val) (valuni.Val, *failure) {
			i, n := a[0].I, int64(len(st.items))
			if i < 0 {
				i += n
			}
			if i < 0 || i >= n {
				return valuni.Val{}, &failure{Kind: "IndexOutOfBounds"}
			}
			return iv(st.items[i]), nil
		},
		GenOK: func(r *fw.Rng, st *state, e env) []valuni.Val {
			n := int64(len(st.items))
			if n == 0 {
				return nil
			}
			return []valuni.Val{iv(fw.Pick(r, []int64{0, n - 1, -1, -n, int64(r.Intn(int(n)))}))}
		},
		GenFail: func(r *fw.Rng, st *state, e env) []valuni.Val {
			n := int64(len(st.items))
			return []valuni.Val{iv(fw.Pick(r, []int64{n, n + 1, -n - 1, maxI, minI}))}
		}})
	add(&fnSpec{Name: "pick", Params: []param{p("xs", valuni.List(tStr)), p("i", tInt)}, Ret: tStr,
		Src: `fn pick(xs: [str], i: int) -> str {
    xs[i]
}`,
		Model: func(st *state, e env, a []valuni.Val) (valuni.Val, *failure) {
			i, n := a[1].I, int64(len(a[0].Elems))
			if i < 0 {
				i += n
			}
			if i < 0 || i >= n {
				return valuni.Val{}, &failure{Kind: "IndexOutOfBounds"}
			}
			return a[0].Elems[i], nil
		},
		GenOK: func(r *fw.Rng, st *state, e env) []valuni.Val {
			n := 1 + r.Intn(3)
			l := valuni.Val{K: valuni.VList}
			for i := 0; i < n; i++ {
				l.Elems = append(l.Elems, pickStr(r))
			}
			return []valuni.Val{l, iv(fw.Pick(r, []int64{0, int64(n - 1), -1, int64(-n)}))}
		},
		GenFail: func(r *fw.Rng, st *state, e env) []valuni.Val {
			n := r.Intn(3)
			l := valuni.Val{K: valuni.VList, Elems: []valuni.Val{}}
			for i := 0; i < n; i++ {
				l.Elems = append(l.Elems, pickStr(r))
			}
			return []valuni.Val{l, iv(fw.Pick(r, []int64{int64(n), int64(-n - 1)}))}
		}})

	// ---- returns from inside loops / try / match ---------------------------------------------
	add(&fnSpec{Name: "first_ge", Params: []param{p("x", tInt)}, Ret: tInt, Reads: []string{"items"},
		Src: `fn first_ge(x: int) -> int {
    for v in items {
        if v >= x {
            return v;
        }
    }
    -1
}`,
		Model: func(st *state, e env, a []valuni.Val) (valuni.Val, *failure) {
			for _, v := range st.items {
				if v >= a[0].I {
					return iv(v), nil
				}
			}
			return iv(-1), nil
		},
		GenOK: gen(pickInt), Weight: 3})
	add(&fnSpec{Name: "loop_ret", Params: []param{p("n", tInt)}, Ret: tInt,
		Src: `fn loop_ret(n: int) -> int {
    let i = 0;
    loop {
        i += 1;
        if i >= n {
            return i * 2;
        }
        if i > 100000 {
            break;
        }
    }
    -1
}`,
		Model: func(st *state, e env, a []valuni.Val) (valuni.Val, *failure) {
			n := a[0].I
			if n <= 1 {
				return iv(2), nil
			}
			return iv(n * 2), nil
		},
		GenOK: func(r *fw.Rng, st *state, e env) []valuni.Val {
			return []valuni.Val{iv(fw.Pick(r, []int64{-5, 0, 1, 2, 7, 60, 300, minI}))}
		}})
	add(&fnSpec{Name: "while_ret", Params: []param{p("n", tInt)}, Ret: tInt,
		Src: `fn while_ret(n: int) -> int {
    let i = 0;
    while true {
        if i * i >= n {
            return i;
        }
        i += 1;
    }
    -1
}`,
		Model: func(st *state, e env, a []valuni.Val) (valuni.Val, *failure) {
			var i int64
			for i*i < a[0].I {
				i++
			}
			return iv(i), nil
		},
		GenOK: func(r *fw.Rng, st *state, e env) []valuni.Val {
			return []valuni.Val{iv(fw.Pick(r, []int64{minI, -1, 0, 1, 2, 10, 100, 101, 5000}))}
		}})
	add(&fnSpec{Name: "try_ret", Params: []param{p("x", tInt)}, Ret: tInt,
		Src: `fn try_ret(x: int) -> int {
    try {
        if x > 0 {
            return x;
        }
        throw("neg");
    } catch _e {
        return 0 - x;
    }
}`,
		Model: func(st *state, e env, a []valuni.Val) (valuni.Val, *failure) {
			if a[0].I > 0 {
				return a[0], nil
			}
			return iv(0 - a[0].I), nil
		},
		GenOK: gen(pickInt), Weight: 3})
	add(&fnSpec{Name: "match_ret", Params: []param{p("x", tInt)}, Ret: tStr,
		Src: `fn match_ret(x: int) -> str {
    match x {
        0 => { return "zero"; },
        1 => "one",
        _ => "many",
    }
}`,
		Model: func(st *state, e env, a []valuni.Val) (valuni.Val, *failure) {
			switch a[0].I {
			case 0:
				return sv("zero"), nil
			case 1:
				return sv("one"), nil
			}
			return sv("many"), nil
		},
		GenOK: gen(pickSmall)})
	add(&fnSpec{Name: "nest_ret", Params: []param{p("x", tInt)}, Ret: tInt,
		Src: `fn nest_ret(x: int) -> int {
    for i in 0..10 {
        try {
            let j = 0;
            while j < 10 {
                if i * 10 + j == x {
                    return i * 100 + j;
                }
                j += 1;
            }
        } catch _e {
            return -2;
        }
    }
    -1
}`,
		Model: func(st *state, e env, a []valuni.Val) (valuni.Val, *failure) {
			x := a[0].I
			if x >= 0 && x <= 99 {
				return iv((x/10)*100 + x%10), nil
			}
			return iv(-1), nil
		},
		GenOK: func(r *fw.Rng, st *state, e env) []valuni.Val {
			return []valuni.Val{iv(fw.Pick(r, []int64{0, 9, 10, 37, 99, 100, -1, maxI}))}
		}})
	add(&fnSpec{Name: "after_try", Params: []param{p("x", tInt)}, Ret: tInt,
		Src: `fn after_try(x: int) -> int {
    let y = 0;
    try {
        y = x + 1;
    } catch _e {
        return -1;
    }
    if x == 13 {
        throw("unlucky");
    }
    y
}`,
		Model: func(st *state, e env, a []valuni.Val) (valuni.Val, *failure) {
			if a[0].I == 13 {
				return valuni.Val{}, &failure{Kind: "UncaughtThrow", Msg: "unlucky"}
			}
			return iv(a[0].I + 1), nil
		},
		GenOK:   gen(pickInt),
		GenFail: func(r *fw.Rng, st *state, e env) []valuni.Val { return []valuni.Val{iv(13)} }})

	// ---- catching internally -----------------------------------------------------------------
	add(&fnSpec{Name: "safe_div", Params: []param{p("a", tInt), p("b", tInt)}, Ret: tInt,
		Src: `fn safe_div(a: int, b: int) -> int {
    try {
        if b == 0 {
            throw("div0");
        }
        a / b
    } catch _e {
        -1
    }
}`,
		Model: func(st *state, e env, a []valuni.Val) (valuni.Val, *failure) {
			if a[1].I == 0 {
				return iv(-1), nil
			}
			return iv(goDiv(a[0].I, a[1].I)), nil
		},
		GenOK: gen(pickInt, pickInt), Weight: 3})
	add(&fnSpec{Name: "unwrap_or_neg", Params: []param{p("o", valuni.Opt(tInt))}, Ret: tInt,
		Src: `fn unwrap_or_neg(o: ?int) -> int {
    try {
        o.unwrap()
    } catch _e {
        -7
    }
}`,
		Model: func(st *state, e env, a []valuni.Val) (valuni.Val, *failure) {
			if a[0].K == valuni.VNone {
				return iv(-7), nil
			}
			return *a[0].Inner, nil
		},
		GenOK: gen(pickOptInt)})
	add(&fnSpec{Name: "catch_deep", Params: []param{p("n", tInt)}, Ret: tInt,
		Src: `fn thrower(n: int) -> int {
    if n <= 0 {
        throw("deep");
    }
    thrower(n - 1) + 1
}

fn catch_deep(n: int) -> int {
    let keep = n * 3;
    let r = try {
        thrower(n)
    } catch e {
        e.message.len()
    };
    r + keep
}`,
		Model: func(st *state, e env, a []valuni.Val) (valuni.Val, *failure) { return iv(4 + a[0].I*3), nil },
		GenOK: func(r *fw.Rng, st *state, e env) []valuni.Val {
			return []valuni.Val{iv(fw.Pick(r, []int64{-1, 0, 1, 2, 5, 40}))}
		}, Weight: 3})

	// ---- failing calls -----------------------------------------------------------------------
	add(&fnSpec{Name: "fail", Params: []param{p("msg", tStr)}, Ret: tNull, Reads: []string{"cnt"}, Writes: []string{"cnt"},
		Src: `fn fail(msg: str) {
    cnt += 100;
    throw(msg);
}`,
		Model: func(st *state, e env, a []valuni.Val) (valuni.Val, *failure) {
			st.cnt += 100
			return valuni.Val{}, &failure{Kind: "UncaughtThrow", Msg: a[0].S}
		},
		GenFail: gen(pickStr)})
	add(&fnSpec{Name: "fail_if", Params: []param{p("x", tInt)}, Ret: tInt,
		Src: `fn fail_if(x: int) -> int {
    if x < 0 {
        throw("negative");
    }
    x
}`,
		Model: func(st *state, e env, a []valuni.Val) (valuni.Val, *failure) {
			if a[0].I < 0 {
				return valuni.Val{}, &failure{Kind: "UncaughtThrow", Msg: "negative"}
			}
			return a[0], nil
		},
		GenOK: func(r *fw.Rng, st *state, e env) []valuni.Val {
			return []valuni.Val{iv(fw.Pick(r, []int64{0, 1, 64, maxI}))}
		},
		GenFail: func(r *fw.Rng, st *state, e env) []valuni.Val {
			return []valuni.Val{iv(fw.Pick(r, []int64{-1, -2, minI}))}
		}})
	add(&fnSpec{Name: "fail_deep", Params: []param{p("n", tInt)}, Ret: tInt,
		Src: `fn fail_deep(n: int) -> int {
    let r = thrower(n);
    r
}`,
		Model: func(st *state, e env, a []valuni.Val) (valuni.Val, *failure) {
			return valuni.Val{}, &failure{Kind: "UncaughtThrow", Msg: "deep"}
		},
		GenFail: func(r *fw.Rng, st *state, e env) []valuni.Val {
			return []valuni.Val{iv(fw.Pick(r, []int64{0, 1, 3, 30}))}
		}})
	add(&fnSpec{Name: "fail_in_try_loop", Params: []param{p("n", tInt)}, Ret: tInt, Reads: []string{"cnt"}, Writes: []string{"cnt"},
		Src: `fn fail_in_try_loop(n: int) -> int {
    let i = 0;
    while i < n {
        try {
            cnt += 1;
            if i == 2 {
                let z = i - 2;
                return 10 / z;
            }
        } catch _e {
            return -1;
        }
        i += 1;
    }
    i
}`,
		Model: func(st *state, e env, a []valuni.Val) (valuni.Val, *failure) {
			var i int64
			for i < a[0].I {
				st.cnt++
				if i == 2 {
					return valuni.Val{}, &failure{Kind: "ValueError"}
				}
				i++
			}
			return iv(i), nil
		},
		GenOK: func(r *fw.Rng, st *state, e env) []valuni.Val {
			return []valuni.Val{iv(fw.Pick(r, []int64{-1, 0, 1, 2}))}
		},
		GenFail: func(r *fw.Rng, st *state, e env) []valuni.Val { return []valuni.Val{iv(fw.Pick(r, []int64{3, 4, 50}))} }})
	add(&fnSpec{Name: "div", Params: []param{p("a", tInt), p("b", tInt)}, Ret: tInt,
		Src: `fn div(a: int, b: int) -> int {
    a / b
}`,
		Model: func(st *state, e env, a []valuni.Val) (valuni.Val, *failure) {
			if a[1].I == 0 {
				return valuni.Val{}, &failure{Kind: "ValueError"}
			}
			return iv(goDiv(a[0].I, a[1].I)), nil
		},
		GenOK: func(r *fw.Rng, st *state, e env) []valuni.Val {
			b := pickInt(r)
			if b.I == 0 {
				b = iv(-1)
			}
			return []valuni.Val{pickInt(r), b}
		},
		GenFail: func(r *fw.Rng, st *state, e env) []valuni.Val { return []valuni.Val{pickInt(r), iv(0)} }})
	add(&fnSpec{Name: "depth", Params: []param{p("n", tInt)}, Ret: tInt,
		Src: `fn depth(n: int) -> int {
    if n == 0 {
        0
    } else {
        depth(n - 1) + 1
    }
}`,
		Model: func(st *state, e env, a []valuni.Val) (valuni.Val, *failure) {
			n := a[0].I
			if n < 0 || n > e.callStackMax/2 {
				// the generator never asks for depths between callStackMax/2 and 2*callStackMax
				return valuni.Val{}, &failure{Kind: "StackOverFlow"}
			}
			return iv(n), nil
		},
		GenOK: func(r *fw.Rng, st *state, e env) []valuni.Val {
			return []valuni.Val{iv(fw.Pick(r, []int64{0, 1, 3, e.callStackMax / 4, e.callStackMax / 2}))}
		},
		GenFail: func(r *fw.Rng, st *state, e env) []valuni.Val {
			return []valuni.Val{iv(fw.Pick(r, []int64{e.callStackMax * 2, e.callStackMax * 20, -1}))}
		}})

	// ---- every return type kind ----------------------------------------------------------------
	add(&fnSpec{Name: "scale", Params: []param{p("f", tFloat)}, Ret: tFloat, Reads: []string{"ratio"}, Writes: []string{"ratio"},
		Src: `fn scale(f: float) -> float {
    ratio = ratio * f;
    ratio
}`,
		Model: func(st *state, e env, a []valuni.Val) (valuni.Val, *failure) {
			st.ratio = st.ratio * float64(a[0].F)
			return fv(st.ratio), nil
		},
		GenOK: func(r *fw.Rng, st *state, e env) []valuni.Val {
			return []valuni.Val{fv(fw.Pick(r, []float64{0.5, 2, -1.5, 0, negZero(), 1e10, 1.0 / 3.0, 5e-324}))}
		}, Weight: 3})
	add(&fnSpec{Name: "rename", Params: []param{p("s", tStr)}, Ret: tStr, Reads: []string{"name"}, Writes: []string{"name"},
		Src: `fn rename(s: str) -> str {
    let old = name;
    name = s;
    old
}`,
		Model: func(st *state, e env, a []valuni.Val) (valuni.Val, *failure) {
			old := st.name
			st.name = a[0].S
			return sv(old), nil
		},
		GenOK: gen(pickStr), Weight: 3})
	add(&fnSpec{Name: "toggle", Ret: tBool, Reads: []string{"flag"}, Writes: []string{"flag"},
		Src: `fn toggle() -> bool {
    flag = !flag;
    flag
}`,
		Model: func(st *state, e env, a []valuni.Val) (valuni.Val, *failure) {
			st.flag = !st.flag
			return bv(st.flag), nil
		},
		GenOK: gen(), Weight: 3})
	add(&fnSpec{Name: "remember", Params: []param{p("o", valuni.Opt(tInt))}, Ret: valuni.Opt(tInt), Reads: []string{"last"}, Writes: []string{"last"},
		Src: `fn remember(o: ?int) -> ?int {
    let old = last;
    last = o;
    old
}`,
		Model: func(st *state, e env, a []valuni.Val) (valuni.Val, *failure) {
			old := optI(st.last)
			if a[0].K == valuni.VNone {
				st.last = nil
			} else {
				x := a[0].Inner.I
				st.last = &x
			}
			return old, nil
		},
		GenOK: gen(pickOptInt), Weight: 3})
	add(&fnSpec{Name: "snapshot", Ret: tSnap, Reads: []string{"cnt", "name", "items", "flag"},
		Src: `fn snapshot() -> { cnt: int, name: str, n: int, flag: bool } {
    new { cnt: cnt, name: name, n: items.len(), flag: flag }
}`,
		Model: func(st *state, e env, a []valuni.Val) (valuni.Val, *failure) {
			return valuni.ObjV(valuni.KV{K: "cnt", V: iv(st.cnt)}, valuni.KV{K: "name", V: sv(st.name)}, valuni.KV{K: "n", V: iv(int64(len(st.items)))}, valuni.KV{K: "flag", V: bv(st.flag)}), nil
		},
		GenOK: gen(), Weight: 4})
	add(&fnSpec{Name: "as_any", Ret: valuni.AnyObj(), Reads: []string{"cnt", "name"}, Tag: tagRetAnyObj,
		Src: `fn as_any() -> { ? } {
    new { cnt: cnt, name: name } as { ? }
}`,
		Model: func(st *state, e env, a []valuni.Val) (valuni.Val, *failure) {
			return valuni.AnyObjV(valuni.KV{K: "cnt", V: iv(st.cnt)}, valuni.KV{K: "name", V: sv(st.name)}), nil
		},
		GenOK: gen()})
	add(&fnSpec{Name: "opts", Ret: valuni.List(valuni.Opt(tInt)), Reads: []string{"cnt", "last"},
		Src: `fn opts() -> [?int] {
    let n: ?int = none;
    [last, ?cnt, n]
}`,
		Model: func(st *state, e env, a []valuni.Val) (valuni.Val, *failure) {
			return valuni.ListV(optI(st.last), valuni.SomeV(iv(st.cnt)), valuni.NoneV()), nil
		},
		GenOK: gen()})
	add(&fnSpec{Name: "opt_cfg", Params: []param{p("want", tBool)}, Ret: valuni.Opt(tCfg), Reads: []string{"cfg"},
		Src: `fn opt_cfg(want: bool) -> ?{ a: int, b: str } {
    if want {
        ?cfg
    } else {
        none
    }
}`,
		Model: func(st *state, e env, a []valuni.Val) (valuni.Val, *failure) {
			if a[0].B {
				return valuni.SomeV(cfgVal(st.cfgA, st.cfgB)), nil
			}
			return valuni.NoneV(), nil
		},
		GenOK: gen(pickBool)})
	add(&fnSpec{Name: "set_cfg", Params: []param{p("c", tCfg)}, Ret: tInt, Reads: []string{"cfg"}, Writes: []string{"cfg"},
		Src: `fn set_cfg(c: { a: int, b: str }) -> int {
    let old = cfg.a;
    cfg = c;
    old
}`,
		Model: func(st *state, e env, a []valuni.Val) (valuni.Val, *failure) {
			old := st.cfgA
			x, _ := a[0].Get("a")
			y, _ := a[0].Get("b")
			st.cfgA, st.cfgB = x.I, y.S
			return iv(old), nil
		},
		GenOK: func(r *fw.Rng, st *state, e env) []valuni.Val {
			return []valuni.Val{cfgVal(pickInt(r).I, pickStr(r).S)}
		}})
	add(&fnSpec{Name: "cfg_b", Ret: tStr, Reads: []string{"cfg"},
		Src: `fn cfg_b() -> str {
    cfg.b
}`,
		Model: func(st *state, e env, a []valuni.Val) (valuni.Val, *failure) { return sv(st.cfgB), nil },
		GenOK: gen()})
	add(&fnSpec{Name: "any_size", Params: []param{p("o", valuni.AnyObj())}, Ret: tInt,
		Src: `fn any_size(o: { ? }) -> int {
    o.keys().len()
}`,
		Model: func(st *state, e env, a []valuni.Val) (valuni.Val, *failure) { return iv(int64(len(a[0].Keys))), nil },
		GenOK: func(r *fw.Rng, st *state, e env) []valuni.Val {
			n := r.Intn(4)
			var kvs []valuni.KV
			for i := 0; i < n; i++ {
				var v valuni.Val
				switch r.Intn(3) {
				case 0:
					v = pickInt(r)
				case 1:
					v = pickStr(r)
				default:
					v = pickIntList(r)
				}
				kvs = append(kvs, valuni.KV{K: fmt.Sprintf("k%d", i), V: v})
			}
			return []valuni.Val{valuni.AnyObjV(kvs...)}
		}})
	add(&fnSpec{Name: "nothing", Ret: tNull,
		Src: `fn nothing() {
}`,
		Model: func(st *state, e env, a []valuni.Val) (valuni.Val, *failure) { return valuni.NullV(), nil },
		GenOK: gen(), Weight: 1})
	add(&fnSpec{Name: "name_len", Ret: tInt, Reads: []string{"name"},
		Src: `fn name_len() -> int {
    name.len()
}`,
		Model: func(st *state, e env, a []valuni.Val) (valuni.Val, *failure) { return iv(utf8Len(st.name)), nil },
		GenOK: gen()})

	// ---- trigger variant: annotation argument function + event function -----------------------
	add(&fnSpec{Name: "tick", Only: "trigger", Params: []param{p("elapsed", tInt)}, Ret: tNull, Reads: []string{"cnt"}, Writes: []string{"cnt"},
		Src: `#[trigger in minute(cnt * 20 + 3)]
event fn tick(elapsed: int) {
    cnt = cnt + elapsed;
}`,
		Model: func(st *state, e env, a []valuni.Val) (valuni.Val, *failure) {
			st.cnt += a[0].I
			return valuni.NullV(), nil
		},
		GenOK: gen(pickInt)})
	add(&fnSpec{Name: annotFn, Only: "trigger", Literal: true, RetAny: true, Ret: valuni.List(tInt), Reads: []string{"cnt"},
		Model: func(st *state, e env, a []valuni.Val) (valuni.Val, *failure) {
			return valuni.ListV(iv(st.cnt*20 + 3)), nil
		},
		GenOK: gen()})

	// ---- spawn variant -------------------------------------------------------------------------
	add(&fnSpec{Name: "fanout_fail", Only: "spawn", Ret: tNull, Tag: tagSpawnFail,
		Src: `fn spin() {
    loop {
    }
}

fn fanout_fail() {
    spawn spin();
    spawn spin();
    throw("boom");
}`,
		Model: func(st *state, e env, a []valuni.Val) (valuni.Val, *failure) {
			return valuni.Val{}, &failure{Kind: "UncaughtThrow", Msg: "boom"}
		},
		GenFail: gen()})

	// ---- loops over places of stored data, left early (the iterator must not live in the stored value) ----
	add(&fnSpec{Name: "book_first_ge", Params: []param{p("x", tInt)}, Ret: tInt,
		Src: `fn book_first_ge(x: int) -> int {
    for v in book.rows {
        if v >= x {
            return v;
        }
    }
    -1
}`,
		Model: func(st *state, e env, a []valuni.Val) (valuni.Val, *failure) {
			for _, v := range bookRows {
				if v >= a[0].I {
					return iv(v), nil
				}
			}
			return iv(-1), nil
		},
		GenOK: func(r *fw.Rng, st *state, e env) []valuni.Val {
			return []valuni.Val{iv(fw.Pick(r, []int64{0, 5, 6, 9, 10, -3}))}
		}, Weight: 3})
	add(&fnSpec{Name: "grid_count_until", Params: []param{p("row", tInt), p("stop", tInt)}, Ret: tInt,
		Src: `fn grid_count_until(row: int, stop: int) -> int {
    let n = 0;
    for v in grid[row] {
        if v == stop {
            break;
        }
        n += 1;
    }
    n
}`,
		Model: func(st *state, e env, a []valuni.Val) (valuni.Val, *failure) {
			var n int64
			for _, v := range gridRows[a[0].I] {
				if v == a[1].I {
					break
				}
				n++
			}
			return iv(n), nil
		},
		GenOK: func(r *fw.Rng, st *state, e env) []valuni.Val {
			return []valuni.Val{iv(fw.Pick(r, []int64{0, 1, 2})), iv(fw.Pick(r, []int64{1, 5, 7, 2, 8, 99}))}
		}, Weight: 3})

	// ---- exceptions raised and caught in the same activation with operands pending -----------------
	add(&fnSpec{Name: "try_mid", Params: []param{p("x", tInt)}, Ret: tInt,
		Src: `fn try_mid(x: int) -> int {
    let r = try {
        100 + {
            if x == 0 {
                throw("zero");
            }
            10 / x
        }
    } catch _e {
        -1
    };
    r * 2
}`,
		Model: func(st *state, e env, a []valuni.Val) (valuni.Val, *failure) {
			return iv(tryMid(a[0].I)), nil
		},
		GenOK: func(r *fw.Rng, st *state, e env) []valuni.Val {
			return []valuni.Val{iv(fw.Pick(r, []int64{0, 0, 1, 3, -2, 11}))}
		}, Weight: 3})
	add(&fnSpec{Name: "sum_try_mid", Params: []param{p("n", tInt)}, Ret: tInt,
		Src: `fn sum_try_mid(n: int) -> int {
    let s = 7;
    let i = 0;
    while i < n {
        s = s * 3 + try_mid(i % 3);
        i += 1;
    }
    s
}`,
		Model: func(st *state, e env, a []valuni.Val) (valuni.Val, *failure) {
			s := int64(7)
			for i := int64(0); i < a[0].I; i++ {
				s = s*3 + tryMid(i%3)
			}
			return iv(s), nil
		},
		GenOK: func(r *fw.Rng, st *state, e env) []valuni.Val {
			return []valuni.Val{iv(fw.Pick(r, []int64{0, 1, 2, 4, 9, 30}))}
		}, Weight: 2})

	// ---- leaky variant (open finding of C11: exit out of an operand position) -------------------
	add(&fnSpec{Name: "leaky", Only: "leaky", Params: []param{p("x", tInt)}, Ret: tInt, Tag: tagExprExit,
		Src: `fn leaky(x: int) -> int {
    let r = 1000 + {
        if x > 0 {
            return x;
        }
        2
    };
    r
}`,
		Model: func(st *state, e env, a []valuni.Val) (valuni.Val, *failure) {
			if a[0].I > 0 {
				return a[0], nil
			}
			return iv(1002), nil
		},
		GenOK: func(r *fw.Rng, st *state, e env) []valuni.Val {
			return []valuni.Val{iv(fw.Pick(r, []int64{5, 1, maxI, 0, -3}))}
		}, Weight: 6})
	add(&fnSpec{Name: "leaky_loop", Only: "leaky", Params: []param{p("n", tInt)}, Ret: tInt, Tag: tagExprExit,
		Src: `fn leaky_loop(n: int) -> int {
    let s = 0;
    let i = 0;
    while i < n {
        i += 1;
        s = s + 100 * {
            if i % 3 == 0 {
                continue;
            }
            if i > 7 {
                break;
            }
            i
        };
    }
    s
}`,
		Model: func(st *state, e env, a []valuni.Val) (valuni.Val, *failure) {
			var s int64
			for i := int64(1); i <= a[0].I; i++ {
				if i%3 == 0 {
					continue
				}
				if i > 7 {
					break
				}
				s += 100 * i
			}
			return iv(s), nil
		},
		GenOK: func(r *fw.Rng, st *state, e env) []valuni.Val {
			return []valuni.Val{iv(fw.Pick(r, []int64{0, 2, 3, 7, 12, 400}))}
		}, Weight: 4})

	addStoredIterSpecs(add)
	addRelaySpecs(add)
	addExitSpecs(add)
	addOutSpecs(add)
	addSingletonSpecs(add)
	addFreshSpecs(add)
	return out
}

// annotFn is the literal name the compiler gives to the argument function of tick's trigger annotation.
const annotFn = "TRIGGER_args_for_tick"

var (
	bookRows = []int64{5, 1, 9, 4}
	gridRows = [][]int64{{1, 5}, {7, 2, 8}, {4}}
)

func tryMid(x int64) int64 {
	if x == 0 {
		return -2
	}
	return (100 + goDiv(10, x)) * 2
}

func goDiv(a, b int64) int64 {
	if b == -1 {
		return -a // two's complement: MinInt64 / -1 wraps to MinInt64 (Go would do the same at run time)
	}
	return a / b
}

var specByName = func() map[string]*fnSpec {
	m := map[string]*fnSpec{}
	for _, s := range specs {
		if _, dup := m[s.Name]; dup {
			panic("c16: duplicate spec " + s.Name)
		}
		m[s.Name] = s
	}
	return m
}()

func (v Variant) has(feature string) bool {
	switch feature {
	case "":
		return true
	case "trigger":
		return v.Trigger
	case "spawn":
		return v.Spawn
	case "leaky":
		return v.Leaky
	case "relay":
		return v.Relay
	case "exits":
		return v.Exits
	case "out":
		return v.Out
	case "single":
		return v.Single
	case "fresh":
		return v.Fresh
	case "fresh-any":
		return v.FreshAny
	}
	return false
}

// enabled lists the specs of a variant in canonical order.
func (v Variant) enabled() []*fnSpec {
	var out []*fnSpec
	for _, s := range specs {
		if v.has(s.Only) {
			out = append(out, s)
		}
	}
	return out
}

// Source renders the service program of a variant.
func (v Variant) Source() string {
	var sb strings.Builder
	if v.Trigger {
		sb.WriteString("import trigger minute from triggers;\n\n")
	}
	sb.WriteString(globalsSource(v.Init))
	if v.Exits {
		sb.WriteString(exitGlobals)
	}
	if v.Single {
		sb.WriteString(singletonDefs)
	}
	sb.WriteString("\n")
	var parts []string
	for _, s := range v.enabled() {
		if s.Src != "" {
			parts = append(parts, s.Src)
		}
	}
	sort.Strings(parts) // canonical before shuffling
	r := fw.NewRng(v.Order)
	for i := len(parts) - 1; i > 0; i-- {
		j := r.Intn(i + 1)
		parts[i], parts[j] = parts[j], parts[i]
	}
	sb.WriteString(strings.Join(parts, "\n\n"))
	sb.WriteString("\n")
	return sb.String()
}
