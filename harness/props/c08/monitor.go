package c08

// The span monitor of C08: well-formedness of a reported position against the text of the file it
// names, rendering under recover, and containment helpers. It shares no code with /repo: positions
// are recomputed from the text with the rune/line rules of grammar.ebnf as implemented by the
// independent reference lexer (lexref.PosTable).

import (
	"fmt"
	"regexp"
	"strings"

	"github.com/smarthome-go/homescript/v3/homescript/diagnostic"
	herrors "github.com/smarthome-go/homescript/v3/homescript/errors"
	"github.com/smarthome-go/homescript/v3/homescript/optimizer"

	"hv/drive"
	"hv/fw"
	"hv/lexref"
	"hv/util"
)

// textInfo is the position table of one module text.
type textInfo struct {
	text  string
	runes []rune
	pos   []lexref.Pos // pos[i] = position of rune i; pos[len] = position just after the text
	// lineStart[l-1] = rune index of the first rune of line l; lineLen[l-1] = runes of line l without its LF
	lineStart []int
	lineLen   []int
	lines     []string // strings.Split(text, "\n"): what the renderers show
}

func newTextInfo(text string) *textInfo {
	ti := &textInfo{text: text, runes: []rune(text)}
	ti.pos = lexref.PosTable(ti.runes)
	ti.lineStart = []int{0}
	for i, r := range ti.runes {
		if r == '\n' {
			ti.lineLen = append(ti.lineLen, i-ti.lineStart[len(ti.lineStart)-1])
			ti.lineStart = append(ti.lineStart, i+1)
		}
	}
	ti.lineLen = append(ti.lineLen, len(ti.runes)-ti.lineStart[len(ti.lineStart)-1])
	ti.lines = strings.Split(text, "\n")
	return ti
}

// rng is an inclusive range of rune indices (the culprit of a constructed fault).
type rng struct {
	From, To int
}

func (r rng) String() string { return fmt.Sprintf("[%d..%d]", r.From, r.To) }

// locDefect classifies one location against the text; "" means the location is a real position of
// the text (a rune of it, a line end, or the position just after the last rune).
func (ti *textInfo) locDefect(l herrors.Location) string {
	nLines := len(ti.lineStart)
	switch {
	case l.Line == 0:
		return "zero-line"
	case int(l.Line) > nLines:
		return "span-past-eof"
	case l.Column == 0:
		return "zero-column"
	}
	ll := ti.lineLen[l.Line-1]
	if int(l.Column) > ll+1 {
		if int(l.Line) == nLines {
			return "span-past-eof"
		}
		return "column-past-eol"
	}
	if int(l.Index) != ti.lineStart[l.Line-1]+int(l.Column)-1 {
		return "index-inconsistent"
	}
	return ""
}

func isZeroLoc(l herrors.Location) bool { return l.Line == 0 && l.Column == 0 && l.Index == 0 }

// isWholeFile: the explicit whole-file position of this code base is errors.Span{Filename: f}: all
// six numeric fields zero (analyzer.analyzeModule reports "Missing 'main' function" this way and
// diagnostic.Diagnostic.Display renders it as "<level> in <file>" without a source excerpt).
func isWholeFile(sp herrors.Span) bool { return isZeroLoc(sp.Start) && isZeroLoc(sp.End) }

var (
	reQuoted   = regexp.MustCompile(`'[^']*'`)
	reBacktick = regexp.MustCompile("`[^`]*`")
	reDigits   = regexp.MustCompile(`[0-9]+`)
	reGoErr    = regexp.MustCompile(`: (strconv|json|invalid|unexpected).*$`)
	reFoundRaw = regexp.MustCompile(`(found|got) [^' ]+$`)
)

// msgClass strips identifiers, literals and numbers from a message: 'x' -> '_' (the token kind EOF is
// kept because failures at end of input are a class of their own), `x` -> `_`, digits -> N.
func msgClass(m string) string {
	m = drive.FirstLine(m)
	m = reGoErr.ReplaceAllString(m, ": <go-error>")
	m = reQuoted.ReplaceAllStringFunc(m, func(s string) string {
		if s == "'EOF'" {
			return s
		}
		return "'_'"
	})
	m = reBacktick.ReplaceAllString(m, "`_`")
	if !strings.HasSuffix(m, "EOF") {
		m = reFoundRaw.ReplaceAllString(m, "$1 _")
	}
	m = reDigits.ReplaceAllString(m, "N")
	if strings.HasPrefix(m, "illegal character: ") {
		m = "illegal character: _"
	}
	if len(m) > 70 {
		m = m[:70]
	}
	return m
}

func fmtSpan(sp herrors.Span) string {
	return fmt.Sprintf("%q %d:%d(@%d)-%d:%d(@%d)", sp.Filename, sp.Start.Line, sp.Start.Column, sp.Start.Index, sp.End.Line, sp.End.Column, sp.End.Index)
}

// monitor accumulates the verdicts of one case.
type monitor struct {
	src   drive.Sources
	info  map[string]*textInfo
	viol  []fw.SubViolation
	seen  map[string]bool // dedupe identical (sig, span) reports inside one case
	evals int64
	cover map[string]bool
	obs   map[string]int64
	// context for messages
	ctx string
}

func newMonitor(src drive.Sources, ctx string) *monitor {
	return &monitor{src: src, info: map[string]*textInfo{}, seen: map[string]bool{}, cover: map[string]bool{}, obs: map[string]int64{}, ctx: ctx}
}

func (m *monitor) ti(file string) *textInfo {
	if t, ok := m.info[file]; ok {
		return t
	}
	text, ok := m.src[file]
	if !ok {
		return nil
	}
	t := newTextInfo(text)
	m.info[file] = t
	return t
}

func (m *monitor) fail(sig, why string, detail any) {
	key := sig + "\x00" + why
	if m.seen[key] {
		return
	}
	m.seen[key] = true
	m.viol = append(m.viol, fw.SubViolation{Sig: sig, Why: why + " | " + m.ctx, Detail: detail})
}

// spanStatus is the result of the well-formedness check.
type spanStatus struct {
	Whole  bool // explicit whole-file position of an existing module
	Inside bool // both ends are real positions of the named text and start is not after end
	ti     *textInfo
}

// checkSpan judges well-formedness of one reported span. origin is syntax|diag|hint|vm|tree|caught,
// class the message class of the report.
func (m *monitor) checkSpan(origin, class string, sp herrors.Span) spanStatus {
	m.evals++
	m.obs["spans"]++
	var st spanStatus
	where := fmt.Sprintf("%s span %s of %q", origin, fmtSpan(sp), class)
	if sp.Filename == "" {
		if isWholeFile(sp) {
			m.fail(fmt.Sprintf("%s:no-position:%s", origin, class), where+": all-zero span without a file name (names no file at all)", nil)
		} else {
			m.fail(fmt.Sprintf("%s:no-filename:%s", origin, class), where+": position without a file name", nil)
		}
		return st
	}
	ti := m.ti(sp.Filename)
	if ti == nil {
		m.fail(fmt.Sprintf("%s:unknown-file:%s", origin, class), where+": the named file is not a module of the source set "+fmt.Sprint(drive.SortedKeys(m.src)), nil)
		return st
	}
	st.ti = ti
	if isWholeFile(sp) {
		st.Whole = true
		m.cover["pos:whole-file"] = true
		return st
	}
	ds, de := ti.locDefect(sp.Start), ti.locDefect(sp.End)
	if ds != "" || de != "" {
		d := ds
		which := "start"
		if d == "" {
			d, which = de, "end"
		}
		m.fail(fmt.Sprintf("%s:%s:%s", origin, d, class), fmt.Sprintf("%s: %s is not a position of the text of %q (%d runes, %d lines; line %d has %d runes)", where, which, sp.Filename, len(ti.runes), len(ti.lineStart), lineOf(sp, which), ti.lineLenOf(lineOf(sp, which))), nil)
		return st
	}
	if sp.Start.Index > sp.End.Index || sp.Start.Line > sp.End.Line || (sp.Start.Line == sp.End.Line && sp.Start.Column > sp.End.Column) {
		m.fail(fmt.Sprintf("%s:end-before-start:%s", origin, class), where+": start is after end", nil)
		return st
	}
	st.Inside = true
	switch {
	case int(sp.Start.Index) == len(ti.runes):
		m.cover["pos:eof"] = true
	case sp.Start.Line != sp.End.Line:
		m.cover["pos:multi-line"] = true
	default:
		m.cover["pos:single-line"] = true
	}
	if sp.Start.Line > 1 {
		m.cover["pos:line>1"] = true
	}
	if int(sp.Start.Index) < len(ti.runes) && len(string(ti.runes[:sp.Start.Index])) != int(sp.Start.Index) {
		m.cover["pos:after-multibyte"] = true
	}
	return st
}

func lineOf(sp herrors.Span, which string) uint {
	if which == "start" {
		return sp.Start.Line
	}
	return sp.End.Line
}

func (ti *textInfo) lineLenOf(l uint) int {
	if l == 0 || int(l) > len(ti.lineLen) {
		return -1
	}
	return ti.lineLen[l-1]
}

// render calls the real renderer under recover. site is errors.Error.Display or
// diagnostic.Diagnostic.Display.
func (m *monitor) render(site, origin, class string, sp herrors.Span, st spanStatus, f func(text string) string) {
	if st.ti == nil {
		return // no text to render against (already reported)
	}
	m.evals++
	m.obs["renders"]++
	var out string
	var pv any
	func() {
		defer func() { pv = recover() }()
		out = f(st.ti.text)
	}()
	if pv != nil {
		m.fail(fmt.Sprintf("render-panic:%s:%s", site, class),
			fmt.Sprintf("%s panicked (%s) for %s span %s of %q against the text of %q", site, util.Clip(fmt.Sprint(pv), 120), origin, fmtSpan(sp), class, sp.Filename),
			map[string]any{"panic": util.NormPanic(fmt.Sprint(pv))})
		return
	}
	if st.Inside {
		// a successful rendering shows the line the position names
		want := fmt.Sprintf("%- 3d | \x1b[0m%s\n", sp.Start.Line, st.ti.lines[sp.Start.Line-1])
		head := fmt.Sprintf("%s:%d:%d", sp.Filename, sp.Start.Line, sp.Start.Column)
		if !strings.Contains(out, want) || !strings.Contains(out, head) {
			m.fail(fmt.Sprintf("render-wrong-line:%s", site),
				fmt.Sprintf("%s rendered %s span %s without line %d of %q (%q)", site, origin, fmtSpan(sp), sp.Start.Line, sp.Filename, util.Clip(st.ti.lines[sp.Start.Line-1], 80)),
				map[string]any{"rendering": out})
		}
	}
	if st.Whole && !strings.Contains(out, sp.Filename) {
		m.fail(fmt.Sprintf("render-wrong-line:%s", site), fmt.Sprintf("%s rendered a whole-file position without the file name %q", site, sp.Filename), nil)
	}
}

// syntaxError monitors one syntax error: well-formedness + rendering.
func (m *monitor) syntaxError(e herrors.Error) spanStatus {
	class := msgClass(e.Message)
	st := m.checkSpan("syntax", class, e.Span)
	if st.Whole {
		// errors.Error has no whole-file form: Display has no such case. Still a legal position by
		// the property; rendering decides.
		m.cover["syntax:whole-file"] = true
	}
	m.render("errors.Error.Display", "syntax", class, e.Span, st, func(text string) string { return e.Display(text) })
	return st
}

func levelName(l diagnostic.DiagnosticLevel) string {
	switch l {
	case diagnostic.DiagnosticLevelHint:
		return "hint"
	case diagnostic.DiagnosticLevelInfo:
		return "info"
	case diagnostic.DiagnosticLevelWarning:
		return "warning"
	case diagnostic.DiagnosticLevelError:
		return "diag"
	}
	return fmt.Sprintf("level%d", l)
}

// diag monitors one diagnostic of any level.
func (m *monitor) diag(d diagnostic.Diagnostic) spanStatus {
	class := msgClass(d.Message)
	origin := levelName(d.Level)
	st := m.checkSpan(origin, class, d.Span)
	m.render("diagnostic.Diagnostic.Display", origin, class, d.Span, st, func(text string) string { return d.Display(text) })
	return st
}

// optimizerDiags runs the optimizer pass on an accepted program the way cmd/main.go does (only after
// an analysis without errors) and returns its diagnostics. A Go panic of the pass is not C08's
// business (C05/C19): it is returned as text.
func optimizerDiags(ao drive.AnalyzeOut) (ds []diagnostic.Diagnostic, panicked string) {
	if ao.Errors > 0 || ao.Modules == nil {
		return nil, ""
	}
	defer func() {
		if r := recover(); r != nil {
			ds, panicked = nil, util.Clip(fmt.Sprint(r), 200)
		}
	}()
	o := optimizer.NewOptimizer()
	_, ds = o.Optimize(ao.Modules)
	return ds, ""
}

// analysis monitors everything an analysis (and, for an accepted program, the optimizer pass that
// follows it) produced.
func (m *monitor) analysis(ao drive.AnalyzeOut) {
	for _, e := range ao.Syntax {
		m.syntaxError(e)
	}
	for _, d := range ao.Diags {
		m.diag(d)
	}
	m.obs["syntax_errors"] += int64(len(ao.Syntax))
	m.obs["diagnostics"] += int64(len(ao.Diags))
	od, _ := optimizerDiags(ao)
	for _, d := range od {
		m.diag(d)
	}
	m.obs["optimizer_diagnostics"] += int64(len(od))
}

// spanRange converts an inside span into an inclusive rune range.
func spanRange(sp herrors.Span) rng { return rng{int(sp.Start.Index), int(sp.End.Index)} }

func within(inner, outer rng) bool { return inner.From >= outer.From && inner.To <= outer.To }

// result folds the monitor into a fw.Result.
func (m *monitor) result(nontrivial bool) fw.Result {
	res := fw.Result{Verdict: fw.Held, Nontrivial: nontrivial, Evals: m.evals, Obs: m.obs}
	for k := range m.cover {
		res.Cover = append(res.Cover, k)
	}
	sortStrings(res.Cover)
	if len(m.viol) > 0 {
		res.Verdict = fw.Violated
		res.Why, res.Sig, res.Detail = m.viol[0].Why, m.viol[0].Sig, m.viol[0].Detail
		res.More = m.viol[1:]
	}
	if res.Evals == 0 {
		res.Evals = 1
	}
	return res
}
