package c08

// Workload 3b: runtime TYPE VALIDATION failures. A host-provided value of type `any` is checked
// against a static type at run time in two statement kinds: a `let` with a type annotation and an
// `as` cast. The failed check is a catchable exception whose position has to lie within the
// statement / cast expression that failed - not at the place where the type it was checked against
// was DEFINED. The family is the product
//
//	statement kind  x  how the type is written at the use site  x  base type  x  source of the any value
//
// where the type is written inline, through a local alias, an alias of an alias, an alias nested in
// an inline list / option / object type, an alias imported from another module (single and braced
// import) or a singleton type; the any value comes from parse_json, the testing host's any_func /
// any_list, or a member of an any-object. The culprit is the larger reading: the whole `let`
// statement resp. the whole cast expression.

import (
	"fmt"
	"strings"

	"hv/fw"
)

const valTypesModule = "c08types"

type valBase struct {
	Name string
	Type string // the type text
	Bad  string // JSON text of a value that does not fit
	Int  bool   // any_func() (= 42) fits the bare type
}

var valBases = []valBase{
	{Name: "int", Type: "int", Bad: `"x"`, Int: true},
	{Name: "obj", Type: "{ sensor: str, value: int }", Bad: `{"sensor": "attic", "value": "warm"}`},
	{Name: "list", Type: "[int]", Bad: `[1, "x"]`},
}

// valForm: how the checked type is written at the use site.
type valForm struct {
	Name string
	// Use returns the type text at the use site, the top-level text it needs, extra modules, and the
	// JSON text of a misfit value for that type.
	Use func(b valBase) (typ, top string, mods map[string]string, bad string)
	// Wraps: the bare base type is nested in another type (so an int never fits); List: in a list; Option: in an option
	Wraps, List, Option bool
}

func valAliasTop(b valBase) string { return "type C08T = " + b.Type + ";\n" }

var valForms = []valForm{
	{Name: "inline", Use: func(b valBase) (string, string, map[string]string, string) { return b.Type, "", nil, b.Bad }},
	{Name: "alias", Use: func(b valBase) (string, string, map[string]string, string) { return "C08T", valAliasTop(b), nil, b.Bad }},
	{Name: "alias-multiline", Use: func(b valBase) (string, string, map[string]string, string) {
		return "C08T", "type C08T =\n    " + b.Type + "\n;\n", nil, b.Bad
	}},
	{Name: "alias-chain", Use: func(b valBase) (string, string, map[string]string, string) {
		return "C08U", valAliasTop(b) + "type C08U = C08T;\n", nil, b.Bad
	}},
	{Name: "alias-in-list", Wraps: true, List: true, Use: func(b valBase) (string, string, map[string]string, string) {
		return "[C08T]", valAliasTop(b), nil, "[" + b.Bad + "]"
	}},
	{Name: "alias-in-option", Option: true, Use: func(b valBase) (string, string, map[string]string, string) {
		return "?C08T", valAliasTop(b), nil, b.Bad
	}},
	{Name: "alias-in-field", Wraps: true, Use: func(b valBase) (string, string, map[string]string, string) {
		return "{ f: C08T }", valAliasTop(b), nil, `{"f": ` + b.Bad + `}`
	}},
	{Name: "imported", Use: func(b valBase) (string, string, map[string]string, string) {
		return "C08T", "import type C08T from " + valTypesModule + ";\n",
			map[string]string{valTypesModule: "pub " + valAliasTop(b) + "fn main() {\n}\n"}, b.Bad
	}},
	{Name: "imported-braced", Use: func(b valBase) (string, string, map[string]string, string) {
		return "C08T", "import {\n    type C08Other,\n    type C08T,\n} from " + valTypesModule + ";\ntype C08Local = C08Other;\n",
			map[string]string{valTypesModule: "pub type C08Other = str;\npub " + valAliasTop(b) + "fn main() {\n}\n"}, b.Bad
	}},
	{Name: "imported-in-list", Wraps: true, List: true, Use: func(b valBase) (string, string, map[string]string, string) {
		return "[C08T]", "import type C08T from " + valTypesModule + ";\n",
			map[string]string{valTypesModule: "pub " + valAliasTop(b) + "fn main() {\n}\n"}, "[" + b.Bad + "]"
	}},
	{Name: "singleton", Use: func(b valBase) (string, string, map[string]string, string) {
		return "$C08S", "$C08S = " + b.Type + ";\n", nil, b.Bad
	}},
}

// valSource: where the value of type `any` comes from.
type valSource struct {
	Name string
	Top  string
	// Expr returns statements to run first and the any-typed expression; ok=false: the value would fit
	Expr func(b valBase, f valForm, bad string) (pre, expr string, ok bool)
}

// hmsStr renders s as a homescript string literal.
func hmsStr(s string) string {
	return `"` + strings.ReplaceAll(strings.ReplaceAll(s, `\`, `\\`), `"`, `\"`) + `"`
}

var valSources = []valSource{
	{Name: "json", Expr: func(b valBase, f valForm, bad string) (string, string, bool) {
		return "", hmsStr(bad) + ".parse_json()", true
	}},
	{Name: "json-var", Expr: func(b valBase, f valForm, bad string) (string, string, bool) {
		return "let raw = " + hmsStr(bad) + "; ", "raw.parse_json()", true
	}},
	// any_func() is the int 42
	{Name: "any-func", Top: "import any_func from testing;\n", Expr: func(b valBase, f valForm, bad string) (string, string, bool) {
		return "", "any_func()", !b.Int || f.Wraps
	}},
	// any_list is ["Test"] of static type [any]: accepted by the analyzer for list types only, fits none of those used here
	{Name: "any-list", Top: "import any_list from testing;\n", Expr: func(b valBase, f valForm, bad string) (string, string, bool) {
		return "", "any_list", f.List || (b.Name == "list" && !f.Wraps && !f.Option)
	}},
	{Name: "anyobj-member", Expr: func(b valBase, f valForm, bad string) (string, string, bool) {
		return "let vo = " + hmsStr(`{"k": `+bad+`}`) + ".parse_json() as { ? }; ", "vo~>k", true
	}},
}

// valStmts: the statement kinds that validate a value against a type at run time (%T type,
// %E expression, %P statements the expression needs: they stay next to the statement, a function
// literal must not read locals of its creator - open finding KF-vm-closure-capture).
var valStmts = []struct{ Name, Stmt string }{
	{"let", "%P«let _v: %T = %E;»"},
	{"let-multiline", "%P«let _v:%NL%%T%NL%=%NL%%E;»"},
	{"let-used", "%P«let v: %T = %E;» println(v);"},
	{"let-in-block", "if zero == 0 {%NL%%P«let v: %T = %E;» println(v); }"},
	{"let-in-closure", "let f = fn() {%NL%%P«let v: %T = %E;» println(v); }; f();"},
	{"as", "%Plet _v = «%E as%NL%%T»;"},
	{"as-in-arg", "%Pprintln(1,%NL%«%E as %T»,%NL%3);"},
	{"as-annotated", "%Plet _v: %T = «%E as %T»;"},
}

// validationTemplates enumerates the family (a pure function; the names are stable).
func validationTemplates() []rtTpl {
	var out []rtTpl
	for _, st := range valStmts {
		for _, f := range valForms {
			for _, b := range valBases {
				typ, top, mods, bad := f.Use(b)
				for _, s := range valSources {
					pre, expr, ok := s.Expr(b, f, bad)
					if !ok {
						continue
					}
					stmt := strings.NewReplacer("%T", typ, "%E", expr, "%P", pre).Replace(st.Stmt)
					out = append(out, rtTpl{
						Name: fmt.Sprintf("val-%s-%s-%s-%s", st.Name, f.Name, b.Name, s.Name),
						Stmt: stmt,
						Top:  s.Top + top,
						Mods: mods,
						Tags: []string{"type-validation"},
					})
				}
			}
		}
	}
	return out
}

func init() { rtTemplates = append(rtTemplates, validationTemplates()...) }

// validationCases samples the family: the product is large (~1300 templates x 5 places x 2 modes x
// 28 layout variants), so each (template, place, mode) is taken with a fixed chance and gets one
// layout variant drawn at random (quick) / the plain layout plus two drawn ones (thorough).
func validationCases(tier string, seed uint64) []fw.Case {
	var cases []fw.Case
	r := fw.NewRng(seed ^ 0xC08F)
	den, extra := 8, 0
	if tier == "thorough" {
		den, extra = 2, 2
	}
	for _, t := range rtTemplates {
		if !hasTag(t.Tags, "type-validation") {
			continue
		}
		for _, place := range rtPlaces {
			for _, mode := range []string{"fatal", "caught"} {
				if !r.Chance(1, den) {
					continue
				}
				type variant struct{ li, v int }
				vs := []variant{{r.Intn(len(diagLayouts)), r.Intn(4)}}
				if tier == "thorough" {
					vs[0] = variant{0, 0}
				}
				for k := 0; k < extra; k++ {
					vs = append(vs, variant{r.Intn(len(diagLayouts)), r.Intn(4)})
				}
				seen := map[variant]bool{}
				for _, x := range vs {
					if seen[x] {
						continue
					}
					seen[x] = true
					lay := diagLayouts[x.li]
					id := fmt.Sprintf("c08-rt-%s-%s-%s-%s-%d", t.Name, place, mode, lay.Name, x.v)
					cases = append(cases, fw.MkCase(id, "runtime", rtPayload{Tpl: t.Name, Place: place, Mode: mode, Layout: lay.Name, Pre: x.v&1 == 1, Cont: x.v&2 == 2}, t.Tags...))
				}
			}
		}
	}
	return cases
}
