package c08

// Workload 2: analyzer diagnostics of single-fault programs whose culprit range is known by
// construction. Templates carry markers: «…» = culprit of the error diagnostic, ‹…› = target of the
// hint attached to it. Placeholders: %PRE% (text in front of the faulty statement on the same
// line), %NL% (a place where the construct may continue on the next line).

import (
	"fmt"
	"regexp"
	"strings"

	"github.com/smarthome-go/homescript/v3/homescript/diagnostic"

	"hv/drive"
	"hv/fw"
	"hv/util"
)

type diagTpl struct {
	Name string
	// Kind: body (Text is a statement list placed in fn main), top (Text is a whole module)
	Kind string
	Text string
	Top  string            // body templates: extra top-level items placed before fn main
	Mods map[string]string // further modules (marked text allowed: hint targets in other files)
	Msg  string            // regexp selecting the error diagnostic
	// Rel: eq | within | whole | nested. nested = the reported range lies within the culprit «…», or it
	// contains the culprit and lies within the enclosing construct ⟦…⟧ (a diagnostic may underline the
	// whole statement around its culprit; a range next to the culprit points at an innocent construct)
	Rel  string
	Hint string // regexp selecting the hint (optional)
	// HintIn names the module holding the ‹…› markers (default: the culprit module)
	HintIn  string
	HintRel string // eq | within (default within)
	Tags    []string
	// Level of the selected diagnostic: "" = error, "warning" (analyzer and optimizer warnings)
	Level string `json:",omitempty"`
	// Gen: member of a generated family (families.go): thinned layout product in the quick tier
	Gen bool `json:",omitempty"`
}

var diagTemplates = []diagTpl{
	// unknown identifier / type / member / import item: span = that identifier token
	{Name: "undef-var", Kind: "body", Text: "let _x =%NL%«undefined_name»;", Msg: `^Use of undefined variable or function 'undefined_name'`, Rel: "eq"},
	{Name: "undef-fn", Kind: "body", Text: "«undefined_fn»(1,%NL%2);", Msg: `^Use of undefined variable or function 'undefined_fn'`, Rel: "eq"},
	{Name: "undef-in-arg", Kind: "body", Text: "println(1,%NL%«missing_arg», 3);", Msg: `^Use of undefined variable or function 'missing_arg'`, Rel: "eq"},
	{Name: "undef-type", Kind: "body", Text: "let _y:%NL%«Unknown» = 1;", Msg: `^Illegal use of undeclared type 'Unknown'`, Rel: "eq"},
	{Name: "undef-param-type", Kind: "top", Text: "fn helper(a: int,%NL%b: «Unknown») { println(a, b); }\nfn main() { %PRE%helper(1, 2); }\n", Msg: `^Illegal use of undeclared type 'Unknown'`, Rel: "eq"},
	{Name: "undef-ret-type", Kind: "top", Text: "fn helper() ->%NL%«Unknown» { }\nfn main() { %PRE%helper(); }\n", Msg: `^Illegal use of undeclared type 'Unknown'`, Rel: "eq"},
	{Name: "undef-member-obj", Kind: "body", Text: "let o = new { a: 1 }; o.%NL%«nope»;", Msg: `has no member named 'nope'`, Rel: "eq"},
	{Name: "undef-member-str", Kind: "body", Text: "\"s\".«nope»();", Msg: `has no member named 'nope'`, Rel: "eq"},
	{Name: "undef-member-anyobj", Kind: "body", Text: "let o = new { ? }; o.«foo»;", Msg: `has no member named 'foo'`, Rel: "eq"},
	{Name: "undef-singleton", Kind: "body", Text: "«$Nope»;", Msg: `^Reference of undeclared singleton type`, Rel: "eq", Tags: []string{"singleton-ident"}},
	{Name: "undef-singleton-param", Kind: "top", Text: "fn helper(a: «$Nope») { println(a); }\nfn main() { %PRE%helper(1); }\n", Msg: `singleton`, Rel: "eq", Tags: []string{"singleton-ident"}},
	{Name: "import-unknown-item", Kind: "top", Text: "import%NL%«nope» from lib;\nfn main() { %PRE%nope(); }\n", Mods: map[string]string{"lib": "pub fn other() {}\nfn main() {}\n"}, Msg: `^No variable or function named 'nope' found in module`, Rel: "eq"},
	{Name: "import-unknown-item-list", Kind: "top", Text: "import { other,%NL%«nope» } from lib;\nfn main() { %PRE%nope(); other(); }\n", Mods: map[string]string{"lib": "pub fn other() {}\nfn main() {}\n"}, Msg: `^No variable or function named 'nope' found in module`, Rel: "eq"},
	{Name: "import-unknown-type", Kind: "top", Text: "import { «type%NL%Nope» } from lib;\nfn main() { %PRE%let _x: Nope = 1; }\n", Mods: map[string]string{"lib": "pub fn other() {}\nfn main() {}\n"}, Msg: `^No type named 'Nope' found in module`, Rel: "within"},
	{Name: "import-unknown-module", Kind: "top", Text: "import x from%NL%«nomodule»;\nfn main() { %PRE%x(); }\n", Msg: `^Module 'nomodule' not found`, Rel: "eq"},
	{Name: "import-private-fn", Kind: "top", Text: "import%NL%«secret» from lib;\nfn main() { %PRE%secret(); }\n", Mods: map[string]string{"lib": "// ✓ lib\n  fn ‹secret›() {}\nfn main() {}\n"}, Msg: `^Cannot import private function`, Rel: "eq", Hint: `^This function is not declared as 'pub'`, HintIn: "lib", HintRel: "eq"},
	{Name: "import-private-var", Kind: "top", Text: "import «priv» from lib;\nfn main() { %PRE%println(priv); }\n", Mods: map[string]string{"lib": "\n\n/* é */ let ‹priv› = 1;\nfn main() { println(priv); }\n"}, Msg: `^Cannot import private variable`, Rel: "eq", Hint: `^This variable is not declared as 'pub'`, HintIn: "lib", HintRel: "eq"},
	{Name: "import-private-type", Kind: "top", Text: "import { «type Hidden» } from lib;\nfn main() { %PRE%let _x: Hidden = 1; }\n", Mods: map[string]string{"lib": "type ‹Hidden› = int;\nfn main() { let _y: Hidden = 1; }\n"}, Msg: `^Cannot import private type`, Rel: "within", Hint: `^This type is not declared as 'pub'`, HintIn: "lib", HintRel: "eq"},

	// operand / operator errors: span within the infix/prefix/assign expression
	{Name: "infix-mismatch", Kind: "body", Text: "let _z = «‹1› +%NL%\"s\"»;", Msg: `^Mismatched types: expected 'int', got 'str'`, Rel: "within", Hint: `expected due to this`},
	{Name: "infix-mismatch-nested", Kind: "body", Text: "let _z = (2 * («1 -%NL%true») + 3);", Msg: `^Mismatched types: expected 'int', got 'bool'`, Rel: "within", Hint: `expected due to this`},
	{Name: "infix-unsupported", Kind: "body", Text: "let _z = «\"a\" -%NL%\"b\"»;", Msg: `.`, Rel: "within"},
	{Name: "infix-bool-arith", Kind: "body", Text: "let _z = «true *%NL%false»;", Msg: `.`, Rel: "within"},
	{Name: "prefix-neg-str", Kind: "body", Text: "let _w = «-%NL%\"s\"»;", Msg: `^Prefix operator '-' cannot be used`, Rel: "within"},
	{Name: "prefix-not-float", Kind: "body", Text: "«!1.5»;", Msg: `^Prefix operator '!' cannot be used`, Rel: "within"},
	{Name: "assign-mismatch", Kind: "body", Text: "let v = 1; «‹v› =%NL%\"t\"»; println(v);", Msg: `^Mismatched types: expected 'int', got 'str'`, Rel: "within", Hint: `expected due to this`},
	{Name: "assign-compound-mismatch", Kind: "body", Text: "let v = 1; «v +=%NL%\"t\"»; println(v);", Msg: `.`, Rel: "within"},
	{Name: "assign-field-mismatch", Kind: "body", Text: "let o = new { a: 1 }; «‹o.a› = \"s\"»;", Msg: `^Mismatched types: expected 'int', got 'str'`, Rel: "within", Hint: `expected due to this`},
	{Name: "cast-impossible", Kind: "body", Text: "let _c = «1 as%NL%[int]»;", Msg: `^Impossible cast`, Rel: "within"},
	{Name: "range-mismatch", Kind: "body", Text: "let _r = «1..true»;", Msg: `.`, Rel: "within"},

	// argument count: span within the argument list including its parentheses
	{Name: "args-too-few", Kind: "body", Top: "fn f2(a: int, b: str) { println(a, b); }\n", Text: "f2«(1)»;", Msg: `^Function requires 2 arguments`, Rel: "within"},
	{Name: "args-too-many", Kind: "body", Top: "fn f2(a: int, b: str) { println(a, b); }\n", Text: "f2«(1,%NL%\"a\", 3)»;", Msg: `^Function requires 2 arguments`, Rel: "within"},
	{Name: "args-none", Kind: "body", Top: "fn f2(a: int, b: str) { println(a, b); }\n", Text: "f2«()»;", Msg: `^Function requires 2 arguments`, Rel: "within"},
	{Name: "args-builtin-member", Kind: "body", Text: "\"s\".len«(1)»;", Msg: `^Function requires 0 arguments`, Rel: "within"},
	{Name: "args-throw", Kind: "body", Text: "throw«(1,%NL%2)»;", Msg: `^Function requires 1 argument`, Rel: "within"},
	{Name: "args-spawn", Kind: "body", Top: "fn f2(a: int, b: str) { println(a, b); }\n", Text: "spawn f2«(1)»;", Msg: `^Function requires 2 arguments`, Rel: "within"},
	{Name: "args-closure", Kind: "body", Text: "let q = fn(a: int) -> int { a }; q«(1,%NL%2)»;", Msg: `^Function requires 1 argument`, Rel: "within"},

	// argument / return / assignment / branch type: "got" within the offending expression, hint within the declaration
	{Name: "arg-type", Kind: "body", Top: "fn f2(a: int, b: str) { println(a, b); }\n", Text: "f2(«\"x\"»,%NL%\"y\");", Msg: `^Mismatched types: expected 'int', got 'str'`, Rel: "within"},
	{Name: "arg-type-second", Kind: "body", Top: "fn f2(a: int, b: str) { println(a, b); }\n", Text: "f2(1,%NL%«2 + 3»);", Msg: `^Mismatched types: expected 'str', got 'int'`, Rel: "within"},
	{Name: "arg-type-builtin", Kind: "body", Text: "assert(«1»);", Msg: `^Mismatched types: expected 'bool', got 'int'`, Rel: "within"},
	{Name: "arg-type-member", Kind: "body", Text: "let li: [int] = [1]; li.push(«\"s\"»);", Msg: `^Mismatched types: expected 'int', got 'str'`, Rel: "within"},
	{Name: "arg-type-closure", Kind: "body", Text: "let q = fn(a: int) -> int { a }; q(«\"x\"»);", Msg: `^Mismatched types: expected 'int', got 'str'`, Rel: "within"},
	{Name: "ret-tail", Kind: "top", Text: "fn g() ->%NL%‹int› {\n    %PRE%«\"x\"»\n}\nfn main() { g(); }\n", Msg: `^Mismatched types: expected 'int', got 'str'`, Rel: "within", Hint: `expected due to this`},
	{Name: "ret-stmt", Kind: "top", Text: "fn g() -> ‹int› {\n    %PRE%return%NL%«\"x\"»;\n}\nfn main() { g(); }\n", Msg: `^Mismatched types: expected 'int', got 'str'`, Rel: "within", Hint: `expected due to this`},
	{Name: "ret-in-null-fn", Kind: "top", Text: "‹fn g() {›\n    %PRE%return «1»;\n}\nfn main() { g(); }\n", Msg: `^Mismatched types: expected 'null', got 'int'`, Rel: "within", Hint: `expected due to this`},
	{Name: "ret-closure", Kind: "body", Text: "let _q = fn(a: int) -> ‹int› { println(a);%NL%«\"s\"» };", Msg: `^Mismatched types: expected 'int', got 'str'`, Rel: "within", Hint: `expected due to this`},
	{Name: "let-annotated", Kind: "body", Text: "let _v: ‹int› =%NL%«\"s\"»;", Msg: `^Mismatched types: expected 'int', got 'str'`, Rel: "within", Hint: `expected due to this`},
	{Name: "let-annotated-list", Kind: "body", Text: "let _v: ‹[int]› = «[\n        \"s\",\n    ]»;", Msg: `^Mismatched types`, Rel: "within", Hint: `expected due to this`},
	{Name: "global-annotated", Kind: "top", Text: "let g: ‹int› =%NL%«\"s\"»;\nfn main() { %PRE%println(g); }\n", Msg: `^Mismatched types: expected 'int', got 'str'`, Rel: "within", Hint: `expected due to this`},
	{Name: "list-element", Kind: "body", Text: "let _l = [‹1›,%NL%«\"a\"»];", Msg: `^Mismatched types: expected 'int', got 'str'`, Rel: "within", Hint: `expected due to this`},
	{Name: "condition-if", Kind: "body", Text: "if%NL%«1» { }", Msg: `^Mismatched types: expected 'bool', got 'int'`, Rel: "within"},
	{Name: "condition-while", Kind: "body", Text: "while «\"s\"» { break; }", Msg: `^Mismatched types: expected 'bool', got 'str'`, Rel: "within"},
	{Name: "branch-if-else", Kind: "body", Text: "let _i = if true { ‹1› } else {%NL%«\"a\"» };", Msg: `^Mismatched types: expected 'int', got 'str'`, Rel: "within", Hint: `expected due to this`},
	{Name: "branch-try-catch", Kind: "body", Text: "let _t = try { ‹1› } catch _e {%NL%«\"a\"» };", Msg: `^Mismatched types: expected 'int', got 'str'`, Rel: "within", Hint: `expected due to this`},
	{Name: "match-arm-literal", Kind: "body", Text: "match ‹1› { «\"a\"» => 1, _ => 2 };", Msg: `^Mismatched types: expected 'int', got 'str'`, Rel: "within", Hint: `expected due to this`},
	{Name: "for-iter", Kind: "body", Text: "for _q in%NL%«5» { }", Msg: `cannot be used as an iterator`, Rel: "within"},
	{Name: "index-type", Kind: "body", Text: "let l = [1]; l[«\"a\"»];", Msg: `cannot be indexed by`, Rel: "within"},
	{Name: "call-non-fn", Kind: "body", Text: "«1()»;", Msg: `cannot be called`, Rel: "within"},
	{Name: "object-field-type", Kind: "top", Text: "type T = { a: ‹int› };\nfn main() {\n    %PRE%let _t: T = «new {%NL%a: \"s\" }»;\n}\n", Msg: `^Mismatched types: expected 'int', got 'str'`, Rel: "within", Hint: `expected due to this`},
	{Name: "object-field-missing", Kind: "top", Text: "type T = { ‹a›: int };\nfn main() {\n    %PRE%let _t: T = «new {%NL%b: 1 }»;\n}\n", Msg: `^Field 'a' is missing`, Rel: "within", Hint: `expected due to this`},
	{Name: "any-implicit", Kind: "body", Text: "let «_e» = ‹[]›;", Msg: `^Implicit use of 'any' type`, Rel: "within", Hint: `This expression is of type`},
	{Name: "dup-param", Kind: "top", Text: "fn helper(a: int,%NL%«a: int») { println(a); }\nfn main() { %PRE%helper(1, 2); }\n", Msg: `^Duplicate declaration of parameter 'a'`, Rel: "within"},

	// impl blocks
	{Name: "impl-unknown-template", Kind: "top", Text: "$Lamp = { power: bool };\nimpl%NL%«Unknown» for $Lamp {\n}\nfn main() { %PRE%println(1); }\n", Msg: "^Template `Unknown` not found", Rel: "eq"},
	{Name: "impl-unknown-singleton", Kind: "top", Text: "import templ FooFeature from templates;\nimpl FooFeature with { light } for%NL%«$Other» {\n    fn dim(percent: int) -> bool { percent == 1 }\n}\nfn main() { %PRE%println(1); }\n", Msg: "^Undeclared singleton `\\$Other`", Rel: "eq", Tags: []string{"singleton-ident"}},
	{Name: "impl-missing-method", Kind: "top", Text: "import templ FooFeature from templates;\n$Lamp = { power: bool };\n«impl FooFeature with { light }%NL%for $Lamp {\n}»\nfn main() { %PRE%println(1); }\n", Msg: "^Not all methods implemented", Rel: "within"},
	{Name: "impl-extra-method", Kind: "top", Text: "import templ FooFeature from templates;\n$Lamp = { power: bool };\nimpl FooFeature with { light } for $Lamp {\n    fn dim(percent: int) -> bool { percent == 1 }\n    «fn nope()%NL%{\n    }»\n}\nfn main() { %PRE%println(1); }\n", Msg: "^Additional method `nope` implemented", Rel: "within"},
	{Name: "impl-unknown-capability", Kind: "top", Text: "import templ FooFeature from templates;\n$Lamp = { power: bool };\nimpl FooFeature with { light,%NL%«nocap» } for $Lamp {\n    fn dim(percent: int) -> bool { percent == 1 }\n}\nfn main() { %PRE%println(1); }\n", Msg: "^Capability `nocap` not found", Rel: "eq"},

	// break / continue outside a loop: span = the statement
	{Name: "break-outside", Kind: "body", Text: "«break;»", Msg: `^Illegal use of 'break' outside of a loop`, Rel: "within"},
	{Name: "continue-outside", Kind: "body", Text: "«continue;»", Msg: `^Illegal use of 'continue' statement outside of a loop`, Rel: "within"},

	// duplicate definitions: span = the second definition's name, hint = the first
	{Name: "dup-fn", Kind: "top", Text: "fn ‹helper›() {}\nfn main() { %PRE%helper(); }\nfn%NL%«helper»() {}\n", Msg: `^Duplicate function definition of 'helper'`, Rel: "eq", Hint: `previously defined here`, HintRel: "eq"},
	{Name: "dup-type", Kind: "top", Text: "type T = int;\nfn main() { %PRE%let _x: T = 1; }\ntype%NL%«T» = str;\n", Msg: `^Type 'T' is already declared`, Rel: "eq"},
	{Name: "dup-global", Kind: "top", Text: "let ‹gl› = 1;\nfn main() { %PRE%println(gl); }\nlet%NL%«gl» = 2;\n", Msg: `^Duplicate definition of global 'gl'`, Rel: "eq", Hint: `^Previous definition of global`, HintRel: "eq"},
	{Name: "dup-import-name", Kind: "top", Text: "import other from lib;\nimport%NL%«other» from lib;\nfn main() { %PRE%other(); }\n", Mods: map[string]string{"lib": "pub fn other() {}\nfn main() {}\n"}, Msg: `already exists in current scope`, Rel: "eq"},

	// missing main: whole-file position of the module
	{Name: "missing-main", Kind: "top", Text: "pub fn helper() { %PRE%println(1); }\n", Msg: `^Missing 'main' function`, Rel: "whole"},
	{Name: "missing-main-empty", Kind: "top", Text: "", Msg: `^Missing 'main' function`, Rel: "whole"},
}

type diagLayout struct {
	Name string
	F    func(string) string
}

var diagLayouts = []diagLayout{
	{"plain", func(s string) string { return s }},
	{"blank1", func(s string) string { return "\n" + s }},
	{"blank17", func(s string) string { return strings.Repeat("\n", 17) + s }},
	{"unicode-comment", func(s string) string { return "// ünïcödé ✓ 日本語 🎉\n/* ✓\n ✓✓ */ " + s }},
	{"crlf", func(s string) string { return strings.ReplaceAll(s, "\n", "\r\n") }},
	{"indent7", func(s string) string { return "       " + strings.ReplaceAll(s, "\n", "\n       ") }},
	{"tab-indent", func(s string) string { return "\t" + strings.ReplaceAll(s, "\n", "\n\t") }},
}

type diagPayload struct {
	Tpl      string `json:"tpl"`
	Layout   string `json:"lay"`
	Pre      bool   `json:"pre,omitempty"` // multi-byte runes in front of the culprit on the same line
	Cont     bool   `json:"cont,omitempty"`
	AsImport bool   `json:"imp,omitempty"`
	// Literal: a pinned witness carries its module texts (marked) instead of a template name.
	Literal *diagTpl `json:"lit,omitempty"`
}

func findDiagTpl(name string) *diagTpl {
	for i := range diagTemplates {
		if diagTemplates[i].Name == name {
			return &diagTemplates[i]
		}
	}
	for _, t := range append(append([]diagTpl{}, familyTemplates()...), heldOutTemplates()...) {
		if t.Name == name {
			t := t
			return &t
		}
	}
	return nil
}

func diagCases(tier string, seed uint64) []fw.Case {
	var cases []fw.Case
	r := fw.NewRng(seed ^ 0xC08D)
	kfSingleton := fw.KFOpen("KF-c08-singleton-ident-span")
	all := append(append([]diagTpl{}, diagTemplates...), familyTemplates()...)
	if fw.KFOpen(heldOutKF) {
		all = append(all, heldOutTemplates()...)
	}
	rg := fw.NewRng(seed ^ 0xC08F)
	for _, t := range all {
		poison := kfSingleton && hasTag(t.Tags, "singleton-ident")
		// generated families, quick tier: plain layout + 2 seeded (layout, variant) picks per template
		pick := map[int]bool{0: true}
		if t.Gen && tier != "thorough" {
			for k := 0; k < 2; k++ {
				pick[rg.Intn(len(diagLayouts))*4+rg.Intn(4)] = true
			}
		}
		for li, lay := range diagLayouts {
			for v := 0; v < 4; v++ {
				pre, cont := v&1 == 1, v&2 == 2
				if t.Gen {
					if tier != "thorough" && !pick[li*4+v] {
						continue
					}
				} else if tier != "thorough" && li > 0 && v > 0 && !r.Chance(1, 2) {
					continue
				}
				if poison && (li > 1 || v > 1) {
					continue // poisoned construct: small workload only
				}
				for _, imp := range []bool{false, true} {
					id := fmt.Sprintf("c08-diag-%s-%s-%d-%v", t.Name, lay.Name, v, imp)
					cases = append(cases, fw.MkCase(id, "diag", diagPayload{Tpl: t.Name, Layout: lay.Name, Pre: pre, Cont: cont, AsImport: imp}, t.Tags...))
				}
			}
		}
	}
	return cases
}

func hasTag(tags []string, t string) bool {
	for _, x := range tags {
		if x == t {
			return true
		}
	}
	return false
}

// marks are the marked ranges of one module text.
type marks struct {
	culprit, hint, outer rng
	hasC, hasH, hasO     bool
}

// parseMarks3 strips «» ‹› ⟦⟧ and returns the ranges.
func parseMarks3(marked string) (plain string, mk marks) {
	var out []rune
	for _, c := range []rune(marked) {
		switch c {
		case '«':
			mk.culprit.From = len(out)
		case '»':
			mk.culprit.To = len(out) - 1
			mk.hasC = true
		case '‹':
			mk.hint.From = len(out)
		case '›':
			mk.hint.To = len(out) - 1
			mk.hasH = true
		case '⟦':
			mk.outer.From = len(out)
		case '⟧':
			mk.outer.To = len(out) - 1
			mk.hasO = true
		default:
			out = append(out, c)
		}
	}
	return string(out), mk
}

// parseMarks strips the markers and returns the culprit and hint ranges (To < From: empty range / no marker: ok=false).
func parseMarks(marked string) (plain string, culprit, hint rng, hasC, hasH bool) {
	plain, mk := parseMarks3(marked)
	return plain, mk.culprit, mk.hint, mk.hasC, mk.hasH
}

const unicodePre = "let _u = \"äöü✓日本語🎉\"; "

// buildDiag instantiates a template: returns the marked texts per module and the culprit module.
func buildDiag(t *diagTpl, p diagPayload) (marked map[string]string, file string) {
	text := t.Text
	if t.Kind == "body" {
		text = t.Top + "fn main() {\n    %PRE%" + t.Text + "\n}\n"
	}
	pre, nl := "", " "
	if p.Pre {
		pre = unicodePre
	}
	if p.Cont {
		nl = "\n        "
	}
	text = strings.ReplaceAll(strings.ReplaceAll(text, "%PRE%", pre), "%NL%", nl)
	for _, l := range diagLayouts {
		if l.Name == p.Layout {
			text = l.F(text)
		}
	}
	marked = map[string]string{}
	for k, v := range t.Mods {
		marked[k] = v
	}
	if p.AsImport {
		// the faulty text is module m; it is analysed because main imports from it
		marked["m"] = text + "\npub fn c08_exported() {}\n"
		marked["main"] = "import c08_exported from m;\nfn main() { c08_exported(); }\n"
		return marked, "m"
	}
	marked["main"] = text
	return marked, "main"
}

func runDiag(c fw.Case) fw.Result {
	var p diagPayload
	fw.Decode(c, &p)
	t := p.Literal
	if t == nil {
		t = findDiagTpl(p.Tpl)
	}
	if t == nil {
		return fw.Result{Verdict: fw.Inconclusive, Why: "unknown template " + p.Tpl}
	}
	marked, file := buildDiag(t, p)
	src := drive.Sources{}
	var culprit, hint, outer rng
	var hasC, hasH, hasO bool
	hintFile := file
	if t.HintIn != "" {
		hintFile = t.HintIn
	}
	for _, k := range drive.SortedKeys(marked) {
		plain, mk := parseMarks3(marked[k])
		src[k] = plain
		if k == file && mk.hasC {
			culprit, hasC = mk.culprit, true
		}
		if k == file && mk.hasO {
			outer, hasO = mk.outer, true
		}
		if k == hintFile && mk.hasH {
			hint, hasH = mk.hint, true
		}
	}
	if !hasH {
		hint = culprit
	}
	if !hasO {
		outer = rng{0, len([]rune(src[file]))}
	}
	if !hasC && t.Rel != "whole" {
		return fw.Result{Verdict: fw.Inconclusive, Why: "template without culprit markers: " + t.Name}
	}
	mode := "entry"
	if p.AsImport {
		mode = "import"
	}
	m := newMonitor(src, fmt.Sprintf("tpl=%s layout=%s pre=%v cont=%v mode=%s %s=%q", t.Name, p.Layout, p.Pre, p.Cont, mode, file, util.Clip(src[file], 500)))
	var ao drive.AnalyzeOut
	var pv any
	func() {
		defer func() { pv = recover() }()
		ao = drive.Analyze(src, "main", true)
	}()
	if pv != nil {
		return fw.Result{Verdict: fw.Inconclusive, Why: "analysis panicked (C05): " + util.Clip(fmt.Sprint(pv), 200)}
	}
	for _, e := range ao.Syntax {
		m.syntaxError(e)
	}
	// an accepted program goes through the optimizer pass next (cmd/main.go): its diagnostics are
	// reported and rendered like the analyzer's
	optDiags, optPanic := optimizerDiags(ao)
	if optPanic != "" {
		return fw.Result{Verdict: fw.Inconclusive, Why: "optimizer panicked (C05/C19): " + optPanic}
	}
	ao.Diags = append(append([]diagnostic.Diagnostic{}, ao.Diags...), optDiags...)
	m.obs["optimizer_diagnostics"] += int64(len(optDiags))
	wantLevel := diagnostic.DiagnosticLevelError
	if t.Level == "warning" {
		wantLevel = diagnostic.DiagnosticLevelWarning
	}
	reMsg := regexp.MustCompile(t.Msg)
	var reHint *regexp.Regexp
	if t.Hint != "" {
		reHint = regexp.MustCompile(t.Hint)
	}
	matched, hintMatched := 0, 0
	for i, d := range ao.Diags {
		st := m.diag(d)
		if d.Level != wantLevel || !reMsg.MatchString(d.Message) {
			continue
		}
		// several error diagnostics may match a loose pattern: each must lie in the culprit
		if t.Rel != "whole" && d.Span.Filename != file {
			if matched == 0 && d.Span.Filename != "" && st.ti != nil {
				// the same message about another module (e.g. main's import of a broken module) is not the culprit's
				continue
			}
		}
		matched++
		m.evals++
		m.obs["known_culprit_checks"]++
		m.cover["diag:"+t.Rel] = true
		class := msgClass(d.Message)
		switch {
		case t.Rel == "whole":
			if d.Span.Filename != file {
				continue
			}
			if !st.Whole {
				m.fail("diag:not-whole-file:"+class, fmt.Sprintf("%q must carry the whole-file position of module %q, got %s", d.Message, file, fmtSpan(d.Span)), nil)
			}
		case d.Span.Filename != file:
			m.fail("diag:wrong-file:"+class, fmt.Sprintf("%q is reported in file %q, the culprit is in module %q", d.Message, d.Span.Filename, file), nil)
		case st.Inside:
			got := spanRange(d.Span)
			ok := got == culprit
			switch t.Rel {
			case "within":
				ok = within(got, culprit)
			case "nested":
				ok = within(got, culprit) || (within(culprit, got) && within(got, outer))
			}
			if !ok {
				why := fmt.Sprintf("%q reported at %s = runes %v %q, culprit (%s) is %v %q", d.Message, fmtSpan(d.Span), got, runesOf(src[file], got), t.Rel, culprit, runesOf(src[file], culprit))
				if t.Rel == "nested" {
					why += fmt.Sprintf(": the reported range neither lies within the culprit nor is it a range around the culprit inside the enclosing construct %v", outer)
					if got.To < culprit.From || got.From > culprit.To {
						why += " (it marks a different construct next to the culprit)"
					}
				}
				m.fail(levelName(d.Level)+":outside-culprit:"+class, why, nil)
			}
		case st.Whole:
			m.fail("diag:whole-file-for-located-fault:"+class, fmt.Sprintf("%q carries the whole-file position although the culprit is %v", d.Message, culprit), nil)
		}
		// the hint(s) directly following the error belong to it
		for j := i + 1; j < len(ao.Diags) && ao.Diags[j].Level == diagnostic.DiagnosticLevelHint; j++ {
			h := ao.Diags[j]
			if reHint == nil || !reHint.MatchString(h.Message) {
				continue
			}
			hintMatched++
			m.evals++
			m.obs["known_hint_checks"]++
			hst := m.checkSpan("hint", msgClass(h.Message), h.Span)
			m.evals-- // (the span itself was already counted by m.diag in the outer loop or will be)
			hclass := msgClass(h.Message)
			switch {
			case hst.Whole:
				// allowed for builtins
			case h.Span.Filename != hintFile && hst.ti != nil:
				m.fail("hint:wrong-file:"+hclass, fmt.Sprintf("hint %q is reported in file %q, its target is in module %q", h.Message, h.Span.Filename, hintFile), nil)
			case hst.Inside:
				got := spanRange(h.Span)
				ok := within(got, hint)
				if t.HintRel == "eq" {
					ok = got == hint
				}
				if !ok {
					m.fail("hint:outside-target:"+hclass, fmt.Sprintf("hint %q reported at %s = runes %v %q, target is %v %q", h.Message, fmtSpan(h.Span), got, runesOf(src[hintFile], got), hint, runesOf(src[hintFile], hint)), nil)
				}
			}
		}
	}
	m.obs["syntax_errors"] += int64(len(ao.Syntax))
	m.obs["diagnostics"] += int64(len(ao.Diags))
	res := m.result(len(ao.Diags) > 0)
	if res.Verdict == fw.Held {
		if matched == 0 {
			res.Verdict = fw.Inconclusive
			res.Why = fmt.Sprintf("template %s produced no error diagnostic matching %q (got: %s) | %s", t.Name, t.Msg, util.Clip(ao.ErrorSummary(), 300), m.ctx)
		} else if reHint != nil && hintMatched == 0 {
			res.Verdict = fw.Inconclusive
			res.Why = fmt.Sprintf("template %s produced no hint matching %q | %s", t.Name, t.Hint, m.ctx)
		}
	}
	res.Cover = append(res.Cover, "tpl:"+t.Name, "layout:"+p.Layout, "diag-mode:"+mode)
	if t.Level != "" {
		res.Cover = append(res.Cover, "diag-level:"+t.Level)
	}
	if len(optDiags) > 0 {
		res.Cover = append(res.Cover, "optimizer-diagnostics")
	}
	if p.Cont && p.Pre && p.Layout == "unicode-comment" && !t.Gen {
		res.Sample = map[string]any{"kind": "diag", "template": t.Name, "mode": mode, "module": file, "text": src[file], "culprit": runesOf(src[file], culprit), "diagnostics": util.Clip(ao.ErrorSummary(), 300)}
	}
	return res
}

func runesOf(text string, r rng) string {
	rs := []rune(text)
	if r.From < 0 || r.To >= len(rs) || r.From > r.To+1 {
		return "<out of text>"
	}
	return string(rs[r.From : r.To+1])
}
