package c08

// Workload 1: positions of syntax errors (and of whatever diagnostics the damaged text still
// produces). Every text is analysed as the entry module and as the text of an imported module.

import (
	"fmt"
	"regexp"
	"strings"

	herrors "github.com/smarthome-go/homescript/v3/homescript/errors"

	"hv/drive"
	"hv/fw"
	"hv/lexref"
	"hv/util"
)

type synPayload struct {
	Text     []byte `json:"t"`
	AsImport bool   `json:"i,omitempty"`
	Gen      string `json:"g"`
	// Known position (hand-written cases): the text carries «…» around the expected span.
	Marked bool   `json:"k,omitempty"`
	Msg    string `json:"msg,omitempty"` // regexp the syntax error's message must match
	Rel    string `json:"rel,omitempty"` // eq | within
}

const importMain = "import f from m;\nfn main() { f(); }\n"

// handPrograms are valid (or nearly valid) texts whose prefixes and single-token edits are taken.
// They put multi-line constructs, multi-byte runes, CRLF, tabs and comments in front of the places
// where the damage happens.
var handPrograms = map[string]string{
	"h01-multiline-call":    "fn add(a: int,\n       b: int,\n       c: int) -> int {\n    a +\n      b +\n        c\n}\n\nfn main() {\n    println(\n        add(\n            1,\n            2,\n            3,\n        ),\n        \"done\"\n    );\n}\n",
	"h02-unicode":           "// Grüße aus Österreich ✓ 日本語 🎉\nfn main() {\n    let s = \"äöü ✓ 日本語 🎉\"; let t = s.len(); println(s, t);\n    /* block ✓✓✓\n       zweite Zeile é */ let u = 'ß'; println(u);\n}\n",
	"h03-crlf":              "fn helper(x: int) -> int {\r\n    x * 2\r\n}\r\n\r\nfn main() {\r\n    let a = helper(\r\n        21\r\n    );\r\n    println(a);\r\n}\r\n",
	"h04-tabs":              "fn main() {\n\tlet x = 1;\n\tif x == 1 {\n\t\tprintln(\"one\");\n\t} else {\n\t\tprintln(\"other\");\n\t}\n\tlet\ty\t=\t[\t1,\t2\t];\n\tprintln(y);\n}\n",
	"h05-match":             "fn main() {\n    let x = 3;\n    let r = match x {\n        1 => \"one\",\n        2 | 3 => {\n            \"two or three\"\n        },\n        _ => \"many\",\n    };\n    println(r);\n}\n",
	"h06-types":             "type Point = {\n    x: int,\n    y: int,\n    label: ?str,\n};\n\ntype Shapes = [Point];\n\nfn origin() -> Point {\n    new {\n        x: 0,\n        y: 0,\n        label: none,\n    }\n}\n\nfn main() {\n    let s: Shapes = [origin()];\n    println(s[0].x);\n}\n",
	"h07-try":               "fn risky(n: int) -> int {\n    if n > 2 {\n        throw(\"too big\");\n    }\n    n\n}\n\nfn main() {\n    try {\n        risky(5);\n    } catch e {\n        println(e.message, e.line, e.column, e.filename);\n    }\n}\n",
	"h08-eof-line-comment":  "fn main() {\n    println(1);\n}\n// trailing comment without newline",
	"h09-eof-block-comment": "fn main() {\n    println(1);\n}\n/* trailing block\n   comment */",
	"h10-closures":          "fn apply(f: fn(a: int) -> int, v: int) -> int {\n    f(v)\n}\n\nfn main() {\n    let twice = fn(a: int) -> int {\n        a * 2\n    };\n    println(apply(twice, 4));\n}\n",
	"h11-loops":             "fn main() {\n    let i = 0;\n    while i < 10 {\n        i += 1;\n        if i % 2 == 0 {\n            continue;\n        }\n        if i > 7 {\n            break;\n        }\n    }\n    for j in 0..3 {\n        println(j);\n    }\n    loop {\n        break;\n    }\n}\n",
	"h12-imports":           "import {\n    assert_eq,\n    any_func,\n} from testing;\n\nfn main() {\n    assert_eq(1, 1);\n    any_func();\n}\n",
	"h13-strings":           "fn main() {\n    let a = \"line one\nline two\";\n    let b = 'esc: \\n \\t \\\\ \\x41 \\u00e4 \\101';\n    println(a, b);\n}\n",
	"h14-annotation":        "import trigger minute from triggers;\n\nlet foo = 1;\n\n#[trigger in minute(foo * 20)]\nevent fn whatever(_elapsed: int) {\n    println(\"called\");\n}\n\nfn main() {\n    println(\"hi\");\n}\n",
	"h15-singleton":         "import templ FooFeature from templates;\n\n$Lamp = {\n    @setting power: bool,\n    level: int,\n};\n\nimpl FooFeature with { light } for $Lamp {\n    fn dim(percent: int) -> bool {\n        true\n    }\n}\n\nfn main() {\n}\n",
	"h16-numbers":           "fn main() {\n    let a = 1_000_000;\n    let b = 3.141_592;\n    let c = 2f;\n    let d = 9223372036854775807;\n    println(a, b, c, d, 1..10, -a, !true, a as float);\n}\n",
	"h17-no-trailing-nl":    "fn main() {\n    let x = [1, 2, 3];\n    x[0] = x[1] + x[2];\n    println(x)\n}",
	"h18-globals":           "pub let counter = 0;\nlet names: [str] = [\n    \"a\",\n    \"b\",\n];\n\npub fn bump() -> int {\n    counter += 1;\n    counter\n}\n\nfn main() {\n    println(bump(), names);\n}\n",
	"h19-unicode-crlf":      "// ünïcödé ✓\r\nfn main() {\r\n    let s = \"日本語\"; println(s,\r\n        \"✓\");\r\n}\r\n",
	"h20-spawn-trigger":     "import trigger minute from triggers;\n\nfn cb(elapsed: int) {\n    println(elapsed);\n}\n\nfn work(n: int) {\n    println(n);\n}\n\nfn main() {\n    trigger cb at minute(1);\n    let h = spawn work(\n        2\n    );\n    println(h);\n}\n",
	"h21-empty":             "",
	"h22-whitespace":        " \t\r\n\n  ",
	"h23-comment-only":      "// nothing but a comment ✓",
	"h24-object-any":        "fn main() {\n    let o = new { ? };\n    let p = new {\n        name: \"x\",\n        \"quoted key\": 2,\n    };\n    println(o, p.name);\n}\n",
}

// knownSyntax: hand-written damaged texts with the exact position the error has to be reported at.
type knownSyn struct {
	Name   string
	Marked string // «…» = expected span; «» directly at the end of input = the EOF position
	Msg    string
	Rel    string
}

var knownSyntax = []knownSyn{
	{"eof-after-fn-open", "fn main() {«»", `found 'EOF'`, "eq"},
	{"eof-after-newline", "fn main() {\n«»", `found 'EOF'`, "eq"},
	{"eof-after-let", "fn main() {\n    let x = «»", `found 'EOF'`, "eq"},
	{"eof-after-spaces", "fn main() {   «»", `found 'EOF'`, "eq"},
	{"eof-after-block-comment", "fn main() { /* c */«»", `found 'EOF'`, "eq"},
	{"eof-after-line-comment-nl", "fn main() { // c\n«»", `found 'EOF'`, "eq"},
	{"eof-after-line-comment", "fn main() { // c«»", `found 'EOF'`, "eq"},
	{"eof-after-line-comment-unicode", "fn main() {\n  // ✓ é«»", `found 'EOF'`, "eq"},
	{"eof-crlf", "fn main() {\r\n    let x = 1;\r\n«»", `found 'EOF'`, "eq"},
	{"eof-unicode", "fn main() { let s = \"äöü✓\"; «»", `found 'EOF'`, "eq"},
	{"eof-empty-import", "import«»", `found 'EOF'`, "eq"},
	{"unexpected-token", "fn main() {\n    let x = «)»;\n}\n", `found '\)'`, "eq"},
	{"unexpected-token-after-unicode", "fn main() {\n    let s = \"日本語\"; let x = «]»;\n}\n", `found '\]'`, "eq"},
	{"unexpected-token-crlf", "fn main() {\r\n    let x = «]»;\r\n}\r\n", `found '\]'`, "eq"},
	{"unexpected-token-tab", "fn main() {\n\t\tlet\tx = «]»;\n}\n", `found '\]'`, "eq"},
	{"unexpected-keyword", "fn main() {\n    let «while» = 1;\n}\n", `found 'while'`, "eq"},
	{"unexpected-multichar-op", "fn main() {\n    let x = «>>=» 1;\n}\n", `found '>>='`, "eq"},
	{"top-level-garbage", "fn main() {}\n\n«42»\n", `found 'int'`, "eq"},
	{"missing-semicolon", "fn main() {\n    let x = «1»\n    let y = 2;\n}\n", `Missing semicolon`, "within"},
	{"missing-semicolon-multiline", "fn main() {\n    let x = foo(\n        1,\n    «)»\n    let y = 2;\n}\n", `Missing semicolon`, "within"},
	{"illegal-char", "fn main() {\n    let x = «§»;\n}\n", `illegal character`, "eq"},
	{"illegal-char-after-unicode", "fn main() {\n    let s = \"✓✓\"; «\\» \n}\n", `illegal character`, "eq"},
	{"unterminated-string", "fn main() {\n    let s = «\"abc;\n}\n»", `String literal never closed`, "within"},
	{"unterminated-string-eof", "fn main() { let s = «\"abc»", `String literal never closed`, "within"},
	{"unfinished-escape", "fn main() { let s = \"abc«\\»", `Unfinished escape sequence`, "within"},
	{"invalid-escape", "fn main() {\n    let s = \"ab«\\q»\";\n}\n", `Invalid escape sequence`, "within"},
	{"invalid-hex-escape", "fn main() {\n    let s = \"ab«\\xZ»Z\";\n}\n", `Invalid escape sequence`, "within"},
	{"int-overflow", "fn main() {\n    let x = «9223372036854775808»;\n}\n", `Cannot use '.*' as integer`, "eq"},
	{"int-overflow-multiline", "fn main() {\n    let x = [\n        1,\n        «99999999999999999999»,\n    ];\n}\n", `Cannot use '.*' as integer`, "eq"},
	{"invalid-lhs", "fn main() {\n    «1 + 2» = 3;\n}\n", `Invalid left-hand side`, "eq"},
	{"invalid-lhs-call", "fn main() {\n    «foo(\n        1\n    )» = 3;\n}\n", `Invalid left-hand side`, "eq"},
	{"builtin-type-redeclared", "type «int» = str;\nfn main() {}\n", `Cannot redeclare builtin type`, "eq"},
	{"expected-type", "fn main() {\n    let x: «1» = 1;\n}\n", `Expected type, found`, "eq"},
	{"tilde-arrow", "fn main() {\n    x~«=»1;\n}\n", `Expected '>'`, "eq"},
	{"tilde-arrow-eof", "fn main() {\n    x~«»", `Expected '>', got EOF`, "eq"},
	{"trigger-keyword", "fn cb() {}\nfn main() {\n    trigger cb «when» minute(1);\n}\n", `Expected trigger keyword`, "eq"},
	{"field-annotation", "type T = {\n    «@»setting x: int,\n};\nfn main() {}\n", `Object field annotations are not legal here`, "eq"},
	{"literal-expected", "fn main() {\n    match 1 {\n        «x» => 1,\n    };\n}\n", `Expected a literal expression`, "eq"},
	{"import-from-missing", "import foo «main»;\nfn main() {}\n", `found 'identifier'`, "eq"},
	{"stray-closing-brace", "fn main() {\n}\n«}»\n", `found '\}'`, "eq"},
}

// layouts move a known text around without changing what is wrong with it.
var synLayouts = []struct {
	Name string
	F    func(string) string
}{
	{"plain", func(s string) string { return s }},
	{"blank-lines", func(s string) string { return "\n\n\n" + s }},
	{"unicode-comment", func(s string) string { return "// ünïcödé ✓ 日本語 🎉\n/* ✓\n ✓✓ */ " + s }},
	{"crlf", func(s string) string { return strings.ReplaceAll(strings.ReplaceAll(s, "\r\n", "\n"), "\n", "\r\n") }},
	{"indent", func(s string) string { return "      " + strings.ReplaceAll(s, "\n", "\n      ") }},
	{"tab-indent", func(s string) string { return "\t" + strings.ReplaceAll(s, "\n", "\n\t\t") }},
	{"after-fn", func(s string) string { return "fn helper(a: int) -> int {\n    a\n}\n" + s }},
}

var synReplacements = []string{"fn", "let", "(", ")", "{", "}", "[", "]", ",", ";", ":", ".", "..", "->", "=>", "?", "@", "$x", "=", "+", "as", "x", "1", "\"s\"", "import", "type", "match", "try", "catch", "else", "new", "spawn", "trigger", "impl", "for", "in", "_", "|", "§", "\"", "'\\q'", "99999999999999999999", "~", "// c", "/* c"}

// refTokenSpans gives byte offsets of the reference tokens of a text (for edits).
func refTokenSpans(src string) [][2]int {
	lr := lexref.Lex(src, lexref.Options{})
	runes := []rune(src)
	offs := make([]int, len(runes)+1)
	o := 0
	for i, r := range runes {
		offs[i] = o
		o += len(string(r))
	}
	offs[len(runes)] = o
	// invalid UTF-8 makes rune offsets and byte offsets diverge; such texts are only used as they are
	if o != len(src) {
		return nil
	}
	var out [][2]int
	for _, t := range lr.Tokens {
		out = append(out, [2]int{offs[t.Start.Index], offs[t.End.Index+1]})
	}
	return out
}

// endsInLineComment: the text ends inside a `//` comment that is not closed by a line feed. The
// trailing run of skipped runes (whitespace and comments, by the reference lexer) is re-scanned.
func endsInLineComment(text string) bool {
	r := []rune(text)
	if len(r) == 0 || r[len(r)-1] == '\n' {
		return false
	}
	lr := lexref.Lex(text, lexref.Options{})
	if lr.Err != nil || !lr.Skipped[len(r)-1] {
		return false
	}
	i := len(r) - 1
	for i > 0 && lr.Skipped[i-1] {
		i--
	}
	for i < len(r) {
		switch {
		case r[i] == '/' && i+1 < len(r) && r[i+1] == '/':
			for i < len(r) && r[i] != '\n' {
				i++
			}
			if i >= len(r) {
				return true
			}
			i++
		case r[i] == '/' && i+1 < len(r) && r[i+1] == '*':
			i += 2
			for i < len(r) && !(r[i] == '*' && i+1 < len(r) && r[i+1] == '/') {
				i++
			}
			i += 2
		default:
			i++
		}
	}
	return false
}

func synTags(text string) []string {
	var tags []string
	if endsInLineComment(text) {
		tags = append(tags, "eof-in-line-comment")
	}
	if strings.Contains(text, "$") {
		tags = append(tags, "singleton-ident")
	}
	return tags
}

func applyMarked(marked string) (plain string, culprit rng, ok bool) {
	r := []rune(marked)
	var out []rune
	from, to := -1, -1
	for _, c := range r {
		switch c {
		case '«':
			from = len(out)
		case '»':
			to = len(out) - 1
		default:
			out = append(out, c)
		}
	}
	if from < 0 || to < from-1 {
		return string(out), rng{}, false
	}
	return string(out), rng{from, to}, true
}

func syntaxCases(tier string, seed uint64) []fw.Case {
	r := fw.NewRng(seed ^ 0xC08A)
	thorough := tier == "thorough"
	var cases []fw.Case
	seen := map[string]bool{}
	n := 0
	poisoned := 0
	kfEOF := fw.KFOpen("KF-c08-eof-after-line-comment")
	kfSingleton := fw.KFOpen("KF-c08-singleton-ident-span")
	poisonedSingleton := 0
	add := func(gen string, text string, both bool) {
		if len(text) > 64*1024 {
			return
		}
		tags := synTags(text)
		// constructs poisoned by an open finding: only a small poisoned workload keeps them
		if hasTag(tags, "eof-in-line-comment") && kfEOF {
			if poisoned >= 40 {
				return
			}
			poisoned++
		}
		if hasTag(tags, "singleton-ident") && kfSingleton {
			if poisonedSingleton >= 60 {
				return
			}
			poisonedSingleton++
		}
		for _, imp := range []bool{false, true} {
			if imp && !both {
				continue
			}
			key := fw.HashOf(text, imp)
			if seen[key] {
				continue
			}
			seen[key] = true
			cases = append(cases, fw.MkCase(fmt.Sprintf("c08-syn-%s-%d", gen, n), "syntax", synPayload{Text: []byte(text), AsImport: imp, Gen: gen}, tags...))
			n++
		}
	}
	texts := map[string]string{}
	for k, v := range util.Corpus() {
		texts[k] = v
	}
	for k, v := range handPrograms {
		texts[k] = v
	}
	names := drive.SortedKeys(texts)
	for _, name := range names {
		src := texts[name]
		hand := strings.HasPrefix(name, "h")
		add("whole", src, true)
		spans := refTokenSpans(src)
		// prefixes
		if thorough {
			for i := 0; i <= len(src); i++ {
				add("prefix", src[:i], hand || i%5 == 0)
			}
		} else {
			for _, sp := range spans {
				if hand || r.Chance(1, 3) {
					add("prefix", src[:sp[0]], hand && r.Chance(1, 2))
				}
				if hand || r.Chance(1, 6) {
					add("prefix", src[:sp[1]], r.Chance(1, 2))
				}
			}
			// prefixes that end inside comments / whitespace: a few byte prefixes per text
			for k := 0; k < 12 && len(src) > 0; k++ {
				add("prefix", src[:r.Intn(len(src)+1)], false)
			}
		}
		// single-token edits
		if len(spans) == 0 {
			continue
		}
		budget := len(spans) * 5
		if !thorough {
			budget = 60
			if hand {
				budget = 150
			}
		}
		for e := 0; e < budget; e++ {
			var i, kind int
			var rep string
			if thorough {
				i, kind = e/5, e%5
				rep = synReplacements[(i*7+kind*3+int(seed))%len(synReplacements)]
				if kind == 4 {
					rep = fw.Pick(r, synReplacements)
				}
			} else {
				i, kind = r.Intn(len(spans)), r.Intn(5)
				rep = fw.Pick(r, synReplacements)
			}
			if i >= len(spans) {
				break
			}
			s, t := spans[i][0], spans[i][1]
			var out string
			switch kind {
			case 0:
				out = src[:s] + src[t:]
			case 1:
				out = src[:t] + " " + src[s:t] + src[t:]
			case 2:
				if i+1 >= len(spans) {
					continue
				}
				s2, t2 := spans[i+1][0], spans[i+1][1]
				out = src[:s] + src[s2:t2] + src[t:s2] + src[s:t] + src[t2:]
			default:
				out = src[:s] + rep + src[t:]
			}
			add("edit", out, e%4 == 0)
		}
	}
	soupCases(tier, seed, add)
	// known positions under every layout, as entry and as imported module
	for _, k := range knownSyntax {
		for _, lay := range synLayouts {
			marked := lay.F(k.Marked)
			plain, _, _ := applyMarked(marked)
			tags := synTags(plain)
			for _, imp := range []bool{false, true} {
				cases = append(cases, fw.MkCase(fmt.Sprintf("c08-synk-%s/%s/%v", k.Name, lay.Name, imp), "syntax",
					synPayload{Text: []byte(marked), AsImport: imp, Gen: "known:" + k.Name, Marked: true, Msg: k.Msg, Rel: k.Rel}, tags...))
			}
		}
	}
	return cases
}

var (
	reFoundEOF   = regexp.MustCompile(`found '?EOF'?$|got EOF$`)
	reFoundTok   = regexp.MustCompile(`^Expected .*found |^Missing semicolon \(|^Cannot use '.*' as (integer|float)|^Cannot redeclare builtin type|^Object field annotations are not legal here`)
	reTokBounds  = regexp.MustCompile(`^Missing semicolon after statemtent|^Invalid left-hand side of assignment`)
	reLexMessage = regexp.MustCompile(`^illegal character|^String literal never closed|^Unfinished escape sequence|^Invalid escape sequence|^Expected '>', got`)
)

// syntaxContain applies the containment table (DESIGN.md Appendix I) to a syntax error of any text,
// using the independent reference lexer for the token positions.
func (m *monitor) syntaxContain(e herrors.Error, ti *textInfo, lr lexref.Result) {
	class := msgClass(e.Message)
	sp := spanRange(e.Span)
	eof := len(ti.runes)
	beforeLexErr := lr.Err == nil || sp.To < lr.Err.At.Index
	m.evals++
	switch {
	case reLexMessage.MatchString(e.Message):
		m.cover["contain:lexer-error"] = true
		if lr.Err == nil {
			if strings.HasPrefix(e.Message, "Expected '>'") {
				// `~` not followed by `>`: the reference lexer reports an illegal character at the `~`
				return
			}
			m.obs["lexref_disagrees"]++
			return
		}
		if lexErrClass(e.Message) != lr.Err.Class && !(lr.Err.Class == "invalid-code-point" || lr.Err.Class == "unterminated-escape" && strings.HasPrefix(e.Message, "Invalid escape")) {
			// the parser went on after an earlier lexer error (or the reference reads the text differently): not judged here
			m.obs["lexref_disagrees"]++
			return
		}
		lo, hi := lr.Err.At.Index, lr.Err.Where.Index
		switch lr.Err.Class {
		case "invalid-escape", "invalid-code-point":
			hi += 10 // the failing rune of \x.. \u.... \U........ \ooo is at most 9 runes after the backslash
		case "illegal-character":
			if strings.HasPrefix(e.Message, "Expected '>'") {
				hi++ // `~x`: the culprit is the rune after the tilde (or the end of input)
			}
		}
		if hi > eof {
			hi = eof
		}
		if sp.From < lo || sp.To > hi {
			m.fail("syntax:outside-culprit:"+class, fmt.Sprintf("lexer error %q at %s lies outside the failing lexeme [%d..%d] (%s)", e.Message, fmtSpan(e.Span), lo, hi, lr.Err.Class), nil)
		}
	case reFoundEOF.MatchString(e.Message):
		m.cover["contain:found-eof"] = true
		if lr.Err != nil {
			return
		}
		if sp.From != eof || sp.To != eof {
			m.fail("syntax:outside-culprit:"+class, fmt.Sprintf("%q reported at %s, but the end of input is index %d (%d:%d)", e.Message, fmtSpan(e.Span), eof, ti.pos[eof].Line, ti.pos[eof].Col), nil)
		}
	case reFoundTok.MatchString(e.Message):
		m.cover["contain:token"] = true
		if !beforeLexErr {
			return
		}
		for _, t := range lr.Tokens {
			if t.Start.Index == sp.From && t.End.Index == sp.To {
				return
			}
		}
		if strings.HasPrefix(e.Message, "Missing semicolon (") && sp.From == eof && sp.To == eof && lr.Err == nil {
			// the statement runs to the end of input: the place where the semicolon is missing is the end-of-input position
			return
		}
		m.fail("syntax:not-a-token:"+class, fmt.Sprintf("%q reported at %s, which is not the span of a token of the text", e.Message, fmtSpan(e.Span)), nil)
	case reTokBounds.MatchString(e.Message):
		m.cover["contain:token-bounds"] = true
		if !beforeLexErr {
			return
		}
		s, t := false, false
		for _, tk := range lr.Tokens {
			if tk.Start.Index == sp.From {
				s = true
			}
			if tk.End.Index == sp.To {
				t = true
			}
		}
		if sp.To == eof && lr.Err == nil {
			t = true // a statement that runs into the end of input may include the end-of-input position
		}
		if !s || !t {
			m.fail("syntax:not-token-aligned:"+class, fmt.Sprintf("%q reported at %s: the span does not start and end with tokens of the text", e.Message, fmtSpan(e.Span)), nil)
		}
	default:
		m.obs["syntax_class_without_rule"]++
	}
}

func lexErrClass(msg string) string {
	switch {
	case strings.HasPrefix(msg, "illegal character"), strings.HasPrefix(msg, "Expected '>', got"):
		return "illegal-character"
	case strings.HasPrefix(msg, "String literal never closed"):
		return "unterminated-string"
	case strings.HasPrefix(msg, "Unfinished escape sequence"):
		return "unterminated-escape"
	case strings.HasPrefix(msg, "Invalid escape sequence"):
		return "invalid-escape"
	}
	return ""
}

func runSyntax(c fw.Case) fw.Result {
	var p synPayload
	fw.Decode(c, &p)
	text := string(p.Text)
	var culprit rng
	if p.Marked {
		var ok bool
		text, culprit, ok = applyMarked(text)
		if !ok {
			return fw.Result{Verdict: fw.Inconclusive, Why: "bad markers in " + c.ID}
		}
	}
	src := drive.Sources{}
	file := "main"
	if p.AsImport {
		src["main"] = importMain
		src["m"] = text
		file = "m"
	} else {
		src["main"] = text
	}
	mode := "entry"
	if p.AsImport {
		mode = "import"
	}
	m := newMonitor(src, fmt.Sprintf("gen=%s mode=%s text=%q", p.Gen, mode, util.Clip(text, 400)))
	var ao drive.AnalyzeOut
	var pv any
	func() {
		defer func() { pv = recover() }()
		ao = drive.Analyze(src, "main", true)
	}()
	if pv != nil {
		// totality is C05's business: not a verdict of this property
		return fw.Result{Verdict: fw.Inconclusive, Why: "analysis panicked (C05): " + util.Clip(fmt.Sprint(pv), 200)}
	}
	ti := m.ti(file)
	lr := lexref.Lex(text, lexref.Options{})
	matched := 0
	for _, e := range ao.Syntax {
		st := m.syntaxError(e)
		if e.Span.Filename != file {
			if p.AsImport && e.Span.Filename == "main" {
				continue
			}
		}
		if st.Inside && e.Span.Filename == file {
			m.syntaxContain(e, ti, lr)
		}
		if p.Marked && regexp.MustCompile(p.Msg).MatchString(e.Message) {
			matched++
			m.evals++
			m.cover["known:"+p.Rel] = true
			if e.Span.Filename != file {
				m.fail("syntax:wrong-file:"+msgClass(e.Message), fmt.Sprintf("%q is reported in file %q but the text is module %q", e.Message, e.Span.Filename, file), nil)
			} else if st.Inside {
				got := spanRange(e.Span)
				okc := false
				switch p.Rel {
				case "eq":
					okc = got == culprit || (culprit.To < culprit.From && got.From == culprit.From && got.To == culprit.From)
				default:
					// the failing "rune" of an unterminated lexeme is the end of input
					c := culprit
					if c.To == len(ti.runes)-1 {
						c.To++
					}
					okc = within(got, c)
				}
				if !okc {
					m.fail("syntax:outside-culprit:"+msgClass(e.Message), fmt.Sprintf("%q reported at %s = runes %v, expected %s %v", e.Message, fmtSpan(e.Span), got, p.Rel, culprit), nil)
				}
			}
		}
	}
	for _, d := range ao.Diags {
		m.diag(d)
	}
	m.obs["syntax_errors"] += int64(len(ao.Syntax))
	m.obs["diagnostics"] += int64(len(ao.Diags))
	res := m.result(len(ao.Syntax)+len(ao.Diags) > 0)
	if p.Marked && matched == 0 {
		// the template did not provoke the error it was written for: the harness is out of date, not /repo
		if res.Verdict == fw.Held {
			res.Verdict = fw.Inconclusive
			res.Why = fmt.Sprintf("known-position text %s produced no syntax error matching %q (got %s)", p.Gen, p.Msg, ao.ErrorSummary())
		}
	}
	res.Cover = append(res.Cover, "syn:"+strings.SplitN(p.Gen, ":", 2)[0]+":"+mode)
	if len(ao.Syntax) > 0 {
		res.Cover = append(res.Cover, "class:"+msgClass(ao.Syntax[len(ao.Syntax)-1].Message))
	}
	if p.Marked || c.ID[len(c.ID)-1] == '7' && len(text) < 300 {
		res.Sample = map[string]any{"kind": "syntax", "gen": p.Gen, "mode": mode, "text": util.Clip(text, 200), "errors": util.Clip(ao.ErrorSummary(), 300)}
	}
	return res
}
