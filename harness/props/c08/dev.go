package c08

import (
	"fmt"
	"sort"
	"strings"

	"hv/fw"
)

// DevReport runs the cases whose id contains filter in-process and summarises the failures by
// signature (development helper for hvdev-c08, not used by the check).
func DevReport(tier string, seed uint64, filter string, verbose bool) string {
	var sb strings.Builder
	p := c08{}
	total := map[string]int64{}
	cover := map[string]int{}
	bySig := map[string][]string{}
	verd := map[string]int{}
	cases := p.Cases(tier, seed)
	n := 0
	for _, c := range cases {
		if filter != "" && !strings.Contains(c.ID, filter) {
			continue
		}
		n++
		r := p.Run(c)
		verd[r.Verdict]++
		for k, v := range r.Obs {
			total[k] += v
		}
		for _, k := range r.Cover {
			cover[k]++
		}
		total["evals"] += r.Evals
		if r.Nontrivial {
			total["nontrivial"]++
		}
		if r.Verdict == fw.Inconclusive {
			bySig["INCONCLUSIVE"] = append(bySig["INCONCLUSIVE"], c.ID+": "+r.Why)
		}
		if r.Verdict == fw.Violated {
			subs := append([]fw.SubViolation{{Why: r.Why, Sig: r.Sig}}, r.More...)
			for _, s := range subs {
				bySig[s.Sig] = append(bySig[s.Sig], c.ID+" "+fmt.Sprint(c.Tags)+": "+s.Why)
			}
		}
	}
	sigs := make([]string, 0, len(bySig))
	for s := range bySig {
		sigs = append(sigs, s)
	}
	sort.Strings(sigs)
	for _, s := range sigs {
		fmt.Fprintf(&sb, "== %s  x%d\n", s, len(bySig[s]))
		lim := 2
		if verbose {
			lim = 8
		}
		for i, w := range bySig[s] {
			if i >= lim {
				break
			}
			fmt.Fprintf(&sb, "     %s\n", w)
		}
	}
	fmt.Fprintf(&sb, "cases=%d (of %d) verdicts=%v\n", n, len(cases), verd)
	keys := make([]string, 0, len(total))
	for k := range total {
		keys = append(keys, k)
	}
	sort.Strings(keys)
	for _, k := range keys {
		fmt.Fprintf(&sb, "  obs %s=%d\n", k, total[k])
	}
	if verbose {
		ck := make([]string, 0, len(cover))
		for k := range cover {
			ck = append(ck, k)
		}
		sort.Strings(ck)
		for _, k := range ck {
			fmt.Fprintf(&sb, "  cover %s=%d\n", k, cover[k])
		}
	}
	return sb.String()
}
