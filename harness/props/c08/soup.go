package c08

// Broad, culprit-free inputs for the well-formedness and rendering monitor: token soup, random
// bytes (including invalid UTF-8) and statement soup (random mixes of well-typed and ill-typed
// statements that keep the parser happy so that the analyzer produces many diagnostics at once).

import (
	"fmt"
	"strings"

	"hv/fw"
)

var soupVocab = []string{
	"fn", "let", "pub", "event", "import", "from", "type", "templ", "trigger", "impl", "with", "for", "in", "while", "loop", "if", "else",
	"match", "try", "catch", "return", "break", "continue", "as", "new", "spawn", "on", "at", "true", "false", "off", "null", "none", "fn main",
	"(", ")", "{", "}", "[", "]", ",", ";", ":", ".", "..", "->", "=>", "~>", "~", "?", "@", "$", "#", "_",
	"+", "-", "*", "/", "%", "**", "==", "!=", "<", ">", "<=", ">=", "<<", ">>", "|", "&", "^", "&&", "||", "!",
	"=", "+=", "-=", "*=", "/=", "%=", "**=", "<<=", ">>=", "|=", "&=", "^=",
	"x", "y", "main", "foo", "int", "str", "float", "bool", "any", "$S", "1", "42", "3.14", "1f", "1_000", "99999999999999999999", "\"s\"", "'c'", "\"\\n\"", "\"\\q\"", "\"", "'", "/*", "*/", "//", "// ✓", "\n", "\r\n", "\t", "✓", "é", "§",
}

var soupStatements = []string{
	// well-typed
	"let a1 = x + 1;", "println(x, s);", "l.push(3);", "let b1 = o.a * 2;", "if bb { println(1); } else { println(2); }",
	"for i in 0..3 {\n        println(i);\n    }", "while x < 3 { x += 1; }", "let c1 = match x { 1 => \"a\", _ => \"b\" };",
	"let d1 = try { f2(1, \"a\") } catch e { println(e.line); 0 };", "let e1: T = new { a: 1, b: none };", "let f1 = fn(q: int) -> int { q + 1 }; println(f1(2));",
	"ao.set(\"k\", 1);", "let g1 = opt.unwrap_or(3);", "let h1 = l[0] + l[1];", "let i1 = s.len() + 1;", "let j1 = [\n        1,\n        2,\n    ];",
	"let k1 = \"äöü✓\" + s;", "/* ✓ comment */ let m1 = fl * 2.0;", "let n1 = x as float;", "println(\n        1,\n        2\n    );", "g += 1;",
	// ill-typed or otherwise diagnosed
	"let a2 = x + \"s\";", "let b2 = undefined_name;", "let c2: Unknown = 1;", "o.nope;", "let d2 = -s;", "f2(\"x\", \"y\");", "f2(1);", "f2(1, \"a\", 3);",
	"let e2: int = \"s\";", "x = \"t\";", "x += \"t\";", "break;", "continue;", "let f2x = [1, \"a\"];", "if 1 { }", "let g2 = if true { 1 } else { \"a\" };",
	"for q in 5 { }", "l[\"a\"];", "1();", "let h2 = 1 as [int];", "$Nope;", "match 1 { \"a\" => 1, _ => 2 };", "s.nope();", "let i2: T = new { a: \"s\", b: none };",
	"let j2: T = new { b: none };", "o.a = \"s\";", "!1.5;", "opt.unwrap_or();", "return 1;", "spawn f2(1);", "let k2 = try { 1 } catch e { \"a\" };",
	"let dup = 1; let dup = 2;", "let m2 = [];", "let n2 = 1..true;", "ao.foo;", "let p2 = fn(q: int) -> int { \"s\" };", "let q2 = println as int;", "println.foo;",
	"let r2 = x +\n        \"s\";", "f2(\n        \"x\",\n        2\n    );", "let s2 = new {\n        a: 1,\n        a: 2,\n    };", "let t2 = \"äöü✓\" - 1;", "let u2 = \"日本語\".nope;",
	"let v2: int = println;", "let w2 = [println, 1];", "throw(1, 2);", "assert(1);", "l.push(\"s\");", "let x2: ?int = \"s\";", "let y2 = none + 1;", "let z2 = x.y.z;",
	"trigger f2 at minute(1);", "let aa: fn(a: int) -> int = fn(b: str) -> str { b };", "let ab = match x { 1 => 1 };", "let ac = if bb { 1 };", "loop { let ad = fn() { break; }; break; }",
	"let ae = l as [str];", "let af = ao as T;", "let ag = \"x\".parse_json();", "let ah: any = 1;", "x.len();", "let ai = (1 +\n        2 +\n        \"3\");",
}

const soupPrelude = "type T = { a: int, b: ?str };\nlet g = 1;\nfn f2(a: int, b: str) -> int { println(a, b); a }\nfn main() {\n    let x = 1; let s = \"s\"; let l = [1, 2]; let o = new { a: 1, b: ?\"x\" }; let ao = new { ? }; let opt: ?int = none; let fl = 1.5; let bb = true;\n"

func soupCases(tier string, seed uint64, add func(gen, text string, both bool)) {
	r := fw.NewRng(seed ^ 0xC085)
	thorough := tier == "thorough"
	// token soup
	n := 4000
	if thorough {
		n = 60000
	}
	for i := 0; i < n; i++ {
		var sb strings.Builder
		k := 1 + r.Intn(30)
		sep := []string{" ", "", "\n", " "}[r.Intn(4)]
		if r.Chance(1, 3) {
			sb.WriteString("fn main() { ")
		}
		for j := 0; j < k; j++ {
			sb.WriteString(fw.Pick(r, soupVocab))
			sb.WriteString(sep)
		}
		add("soup", sb.String(), r.Chance(1, 3))
	}
	// random bytes
	n = 1500
	if thorough {
		n = 20000
	}
	for i := 0; i < n; i++ {
		l := r.Intn(80)
		b := make([]byte, l)
		switch r.Intn(3) {
		case 0:
			for j := range b {
				b[j] = byte(r.Intn(256))
			}
		case 1:
			for j := range b {
				b[j] = byte(32 + r.Intn(95))
			}
		default:
			const alpha = "abfnlet(){}[];:,.=+-*/%<>!&|^?@$#_\"'\\ \n\t\r0123456789~"
			for j := range b {
				b[j] = alpha[r.Intn(len(alpha))]
			}
		}
		add("bytes", string(b), r.Chance(1, 3))
	}
	// statement soup
	n = 1500
	if thorough {
		n = 25000
	}
	for i := 0; i < n; i++ {
		var sb strings.Builder
		sb.WriteString(soupPrelude)
		k := 2 + r.Intn(7)
		for j := 0; j < k; j++ {
			sb.WriteString("    ")
			if r.Chance(1, 5) {
				sb.WriteString(unicodePre)
			}
			sb.WriteString(fw.Pick(r, soupStatements))
			if r.Chance(1, 4) {
				sb.WriteString(" ")
				sb.WriteString(fw.Pick(r, soupStatements))
			}
			sb.WriteString("\n")
		}
		sb.WriteString("}\n")
		text := fw.Pick(r, diagLayouts).F(sb.String())
		add("stmts", text, r.Chance(1, 2))
	}
	_ = fmt.Sprint
}
