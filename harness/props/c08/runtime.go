package c08

// Workload 3: runtime failures of accepted programs at known positions, observed on both backends:
// the span of the fatal interrupt and the line/column/filename of the error object a catch block
// prints. «…» marks the failing construct.

import (
	"context"
	"fmt"
	"strconv"
	"strings"
	"sync"
	"time"

	"github.com/smarthome-go/homescript/v3/homescript/compiler"
	"github.com/smarthome-go/homescript/v3/homescript/diagnostic"
	herrors "github.com/smarthome-go/homescript/v3/homescript/errors"
	"github.com/smarthome-go/homescript/v3/homescript/runtime"

	"hv/drive"
	"hv/fw"
	"hv/util"
)

type rtTpl struct {
	Name string
	Stmt string // statement(s) with the «failing construct»
	Top  string // extra top-level text (imports, helper functions)
	// Mods: further modules of the source set (e.g. the module a type is imported from)
	Mods map[string]string
	// Loose: the culprit markers enclose the larger reading (whole statement)
	Tags []string
}

const rtDecls = "let zero = 0; let fzero = 0.0; let neg = -1; let l = [1, 2, 3]; let n: ?int = none; let ao = new { ? }; let s = \"abc\";"

var rtTemplates = []rtTpl{
	{Name: "throw", Stmt: "«throw(\"boom\");»", Tags: []string{"throw"}},
	{Name: "throw-multiline", Stmt: "«throw(%NL%\"boom\"%NL%);»", Tags: []string{"throw"}},
	{Name: "throw-expr", Stmt: "«throw(\"a\" + s);»", Tags: []string{"throw"}},
	{Name: "throw-in-if", Stmt: "if zero == 0 {%NL%«throw(l);» }", Tags: []string{"throw"}},
	{Name: "throw-as-value", Stmt: "let _v: int = if zero == 1 { 1 } else {%NL%«throw(\"boom\")» };", Tags: []string{"throw", "throw-in-expr"}},
	{Name: "throw-in-arg", Stmt: "println(1,%NL%«throw(\"boom\")»,%NL%3);", Tags: []string{"throw", "throw-in-expr"}},
	{Name: "throw-in-list", Stmt: "let _v: [int] = [1,%NL%«throw(\"boom\")»,%NL%3];", Tags: []string{"throw", "throw-in-expr"}},
	{Name: "throw-in-match", Stmt: "let _v: int = match zero { 0 =>%NL%«throw(\"boom\")», _ => 1 };", Tags: []string{"throw", "throw-in-expr"}},
	{Name: "div-zero", Stmt: "let _r = «10 /%NL%zero»;"},
	{Name: "rem-zero", Stmt: "let _r = «10 % zero»;"},
	{Name: "fdiv-zero", Stmt: "let _r = «1.5 /%NL%fzero»;"},
	{Name: "div-zero-assign", Stmt: "let d = 10; «d /= zero»; println(d);"},
	{Name: "neg-shift", Stmt: "let _r = «1 <<%NL%neg»;"},
	{Name: "neg-shift-right", Stmt: "let _r = «1 >> neg»;"},
	{Name: "index-oob", Stmt: "let _r = «l[%NL%7]»;"},
	{Name: "index-oob-neg", Stmt: "let _r = «l[-9]»;"},
	{Name: "index-oob-str", Stmt: "let _r = «s[9]»;"},
	{Name: "index-oob-assign", Stmt: "«l[7]» = 1;"},
	{Name: "unwrap-none", Stmt: "let _r = «n.unwrap()»;"},
	{Name: "unwrap-none-chain", Stmt: "let _r = 1 +%NL%«n%NL%.unwrap()»;"},
	{Name: "cast-fail", Stmt: "let _r = «\"\\\"x\\\"\".parse_json() as%NL%int»;"},
	{Name: "cast-fail-list", Stmt: "let _r = «\"{}\".parse_json() as [int]»;"},
	{Name: "json-error", Stmt: "let _r = «\"foo\".parse_json() as int»;"},
	{Name: "assert", Stmt: "«assert(zero == 1);»"},
	{Name: "assert-multiline", Stmt: "«assert(%NL%zero ==%NL%1%NL%);»"},
	{Name: "assert-eq", Top: "import assert_eq from testing;\n", Stmt: "«assert_eq(zero, 1);»"},
	{Name: "parse-int", Stmt: "let _r = «\"zz\".parse_int()»;"},
	{Name: "repeat-negative", Stmt: "let _r = «\"a\".repeat(neg)»;"},
	{Name: "anyobj-get-type", Stmt: "let _r = «ao.get_type(\"k\")»;"},
	{Name: "in-call-arg", Stmt: "println(1,%NL%«10 / zero»,%NL%3);"},
	{Name: "in-condition", Stmt: "if «10 / zero» == 1 { println(\"no\"); }"},
	{Name: "in-nested-expr", Stmt: "let _r = 1 + («l[9]») * 2;"},
	{Name: "in-list-literal", Stmt: "let _r = [1,%NL%«10 % zero»,%NL%3];"},
	{Name: "in-object-literal", Stmt: "let _r = new {%NL%a: 1,%NL%b: «n.unwrap()»,%NL%};"},
	{Name: "in-closure", Stmt: "let f = fn(z: int) -> int {%NL%«10 / z» }; println(f(zero));"},
	{Name: "in-match", Stmt: "let _r = match zero { 0 =>%NL%«10 / zero», _ => 1 };"},
	{Name: "in-for", Stmt: "for i in 0..3 { if i == 1 {%NL%«throw(i);» } }", Tags: []string{"throw"}},
	{Name: "in-return", Top: "fn helper(z: int) -> int {\n    return «10 / z»;\n}\n", Stmt: "println(helper(zero));"},
}

type rtPayload struct {
	Tpl    string `json:"tpl"`
	Place  string `json:"place"` // main | main-last | callee | nested | import
	Mode   string `json:"mode"`  // fatal | caught | cancel | limit
	Layout string `json:"lay"`   // name of a diagLayout
	Pre    bool   `json:"pre,omitempty"`
	Cont   bool   `json:"cont,omitempty"`
	// Literal: pinned witness with explicit marked module texts
	Literal map[string]string `json:"lit,omitempty"`
	File    string            `json:"file,omitempty"`
}

var rtPlaces = []string{"main", "main-last", "callee", "nested", "import"}

func findRtTpl(name string) *rtTpl {
	for i := range rtTemplates {
		if rtTemplates[i].Name == name {
			return &rtTemplates[i]
		}
	}
	return nil
}

const catchTail = "} catch e {\n        println(\"C08POS\", e.line, e.column, e.filename);\n    }\n"

func indentLines(s, ind string) string { return strings.ReplaceAll(s, "\n", "\n"+ind) }

// buildRuntime instantiates a template; returns marked module texts and the culprit module.
func buildRuntime(t *rtTpl, p rtPayload) (map[string]string, string) {
	after := "    println(\"after\");\n"
	if p.Place == "main-last" {
		after = ""
	}
	stmt := "%PRE%" + t.Stmt
	caught := p.Mode == "caught"
	var main, m string
	file := "main"
	body := func(inner string) string { // the function body that holds the failing statement
		return "    " + rtDecls + "\n" + inner
	}
	failing := "    " + stmt + "\n" + after
	if caught && (p.Place == "main" || p.Place == "main-last" || p.Place == "nested") {
		failing = "    try {\n        " + stmt + "\n    " + after + "    " + catchTail
	}
	switch p.Place {
	case "main", "main-last":
		main = t.Top + "fn main() {\n" + body(failing) + "}\n"
	case "nested":
		inner := "    let i = 0;\n    while i < 3 {\n        i += 1;\n        if i == 2 {\n        " + indentLines(strings.TrimRight(failing, "\n"), "        ") + "\n        }\n    }\n"
		main = t.Top + "fn main() {\n" + body(inner) + "}\n"
	case "callee", "import":
		work := "fn work() {\n" + body(failing) + "}\n"
		call := "    work();\n    println(\"unreachable\");\n"
		if caught {
			call = "    try {\n        work();\n        println(\"unreachable\");\n    " + catchTail
		}
		if p.Place == "callee" {
			main = t.Top + work + "fn main() {\n    println(\"before\");\n" + call + "}\n"
		} else {
			m = "let _c08_g = 1;\n" + t.Top + "pub " + work + "fn main() {\n}\n"
			main = "import work from m;\nfn main() {\n    println(\"before\");\n" + call + "}\n"
			file = "m"
		}
	}
	pre, nl := "", " "
	if p.Pre {
		pre = unicodePre
	}
	if p.Cont {
		nl = "\n            "
	}
	fill := func(s string) string {
		s = strings.ReplaceAll(strings.ReplaceAll(s, "%PRE%", pre), "%NL%", nl)
		for _, l := range diagLayouts {
			if l.Name == p.Layout {
				s = l.F(s)
			}
		}
		return s
	}
	out := map[string]string{}
	if file == "m" {
		out["m"] = fill(m)
		out["main"] = main
	} else {
		out["main"] = fill(main)
	}
	for k, v := range t.Mods {
		out[k] = v
	}
	return out, file
}

func runtimeCases(tier string, seed uint64) []fw.Case {
	var cases []fw.Case
	r := fw.NewRng(seed ^ 0xC08E)
	kfThrow := fw.KFOpen("KF-c08-vm-throw-span-next-instruction")
	throwPoison := 0
	for _, t := range rtTemplates {
		if hasTag(t.Tags, "type-validation") {
			continue // sampled below
		}
		for _, place := range rtPlaces {
			for _, mode := range []string{"fatal", "caught"} {
				for li, lay := range diagLayouts {
					for v := 0; v < 4; v++ {
						pre, cont := v&1 == 1, v&2 == 2
						if li > 0 || v > 0 {
							den := 6
							if tier == "thorough" {
								den = 1
							}
							if !r.Chance(1, den) {
								continue
							}
						}
						if kfThrow && hasTag(t.Tags, "throw-in-expr") {
							// poisoned by the open finding: a few dozen cases only
							if throwPoison >= 60 || li > 0 || v > 1 {
								continue
							}
							throwPoison++
						}
						id := fmt.Sprintf("c08-rt-%s-%s-%s-%s-%d", t.Name, place, mode, lay.Name, v)
						cases = append(cases, fw.MkCase(id, "runtime", rtPayload{Tpl: t.Name, Place: place, Mode: mode, Layout: lay.Name, Pre: pre, Cont: cont}, t.Tags...))
					}
				}
			}
		}
	}
	cases = append(cases, validationCases(tier, seed)...)
	// positions that only have to be well-formed: cancellation and resource limits
	for _, place := range rtPlaces {
		for _, mode := range []string{"cancel", "cancel-builtin", "limit"} {
			for _, lay := range diagLayouts {
				id := fmt.Sprintf("c08-rt-wf-%s-%s-%s", place, mode, lay.Name)
				cases = append(cases, fw.MkCase(id, "runtime", rtPayload{Tpl: "wf", Place: place, Mode: mode, Layout: lay.Name, Pre: true, Cont: true}))
			}
		}
	}
	return cases
}

var wfTpl = rtTpl{Name: "wf", Top: "fn rec(k: int) -> int {\n    rec(k + 1) + 1\n}\n", Stmt: "«println(rec(zero));»"}
var wfCancelTpl = rtTpl{Name: "wf-cancel", Stmt: "«let k = 0;%NL%while k < 1000000 {%NL%k += 1;%NL%}»"}

// a blocking builtin that polls the context itself: the termination carries the span of the call
var wfCancelBuiltinTpl = rtTpl{Name: "wf-cancel-builtin", Stmt: "«vsleep(%NL%100000000%NL%);»"}

// countingCtx is cancelled at its k-th poll (Done call): cancellation at an exact logical step.
type countingCtx struct {
	mu    sync.Mutex
	polls int
	at    int
	ch    chan struct{}
}

func newCountingCtx(at int) *countingCtx { return &countingCtx{at: at, ch: make(chan struct{})} }

func (c *countingCtx) Deadline() (time.Time, bool) { return time.Time{}, false }
func (c *countingCtx) Done() <-chan struct{} {
	c.mu.Lock()
	defer c.mu.Unlock()
	c.polls++
	if c.polls == c.at {
		close(c.ch)
	}
	return c.ch
}
func (c *countingCtx) Err() error {
	c.mu.Lock()
	defer c.mu.Unlock()
	if c.polls >= c.at {
		return context.Canceled
	}
	return nil
}
func (c *countingCtx) Value(any) any { return nil }

// count: polls seen so far
func (c *countingCtx) count() int { c.mu.Lock(); defer c.mu.Unlock(); return c.polls }

// caughtPositions extracts the positions a catch block printed.
func caughtPositions(out string) (res [][3]string) {
	for _, line := range strings.Split(out, "\n") {
		f := strings.Fields(line)
		if len(f) >= 3 && f[0] == "C08POS" {
			file := ""
			if len(f) >= 4 {
				file = f[3]
			}
			res = append(res, [3]string{f[1], f[2], file})
		}
	}
	return res
}

func runRuntime(c fw.Case) fw.Result {
	var p rtPayload
	fw.Decode(c, &p)
	var marked map[string]string
	var file string
	var name string
	if p.Literal != nil {
		marked, file, name = p.Literal, p.File, "literal"
	} else {
		t := findRtTpl(p.Tpl)
		if p.Tpl == "wf" {
			t = &wfTpl
			if p.Mode == "cancel" {
				t = &wfCancelTpl
			}
			if p.Mode == "cancel-builtin" {
				t = &wfCancelBuiltinTpl
			}
		}
		if t == nil {
			return fw.Result{Verdict: fw.Inconclusive, Why: "unknown template " + p.Tpl}
		}
		marked, file = buildRuntime(t, p)
		name = t.Name
	}
	src := drive.Sources{}
	var culprit rng
	hasC := false
	for _, k := range drive.SortedKeys(marked) {
		plain, cr, _, hc, _ := parseMarks(marked[k])
		src[k] = plain
		if k == file && hc {
			culprit, hasC = cr, true
		}
	}
	if !hasC {
		return fw.Result{Verdict: fw.Inconclusive, Why: "no culprit markers in " + c.ID}
	}
	wfOnly := p.Mode == "cancel" || p.Mode == "cancel-builtin" || p.Mode == "limit"
	m := newMonitor(src, fmt.Sprintf("tpl=%s place=%s mode=%s layout=%s pre=%v cont=%v %s=%q", name, p.Place, p.Mode, p.Layout, p.Pre, p.Cont, file, util.Clip(src[file], 700)))
	ao := drive.Analyze(src, "main", true)
	m.analysis(ao)
	if ao.Errors > 0 {
		return fw.Result{Verdict: fw.Inconclusive, Why: "runtime template is not accepted by the analyzer: " + util.Clip(ao.ErrorSummary(), 300) + " | " + m.ctx}
	}
	observed := 0
	var throwSites []throwSite
	// nextInstr: the position is the start of the span of the instruction after a Throw (and not of the Throw itself)
	nextInstr := func(file string, line, col uint) bool {
		for _, ts := range throwSites {
			if ts.next != ts.own && ts.next.Filename == file && ts.next.Start.Line == line && ts.next.Start.Column == col &&
				!(ts.own.Start.Line == line && ts.own.Start.Column == col) {
				return true
			}
		}
		return false
	}
	judge := func(backend string, oc drive.Outcome, output string) {
		// (a) fatal / terminating interrupt
		switch oc.Class {
		case "ok":
		case "go-panic", "step-budget", "compile-error":
			m.obs["backend_failures"]++
		default:
			if !oc.HasSpan {
				m.fail(fmt.Sprintf("runtime:%s:no-span:%s", backend, oc.Class), fmt.Sprintf("%s: interrupt %s has no span", backend, oc), nil)
				break
			}
			class := oc.Class + "/" + oc.Kind + ":" + msgClass(oc.Message)
			if oc.Class == "terminate" {
				class = "terminate"
			}
			st := m.checkSpan(backend, class, oc.Span)
			// the hosts show an interrupt as a diagnostic (cmd/testing_run.go): rendering has to succeed
			d := diagnostic.Diagnostic{Level: diagnostic.DiagnosticLevelError, Message: oc.Message, Span: oc.Span}
			m.render("diagnostic.Diagnostic.Display", backend, class, oc.Span, st, func(text string) string { return d.Display(text) })
			m.obs[backend+"_fatal_spans"]++
			observed++
			m.cover[backend+":"+oc.Class+"/"+oc.Kind] = true
			if wfOnly || oc.Class != "fatal" || oc.Kind == "StackOverFlow" || oc.Kind == "OutOfMemoryError" {
				break
			}
			m.evals++
			m.obs["known_culprit_checks"]++
			switch {
			case oc.Span.Filename != file && st.ti != nil:
				m.fail(fmt.Sprintf("runtime:%s:wrong-file:%s", backend, oc.Kind), fmt.Sprintf("%s: %s reported in file %q, the failing construct is in module %q", backend, oc, oc.Span.Filename, file), nil)
			case st.Whole:
				m.fail(fmt.Sprintf("runtime:%s:whole-file-for-located-fault:%s", backend, oc.Kind), fmt.Sprintf("%s: %s carries the whole-file position", backend, oc), nil)
			case st.Inside:
				got := spanRange(oc.Span)
				if backend == "vm" && oc.Kind == "UncaughtThrow" && len(throwSites) > 0 {
					isNext, isOwn := false, false
					for _, ts := range throwSites {
						isOwn = isOwn || ts.own == oc.Span
						isNext = isNext || (ts.next == oc.Span && ts.next != ts.own)
					}
					switch {
					case isNext:
						m.obs["vm_throw_span_is_next_instruction"]++
					case isOwn:
						m.obs["vm_throw_span_is_own_instruction"]++
					default:
						m.obs["vm_throw_span_is_other"]++
					}
					if isNext && !within(got, culprit) {
						m.fail("runtime:vm:throw-span-next-instruction", fmt.Sprintf("vm: %s reported at %s = %q: this is the source-map span of the instruction AFTER the Throw instruction; the throw call is %v %q", oc, fmtSpan(oc.Span), util.Clip(runesOf(src[file], got), 80), culprit, runesOf(src[file], culprit)), nil)
						break
					}
				}
				if !within(got, culprit) {
					m.fail(fmt.Sprintf("runtime:%s:outside-culprit:%s", backend, rtSigClass(oc, c)), fmt.Sprintf("%s: %s reported at %s = runes %v %q, the failing construct is %v %q", backend, oc, fmtSpan(oc.Span), got, util.Clip(runesOf(src[file], got), 80), culprit, runesOf(src[file], culprit)), nil)
				}
			}
		}
		// (b) positions printed by catch blocks
		for _, cp := range caughtPositions(output) {
			m.evals++
			m.obs["caught_positions"]++
			m.obs["known_culprit_checks"]++
			observed++
			m.cover[backend+":caught"] = true
			line, e1 := strconv.Atoi(cp[0])
			col, e2 := strconv.Atoi(cp[1])
			where := fmt.Sprintf("%s: caught error object says line=%s column=%s filename=%q", backend, cp[0], cp[1], cp[2])
			if e1 != nil || e2 != nil {
				m.fail("caught:"+backend+":not-a-number", where, nil)
				continue
			}
			if cp[2] == "" {
				m.fail("caught:"+backend+":no-filename", where+": no file name", nil)
				continue
			}
			ti := m.ti(cp[2])
			if ti == nil {
				m.fail("caught:"+backend+":unknown-file", where+": not a module of the source set", nil)
				continue
			}
			if line < 1 || line > len(ti.lineStart) || col < 1 || col > ti.lineLen[line-1]+1 {
				m.fail("caught:"+backend+":line-col-not-in-text", where+fmt.Sprintf(": not a position of the text (%d lines)", len(ti.lineStart)), nil)
				continue
			}
			if wfOnly {
				continue
			}
			idx := ti.lineStart[line-1] + col - 1
			if cp[2] != file {
				m.fail("caught:"+backend+":wrong-file", where+fmt.Sprintf(", the failing construct is in module %q", file), nil)
			} else if (idx < culprit.From || idx > culprit.To) && backend == "vm" && nextInstr(cp[2], uint(line), uint(col)) {
				m.fail("caught:vm:throw-position-next-instruction", where+fmt.Sprintf(" = rune %d: this is the start of the source-map span of the instruction AFTER the Throw instruction; the throw call is %v %q (line %d column %d)", idx, culprit, runesOf(src[file], culprit), ti.pos[culprit.From].Line, ti.pos[culprit.From].Col), nil)
			} else if idx < culprit.From || idx > culprit.To {
				m.fail("caught:"+backend+":line-col-wrong:"+rtSigName(c), where+fmt.Sprintf(" = rune %d, the failing construct is %v %q (line %d column %d)", idx, culprit, runesOf(src[file], culprit), ti.pos[culprit.From].Line, ti.pos[culprit.From].Col), nil)
			}
		}
	}
	vmOpts := drive.VMOpts{}
	treeOpts := drive.TreeOpts{}
	switch p.Mode {
	case "cancel", "cancel-builtin":
		// cancelled at the 30th poll: after the initialisation code, inside the long loop of the program
		vmOpts.Ctx, treeOpts.Ctx = newCountingCtx(30), newCountingCtx(30)
	case "limit":
		vmOpts.Limits = runtime.CoreLimits{CallStackMaxSize: 40, StackMaxSize: 500, MaxMemorySize: 100000}
		treeOpts.CallLimit = 40
	}
	var vr drive.VMRun
	prog, cerr := drive.Compile(ao.Modules, "main")
	if cerr != nil {
		vr.Outcome = drive.Outcome{Class: "compile-error", Message: cerr.Error()}
		vr.Log = &drive.Log{}
	} else {
		// source-map spans of every Throw instruction and of the instruction after it (A.30 measurement)
		for _, fn := range drive.SortedKeys(prog.Functions) {
			for i, ins := range prog.Functions[fn] {
				if ins.Opcode() == compiler.Opcode_Throw && i < len(prog.SourceMap[fn]) {
					ts := throwSite{own: prog.SourceMap[fn][i], next: prog.SourceMap[fn][i]}
					if i+1 < len(prog.SourceMap[fn]) {
						ts.next = prog.SourceMap[fn][i+1]
					}
					throwSites = append(throwSites, ts)
				}
			}
		}
		vr = drive.RunCompiled(prog, src, vmOpts, nil)
	}
	judge("vm", vr.Outcome, vr.Log.Output())
	tr := drive.RunTree(ao.Modules, src, "main", treeOpts)
	judge("tree", tr.Outcome, tr.Log.Output())
	res := m.result(observed > 0)
	if observed == 0 && res.Verdict == fw.Held {
		res.Verdict = fw.Inconclusive
		res.Why = fmt.Sprintf("no failure position was observed (vm: %s, tree: %s) | %s", vr.Outcome, tr.Outcome, m.ctx)
	}
	res.Cover = append(res.Cover, "rt:"+name, "rt-place:"+p.Place, "rt-mode:"+p.Mode)
	if p.Cont && p.Pre && p.Layout == "unicode-comment" {
		res.Sample = map[string]any{"kind": "runtime", "template": name, "place": p.Place, "mode": p.Mode, "module": file, "text": src[file], "culprit": runesOf(src[file], culprit),
			"vm": fmt.Sprintf("%s @ %s", vr.Outcome, fmtSpan(vr.Outcome.Span)), "tree": fmt.Sprintf("%s @ %s", tr.Outcome, fmtSpan(tr.Outcome.Span)), "caught_vm": caughtPositions(vr.Log.Output())}
	}
	return res
}

// rtSigClass: error kind plus the construct class of the template (throw / builtin / operator …).
func rtSigClass(oc drive.Outcome, c fw.Case) string { return oc.Kind + ":" + rtSigName(c) }

func rtSigName(c fw.Case) string {
	if c.HasTag("throw") {
		return "throw"
	}
	var p rtPayload
	fw.Decode(c, &p)
	if p.Tpl != "" {
		return p.Tpl
	}
	return "literal"
}

type throwSite struct{ own, next herrors.Span }
