package c08

// Generated template families of workload 2 (analyzer / optimizer diagnostics with a known culprit).
// They are products of small construct lists, a pure function of nothing (no seed): the seed only
// selects the layouts a template is instantiated under in the quick tier (diagCases).
//
// Family "blk" - the result of a block is the culprit. A block with statements AND a trailing
// expression gets its type from the trailing expression; a diagnostic about that type (loop bodies,
// `if` without `else`, branch mismatches, function / closure results, block initialisers, match
// arms) has to point at the trailing expression (or at a construct around it), never at one of the
// statements in front of it. Product: context x statement prefix x trailing expression.
//
// Family "unr" - unreachable code (optimizer pass, warning level): a diverging statement of the
// top-level block of a function followed by further statements and/or a trailing expression. The
// warning has to point at the unreachable code, the hint "Any code following this statement is
// unreachable" at the diverging statement. Product: diverging statement x following statement x
// rest of the block x statements in front, in a called function and in main.
//
// Family "wrn" - analyzer warnings with a known culprit (unused declarations, shadowing).
//
// Family "trg" - event machinery: `trigger <callback> <at|in|on> <trigger>(args);` statements, the
// `#[trigger …]` / `#[…]` annotations of functions, `event fn` callbacks and `import trigger`. Every
// name of such a construct (callback, trigger function, argument, annotation item, imported trigger)
// is a culprit of its own: a diagnostic about one of them has to point at that one and not at its
// neighbour in the same statement. Product: carrier (statement in main / nested block / loop / helper
// function / global initialiser, annotation first / second item) x fault (undefined callback, callback
// that is a variable or an imported function, undefined trigger, both, argument count / type /
// undefined argument), plus single templates for callback signature and modifier errors, self
// triggering, trigger imports and illegal annotations.

import (
	"fmt"
	"strings"
	"sync"
)

var (
	famOnce sync.Once
	famTpls []diagTpl
)

func familyTemplates() []diagTpl {
	famOnce.Do(func() {
		famTpls = append(famTpls, blockResultFamily()...)
		famTpls = append(famTpls, unreachableFamily()...)
		famTpls = append(famTpls, warningFamily()...)
		famTpls = append(famTpls, triggerFamily()...)
	})
	return famTpls
}

type namedText struct{ Name, Text string }

// statement prefixes of a block (placed in front of the trailing expression)
var blkPrefixes = []namedText{
	{"none", ""},
	{"call", "println(1); "},
	{"let2", "let q = 1;\n        println(q); "},
	{"ifstmt", "if true { println(1); }\n        "},
	{"assign", "let q = 1; q += 1; "},
}

// trailing expressions by type
var blkExprs = map[string][]namedText{
	"int": {
		{"lit", "2"},
		{"infix", "1 +%NL%2 * 3"},
		{"call", "\"ab\".len()"},
		{"ifelse", "if true { 1 } else { 2 }"},
		{"block", "{ println(2); 3 }"},
	},
	"str": {
		{"lit", "\"a\""},
		{"infix", "\"a\" +%NL%\"b\""},
		{"call", "1.to_string()"},
		{"ifelse", "if true { \"a\" } else { \"b\" }"},
		{"block", "{ println(2); \"c\" }"},
	},
	"null": {
		{"call", "note(\"x\")"},
		{"builtin", "println(\"y\",%NL%\"z\")"},
		{"ifelse", "if true { note(\"p\") } else { note(\"q\") }"},
		{"block", "{ println(2); note(\"z\") }"},
	},
}

type blkContext struct {
	Name string
	Kind string // body | top
	Top  string
	Text string // {S} = statement prefix, {E} = trailing expression (culprit), {S1} = prefix of the other branch
	Typ  string // type of the trailing expression
	Msg  string
	Hint string
}

const noteFn = "fn note(s: str) { println(s); }\n"

var blkContexts = []blkContext{
	// loop bodies must result in null / never
	{Name: "loop", Kind: "body", Text: "⟦loop { {S}«{E}» }⟧", Typ: "int", Msg: `^Loop requires a block of type`},
	{Name: "while", Kind: "body", Text: "let c = 0; ⟦while c < 3 { {S}«{E}» }⟧", Typ: "int", Msg: `^Loop requires a block of type`},
	{Name: "for", Kind: "body", Text: "⟦for _i in 0..3 { {S}«{E}» }⟧", Typ: "str", Msg: `^Loop requires a block of type`},
	// if without else: a value in the then block / the null of the then block in a typed position
	{Name: "if-noelse-value", Kind: "body", Text: "⟦if true { {S}«{E}» }⟧", Typ: "int", Msg: "missing `else` branch"},
	{Name: "if-noelse-null-tail", Kind: "top", Text: noteFn + "fn pick(v: bool) -> ‹int› {\n    %PRE%⟦if v { {S}«{E}» }⟧\n}\nfn main() { pick(true); }\n", Typ: "null", Msg: `^Mismatched types: expected 'int', got 'null'`, Hint: `expected due to this`},
	{Name: "if-noelse-null-let", Kind: "body", Top: noteFn, Text: "⟦let _x: ‹int› = if true { {S}«{E}» };⟧", Typ: "null", Msg: `^Mismatched types: expected 'int', got 'null'`, Hint: `expected due to this`},
	// branches of different types
	{Name: "if-else", Kind: "body", Text: "let _i = ⟦if true { {S1}‹1› } else { {S}«{E}» }⟧;", Typ: "str", Msg: `^Mismatched types: expected 'int', got 'str'`, Hint: `expected due to this`},
	{Name: "try-catch", Kind: "body", Text: "let _t = ⟦try { {S1}‹1› } catch _e { {S}«{E}» }⟧;", Typ: "str", Msg: `^Mismatched types: expected 'int', got 'str'`, Hint: `expected due to this`},
	{Name: "match-arms", Kind: "body", Text: "let _m = ⟦match 1 { 1 => { {S1}‹1› }, _ => { {S}«{E}» } }⟧;", Typ: "str", Msg: `^Mismatched types: expected 'int', got 'str'`, Hint: `expected due to this`},
	// results of functions, closures and block expressions
	{Name: "fn-tail", Kind: "top", Text: "fn g() -> ‹int› ⟦{\n    %PRE%{S}«{E}»\n}⟧\nfn main() { g(); }\n", Typ: "str", Msg: `^Mismatched types: expected 'int', got 'str'`, Hint: `expected due to this`},
	{Name: "closure-tail", Kind: "body", Text: "let _q = fn() -> ‹int› ⟦{ {S}«{E}» }⟧;", Typ: "str", Msg: `^Mismatched types: expected 'int', got 'str'`, Hint: `expected due to this`},
	{Name: "block-init", Kind: "body", Text: "⟦let _v: ‹int› = { {S}«{E}» };⟧", Typ: "str", Msg: `^Mismatched types: expected 'int', got 'str'`, Hint: `expected due to this`},
}

func blockResultFamily() []diagTpl {
	var out []diagTpl
	for _, c := range blkContexts {
		for si, s := range blkPrefixes {
			for _, e := range blkExprs[c.Typ] {
				text := strings.ReplaceAll(c.Text, "{S}", s.Text)
				// the other branch gets a different prefix (so that both shapes meet)
				text = strings.ReplaceAll(text, "{S1}", blkPrefixes[(si+1)%len(blkPrefixes)].Text)
				text = strings.ReplaceAll(text, "{E}", e.Text)
				out = append(out, diagTpl{
					Name: fmt.Sprintf("blk-%s-%s-%s", c.Name, s.Name, e.Name),
					Kind: c.Kind, Top: c.Top, Text: text, Msg: c.Msg, Rel: "nested", Hint: c.Hint, Gen: true,
				})
			}
		}
	}
	return out
}

// diverging statements of a function with result type int and parameter n
var unrDivergeInt = []namedText{
	{"return", "return n;"},
	{"return-cont", "return%NL%n + 1;"},
	{"throw", "throw(n);"},
	{"loop", "loop {%NL%n += 1; }"},
	{"if-else", "if n > 1 { return 1; } else {%NL%return 2; }"},
	{"try-catch", "try { return 1; } catch _e { return 2; }"},
	{"match", "match n { 1 => { return 1; }, _ => { return 2; } }"},
	{"block", "{ return n; }"},
	{"block-semi", "{ return n; };"},
}

// diverging statements of main (no result, no parameter)
var unrDivergeNull = []namedText{
	{"return", "return;"},
	{"throw", "throw(%NL%\"x\");"},
	{"loop", "loop { println(0); }"},
	{"if-else", "if true { return; } else { throw(1); }"},
}

// statements that follow (the first unreachable one); {V} = a variable in scope
var unrFollow = []namedText{
	{"call", "println(2);"},
	{"call-cont", "println(5,%NL%6);"},
	{"let", "let _a = 1;"},
	{"assign", "{V} += 1;"},
	{"if", "if {V} > 0 { println(3); }"},
	{"for", "for _i in 0..2 {%NL%println(4); }"},
	{"return", "return{R};"},
}

// the rest of the block after the first unreachable statement; {X} = a value of the result type
var unrRest = []namedText{
	{"end", ""},
	{"stmt", "\n    println(9);"},
	{"stmt-expr", "\n    println(9);\n    {X}"},
	{"stmts", "\n    println(8);\n    return{R};\n    println(9);"},
}

// statements in front of the diverging one
var unrFront = []namedText{
	{"first", ""},
	{"after1", "println(0);\n    "},
	{"after2", "let k = {V};\n    println(k);\n    "},
}

// unreachable trailing expressions
var unrTailInt = []namedText{
	{"ident", "n"},
	{"infix", "n +%NL%1"},
	{"ifelse", "if n > 1 { 1 } else { 2 }"},
}

func unreachableFamily() []diagTpl {
	var out []diagTpl
	const (
		msg  = `^Unreachable (statement|expression)`
		hint = `^Any code following this statement is unreachable`
	)
	mk := func(name, text string) {
		out = append(out, diagTpl{Name: "unr-" + name, Kind: "top", Text: text, Msg: msg, Rel: "nested", Level: "warning", Hint: hint, HintRel: "within", Gen: true})
	}
	fill := func(s, v, r, x string) string {
		s = strings.ReplaceAll(s, "{V}", v)
		s = strings.ReplaceAll(s, "{R}", r)
		return strings.ReplaceAll(s, "{X}", x)
	}
	// in a called function with a result
	for di, d := range unrDivergeInt {
		for fi, f := range unrFollow {
			rest := unrRest[(di+fi)%len(unrRest)]
			front := unrFront[(di+2*fi)%len(unrFront)]
			sep := "\n    "
			if (di+fi)%4 == 3 {
				sep = " " // diverging and unreachable statement on the same line
			}
			body := front.Text + "%PRE%‹" + d.Text + "›" + sep + "⟦«" + f.Text + "»" + rest.Text + "⟧"
			text := "fn f(n: int) -> int {\n    " + fill(body, "n", " 0", "n") + "\n}\nfn main() { println(f(1)); }\n"
			mk(fmt.Sprintf("fn-%s-%s-%s-%s", d.Name, f.Name, rest.Name, front.Name), text)
		}
		// the trailing expression directly follows the diverging statement
		for ti, tl := range unrTailInt {
			front := unrFront[(di+ti)%len(unrFront)]
			body := front.Text + "%PRE%‹" + d.Text + "›\n    ⟦«" + tl.Text + "»⟧"
			text := "fn f(n: int) -> int {\n    " + fill(body, "n", " 0", "n") + "\n}\nfn main() { println(f(1)); }\n"
			mk(fmt.Sprintf("fn-%s-tail-%s-%s", d.Name, tl.Name, front.Name), text)
		}
	}
	// in main
	for di, d := range unrDivergeNull {
		for fi, f := range unrFollow {
			rest := unrRest[(di+fi+1)%len(unrRest)]
			if rest.Name == "stmt-expr" {
				rest = unrRest[1] // main has no result
			}
			front := unrFront[(di+fi)%len(unrFront)]
			body := "let w = 1;\n    " + front.Text + "%PRE%‹" + d.Text + "›\n    ⟦«" + f.Text + "»" + rest.Text + "⟧"
			text := "fn main() {\n    " + fill(body, "w", "", "") + "\n}\n"
			mk(fmt.Sprintf("main-%s-%s-%s-%s", d.Name, f.Name, rest.Name, front.Name), text)
		}
	}
	return out
}

func warningFamily() []diagTpl {
	w := func(name, kind, text, msg string) diagTpl {
		return diagTpl{Name: "wrn-" + name, Kind: kind, Text: text, Msg: msg, Rel: "nested", Level: "warning", Gen: true}
	}
	lib := map[string]string{"lib": "pub fn other() {}\nfn main() {}\n"}
	out := []diagTpl{
		w("unused-var", "body", "⟦let%NL%«unused» = 3;⟧", `^Variable 'unused' is unused`),
		w("unused-var-typed", "body", "println(1); ⟦let «unused»: int =%NL%3;⟧ println(2);", `^Variable 'unused' is unused`),
		w("unused-param", "top", "fn helper(a: int,%NL%⟦«p»: int⟧) { println(a); }\nfn main() { %PRE%helper(1, 2); }\n", `^Parameter 'p' is unused`),
		w("unused-closure-param", "body", "let q = fn(a: int,%NL%⟦«p»: int⟧) { println(a); }; q(1, 2);", `^Parameter 'p' is unused`),
		w("unused-fn", "top", "⟦fn%NL%«never_used»() {}⟧\nfn main() { %PRE%println(1); }\n", `^Function 'never_used' is never used`),
		w("unused-type", "top", "⟦type%NL%«Unused» = int;⟧\nfn main() { %PRE%println(1); }\n", `^Type 'Unused' is unused`),
		w("unused-for-var", "body", "for%NL%«i» in 0..3 { println(1); }", `^Variable 'i' is unused`),
		w("unused-catch-var", "body", "try { println(1); } catch%NL%«e» { println(2); }", `^Variable 'e' is unused`),
	}
	imp := w("unused-import", "top", "⟦import%NL%«other» from lib;⟧\nfn main() { %PRE%println(1); }\n", "^Import `other` is unused")
	imp.Mods = lib
	out = append(out, imp)
	// a shadowed unused variable: warning at the first declaration, hint at the shadowing one
	sh := w("shadow-unused", "body", "⟦let «v» = 1;⟧ let%NL%‹v› = 2; println(v);", `^Unused variable 'v'`)
	sh.Hint, sh.HintRel = `shadowed here`, "within"
	out = append(out, sh)
	// `match v { _ => 1, «2 => 3», 4 => 5 }`: the hint has to point at the default arm (it carried the span of
	// the unreachable arm until 92d6537: analyzer.matchExpression kept `&arm.Range` of the range-loop variable)
	ma := w("match-arm-unreachable", "body", "let v = 1; let _m = match v { ‹_ => 1›,%NL%«2 => 3», 4 => 5 };", `^This match-arm is unreachable`)
	ma.Hint, ma.HintRel = `^Any branches following this arm are unreachable`, "within"
	ma.Tags = []string{heldOutTag}
	out = append(out, ma)
	return out
}

const trgTop = "import trigger minute from triggers;\nevent fn tick(elapsed: int) { println(elapsed); }\n"

// carriers of a trigger construct: {CB} callback, {KW} dispatch keyword, {TR} trigger function, {ARGS} argument list
var trgCarriers = []struct {
	Name string
	Stmt bool // a trigger statement (names its callback); false: an annotation of the callback
	Text string
}{
	{"main", true, "fn main() {\n    %PRE%trigger%NL%{CB} {KW} {TR}{ARGS};\n}\n"},
	{"main-after", true, "fn main() {\n    println(0);\n    trigger tick at minute(5);\n    %PRE%trigger {CB} {KW}%NL%{TR}{ARGS};\n    println(1);\n}\n"},
	{"nested", true, "fn main() {\n    if true {\n        println(1);\n        %PRE%trigger {CB}%NL%{KW} {TR}{ARGS};\n    }\n}\n"},
	{"loop", true, "fn main() {\n    for i in 0..2 { println(i); %PRE%trigger {CB} {KW} {TR}{ARGS}; }\n}\n"},
	{"helper", true, "fn setup(n: int) {\n    println(n);\n    %PRE%trigger {CB} {KW} {TR}{ARGS};\n}\nfn main() { setup(1); }\n"},
	{"closure", true, "fn main() {\n    let q = fn() { %PRE%trigger {CB} {KW} {TR}{ARGS}; };\n    q();\n}\n"},
	{"global-init", true, "let g = {\n    trigger {CB} {KW}%NL%{TR}{ARGS};\n    1\n};\nfn main() { %PRE%println(g); }\n"},
	{"ann", false, "#[trigger {KW}%NL%{TR}{ARGS}]\nevent fn w(e: int) { println(e); }\nfn main() { %PRE%println(1); }\n"},
	{"ann-second", false, "fn main() { %PRE%println(1); }\n\n#[allow_unused,%NL%trigger {KW} {TR}{ARGS}]\nevent fn w(e: int) {\n    println(e);\n}\n"},
}

// faults of a trigger construct ({CB} / {TR} / {ARGS} carry the culprit markers)
var trgFaults = []struct {
	Name         string
	StmtOnly     bool
	Pre          string // further top-level items
	Local        string // statement placed in front (statement carriers only): declares the variable used as callback
	CB, TR, Args string
	Msg, Rel     string
	Mods         map[string]string
}{
	{Name: "undef-callback", StmtOnly: true, CB: "«tock»", TR: "minute", Args: "(10)", Msg: `^Use of undefined callback function 'tock'`, Rel: "eq"},
	{Name: "undef-callback-imported", StmtOnly: true, Pre: "import other from lib;\n", CB: "«other»", TR: "minute", Args: "(10)", Msg: `^Use of undefined callback function 'other'`, Rel: "eq",
		Mods: map[string]string{"lib": "pub fn other(elapsed: int) { println(elapsed); }\nfn main() {}\n"}},
	{Name: "undef-callback-global", StmtOnly: true, Pre: "let cbv = fn(e: int) { println(e); };\n", CB: "«cbv»", TR: "minute", Args: "(10)", Msg: `^Use of undefined callback function 'cbv'`, Rel: "eq"},
	{Name: "undef-callback-builtin", StmtOnly: true, CB: "«println»", TR: "minute", Args: "(10)", Msg: `^Use of undefined callback function 'println'`, Rel: "eq"},
	{Name: "undef-callback-trigger-name", StmtOnly: true, CB: "«minute»", TR: "minute", Args: "(10)", Msg: `^Use of undefined callback function 'minute'`, Rel: "eq"},
	{Name: "undef-trigger", CB: "tick", TR: "«second»", Args: "(30)", Msg: `^Use of undefined trigger function 'second'`, Rel: "eq"},
	{Name: "undef-trigger-fn-name", CB: "tick", TR: "«tick»", Args: "(30)", Msg: `^Use of undefined trigger function 'tick'`, Rel: "eq"},
	{Name: "undef-both-callback", StmtOnly: true, CB: "«tock»", TR: "second", Args: "(30)", Msg: `^Use of undefined callback function 'tock'`, Rel: "eq"},
	{Name: "undef-both-trigger", StmtOnly: true, CB: "tock", TR: "«second»", Args: "(30)", Msg: `^Use of undefined trigger function 'second'`, Rel: "eq"},
	{Name: "undef-both-arg", StmtOnly: true, CB: "tock", TR: "second", Args: "(«nope»)", Msg: `^Use of undefined variable or function 'nope'`, Rel: "eq"},
	{Name: "undef-callback-arg", StmtOnly: true, CB: "tock", TR: "minute", Args: "(1 +%NL%«nope»)", Msg: `^Use of undefined variable or function 'nope'`, Rel: "eq"},
	{Name: "args-none", CB: "tick", TR: "minute", Args: "«()»", Msg: `^Function requires 1 argument`, Rel: "within"},
	{Name: "args-many", CB: "tick", TR: "minute", Args: "«(1,%NL%2)»", Msg: `^Function requires 1 argument`, Rel: "within"},
	{Name: "arg-type", CB: "tick", TR: "minute", Args: "(«\"x\"»)", Msg: `^Mismatched types: expected 'int', got 'str'`, Rel: "within"},
	{Name: "arg-infix", CB: "tick", TR: "minute", Args: "(2 * («1 -%NL%true»))", Msg: `^Mismatched types: expected 'int', got 'bool'`, Rel: "within"},
	{Name: "arg-undef", CB: "tick", TR: "minute", Args: "(«nope»)", Msg: `^Use of undefined variable or function 'nope'`, Rel: "eq"},
	{Name: "arg-undef-call", CB: "tick", TR: "minute", Args: "(3 + «nofn»(1))", Msg: `^Use of undefined variable or function 'nofn'`, Rel: "eq"},
}

func triggerFamily() []diagTpl {
	var out []diagTpl
	kws := []string{"at", "in", "on"}
	n := 0
	for _, c := range trgCarriers {
		for _, f := range trgFaults {
			if f.StmtOnly && !c.Stmt {
				continue
			}
			text := c.Text
			for _, kv := range [][2]string{{"{CB}", f.CB}, {"{TR}", f.TR}, {"{ARGS}", f.Args}, {"{KW}", kws[n%len(kws)]}} {
				text = strings.ReplaceAll(text, kv[0], kv[1])
			}
			n++
			out = append(out, diagTpl{
				Name: fmt.Sprintf("trg-%s-%s", c.Name, f.Name),
				Kind: "top", Text: trgTop + f.Pre + text, Mods: f.Mods, Msg: f.Msg, Rel: f.Rel, Gen: true,
			})
		}
	}
	one := func(name, text, msg, rel, hint, hintRel string) {
		out = append(out, diagTpl{Name: "trg-" + name, Kind: "top", Text: trgTop + text, Msg: msg, Rel: rel, Hint: hint, HintRel: hintRel, Gen: true})
	}
	const use = "fn main() {\n    %PRE%trigger cb at minute(1);\n}\n"
	// a local variable is not a callback either
	one("undef-callback-local", "fn main() {\n    let cb = fn(e: int) { println(e); };\n    cb(1);\n    %PRE%trigger%NL%«cb» at minute(10);\n}\n", `^Use of undefined callback function 'cb'`, "eq", "", "")
	one("undef-callback-param", "fn setup(cb: fn(e: int) -> null) {\n    cb(1);\n    %PRE%trigger «cb» in%NL%minute(10);\n}\nfn main() { setup(fn(e: int) { println(e); }); }\n", `^Use of undefined callback function 'cb'`, "eq", "", "")
	// the callback is not an event function: the culprit is the target function (its name, or a range around it in its definition)
	one("modifier-none", "⟦fn%NL%«cb»(elapsed: int) { println(elapsed); }⟧\n"+use, "^Target function misses the `event` modifier", "nested", "", "")
	one("modifier-pub", "⟦pub fn%NL%«cb»(elapsed: int) { println(elapsed); }⟧\n"+use, "^Target function has wrong modifier `pub`", "nested", "", "")
	one("ann-modifier-none", "⟦#[trigger at minute(1)]\nfn%NL%«w»(e: int) { println(e); }⟧\nfn main() { %PRE%println(1); }\n", "^Target function misses the `event` modifier", "nested", "", "")
	// callback signature errors: parameter type at the parameter, count / result at the callback's name in the
	// trigger statement (or a range around it inside the statement); the hint names the function
	const usedAs = `^This function is used as a callback for trigger`
	one("callback-param-type", "event fn ‹cb›(elapsed:%NL%«str») { println(elapsed); }\n"+use, `Mismatched types: expected 'int', got 'str'`, "within", usedAs, "eq")
	one("callback-param-count", "event fn ‹cb›(elapsed: int, more: int) { println(elapsed, more); }\nfn main() {\n    %PRE%⟦trigger%NL%«cb» at minute(1);⟧\n}\n", `Expected 1 parameter`, "nested", usedAs, "eq")
	one("callback-param-none", "event fn ‹cb›() { }\nfn main() {\n    %PRE%⟦trigger «cb» on%NL%minute(1);⟧\n}\n", `Expected 1 parameter`, "nested", usedAs, "eq")
	one("callback-result", "event fn ‹cb›(elapsed: int) -> int { elapsed }\nfn main() {\n    %PRE%⟦trigger «cb» at minute(1);⟧\n}\n", `Mismatched types: expected 'null', got 'int'`, "nested", usedAs, "eq")
	// a function triggering itself: the statement
	one("self", "event fn again(elapsed: int) {\n    println(elapsed);\n    %PRE%«trigger again at%NL%minute(1);»\n}\nfn main() {\n    trigger again at minute(1);\n}\n", `^Cannot trigger function from itself`, "within", "", "")
	// trigger imports
	one("import-unknown", "import «trigger%NL%nope» from triggers;\nfn main() { %PRE%println(1); }\n", `^No trigger named 'nope' found in module 'triggers'`, "within", "", "")
	out = append(out, diagTpl{Name: "trg-import-duplicate", Kind: "top", Text: "import ‹trigger minute› from triggers;\nimport «trigger%NL%minute» from triggers;\nfn main() { %PRE%println(1); }\n",
		Msg: `^Trigger function 'minute' already exists`, Rel: "within", Hint: `previously imported here`, HintRel: "within", Gen: true})
	one("use-as-function", "fn main() {\n    %PRE%«minute»(1);\n}\n", `^Use of undefined variable or function 'minute'`, "eq", "", "")
	lib := diagTpl{Name: "trg-import-from-module", Kind: "top", Text: "import «trigger%NL%minute» from lib;\nfn main() { %PRE%println(1); }\n", Msg: `^No trigger named 'minute' found in module 'lib'`, Rel: "within", Gen: true,
		Mods: map[string]string{"lib": "pub fn other() {}\nfn main() {}\n"}}
	out = append(out, lib)
	// annotation items
	one("ann-illegal", "#[«nope»]\nfn w(e: int) { println(e); }\nfn main() { %PRE%w(1); }\n", "^Illegal annotation: `nope`", "eq", "", "")
	one("ann-illegal-second", "#[allow_unused,%NL%«nope»]\nfn w(e: int) { println(e); }\nfn main() { %PRE%println(1); }\n", "^Illegal annotation: `nope`", "eq", "", "")
	one("ann-illegal-before-trigger", "#[«nope»,%NL%trigger at minute(1)]\nevent fn w(e: int) { println(e); }\nfn main() { %PRE%println(1); }\n", "^Illegal annotation: `nope`", "eq", "", "")
	return out
}

// heldOutTemplates are templates of constructs which violate the property on the unchanged tree
// (reported as findings). They are not part of Cases; hvdev / a pinned literal case can run them.
func heldOutTemplates() []diagTpl {
	return nil
}

// heldOutKF / heldOutTag: once the lead has recorded the finding under this name in known_findings.txt
// (open), the held-out templates run as a small tagged workload and are reported as KNOWN-FINDING;
// after the fix they belong into warningFamily.
const (
	heldOutKF  = "KF-c08-match-default-arm-hint"
	heldOutTag = "match-default-arm-hint"
)
