// Package c08 checks property C08 — "Every reported position is real, points at the culprit and
// can be rendered" (DESIGN.md §3 C08, Appendix I) — by a span monitor applied to every syntax
// error, diagnostic, interrupt span and caught-error position produced by four workloads.
package c08

import (
	"fmt"
	"sort"

	"hv/fw"
	"hv/util"
)

type c08 struct{}

func init() { fw.Register(c08{}) }

func (c08) ID() string { return "C08" }

func (c08) Info(tier string) fw.Info {
	return fw.Info{
		Level: "exploration",
		Rule: "span monitor on every syntax error, diagnostic (all levels), fatal/terminating interrupt span (VM and interpreter) and caught error object (line/column/filename). " +
			"A position is accepted iff it is the explicit whole-file position (errors.Span{Filename: f}: all six numeric fields zero and f a module of the source set) or " +
			"both ends are positions of the text of the named module (1-based line that exists, column in [1, runes of the line + 1], index = rune offset consistent with line/column; " +
			"the position just after the last rune is the end-of-input position) with start not after end (by index and by line/column); " +
			"errors.Error.Display / diagnostic.Diagnostic.Display are called under recover against the named module's text on every error/diagnostic and must return a text that shows the named line. " +
			"Workloads: (1) syntax: prefixes (quick: token boundaries, thorough: every byte) and single-token edits (delete/duplicate/swap/replace) of the shipped corpus and of 24 hand-written texts " +
			"(multi-line constructs, multi-byte runes, CRLF, tabs, comments at end of input, empty input), plus ~40 damaged texts with a known error position under 7 layouts; each as entry module and as the text of an imported module " +
			"(containment by the table of Appendix I, token positions from the independent reference lexer), plus culprit-free token soup, random bytes (incl. invalid UTF-8) and statement soup (random mixes of well-typed and ill-typed statements) for well-formedness and rendering only; " +
			"(2) analyzer diagnostics of single-fault programs with a known culprit range under layout variants (blank lines, unicode comments, indentation, CRLF, multi-byte runes on the same line, continuation lines), in the entry module and in an imported module; " +
			"an accepted program is also passed through the optimizer pass (as cmd/main.go does) and its diagnostics are monitored like the analyzer's; besides the error-level templates there are three generated families (families.go): " +
			"blk = the result of a block is the culprit (loop / while / for bodies, `if` without `else` with a value or with its null in a typed position, if-else / try-catch / match-arm mismatches, function / closure results, block initialisers) x statements in front of the trailing expression (none, call, let + call on two lines, if statement, assignments) x trailing expression (literal, multi-line infix, call, if-else, nested block): " +
			"the diagnostic must lie within the trailing expression or be a range around it inside the enclosing construct - a range next to the culprit (one of the statements in front of it) marks an innocent construct; " +
			"unr = unreachable code (optimizer warning + hint): diverging statement (return, multi-line return, throw, loop, if-else / try-catch / match of returns, block, block statement) x following statement (calls, let, assignment, if, for, return) x rest of the block (nothing, statement, statement + trailing expression, statements) x statements in front, in a called function and in main, also with the trailing expression as the unreachable code and with both statements on one line: " +
			"the warning must lie within the first unreachable statement (or be a range around it inside the unreachable code), the hint within the diverging statement; " +
			"wrn = analyzer warnings with a known culprit (unused variable / parameter / function / type / import / loop and catch variable: the name, or a range around it inside the declaration; shadowed unused variable: warning at the first, hint at the shadowing declaration); " +
			"(3) runtime failures of accepted programs at known positions (throw, division by zero, negative shift, index out of bounds, unwrap of none, failing cast, assert, JSON errors, cancellation, limits) in main, in called functions, in multi-line constructs and in imported modules, on both backends, " +
			"plus runtime type validation of host-provided any values (annotated let and `as`; the type written inline, through a local alias, an alias chain, an alias nested in a list/option/object type, an imported alias or a singleton type; values from parse_json, any_func, any_list, any-object members - sampled from the product), " +
			"observing the fatal interrupt span and the line/column/filename of the error object a catch block prints; for throws the reported span is also compared with the compiled program's source-map entries of the Throw instruction and of the instruction after it. " +
			"(4) cancellation sweeps: a program is run once under a context that counts the polls of the run and then once per poll k (all polls up to a cap, beyond it a stratified sample) under a context that is cancelled exactly at poll k, on the interpreter (polls before every statement, expression and block: the termination interrupt carries the span of the AST node about to run, incl. the synthetic block of an else-if) and on the VM (polls between instruction slices, after the initialisation code: span = source-map entry); " +
			"every termination (or other) interrupt span is monitored and rendered with diagnostic.Diagnostic.Display as the hosts do; programs: if / else-if / else chains and matches (1-3 conditional arms, with/without final else, every arm taken, as statement / value / value with statements / function tail / return value / call argument / operand, inside while, loop, for, closure, match arm, try and catch, nested in an else arm), " +
			"loops with break/continue, try/catch, blocks, closures, recursion, early returns, list/object/option/string/cast/operator/assignment expressions - in main, callee, nested loop and imported module under the layout variants - plus seeded random nestings of these shapes and programs of the typed generator. " +
			"non-trivial = at least one position was produced and monitored in the case; distinct = distinct (kind, payload)",
		Assumptions: []string{
			"containment is asserted only where the generator knows the culprit (templates) or where the reference lexer fixes the token positions",
			"where two readings of 'the construct that caused it' are plausible (expression vs. expression statement incl. semicolon, call vs. callee name) the larger range is used",
			"a diagnostic about the result of a block (or about unreachable code, or an unused declaration) may mark the smallest culprit, a part of it, or any range around it up to the enclosing construct; a range disjoint from the smallest culprit does not point at the culprit even if it lies inside the same enclosing construct",
			"Go panics of the analysis itself are C05's business and are reported as inconclusive here",
		},
		CaseTimeoutS: 30,
		BatchSize:    600,
	}
}

func (c08) Cases(tier string, seed uint64) []fw.Case {
	var cases []fw.Case
	cases = append(cases, syntaxCases(tier, seed)...)
	cases = append(cases, diagCases(tier, seed)...)
	cases = append(cases, runtimeCases(tier, seed)...)
	// the sweep cases are wall-clock heavy (many short VM runs, each waits for its cores): spread them
	// evenly over the worker batches instead of leaving them to the last two workers
	return interleave(cases, sweepCases(tier, seed))
}

// interleave merges b into a at even distances (order inside a and b is kept).
func interleave(a, b []fw.Case) []fw.Case {
	out := make([]fw.Case, 0, len(a)+len(b))
	j := 0
	for i, c := range a {
		for j < len(b) && j*len(a) <= i*len(b) {
			out = append(out, b[j])
			j++
		}
		out = append(out, c)
	}
	return append(out, b[j:]...)
}

func (c08) Run(c fw.Case) (res fw.Result) {
	defer func() {
		if r := recover(); r != nil {
			res = fw.Result{Verdict: fw.Violated, Nontrivial: true, Sig: "harness-panic:" + util.NormPanic(fmt.Sprint(r)), Why: fmt.Sprintf("panic while running case %s: %v", c.ID, r)}
		}
	}()
	switch c.Kind {
	case "syntax":
		return runSyntax(c)
	case "diag":
		return runDiag(c)
	case "runtime":
		return runRuntime(c)
	case "sweep":
		return runSweep(c)
	}
	return fw.Result{Verdict: fw.Inconclusive, Why: "unknown case kind " + c.Kind}
}

func (c08) OnCrash(c fw.Case, cr fw.Crash) fw.Result {
	switch cr.Kind {
	case "watchdog", "killed":
		return fw.Result{Verdict: fw.Inconclusive, Why: cr.Kind + ": " + cr.Message}
	}
	// a crash of the implementation is C02/C05's business unless it happened while rendering
	return fw.Result{Verdict: fw.Inconclusive, Why: fmt.Sprintf("worker died (%s: %s) at %s", cr.Kind, util.Clip(cr.Message, 200), cr.TopFrame)}
}

// Finalize declares the run broken when a whole observation channel stayed silent.
func (c08) Finalize(tier string, results []fw.Result, coverage map[string]any) string {
	tot := map[string]int64{}
	for _, r := range results {
		for k, v := range r.Obs {
			tot[k] += v
		}
	}
	for _, k := range []string{"spans", "renders", "syntax_errors", "diagnostics", "known_culprit_checks", "optimizer_diagnostics", "vm_fatal_spans", "tree_fatal_spans", "caught_positions", "sweep_tree_termination_spans", "sweep_vm_termination_spans"} {
		if len(results) > 50 && tot[k] == 0 {
			return "observation channel " + k + " stayed empty"
		}
	}
	return ""
}

func sortStrings(s []string) { sort.Strings(s) }
