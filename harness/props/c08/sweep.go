package c08

// Workload 4: CANCELLATION SWEEPS. Both back ends poll the cancellation context at fixed points - the
// tree-walking interpreter before every statement, every expression and on entry of every block
// (Interpreter.checkCancelation(node.Span())), the VM before every instruction (span = source-map entry
// of the current instruction) - and answer a cancellation with a TERMINATION interrupt that carries the
// span of the construct that was about to run. A run that is cancelled at its k-th poll therefore reports
// the span of the k-th construct entered: sweeping k over all polls of a run observes the span of every
// AST node (incl. the synthetic ones the parser builds, e.g. the block that wraps an `else if`) resp. of
// every source-map entry the run reaches. Hosts show such an interrupt with diagnostic.Diagnostic.Display
// (cmd/testing_run.go), so every one of these spans has to be a real position of the named text with
// start not after end, and rendering it has to succeed. No culprit is asserted here (any construct that
// was entered is a legal answer): well-formedness and rendering only.
//
// Programs: (a) a systematic family of branching constructs - if / else-if / else chains with 2-4 arms,
// with and without a final else, every arm taken (and none), as a statement, as a value, as a value whose
// arms hold statements, as the tail expression of a function, inside for / while / loop bodies, inside a
// closure, inside a match arm, nested in another else-if arm, with a call in the condition; the same
// shapes for match - and of the other statement and expression kinds (loops with break/continue, try/catch,
// block expressions, closures, recursion, list / object / option / string / range / cast / index / member
// expressions, compound assignments), each in main, in a callee, in a nested loop and in an imported
// module, under the layout variants of workload 2; (b) seeded random nestings of the same shapes;
// (c) programs of the typed generator (c01.Build).

import (
	"fmt"
	"strings"

	"github.com/smarthome-go/homescript/v3/homescript/diagnostic"

	"hv/drive"
	"hv/fw"
	"hv/props/c01"
	"hv/util"
)

type swPayload struct {
	Fam    string `json:"fam"` // tpl | gen | c01
	Tpl    string `json:"tpl,omitempty"`
	Place  string `json:"place,omitempty"`
	Mode   string `json:"mode,omitempty"` // fatal (bare) | caught (inside try)
	Layout string `json:"lay,omitempty"`
	Pre    bool   `json:"pre,omitempty"`
	Cont   bool   `json:"cont,omitempty"`
	Seed   uint64 `json:"seed,omitempty"`
	Size   int    `json:"size,omitempty"`
	// Cap: at most this many cancellation points per back end (all polls if the run has fewer)
	Cap int `json:"cap"`
}

// ---------------------------------------------------------------------------------------------
// (a) the systematic family
// ---------------------------------------------------------------------------------------------

// swCond is the condition of arm i of a chain over the selector variable.
func swCond(sel string, i int, call bool) string {
	if call {
		return fmt.Sprintf("swid(%s) == %d", sel, i)
	}
	return fmt.Sprintf("%s == %d", sel, i)
}

// ifChain renders an if / else-if / else chain with `arms` conditional arms; arm(i) gives the block
// content of arm i (i == arms: the final else).
func ifChain(sel string, arms int, finalElse, call bool, arm func(i int) string) string {
	var sb strings.Builder
	for i := 0; i < arms; i++ {
		if i > 0 {
			sb.WriteString(" else ")
		}
		fmt.Fprintf(&sb, "if %s {%%NL%%%s }", swCond(sel, i, call), arm(i))
	}
	if finalElse {
		fmt.Fprintf(&sb, " else {%%NL%%%s }", arm(arms))
	}
	return sb.String()
}

// matchChain: the same selection written as a match.
func matchChain(sel string, arms int, arm func(i int) string, braces bool) string {
	var sb strings.Builder
	fmt.Fprintf(&sb, "match %s {%%NL%%", sel)
	for i := 0; i <= arms; i++ {
		pat := fmt.Sprint(i)
		if i == arms {
			pat = "_"
		}
		if braces {
			fmt.Fprintf(&sb, "%s => {%%NL%%%s },%%NL%%", pat, arm(i))
		} else {
			fmt.Fprintf(&sb, "%s => %s,%%NL%%", pat, arm(i))
		}
	}
	sb.WriteString("}")
	return sb.String()
}

const swHelpers = "fn swid(x: int) -> int {\n    x\n}\n"

func swStmtArm(i int) string  { return fmt.Sprintf("println(\"arm\", %d);", i) }
func swValArm(i int) string   { return fmt.Sprint(10 + i) }
func swBlockArm(i int) string { return fmt.Sprintf("let a%d = %d;%%NL%%a%d + sel", i, 10+i, i) }

// chainTemplates: the product shape x arms x final-else x taken arm.
func chainTemplates() []rtTpl {
	var out []rtTpl
	add := func(name, top, stmt string) {
		out = append(out, rtTpl{Name: name, Top: top, Stmt: "«" + stmt + "»"})
	}
	for arms := 1; arms <= 3; arms++ {
		for _, fe := range []bool{true, false} {
			maxTaken := arms // index arms = final else / no arm at all
			for taken := 0; taken <= maxTaken; taken++ {
				id := fmt.Sprintf("a%d-e%v-t%d", arms, fe, taken)
				sel := fmt.Sprintf("let sel = %d;%%NL%%", taken)
				// statement forms (legal with and without a final else)
				add("if-stmt-"+id, "", sel+ifChain("sel", arms, fe, false, swStmtArm))
				add("if-stmt-semi-"+id, "", sel+ifChain("sel", arms, fe, false, swStmtArm)+";")
				add("if-stmt-callcond-"+id, swHelpers, sel+ifChain("sel", arms, fe, true, swStmtArm))
				add("if-in-while-"+id, "", sel+"let wi = 0;%NL%while wi < 2 {%NL%wi += 1;%NL%"+ifChain("sel", arms, fe, false, swStmtArm)+" }")
				add("if-in-loop-"+id, "", sel+"loop {%NL%"+ifChain("sel", arms, fe, false, swStmtArm)+"%NL%break; }")
				add("if-in-closure-"+id, "", sel+"let cl = fn(sel: int) {%NL%"+ifChain("sel", arms, fe, false, swStmtArm)+" };%NL%cl(sel);")
				add("if-in-match-arm-"+id, "", sel+"match zero {%NL%0 => {%NL%"+ifChain("sel", arms, fe, false, swStmtArm)+" },%NL%_ => {%NL%println(\"other\"); },%NL%}")
				add("if-in-try-"+id, "", sel+"try {%NL%"+ifChain("sel", arms, fe, false, swStmtArm)+"%NL%throw(\"t\"); } catch e {%NL%"+ifChain("sel", arms, fe, false, swStmtArm)+" }")
				add("if-nested-"+id, "", sel+"let out = 1;%NL%"+ifChain("out", 2, true, false, func(i int) string {
					if i == 1 {
						return ifChain("sel", arms, fe, false, swStmtArm)
					}
					return swStmtArm(90 + i)
				}))
				if !fe {
					continue
				}
				// value forms need the final else
				add("if-value-"+id, "", sel+"let v: int = "+ifChain("sel", arms, true, false, swValArm)+";%NL%println(v);")
				add("if-value-block-"+id, "", sel+"let v: int = "+ifChain("sel", arms, true, false, swBlockArm)+";%NL%println(v);")
				add("if-value-arg-"+id, "", sel+"println(1,%NL%"+ifChain("sel", arms, true, false, swValArm)+",%NL%3);")
				add("if-value-operand-"+id, "", sel+"let v = 1 + ("+ifChain("sel", arms, true, false, swValArm)+") * 2;%NL%println(v);")
				add("if-tail-"+id, "fn pick(sel: int) -> int {\n    "+ifChain("sel", arms, true, false, swValArm)+"\n}\n", fmt.Sprintf("println(pick(%d));", taken))
				add("if-return-"+id, "fn pick(sel: int) -> int {\n    return "+ifChain("sel", arms, true, false, swBlockArm)+";\n}\n", fmt.Sprintf("println(pick(%d));", taken))
				add("if-block-tail-"+id, "", sel+"let v = {%NL%let b = 1;%NL%"+ifChain("sel", arms, true, false, swValArm)+" };%NL%println(v);")
				add("match-stmt-"+id, "", sel+matchChain("sel", arms, swStmtArm, true))
				add("match-value-"+id, "", sel+"let v: int = "+matchChain("sel", arms, swValArm, false)+";%NL%println(v);")
				add("match-value-block-"+id, "", sel+"let v: int = "+matchChain("sel", arms, swBlockArm, true)+";%NL%println(v);")
				add("match-tail-"+id, "fn pick(sel: int) -> int {\n    "+matchChain("sel", arms, swValArm, false)+"\n}\n", fmt.Sprintf("println(pick(%d));", taken))
			}
		}
		// every arm in turn: the selector is a loop variable
		id := fmt.Sprintf("a%d", arms)
		add("if-for-all-"+id, "", "for sel in 0.."+fmt.Sprint(arms+1)+" {%NL%"+ifChain("sel", arms, true, false, swStmtArm)+" }")
		add("if-for-all-noelse-"+id, "", "for sel in 0.."+fmt.Sprint(arms+1)+" {%NL%"+ifChain("sel", arms, false, false, swStmtArm)+" }")
		add("if-for-all-value-"+id, "", "let acc = 0;%NL%for sel in 0.."+fmt.Sprint(arms+1)+" {%NL%acc += "+ifChain("sel", arms, true, false, swBlockArm)+"; }%NL%println(acc);")
		add("match-for-all-"+id, "", "for sel in 0.."+fmt.Sprint(arms+1)+" {%NL%"+matchChain("sel", arms, swStmtArm, true)+" }")
	}
	return out
}

// swOtherTemplates: the other statement and expression kinds.
var swOtherTemplates = []rtTpl{
	{Name: "while-break-continue", Stmt: "«let i = 0;%NL%while i < 5 {%NL%i += 1;%NL%if i == 2 {%NL%continue; }%NL%if i == 4 {%NL%break; }%NL%println(i); }»"},
	{Name: "loop-break", Stmt: "«let i = 0;%NL%loop {%NL%i += 1;%NL%if i > 2 {%NL%break; } }»"},
	{Name: "for-range", Stmt: "«for i in 0..3 {%NL%println(i); }»"},
	{Name: "for-range-expr", Stmt: "«for i in (zero + 1)..(l.len() + 1) {%NL%println(i); }»"},
	{Name: "for-list", Stmt: "«for x in l {%NL%println(x); }»"},
	{Name: "for-list-literal", Stmt: "«for x in [1,%NL%2] {%NL%println(x); }»"},
	{Name: "for-string", Stmt: "«for ch in s {%NL%println(ch); }»"},
	{Name: "for-nested", Stmt: "«for i in 0..2 {%NL%for j in 0..2 {%NL%if i == j {%NL%continue; }%NL%println(i, j); } }»"},
	{Name: "try-throw", Stmt: "«try {%NL%println(\"t\");%NL%throw(\"x\"); } catch e {%NL%println(e.message, e.line); }»"},
	{Name: "try-ok", Stmt: "«try {%NL%println(\"t\"); } catch e {%NL%println(e.message); }»"},
	{Name: "try-nested", Stmt: "«try {%NL%try {%NL%throw(\"in\"); } catch e {%NL%throw(e.message + \"!\"); } } catch f {%NL%println(f.message); }»"},
	{Name: "try-fault", Stmt: "«try {%NL%println(l[7]); } catch e {%NL%println(e.message); }»"},
	{Name: "try-value", Stmt: "«let v: int = try {%NL%l[7] } catch e {%NL%0 - 1 };%NL%println(v);»"},
	{Name: "block-expr", Stmt: "«let v = {%NL%let a = 1;%NL%let b = {%NL%a + 1 };%NL%a + b };%NL%println(v);»"},
	{Name: "block-stmt", Stmt: "«{%NL%let a = 1;%NL%println(a); }»"},
	{Name: "closure", Stmt: "«let f = fn(a: int,%NL%b: int) -> int {%NL%let c = a + b;%NL%c * 2 };%NL%println(f(1,%NL%2));»"},
	{Name: "closure-capture", Stmt: "«let k = 3;%NL%let f = fn(a: int) -> int {%NL%a + k };%NL%println(f(1));»"},
	{Name: "recursion", Top: "fn fact(k: int) -> int {\n    if k <= 1 {\n        1\n    } else {\n        k * fact(k - 1)\n    }\n}\n", Stmt: "«println(fact(3));»"},
	{Name: "early-return", Top: "fn early(k: int) -> int {\n    if k == 0 {\n        return 7;\n    } else if k == 1 {\n        return 8;\n    }\n    k\n}\n", Stmt: "«println(early(0), early(1), early(2));»"},
	{Name: "list-ops", Stmt: "«let q = [1,%NL%2,%NL%3];%NL%q[0] = q[1] + q[2];%NL%q.push(4);%NL%println(q, q.len());»"},
	{Name: "object-ops", Stmt: "«let o = new {%NL%a: 1,%NL%b: \"x\",%NL%};%NL%o.a = o.a + 1;%NL%println(o.a, o.b);»"},
	{Name: "option-ops", Stmt: "«let o: ?int = ?5;%NL%println(o.unwrap(), o.is_some(), n.is_none());»"},
	{Name: "string-ops", Stmt: "«let t = s + \"d\";%NL%println(t.len(), t.to_upper(), t.repeat(2));»"},
	{Name: "cast-ops", Stmt: "«let f = zero as float;%NL%let j = \"[1, 2]\".parse_json() as [int];%NL%println(f, j, (1.5) as int);»"},
	{Name: "prefix-infix", Stmt: "«let b = !(zero == 1) && (neg < 0 || zero > 0);%NL%let m = -neg + 2 ** 3 % 5 - (7 / 2);%NL%println(b, m, 1 << 2, 8 >> 1, 6 & 3, 6 | 3, 6 ^ 3);»"},
	{Name: "compound-assign", Stmt: "«let a = 5;%NL%a += 1;%NL%a -= 2;%NL%a *= 3;%NL%a /= 2;%NL%a %= 4;%NL%a **= 2;%NL%println(a);»"},
	{Name: "range-value", Stmt: "«let r = 1..4;%NL%println(r);»"},
	{Name: "fmt-call", Stmt: "«println(fmt(\"%d-%s\",%NL%1,%NL%\"x\"));»"},
	{Name: "anyobj", Stmt: "«let a = \"{\\\"k\\\": 1}\".parse_json() as { ? };%NL%println(a.keys());»"},
}

var swTplCache []rtTpl

func swTemplates() []rtTpl {
	if swTplCache == nil {
		swTplCache = append(chainTemplates(), swOtherTemplates...)
	}
	return swTplCache
}

func findSwTpl(name string) *rtTpl {
	ts := swTemplates()
	for i := range ts {
		if ts[i].Name == name {
			return &ts[i]
		}
	}
	return nil
}

// ---------------------------------------------------------------------------------------------
// (b) seeded random nestings
// ---------------------------------------------------------------------------------------------

type swGen struct {
	r    *fw.Rng
	n    int // fresh names
	top  strings.Builder
	loop int // depth of enclosing loops (break/continue legal)
}

func (g *swGen) fresh(p string) string { g.n++; return fmt.Sprintf("%s%d", p, g.n) }

// expr: an int-valued expression (vars: names of int variables in scope).
func (g *swGen) expr(depth int, vars []string) string {
	pick := func() string {
		if len(vars) > 0 && g.r.Chance(2, 3) {
			return vars[g.r.Intn(len(vars))]
		}
		return fmt.Sprint(g.r.Intn(5))
	}
	if depth <= 0 {
		return pick()
	}
	switch g.r.Intn(9) {
	case 0:
		return pick() + " + " + g.expr(depth-1, vars)
	case 1:
		return pick() + " * (" + g.expr(depth-1, vars) + ")"
	case 2:
		arms := 1 + g.r.Intn(3)
		sel := pick()
		return ifChain(sel, arms, true, false, func(int) string { return g.block(depth-1, vars, true) })
	case 3:
		arms := 1 + g.r.Intn(3)
		return matchChain(pick(), arms, func(int) string { return g.expr(depth-1, vars) }, false)
	case 4:
		return "{%NL%" + g.block(depth-1, vars, true) + " }"
	case 5:
		f := g.fresh("gf")
		saved := g.loop
		g.loop = 0
		body := g.block(depth-1, []string{"p"}, true)
		g.loop = saved
		fmt.Fprintf(&g.top, "fn %s(p: int) -> int {\n    %s\n}\n", f, body)
		return f + "(" + g.expr(depth-1, vars) + ")"
	case 6:
		return "[" + pick() + ",%NL%" + g.expr(depth-1, vars) + "][" + fmt.Sprint(g.r.Intn(2)) + "]"
	case 7:
		return "(try {%NL%" + g.block(depth-1, vars, true) + " } catch " + g.fresh("e") + " {%NL%" + pick() + " })"
	}
	return "0 - (-" + pick() + ")"
}

// block: statements, with a tail expression if value.
func (g *swGen) block(depth int, vars []string, value bool) string {
	var parts []string
	vars = append([]string(nil), vars...)
	n := g.r.Intn(3)
	if !value {
		n++
	}
	for i := 0; i < n; i++ {
		s, v := g.stmt(depth, vars)
		parts = append(parts, s)
		if v != "" {
			vars = append(vars, v)
		}
	}
	if value {
		tail := g.expr(depth, vars)
		if strings.HasPrefix(tail, "(") || strings.HasPrefix(tail, "[") || strings.HasPrefix(tail, "-") {
			// after a statement that ends in a block these would continue it (call / index / minus)
			tail = "0 + " + tail
		}
		parts = append(parts, tail)
	}
	return strings.Join(parts, "%NL%")
}

// stmt returns a statement and the int variable it declares (if any).
func (g *swGen) stmt(depth int, vars []string) (string, string) {
	sel := fmt.Sprint(g.r.Intn(4))
	if len(vars) > 0 && g.r.Chance(1, 2) {
		sel = vars[g.r.Intn(len(vars))]
	}
	if depth <= 0 {
		return "println(\"s\", " + g.expr(0, vars) + ");", ""
	}
	switch g.r.Intn(12) {
	case 0, 1:
		v := g.fresh("v")
		return "let " + v + " = " + g.expr(depth, vars) + ";", v
	case 2, 3:
		arms := 1 + g.r.Intn(3)
		semi := ""
		if g.r.Chance(1, 2) {
			semi = ";"
		}
		return ifChain(sel, arms, g.r.Chance(1, 2), false, func(int) string { return g.block(depth-1, vars, false) }) + semi, ""
	case 4:
		arms := 1 + g.r.Intn(3)
		return matchChain(sel, arms, func(int) string { return g.block(depth-1, vars, false) }, true), ""
	case 5:
		i := g.fresh("i")
		g.loop++
		b := g.block(depth-1, append(vars, i), false)
		g.loop--
		return "for " + i + " in 0.." + fmt.Sprint(1+g.r.Intn(3)) + " {%NL%" + b + " }", ""
	case 6:
		i := g.fresh("w")
		g.loop++
		b := g.block(depth-1, append(vars, i), false)
		g.loop--
		return "let " + i + " = 0;%NL%while " + i + " < 2 {%NL%" + i + " += 1;%NL%" + b + " }", i
	case 7:
		i := g.fresh("k")
		g.loop++
		b := g.block(depth-1, append(vars, i), false)
		g.loop--
		return "let " + i + " = 0;%NL%loop {%NL%" + i + " += 1;%NL%if " + i + " > 1 {%NL%break; }%NL%" + b + " }", i
	case 8:
		e := g.fresh("e")
		thr := ""
		if g.r.Chance(1, 2) {
			thr = "%NL%throw(\"g\");"
		}
		return "try {%NL%" + g.block(depth-1, vars, false) + thr + " } catch " + e + " {%NL%println(" + e + ".message);%NL%" + g.block(depth-1, vars, false) + " }", ""
	case 9:
		if g.loop > 0 {
			kw := "continue"
			if g.r.Chance(1, 2) {
				kw = "break"
			}
			return "if " + swCond(sel, g.r.Intn(3), false) + " {%NL%" + kw + "; }", ""
		}
		return "{%NL%" + g.block(depth-1, vars, false) + " }", ""
	case 10:
		if len(vars) > 0 {
			// loop counters are excluded by construction: they are only read in conditions we build
			v := g.fresh("m")
			return "let " + v + " = " + vars[g.r.Intn(len(vars))] + ";%NL%" + v + " += " + g.expr(depth-1, vars) + ";", v
		}
	}
	return "println(\"s\", " + g.expr(depth-1, vars) + ");", ""
}

func genTemplate(seed uint64, size int) rtTpl {
	g := &swGen{r: fw.NewRng(seed)}
	var parts []string
	vars := []string{"zero"}
	for i := 0; i < size; i++ {
		s, v := g.stmt(2, vars)
		parts = append(parts, s)
		if v != "" {
			vars = append(vars, v)
		}
	}
	return rtTpl{Name: fmt.Sprintf("gen-%d-%d", seed, size), Top: g.top.String(), Stmt: "«" + strings.Join(parts, "%NL%") + "»"}
}

// ---------------------------------------------------------------------------------------------
// cases
// ---------------------------------------------------------------------------------------------

func sweepCases(tier string, seed uint64) []fw.Case {
	var cases []fw.Case
	r := fw.NewRng(seed ^ 0xC085)
	thorough := tier == "thorough"
	capK := 160
	if thorough {
		capK = 600
	}
	// (a) every template once in main (plain) and once at a sampled place / layout; thorough: more variants
	variants := 1
	if thorough {
		variants = 6
	}
	seen := map[string]bool{}
	for _, t := range swTemplates() {
		mk := func(place, mode, lay string, pre, cont bool) {
			id := fmt.Sprintf("c08-sw-%s-%s-%s-%s-%v-%v", t.Name, place, mode, lay, pre, cont)
			if seen[id] {
				return // the same variant was drawn twice
			}
			seen[id] = true
			cases = append(cases, fw.MkCase(id, "sweep", swPayload{Fam: "tpl", Tpl: t.Name, Place: place, Mode: mode, Layout: lay, Pre: pre, Cont: cont, Cap: capK}))
		}
		mk("main", "fatal", "plain", false, false)
		for v := 0; v < variants; v++ {
			place := rtPlaces[r.Intn(len(rtPlaces))]
			mode := []string{"fatal", "caught"}[r.Intn(2)]
			lay := diagLayouts[r.Intn(len(diagLayouts))].Name
			pre, cont := r.Chance(1, 2), r.Chance(1, 2)
			if place == "main" && mode == "fatal" && lay == "plain" && !pre && !cont {
				cont = true
			}
			mk(place, mode, lay, pre, cont)
		}
	}
	// (b) random nestings
	nGen := 150
	if thorough {
		nGen = 2500
	}
	for i := 0; i < nGen; i++ {
		pl := swPayload{Fam: "gen", Seed: r.Next(), Size: 2 + r.Intn(4), Place: rtPlaces[r.Intn(len(rtPlaces))], Mode: []string{"fatal", "caught"}[r.Intn(2)],
			Layout: diagLayouts[r.Intn(len(diagLayouts))].Name, Pre: r.Chance(1, 3), Cont: r.Chance(1, 2), Cap: capK}
		cases = append(cases, fw.MkCase(fmt.Sprintf("c08-sw-gen-%d", i), "sweep", pl))
	}
	// (c) programs of the typed generator
	nC01 := 40
	if thorough {
		nC01 = 600
	}
	for i := 0; i < nC01; i++ {
		pl := swPayload{Fam: "c01", Seed: r.Next(), Size: 4 + r.Intn(10), Cap: capK}
		cases = append(cases, fw.MkCase(fmt.Sprintf("c08-sw-c01-%d", i), "sweep", pl))
	}
	return cases
}

// sweepPoints: the cancellation points for a run with n polls: all of them if n <= cap, else the first
// cap/2 and a seeded sample of the rest (sorted, distinct).
func sweepPoints(n, capK int, r *fw.Rng) []int {
	var ks []int
	if n <= capK {
		for k := 1; k <= n; k++ {
			ks = append(ks, k)
		}
		return ks
	}
	head := capK / 2
	for k := 1; k <= head; k++ {
		ks = append(ks, k)
	}
	// stratified: one point per stratum of the remaining polls
	rest := capK - head
	span := n - head
	for i := 0; i < rest; i++ {
		lo := head + 1 + i*span/rest
		hi := head + 1 + (i+1)*span/rest
		if hi <= lo {
			hi = lo + 1
		}
		ks = append(ks, lo+r.Intn(hi-lo))
	}
	return ks
}

func runSweep(c fw.Case) fw.Result {
	var p swPayload
	fw.Decode(c, &p)
	if p.Cap <= 0 {
		p.Cap = 100
	}
	src := drive.Sources{}
	entry := "main"
	name := p.Fam
	switch p.Fam {
	case "tpl", "gen":
		var t *rtTpl
		if p.Fam == "tpl" {
			t = findSwTpl(p.Tpl)
		} else {
			g := genTemplate(p.Seed, p.Size)
			t = &g
		}
		if t == nil {
			return fw.Result{Verdict: fw.Inconclusive, Why: "unknown sweep template " + p.Tpl}
		}
		name = t.Name
		marked, _ := buildRuntime(t, rtPayload{Place: p.Place, Mode: p.Mode, Layout: p.Layout, Pre: p.Pre, Cont: p.Cont})
		for _, k := range drive.SortedKeys(marked) {
			plain, _, _, _, _ := parseMarks(marked[k])
			src[k] = plain
		}
	case "c01":
		pr, _ := c01.Build(c01.Payload{Seed: p.Seed, Size: p.Size, Preset: "main"})
		for k, v := range pr.Source() {
			src[k] = v
		}
		entry = pr.Entry
	default:
		return fw.Result{Verdict: fw.Inconclusive, Why: "unknown sweep family " + p.Fam}
	}
	var texts []string
	for _, k := range drive.SortedKeys(src) {
		texts = append(texts, fmt.Sprintf("%s=%q", k, util.Clip(src[k], 900)))
	}
	m := newMonitor(src, fmt.Sprintf("sweep %s place=%s mode=%s layout=%s pre=%v cont=%v %s", name, p.Place, p.Mode, p.Layout, p.Pre, p.Cont, strings.Join(texts, " ")))
	ao := drive.Analyze(src, entry, true)
	m.analysis(ao)
	if ao.Errors > 0 {
		return fw.Result{Verdict: fw.Inconclusive, Why: "sweep program is not accepted by the analyzer: " + util.Clip(ao.ErrorSummary(), 300) + " | " + m.ctx}
	}
	observed := 0
	judge := func(backend string, k, n int, oc drive.Outcome) {
		switch oc.Class {
		case "ok":
			m.obs["sweep_"+backend+"_finished_despite_cancel"]++
			return
		case "go-panic", "step-budget", "compile-error":
			m.obs["backend_failures"]++
			return
		}
		at := fmt.Sprintf("%s cancelled at poll %d of %d", backend, k, n)
		if !oc.HasSpan {
			m.fail(fmt.Sprintf("sweep:%s:no-span:%s", backend, oc.Class), fmt.Sprintf("%s: interrupt %s has no span", at, oc), nil)
			return
		}
		class := oc.Class
		if oc.Class != "terminate" {
			class = oc.Class + "/" + oc.Kind
		}
		before := len(m.viol)
		st := m.checkSpan(backend, class, oc.Span)
		d := diagnostic.Diagnostic{Level: diagnostic.DiagnosticLevelError, Message: oc.Message, Span: oc.Span}
		m.render("diagnostic.Diagnostic.Display", backend, class, oc.Span, st, func(text string) string { return d.Display(text) })
		for i := before; i < len(m.viol); i++ {
			m.viol[i].Why = at + ": " + m.viol[i].Why
		}
		observed++
		m.obs[backend+"_fatal_spans"]++
		if oc.Class == "terminate" {
			m.obs["sweep_"+backend+"_termination_spans"]++
			m.cover["sweep:"+backend+":terminate"] = true
		}
	}
	r := fw.NewRng(p.Seed ^ uint64(len(c.ID))*0x9E3779B97F4A7C15 ^ 0x5EE9)
	// interpreter
	probe := newCountingCtx(1 << 30)
	tr0 := drive.RunTree(ao.Modules, src, entry, drive.TreeOpts{Ctx: probe})
	nTree := probe.count()
	if tr0.Outcome.Class == "step-budget" || tr0.Outcome.Class == "go-panic" {
		return fw.Result{Verdict: fw.Inconclusive, Why: "sweep program does not run on the interpreter: " + tr0.Outcome.String() + " | " + m.ctx}
	}
	for _, k := range sweepPoints(nTree, p.Cap, r) {
		tr := drive.RunTree(ao.Modules, src, entry, drive.TreeOpts{Ctx: newCountingCtx(k)})
		judge("tree", k, nTree, tr.Outcome)
	}
	m.obs["sweep_tree_polls"] += int64(nTree)
	// VM
	prog, cerr := drive.Compile(ao.Modules, entry)
	nVM := 0
	if cerr != nil {
		m.obs["backend_failures"]++
	} else {
		// runtime.NewVM runs the initialisation code of the program synchronously and answers an
		// interrupt of it with a Go panic (no span is reported): the sweep starts after those polls
		initProbe := newCountingCtx(1 << 30)
		drive.RunCompiled(prog, src, drive.VMOpts{Ctx: initProbe, SkipMain: true}, nil)
		nInit := initProbe.count()
		probe := newCountingCtx(1 << 30)
		drive.RunCompiled(prog, src, drive.VMOpts{Ctx: probe}, nil)
		nVM = probe.count()
		for _, k := range sweepPoints(nVM-nInit, p.Cap, r) {
			vr := drive.RunCompiled(prog, src, drive.VMOpts{Ctx: newCountingCtx(nInit + k)}, nil)
			judge("vm", nInit+k, nVM, vr.Outcome)
		}
		m.obs["sweep_vm_polls"] += int64(nVM)
	}
	res := m.result(observed > 0)
	if observed == 0 && res.Verdict == fw.Held {
		res.Verdict = fw.Inconclusive
		res.Why = fmt.Sprintf("no interrupt position was observed (tree polls %d, vm polls %d) | %s", nTree, nVM, m.ctx)
	}
	res.Cover = append(res.Cover, "sweep:"+p.Fam)
	if p.Fam == "tpl" {
		res.Cover = append(res.Cover, "sweep-place:"+p.Place)
	}
	if strings.HasSuffix(c.ID, "-7") || (p.Fam == "tpl" && p.Layout == "unicode-comment" && p.Cont && strings.HasPrefix(p.Tpl, "if-value-block-a3")) {
		res.Sample = map[string]any{"kind": "sweep", "program": name, "text": src, "tree_polls": nTree, "vm_polls": nVM}
	}
	return res
}
