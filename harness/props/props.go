// Package props links every property implementation into the hv binary.
package props
