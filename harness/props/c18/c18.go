// Package c18 checks property C18 — "Every builtin member the analyzer offers exists and behaves as
// typed" (DESIGN.md §3 C18) by runtime monitoring:
//
//	(a) api:  every key of ast.<Type>.Fields() must be a key of Fields() of representative runtime
//	          values (empty / one / many) in BOTH value libraries (Go API, no program involved);
//	(b) call/field: generated programs `let r = recv.member(args); probe(r, recv);` for every
//	          argument tuple from the boundary pools, analysed by the real analyzer (rejected
//	          programs are skipped and counted) and run on the VM (crash-isolated worker) and on the
//	          tree-walking interpreter;
//	(c) idx-*/arrow: `recv[i]`, `recv["k"]`, `recv[k] as T`, `recv->k` with the same index sets;
//	(d) assign/idx-set-*: the same places as the target of an assignment, read back afterwards
//	          (`recv.f = v; recv.f`, `recv[i] = v; recv[i]`, `recv["k"] = v; recv["k"]`);
//	(e) backend "both": where the reference model leaves the answer open between a value and an
//	          interrupt, the program runs on both runtimes in one case and both must make the same
//	          choice (accepted by both or answered with an interrupt by both).
//	(f) every program binds a second value `twin`, constructed exactly like the receiver and touched
//	          by no statement, and probes it last: whatever the operation does to the receiver, the twin
//	          is still the value that was written down (frame condition of the reference model).
//
//	(h) literal indexing with the names of the analyzer's member table: `recv["keys"]`, `recv["len"]`, ...
//	          on every type instance (objects and any-objects also through `recv[k]` / `recv->name`). A
//	          builtin member is no entry of the value; when the analyzer accepts the literal form for a
//	          name the type declares no data field for, it offers an entry, and the runtimes must have it
//	          (judgeOffered: an interrupt "no such field" or a result of another type is a violation).
//
//	(g) a program the analyzer rejects is skipped (and counted) unless a diagnostic sits on the statement
//	          that performs the operation AND the same statement alone, as the body of a function whose
//	          parameters carry the receiver type and exactly the advertised parameter types, is rejected
//	          as well: then the analyzer refuses the use of a member it offers (violation, reported with
//	          the diagnostics).
//
// Receivers are produced in several ways (the property speaks of every runtime value of a type):
// literal, parse_json + cast, object literal cast to { ? }, and — for every receiver in the in-place
// assignments, for the last receiver of each type everywhere — as the variable of a for loop (the
// copy the runtime makes of the element) and through a cast to its own type; the receiver that is the
// start value of its type (0, "", [], none, objects of those) also as a singleton the host does not
// provide — directly, as a field of a singleton object, and through an extraction parameter — i.e. as a
// value the runtime made up itself from its own table of start values. The instances with
// empty options / null in element and field cells ([?int], [{a:?int}], {a:?int,b:str},
// {o:?str,l:[?int]}, any-objects holding none / null) put the "nothing there" values into the places
// members read, write and serialise.
//
// Besides the instances of DESIGN.md the matrix holds objects whose data fields are named like
// builtin members (names read from the analyzer's tables: those every object reserves, and those of
// the sibling type `{ ? }`), and an any-object whose data keys are named like its own members.
//
// Oracle: survival (an interrupt is fine, a Go panic is not), structural hasType of the probed
// result and of the receiver against the advertised types, and a reference model of the results
// (model.go). The member table is read from the real analyzer at run time.
package c18

import (
	"fmt"
	"sort"
	"strings"

	"github.com/smarthome-go/homescript/v3/homescript/analyzer/ast"
	"github.com/smarthome-go/homescript/v3/homescript/diagnostic"
	herrors "github.com/smarthome-go/homescript/v3/homescript/errors"

	"hv/drive"
	"hv/fw"
	"hv/util"
)

type c18 struct{}

func init() { fw.Register(c18{}) }

func (c18) ID() string { return "C18" }

func (c18) Info(tier string) fw.Info {
	return fw.Info{
		Level: "exploration",
		Rule: "exhaustive cross product: type instances {int,float,bool,str,range,[int],[float],[str],[bool],[[int]],[{a:int}],[range],{?},{a:int,b:str},{r:range},?int,?str,?[int],null,fn} " +
			"(each with empty/one/many receivers) x every member of the real ast.<Type>.Fields() x every argument tuple of the boundary pools (strings: empty/absent/present/self; counts -1,0,1,3; " +
			"indices -len-1..len+1; elements present/absent), as Go-API key-set checks in both value libraries and as generated programs run on the VM and on the interpreter; plus indexing " +
			"recv[i] / recv[\"k\"] / recv[k] / recv->k with the same index sets, and the same places (object fields, list elements, object keys) as assignment targets read back afterwards. " +
			"The type instances include objects whose fields are named like builtin members (the names objects reserve, e.g. keys/to_json, and the names of {?} members, e.g. to_string/get/set) and an any-object with such data keys. " +
			"Also lists and objects whose element / field cells hold empty options ([?int], [{a:?int}], {a:?int,b:str}, {o:?str,l:[?int]}) and any-objects holding none / null / a list with none. " +
			"Literal indexing recv[\"name\"] is tried with every name of the member table of the type on every instance (objects / any-objects also recv[k] and recv->name): accepted by the analyzer for a name the type declares no data field for = offered, the runtime value must then have the entry with the type the table gives. " +
			"Where the reference model leaves the answer open (value or interrupt) the program additionally runs on both runtimes in one case and both must accept or both must interrupt. Receivers are built as literals and, where expressible, also by parse_json and by a cast to {?}; " +
			"as the variable of a for loop over a one-element list and through a cast to the receiver's own type for every in-place assignment and, with up to 6 (thorough: 24) argument tuples per member, for the last receiver of each type. " +
			"Lists, objects and any-objects are also built by a helper function whose body is the construction (fresh origin): receiver, twin and a third value made after the operation are three products of one construction site (every in-place assignment, every member call the model says writes into the receiver, and everything for the last receiver of each type); the third value must be the value written down. " +
			"The any-object receivers hold every storable kind (typed objects, nested any-objects, floats, lists / options of objects, ranges, functions; also as nested objects of parsed JSON), and get_type of a present key must answer with the analyzer's name of that kind. " +
			"The receiver that is the start value of its type (0, 0.0, false, \"\", [], {?} empty, none, objects of those) is also produced by the runtime itself: as a singleton `$Z = T;` the host does not provide (every argument tuple), as the field of such a singleton object and through a singleton extraction parameter `fn op(recv: $Z)` (up to 6 / 24 tuples per member). " +
			"Element / payload / field types that are objects with several differently typed fields ([{a:int,b:str}], ?{s:str,n:int,t:bool}, {p:{a:int,b:str},l:[{a:int,b:str}]}) make whole objects the arguments of push / insert / contains / concat / unwrap_or and of assignments. " +
			"Every program also builds an untouched second value like the receiver and probes it after the operation (it must be unchanged). to_json / to_json_indent results are parsed and compared as documents with the receiver. " +
			"null-returning members run as a statement and bound to a variable; ?any results are also observed uncast through .to_string(). thorough adds 7-element and seed-chosen receivers and up to 200 argument tuples. " +
			"non-trivial = the analyzer accepted the program and the member/index operation was executed by the backend (its result was probed, or it raised an interrupt, or it crashed); " +
			"for api cases: the analyzer lists the member and Fields() of the runtime values was evaluated. distinct = distinct (part, backend, receiver, member, arguments, form)",
		Assumptions: []string{
			"the reference model (props/c18/model.go) fixes: negative indices count from the end for indexing, insert (positions 0..len), remove, substring; out-of-range => interrupt; substring(len) may be the whole string or an interrupt",
			"string operations at text level (replace/split/case/number parsing) and float rendering are mirrored from the Go standard library, not re-derived",
			"members without a model entry (to_string of objects, get_type of an absent key, to_json* of values holding a range) are checked for survival, the advertised type, and that both runtimes agree on accepting / interrupting",
			"{?}.get_type(key) of a present key names the kind of the stored value with the analyzer's own name for that kind (ast.TypeKind.String() of the real analyzer: the kind whose member table the value has), the same in both runtimes",
			"every evaluation of a construction (literal, new { ? } plus set calls) delivers a value of its own: a value made by a helper function is the value written down in its body, whatever happened to earlier products of that function",
			"to_json / to_json_indent return JSON text that denotes the receiver: arrays with every element in order, objects with every data field, none / null as JSON null, Some(x) as x; layout, key order and number spelling are not modelled (C13)",
			"an operation on one value leaves a second, separately constructed value alone, whatever produced the two (literal, parse_json, cast, loop variable)",
			"a data field named like a builtin member is the member the analyzer offers (with the type of the field): reading and assigning it must reach the field in both runtimes",
			"a literal index `recv[\"name\"]` the analyzer accepts although the receiver type declares no data field `name` is an offer of the analyzer (it otherwise answers such an index with a diagnostic): the runtimes must deliver a value for it, of the type the member table lists under that name if it lists one",
			"programs the analyzer rejects are skipped (counted as analyzer-rejected); the run is broken if a (backend,type,member) pair is never exercised",
			"exception: 'accepts the advertised arguments' binds the analyzer too. When a diagnostic sits on the statement performing the operation and that statement alone in `fn op(recv: T, a0: P0, ...) { ... }` (T the receiver type, Pi the parameter types of the analyzer's own table, no literal anywhere) is rejected as well, the rejection is a violation; diagnostics that only concern the construction of receiver / arguments stay a matter of the self-check",
			"a singleton the host does not provide starts as 0 / 0.0 / false / \"\" / [] / empty any-object / none, objects field by field, and is a value of its declared type like any other (types holding a range are left out: the two runtimes start a range at different values, which is not a statement about members)",
		},
		Exhaustive:   true,
		CaseTimeoutS: 30,
		BatchSize:    250,
	}
}

// ---------------------------------------------------------------------------------------------
// Cases
// ---------------------------------------------------------------------------------------------

func paramsOf(ft ast.FunctionType) ([]ast.FunctionTypeParam, bool) {
	np, ok := ft.Params.(ast.NormalFunctionTypeParamKindIdentifier)
	if !ok {
		return nil, false
	}
	return np.Params, true
}

// rcv is a receiver together with the way it is constructed.
type rcv struct {
	V      rv
	Origin string
	// AssignOnly: this (receiver, origin) is used for the in-place assignments only
	AssignOnly bool
	// Writers: ... and for the member calls that change the receiver (reference model)
	Writers bool
}

// extraTuples caps the argument tuples per (receiver, member) of the extra origins.
func extraTuples(thorough bool) int {
	if thorough {
		return 24
	}
	return 6
}

// Extra reports whether the origin is one of the extra origins.
func (r rcv) Extra() bool {
	switch r.Origin {
	case "loop", "as", "fresh", "zerof", "zerox":
		return true
	}
	return false
}

// writes reports whether the reference model says that the call changes the receiver.
func writes(recv rv, member string, args []rv) bool {
	e := modelMember(recv, member, args)
	return e.Mode == mValue && e.HasAfter && !eq(e.After, recv)
}

// expand lists the (receiver, origin) combinations of an instance. Every receiver is built through
// each of its base origins. The extra origins (loop variable, cast to its own type) are used with
// every receiver for the in-place assignments (the operation that writes into a cell the origin
// created) and with the last receiver of the quick matrix (the "many" one) for everything else.
// The fresh origin (several products of one construction site) is used with every receiver also for
// the member calls that write into the receiver: a product that was written to is what a later
// product of the same site must not be.
func expand(in inst) []rcv {
	last := ""
	if q, ok := instByName(in.Name); ok && len(q.Vars) > 0 {
		last = show(q.Vars[len(q.Vars)-1])
	}
	var out []rcv
	for _, v := range in.Vars {
		for _, o := range originsOf(v) {
			out = append(out, rcv{v, o, false, false})
		}
		for _, o := range extraOriginsOf(in, v) {
			out = append(out, rcv{v, o, show(v) != last, o == "fresh" && show(v) != last})
		}
		// the start value of a singleton: everything on "zero", a few argument tuples per member on
		// the two other ways to reach it
		for _, o := range zeroOriginsOf(in, v) {
			out = append(out, rcv{v, o, false, false})
		}
	}
	return out
}

func (c18) Cases(tier string, seed uint64) []fw.Case {
	thorough := tier == "thorough"
	insts := instances(tier, seed)
	total := 0
	for _, in := range insts {
		total += len(memberTable(in.T))
	}
	if total == 0 {
		// the analyzer offers nothing: the check cannot observe anything -> "no cases generated" (broken)
		return nil
	}
	var main []fw.Case
	poisoned := map[string][]fw.Case{}
	n := 0
	add := func(p payload) {
		p.Twin = p.Part != "api"
		if strings.Contains(p.Src, " as ?fn(") {
			// A stored function read back through get / -> : the analyzer refuses `any as fn(..)`
			// ("cannot cast a function value at runtime") but accepts `?any as ?fn(..)`, which the
			// interpreter answers with the Go panic "Unreachable, the analyzer prevents this" and the
			// VM with a cast error. That is a defect of the cast, not of the member (reported by the
			// author of this workload as a side finding); the member is still observed uncast through
			// the chain form, get_type, keys, set and the receiver probes.
			return
		}
		tags, open := tagsFor(&p)
		id := fmt.Sprintf("c18-%s-%06d", p.Part, n)
		n++
		if open != "" {
			poisoned[open] = append(poisoned[open], fw.MkCase("kfp-"+id, p.Part, p, tags...))
			return
		}
		main = append(main, fw.MkCase(id, p.Part, p, tags...))
	}
	backends := []string{"vm", "tree"}
	// addRuns adds the program once per backend, and once more as a differential case when the
	// reference model leaves the choice between a value and an interrupt to the implementation
	addRuns := func(p payload, e expect) {
		for _, b := range backends {
			q := p
			q.Backend = b
			add(q)
		}
		if e.Mode == mEither || e.Mode == mNoCrash {
			q := p
			q.Backend = "both"
			add(q)
		}
	}
	for _, in := range insts {
		table := memberTable(in.T)
		for _, m := range sortedTypeKeys(table) {
			mt := table[m]
			// (a) key sets through the Go API
			for _, b := range backends {
				add(payload{Part: "api", Backend: b, Inst: in.Name, Member: m, Recvs: in.Vars, Recv: in.Vars[0]})
			}
			// (b) programs
			ft, isFn := mt.(ast.FunctionType)
			base := map[string]bool{} // the receivers of the quick matrix
			if q, ok := instByName(in.Name); ok {
				for _, v := range q.Vars {
					base[show(v)] = true
				}
			}
			for _, rc := range expand(in) {
				recv, origin := rc.V, rc.Origin
				if !isFn {
					if !rc.AssignOnly {
						src, pr := callProgram(in, recv, origin, m, mt, nil, "let")
						addRuns(payload{Part: "field", Inst: in.Name, Recv: recv, Origin: origin, Member: m, Form: "let", Print: pr, Src: src}, modelMember(recv, m, nil))
					}
					// the same member as the target of an assignment, read back afterwards
					if cur, isData := recv.M[m]; isData && recv.K == "obj" && typeText(mt) != "" {
						if v, ok := otherValue(mt, cur); ok {
							src, pr := assignProgram(in, recv, origin, "assign", m, rv{}, v, mt)
							addRuns(payload{Part: "assign", Inst: in.Name, Recv: recv, Origin: origin, Member: m, Args: []rv{v}, Form: "let", Print: pr, Src: src}, modelAssign(recv, m, v))
						}
					}
					continue
				}
				params, ok := paramsOf(ft)
				if !ok || (rc.AssignOnly && !rc.Writers) {
					continue
				}
				forms := []string{"let"}
				if isOptAny(ft.ReturnType) {
					forms = []string{"let", "chain"}
				}
				if ft.ReturnType.Kind() == ast.NullTypeKind {
					// a null result cannot be passed to probe(): run the call as a statement, and
					// bound to a variable that is then wrapped in a list
					forms = []string{"stmt", "bound"}
					if !base[show(recv)] || rc.Extra() {
						// the bound form observes the null value itself, not the member: the
						// receivers of the quick matrix are enough for it
						forms = []string{"stmt"}
					}
				}
				tuples := argTuples(params, recv, thorough)
				if rc.AssignOnly {
					var w [][]rv
					for _, args := range tuples {
						if writes(recv, m, args) {
							w = append(w, args)
						}
					}
					tuples = w
				}
				if rc.Extra() {
					// the extra origins repeat the member on a value that was produced differently:
					// a few argument tuples (first and last included) are enough for that
					tuples = strideTuples(tuples, extraTuples(thorough))
				}
				for _, args := range tuples {
					for _, form := range forms {
						src, pr := callProgram(in, recv, origin, m, mt, args, form)
						addRuns(payload{Part: "call", Inst: in.Name, Recv: recv, Origin: origin, Member: m, Args: args, Form: form, Print: pr, Src: src}, modelMember(recv, m, args))
					}
				}
			}
		}
		// (c) indexing
		for _, rc := range expand(in) {
			recv, origin := rc.V, rc.Origin
			switch recv.K {
			case "list", "str":
				for _, idx := range indexPool(recv) {
					if !rc.AssignOnly {
						src, pr := indexProgram(in, recv, origin, "idx-int", idx, "let")
						addRuns(payload{Part: "idx-int", Inst: in.Name, Recv: recv, Origin: origin, Args: []rv{idx}, Form: "let", Print: pr, Src: src}, modelIndex(recv, idx))
					}
					// the same place as the target of an assignment (lists only: a string is a value)
					lt, isList := in.T.(ast.ListType)
					if !isList || typeText(lt.Inner) == "" {
						continue
					}
					cur := rv{K: "nil"}
					if i, ok := wrapIndex(idx.I, len(recv.L), false); ok {
						cur = recv.L[i]
					}
					if v, ok := otherValue(lt.Inner, cur); ok {
						src, pr := assignProgram(in, recv, origin, "idx-set-int", "", idx, v, lt.Inner)
						addRuns(payload{Part: "idx-set-int", Inst: in.Name, Recv: recv, Origin: origin, Args: []rv{idx, v}, Form: "let", Print: pr, Src: src}, modelIndexSet(recv, idx, v))
					}
				}
			case "obj", "anyobj":
				keys := []string{"a", "zz", "", "keys"}
				keys = append(keys, sortedKeys(recv.M)...)
				// ... and every name of the analyzer's member table of the type: a builtin member is
				// reached with `recv.name`, it is not an entry `recv["name"]` / `recv[k]` / `recv->name`
				// finds (unless a data field carries that name). Should the analyzer accept the literal
				// form, it offers an entry, which then has to exist (judgeOffered).
				keys = append(keys, sortedTypeKeys(memberTable(in.T))...)
				seen := map[string]bool{}
				for _, k := range keys {
					if seen[k] {
						continue
					}
					seen[k] = true
					parts := []string{"idx-dyn"}
					if recv.K == "obj" {
						parts = append(parts, "idx-lit")
					} else if k != "" {
						parts = append(parts, "arrow")
					}
					for _, part := range parts {
						forms := []string{"let"}
						if part == "arrow" {
							forms = append(forms, "chain")
						}
						for _, form := range forms {
							if rc.AssignOnly {
								continue
							}
							src, pr := indexProgram(in, recv, origin, part, vStr(k), form)
							e := modelIndex(recv, vStr(k))
							if part == "arrow" {
								e = modelArrow(recv, k)
							}
							addRuns(payload{Part: part, Inst: in.Name, Recv: recv, Origin: origin, Args: []rv{vStr(k)}, Form: form, Print: pr, Src: src}, e)
						}
						if ft := indexResultType(in, recv, "idx-lit", vStr(k)); part == "idx-lit" && ft != nil && typeText(ft) != "" {
							if v, ok := otherValue(ft, recv.M[k]); ok {
								src, pr := assignProgram(in, recv, origin, "idx-set-lit", "", vStr(k), v, ft)
								addRuns(payload{Part: "idx-set-lit", Inst: in.Name, Recv: recv, Origin: origin, Args: []rv{vStr(k), v}, Form: "let", Print: pr, Src: src}, modelIndexSet(recv, vStr(k), v))
							}
						}
					}
				}
			}
			// Lists and strings take ints, the other kinds (scalars, ranges, options, null, functions)
			// take no index at all. The literal form with the name of one of their members is put
			// before the analyzer all the same (base construction of each receiver): whatever it
			// accepts there it offers, and the entry then has to exist (judgeOffered).
			if recv.K != "obj" && recv.K != "anyobj" && !rc.AssignOnly && !rc.Extra() && origin == originsOf(recv)[0] {
				for _, k := range sortedTypeKeys(memberTable(in.T)) {
					src, pr := indexProgram(in, recv, origin, "idx-lit", vStr(k), "let")
					addRuns(payload{Part: "idx-lit", Inst: in.Name, Recv: recv, Origin: origin, Args: []rv{vStr(k)}, Form: "let", Print: pr, Src: src}, interrupt(recv.clone()))
				}
			}
		}
	}
	// poisoned workloads: a few dozen cases per open finding, spread evenly over the construct
	for _, kf := range drive.SortedKeys(poisoned) {
		cs := poisoned[kf]
		if len(cs) <= poisonCap {
			main = append(main, cs...)
			continue
		}
		for k := 0; k < poisonCap; k++ {
			main = append(main, cs[k*(len(cs)-1)/(poisonCap-1)])
		}
	}
	return main
}

// ---------------------------------------------------------------------------------------------
// Run
// ---------------------------------------------------------------------------------------------

type failure struct {
	class string
	why   string
}

func normCrash(msg string) string {
	m := strings.TrimSpace(msg)
	if strings.HasPrefix(m, "Field `") || strings.HasPrefix(m, "Field '") {
		return "field-not-found"
	}
	// drop Go's " [recovered]" and goexit decorations
	if i := strings.Index(m, " [recovered]"); i >= 0 {
		m = m[:i]
	}
	return util.NormPanic(m)
}

func finish(p *payload, res fw.Result, fails []failure) fw.Result {
	site := construct(p)
	if len(fails) == 0 {
		res.Verdict = fw.Held
		return res
	}
	res.Verdict = fw.Violated
	res.Sig = site + ":" + fails[0].class
	res.Why = explain(p, fails[0].why)
	for _, f := range fails[1:] {
		res.More = append(res.More, fw.SubViolation{Sig: site + ":" + f.class, Why: explain(p, f.why)})
	}
	return res
}

// explain puts the reason before the program: long programs are clipped by the report.
func explain(p *payload, why string) string {
	if p.Part == "api" {
		return describe(p) + ": " + why
	}
	return fmt.Sprintf("[%s %s] %s :: program=%q", p.Backend, p.Part, why, p.Src)
}

func describe(p *payload) string {
	if p.Part == "api" {
		return fmt.Sprintf("[%s api] %s.%s", p.Backend, p.Inst, p.Member)
	}
	return fmt.Sprintf("[%s %s] program=%q", p.Backend, p.Part, p.Src)
}

func (c18) Run(c fw.Case) fw.Result {
	var p payload
	fw.Decode(c, &p)
	in, ok := instByName(p.Inst)
	if !ok {
		return fw.Result{Verdict: fw.Inconclusive, Why: "unknown type instance " + p.Inst}
	}
	if p.Part == "api" {
		return runAPI(&p, in)
	}
	return runProgram(&p, in)
}

func pairKey(p *payload) string {
	return "pair:" + construct(p)
}

func runAPI(p *payload, in inst) fw.Result {
	res := fw.Result{}
	table := memberTable(in.T)
	mt, listed := table[p.Member]
	if !listed {
		return fw.Result{Verdict: fw.Inconclusive, Why: "the analyzer does not list " + p.Inst + "." + p.Member}
	}
	var fails []failure
	seen := map[string]bool{}
	addFail := func(class, why string) {
		if !seen[class] {
			seen[class] = true
			fails = append(fails, failure{class, why})
		}
	}
	for _, recv := range p.Recvs {
		var keys map[string]rv
		var err string
		if p.Backend == "vm" {
			keys, err = vmFields(recv)
		} else {
			keys, err = treeFields(recv)
		}
		res.Evals++
		if err != "" {
			addFail("api-fields-failed", fmt.Sprintf("receiver %s: %s", show(recv), err))
			continue
		}
		got, found := keys[p.Member]
		if !found {
			addFail("api-missing", fmt.Sprintf("the analyzer offers `%s` on %s but Fields() of the runtime value %s lacks it (has: %s)",
				p.Member, p.Inst, show(recv), strings.Join(sortedKeys(keys), ",")))
			continue
		}
		if _, isFn := mt.(ast.FunctionType); isFn {
			if got.K != "fn" {
				addFail("api-not-callable", fmt.Sprintf("member `%s` of %s is advertised as a function but the runtime value holds %s", p.Member, show(recv), show(got)))
			}
		} else if ok, why := hasType(got, mt); !ok {
			addFail("api-ill-typed-field", fmt.Sprintf("field `%s` of %s = %s does not conform to the advertised type %s: %s", p.Member, show(recv), show(got), typeText(mt), why))
		}
	}
	res.Nontrivial = res.Evals > 0
	res.Cover = []string{"part:api", "api:" + construct(p)}
	return finish(p, res, fails)
}

// observed is the backend-neutral observation of one program run.
type observed struct {
	outcome drive.Outcome
	probes  []rv
	output  string
	residue string // VM only: what a completed run left on its core ("" = nothing)
}

func runProgram(p *payload, in inst) (res fw.Result) {
	// expectation and advertised type
	var e expect
	var adv ast.Type
	switch p.Part {
	case "call", "field":
		mt, listed := memberTable(in.T)[p.Member]
		if !listed {
			return fw.Result{Verdict: fw.Inconclusive, Why: "the analyzer does not list " + p.Inst + "." + p.Member}
		}
		e = modelMember(p.Recv, p.Member, p.Args)
		adv = mt
		if ft, ok := mt.(ast.FunctionType); ok {
			adv = ft.ReturnType
		}
	case "idx-int", "idx-lit", "idx-dyn":
		e = modelIndex(p.Recv, p.Args[0])
		adv = indexResultType(in, p.Recv, p.Part, p.Args[0])
	case "arrow":
		e = modelArrow(p.Recv, p.Args[0].S)
		adv = indexResultType(in, p.Recv, p.Part, p.Args[0])
	case "assign":
		mt, listed := memberTable(in.T)[p.Member]
		if !listed {
			return fw.Result{Verdict: fw.Inconclusive, Why: "the analyzer does not list " + p.Inst + "." + p.Member}
		}
		e = modelAssign(p.Recv, p.Member, p.Args[0])
		adv = mt
	case "idx-set-int":
		e = modelIndexSet(p.Recv, p.Args[0], p.Args[1])
		adv = indexResultType(in, p.Recv, "idx-int", p.Args[0])
	case "idx-set-lit":
		e = modelIndexSet(p.Recv, p.Args[0], p.Args[1])
		adv = indexResultType(in, p.Recv, "idx-lit", p.Args[0])
	default:
		return fw.Result{Verdict: fw.Inconclusive, Why: "unknown part " + p.Part}
	}
	res.Cover = []string{"part:" + p.Part}
	src := drive.Sources{"main": p.Src}

	var fails []failure
	// the analyzer and the interpreter run on this goroutine: a Go panic is an observation
	defer func() {
		if r := recover(); r != nil {
			res = finish(p, fw.Result{Nontrivial: true, Cover: append(res.Cover, pairKey(p))},
				[]failure{{"go-panic:" + normCrash(fmt.Sprint(r)), "Go panic on the harness goroutine: " + util.Clip(fmt.Sprint(r), 300)}})
		}
	}()
	ao := drive.Analyze(src, "main", true)
	if ao.Errors > 0 {
		if onOp, all := opDiagnostics(p, ao.Syntax, ao.Diags, p.Src, opLines(p)); len(onOp) > 0 {
			// A diagnostic sits on the statement that performs the operation. It may be a consequence of
			// a diagnostic further up (a literal of the setup the analyzer did not like), so the
			// operation is put before the analyzer once more on its own: as the body of a function whose
			// parameters are declared with the receiver type and with exactly the types the analyzer's
			// table advertises for the member, and that nobody calls.
			if alone, ok := useProbe(p, in); ok {
				po := drive.Analyze(drive.Sources{"main": alone}, "main", true)
				lines := map[int]string{}
				for i, l := range strings.Split(alone, "\n") {
					lines[i+1] = l
				}
				if inProbe, _ := opDiagnostics(p, po.Syntax, po.Diags, alone, lines); len(inProbe) > 0 {
					res.Nontrivial = true
					res.Cover = append(res.Cover, "analyzer-refused-operation")
					return finish(p, res, []failure{{"analyzer-refuses-advertised-use", fmt.Sprintf(
						"the analyzer offers %s but rejects the statement that uses it as offered (%s): %s -- the same statement alone in a function whose parameters carry the advertised types, %q, is rejected as well: %s -- every diagnostic of the program: %s",
						advertised(p, in), offeredUse(p), strings.Join(onOp, "; "), alone, strings.Join(inProbe, "; "), util.Clip(strings.Join(all, "; "), 400))}})
				}
				res.Cover = append(res.Cover, "analyzer-rejected-consequence")
			}
		}
		res.Verdict = fw.Held
		res.Cover = append(res.Cover, "analyzer-rejected")
		res.Obs = map[string]int64{"analyzer_rejected": 1}
		if fw.HashOf(p.Src)[0] == '0' {
			res.Sample = map[string]any{"program": p.Src, "analyzer": util.Clip(ao.ErrorSummary(), 200)}
		}
		return res
	}
	offered := false
	if adv == nil && p.Part == "idx-lit" {
		// The type has no data field of that name (or takes no string index at all), and yet the
		// analyzer let `recv["name"]` pass without a diagnostic: it offers an entry of that name on
		// the type. The property binds the runtimes to it: the entry has to be there.
		offered = true
		adv = ast.NewAnyType(sp0)
		if mt, ok := memberTable(in.T)[p.Args[0].S]; ok {
			adv = mt
		}
	}
	if adv == nil {
		return fw.Result{Verdict: fw.Inconclusive, Why: "the analyzer accepted an index expression the generator has no type for: " + p.Src}
	}
	observe := func(backend string) (ob observed) {
		if backend == "vm" {
			run := drive.RunVM(ao.Modules, src, "main", drive.VMOpts{StepBudget: 200_000})
			ob.outcome = run.Outcome
			ob.output = run.Log.Output()
			for _, v := range run.Probes {
				ob.probes = append(ob.probes, fromVM(v, 0))
			}
			if run.Outcome.Class == "ok" {
				for _, r := range run.Residues {
					if r.Stack != 0 || r.CallStack != 0 || r.MP != 0 || r.Handlers != 0 {
						ob.residue = fmt.Sprintf("%+v", r)
					}
				}
			}
			return ob
		}
		run := drive.RunTree(ao.Modules, src, "main", drive.TreeOpts{StepBudget: 200_000})
		ob.outcome = run.Outcome
		ob.output = run.Log.Output()
		for _, v := range run.Probes {
			ob.probes = append(ob.probes, fromTree(v, 0))
		}
		return ob
	}
	var ob observed
	if p.Backend == "both" {
		obT, obV := observe("tree"), observe("vm")
		ob = obV
		res.Nontrivial = true
		res.Evals = 2
		res.Cover = append(res.Cover, pairKey(p), "agree:"+obV.outcome.Class+"/"+obT.outcome.Class, "expect:"+e.Mode)
		fails = judgeAgree(e, obV, obT)
	} else {
		ob = observe(p.Backend)
		res.Nontrivial = true
		res.Cover = append(res.Cover, pairKey(p), "outcome:"+ob.outcome.Class, "expect:"+e.Mode)
		if offered {
			res.Cover = append(res.Cover, "analyzer-offered-literal-index")
			fails = judgeOffered(p, in, adv, ob)
		} else {
			fails = judge(p, in, e, adv, ob)
		}
	}
	if ob.residue != "" && len(fails) == 0 {
		fails = append(fails, failure{"vm-residue", "the run completed but the core left something behind (a member operation that pushes or pops one value too many): " + ob.residue})
	}
	if len(fails) > 0 && fails[0].class == "setup-failed" && p.Origin != "" {
		// parse_json / cast did not deliver the receiver: not a statement about the member
		return fw.Result{Verdict: fw.Inconclusive, Why: describe(p) + ": " + fails[0].why, Cover: res.Cover}
	}
	if h := fw.HashOf(p.Src, p.Backend); h[0] == '0' && h[1] < '8' {
		res.Sample = map[string]any{"backend": p.Backend, "program": p.Src, "outcome": ob.outcome.String(), "probes": showAll(ob.probes), "expect": e.Mode}
	}
	return finish(p, res, fails)
}

// opLines finds the statements of a generated program that perform the observed operation: the lines
// after the construction marker `probe(true);` that apply the member / index / assignment to `recv`.
// (The lines before the marker construct the receiver, the `let aN: T = ...;` lines bind the arguments
// to variables declared with the advertised parameter types: a diagnostic there says that the
// generator and the analyzer disagree about a literal, not that a member is refused.)
func opLines(p *payload) map[int]string {
	var pat []string
	switch p.Part {
	case "call":
		pat = []string{"recv." + p.Member + "("}
	case "field", "assign":
		pat = []string{"recv." + p.Member + " ", "recv." + p.Member + ";"}
	case "idx-int", "idx-set-int":
		pat = []string{"recv[i]"}
	default:
		// idx-lit / idx-dyn / arrow / idx-set-lit ask for keys the type may not have: the analyzer is
		// entitled to refuse those
		return nil
	}
	out := map[int]string{}
	after := false
	for i, l := range strings.Split(p.Src, "\n") {
		t := strings.TrimSpace(l)
		if t == "probe(true);" {
			after = true
			continue
		}
		if !after || strings.HasPrefix(t, "probe(") {
			continue
		}
		for _, x := range pat {
			if strings.Contains(t, x) {
				out[i+1] = t
			}
		}
	}
	return out
}

// opDiagnostics splits the error diagnostics of a rejected program: those located on one of the
// given lines (the statements that perform the operation), and all of them (rendered with their
// statement).
func opDiagnostics(p *payload, syntax []herrors.Error, diags []diagnostic.Diagnostic, src string, ops map[int]string) (onOp, all []string) {
	lines := strings.Split(src, "\n")
	at := func(n int) string {
		if n >= 1 && n <= len(lines) {
			return strings.TrimSpace(lines[n-1])
		}
		return "?"
	}
	for _, s := range syntax {
		// a syntax error is never the member's fault
		all = append(all, fmt.Sprintf("syntax error line %d `%s`: %s", s.Span.Start.Line, at(int(s.Span.Start.Line)), s.Message))
	}
	if len(syntax) > 0 {
		return nil, all
	}
	for _, d := range diags {
		if d.Level != diagnostic.DiagnosticLevelError {
			continue
		}
		n := int(d.Span.Start.Line)
		txt := fmt.Sprintf("line %d `%s`: %s", n, at(n), d.Message)
		all = append(all, txt)
		if _, ok := ops[n]; ok {
			onOp = append(onOp, txt)
		}
	}
	return onOp, all
}

// useProbe renders the operation of a case alone: `fn op(recv: T, a0: P0, ...) { <the statements
// that perform the operation> }` next to an empty main. No literal, no construction: whatever the
// analyzer says about this program, it says about the use of the member with the advertised types.
func useProbe(p *payload, in inst) (string, bool) {
	tt := typeText(in.T)
	if tt == "" {
		return "", false
	}
	params := []string{"recv: " + tt}
	switch p.Part {
	case "call":
		ft, ok := memberTable(in.T)[p.Member].(ast.FunctionType)
		if !ok {
			return "", false
		}
		ps, ok := paramsOf(ft)
		if !ok || len(ps) != len(p.Args) {
			return "", false
		}
		for i, fp := range ps {
			at := typeText(fp.Type)
			if at == "" {
				at = typeText(typeOfRv(p.Args[i]))
			}
			if at == "" {
				return "", false
			}
			params = append(params, fmt.Sprintf("a%d: %s", i, at))
		}
	case "field":
	case "assign":
		vt := typeText(memberTable(in.T)[p.Member])
		if vt == "" {
			return "", false
		}
		params = append(params, "v: "+vt)
	case "idx-int":
		params = append(params, "i: int")
	case "idx-set-int":
		lt, ok := in.T.(ast.ListType)
		if !ok || typeText(lt.Inner) == "" {
			return "", false
		}
		params = append(params, "i: int", "v: "+typeText(lt.Inner))
	default:
		return "", false
	}
	ops := opLines(p)
	if len(ops) == 0 {
		return "", false
	}
	var ns []int
	for n := range ops {
		ns = append(ns, n)
	}
	sort.Ints(ns)
	var sb strings.Builder
	sb.WriteString("fn op(" + strings.Join(params, ", ") + ") {\n")
	for _, n := range ns {
		sb.WriteString("    " + ops[n] + "\n")
	}
	sb.WriteString("}\nfn main() {\n}\n")
	return sb.String(), true
}

// advertised renders what the analyzer's table says about the member / place of the case.
func advertised(p *payload, in inst) string {
	switch p.Part {
	case "call", "field", "assign":
		if mt, ok := memberTable(in.T)[p.Member]; ok {
			return fmt.Sprintf("`%s` on %s as %s", p.Member, p.Inst, typeName(mt))
		}
		return fmt.Sprintf("`%s` on %s", p.Member, p.Inst)
	}
	return "indexing " + p.Inst + " with an int"
}

// offeredUse says why the use is the advertised one.
func offeredUse(p *payload) string {
	switch p.Part {
	case "call":
		return "every argument is a variable declared with exactly the advertised parameter type"
	case "assign", "idx-set-int":
		return "the assigned value is a variable declared with exactly the advertised type of the place"
	}
	return "the receiver is a variable declared with the type the member is offered on"
}

func showAll(vs []rv) []string {
	out := make([]string, len(vs))
	for i, v := range vs {
		out[i] = show(v)
	}
	return out
}

// notAnAnswer recognises the outcomes that are neither a value nor an interrupt of the language.
func notAnAnswer(oc drive.Outcome) []failure {
	switch oc.Class {
	case "go-panic":
		return []failure{{"go-panic:" + normCrash(oc.Message), "the interpreter panicked in Go: " + util.Clip(oc.Message, 300)}}
	case "step-budget":
		return []failure{{"step-budget", "the program did not finish within 200000 steps"}}
	case "compile-error":
		return []failure{{"compile-error", "the analyzer accepted the program but the compiler failed: " + util.Clip(oc.Message, 200)}}
	case "unknown":
		return []failure{{"unknown-interrupt", "unclassifiable interrupt: " + util.Clip(oc.Message, 200)}}
	}
	return nil
}

// judgeAgree is the differential oracle for operations whose answer the reference model leaves
// open between a value and an interrupt (substring(len), members without a model entry): the
// property speaks of one member table for both runtimes, so whichever answer is the right one, an
// argument tuple is either accepted by both runtimes or answered with an interrupt by both.
func judgeAgree(e expect, vm, tree observed) []failure {
	for _, ob := range []observed{vm, tree} {
		if f := notAnAnswer(ob.outcome); f != nil {
			return f
		}
		if len(ob.probes) == 0 || ob.probes[0].K != "bool" {
			return []failure{{"setup-failed", "the receiver could not be constructed: " + util.Clip(ob.outcome.String(), 200)}}
		}
	}
	render := func(ob observed) string {
		if ob.outcome.Class != "ok" {
			return "answers with the interrupt " + util.Clip(ob.outcome.String(), 120)
		}
		if len(ob.probes) > 1 {
			return "accepts the operation (result " + show(ob.probes[1]) + ")"
		}
		return "accepts the operation"
	}
	if (vm.outcome.Class == "ok") != (tree.outcome.Class == "ok") {
		return []failure{{"backends-disagree", fmt.Sprintf("the same operation on the same value is accepted by one runtime and refused by the other: the VM %s, the interpreter %s", render(vm), render(tree))}}
	}
	return nil
}

// judgeOffered judges `recv["name"]` where the receiver type declares no data field `name` and the
// analyzer accepted the expression nevertheless. Accepting it is offering it (a literal index the
// type does not have is otherwise a diagnostic), so the runtime value must have the entry: an
// interrupt saying that there is no such field / that the value cannot be indexed refutes the
// property, and so does a result that is not of the type the member table gives to that name.
func judgeOffered(p *payload, in inst, adv ast.Type, ob observed) []failure {
	name := p.Args[0].S
	if f := notAnAnswer(ob.outcome); f != nil {
		return f
	}
	if len(ob.probes) == 0 || ob.probes[0].K != "bool" {
		return []failure{{"setup-failed", "the receiver could not be constructed: " + util.Clip(ob.outcome.String(), 200)}}
	}
	what := fmt.Sprintf("the analyzer accepts `recv[%s]` on %s without a diagnostic although the type declares no data field `%s`", strLit(name), p.Inst, name)
	if mt, ok := memberTable(in.T)[name]; ok {
		what += fmt.Sprintf(" (its member table lists `%s` as %s: the builtin member is offered through a literal index)", name, typeName(mt))
	}
	if ob.outcome.Class != "ok" {
		return []failure{{"offered-index-missing:" + ob.outcome.Class + "/" + ob.outcome.Kind, fmt.Sprintf(
			"%s, but the runtime value %s has no such entry: the run ended with %s", what, show(p.Recv), util.Clip(ob.outcome.String(), 200))}}
	}
	if len(ob.probes) < 2 {
		return []failure{{"no-probe", fmt.Sprintf("the run ended ok but %d values were probed", len(ob.probes)-1)}}
	}
	r := ob.probes[1]
	if _, isFn := adv.(ast.FunctionType); isFn {
		if r.K != "fn" {
			return []failure{{"offered-index-ill-typed", fmt.Sprintf("%s, and the runtime delivers %s, which is not a function", what, show(r))}}
		}
	} else if ok, why := hasType(r, adv); !ok {
		return []failure{{"offered-index-ill-typed", fmt.Sprintf("%s, and the runtime delivers %s, which does not conform to %s: %s", what, show(r), typeName(adv), why)}}
	}
	return nil
}

// judge compares an observation with the expectation.
func judge(p *payload, in inst, e expect, adv ast.Type, ob observed) []failure {
	var fails []failure
	oc := ob.outcome
	// the first probe is the marker written after the receiver was constructed
	constructed := len(ob.probes) > 0 && ob.probes[0].K == "bool"
	if constructed {
		ob.probes = ob.probes[1:]
	}
	if f := notAnAnswer(oc); f != nil {
		return f
	}
	if !constructed {
		// the run ended before the member / index operation was reached
		return []failure{{"setup-failed", "the receiver could not be constructed: " + util.Clip(oc.String(), 200)}}
	}
	if oc.Class != "ok" {
		// an interrupt (fatal error, uncaught throw, ...)
		if e.Mode == mValue {
			want := show(e.Val)
			if e.JSON {
				want = "JSON text for " + want
			}
			return []failure{{"unexpected-interrupt:" + oc.Class + "/" + oc.Kind, fmt.Sprintf("expected result %s but the run ended with %s", want, util.Clip(oc.String(), 200))}}
		}
		return nil
	}
	// outcome ok
	if e.Mode == mInterrupt {
		got := "<no probe>"
		if len(ob.probes) > 0 {
			got = show(ob.probes[0])
		}
		return []failure{{"no-interrupt", fmt.Sprintf("an out-of-range / failing operation must end in an interrupt, but the run completed with result %s", got)}}
	}
	// which probes are expected
	var r, recvAfter, twin, late *rv
	rest := ob.probes
	if p.Origin == "fresh" && len(rest) > 0 {
		// the last probe is one more product of the construction, made after the operation
		late, rest = &rest[len(rest)-1], rest[:len(rest)-1]
	}
	if p.Twin && len(rest) > 0 {
		twin, rest = &rest[len(rest)-1], rest[:len(rest)-1]
	}
	switch p.Form {
	case "stmt":
		if len(rest) == 1 {
			recvAfter = &rest[0]
		}
	default:
		if len(rest) == 2 {
			r, recvAfter = &rest[0], &rest[1]
		}
	}
	if recvAfter == nil {
		return []failure{{"no-probe", fmt.Sprintf("the run ended ok but %d values were probed", len(ob.probes))}}
	}
	// frame condition: the second value, built like the receiver and touched by no statement, is
	// still the value that was written down
	if twin != nil && !eq(*twin, p.Recv) {
		fails = append(fails, failure{"other-value-changed", fmt.Sprintf("a second value constructed as %s, which the program never touches, is %s after the operation on the receiver (the two values share storage, or the construction did not deliver the value)", show(p.Recv), show(*twin))})
	}
	// ... and so is a further product of the construction site that made the receiver
	if late != nil && !eq(*late, p.Recv) {
		fails = append(fails, failure{"later-value-differs", fmt.Sprintf("the construction that produced the receiver, evaluated once more after the operation, delivers %s instead of %s (an evaluation of a literal hands out the storage of an earlier product, so what was done to the receiver shows up in a value made later)", show(*late), show(p.Recv))})
	}
	// typed result
	ct := checkType(adv, e)
	want, haveWant := e.Val, true
	switch p.Form {
	case "bound":
		ct, want = tList(tNull()), vList(e.Val)
	case "chain":
		ct = tStr()
		d, ok := disp(e.Val)
		want, haveWant = vStr(d), ok
	}
	if r != nil {
		if ok, why := hasType(*r, ct); !ok {
			fails = append(fails, failure{"ill-typed-result", fmt.Sprintf("result %s does not conform to the advertised type %s: %s", show(*r), typeName(ct), why)})
		}
	}
	if ok, why := hasType(*recvAfter, in.T); !ok {
		fails = append(fails, failure{"ill-typed-receiver", fmt.Sprintf("the receiver is %s afterwards, which does not conform to %s: %s", show(*recvAfter), p.Inst, why)})
	}
	if e.Mode == mNoCrash {
		return fails
	}
	// reference model
	if e.JSON {
		haveWant = false
		if r != nil && r.K == "str" {
			if ok, why := judgeJSON(r.S, e.Val); !ok {
				fails = append(fails, failure{"wrong-result", why})
			}
		}
	}
	if r != nil && haveWant {
		same := eq(*r, want)
		if !same && e.AsSet {
			same = eqAsSet(*r, want)
		}
		if !same && e.Alt != nil && p.Form == "let" {
			same = eq(*r, *e.Alt)
			if same {
				want = *e.Alt
			}
		}
		if !same {
			why := fmt.Sprintf("result %s, the reference model says %s", show(*r), show(want))
			if e.Note != "" {
				why += " (" + e.Note + ")"
			}
			fails = append(fails, failure{"wrong-result", why})
		}
	}
	if e.HasAfter && !eq(*recvAfter, e.After) {
		fails = append(fails, failure{"wrong-receiver-state", fmt.Sprintf("receiver afterwards %s, the reference model says %s", show(*recvAfter), show(e.After))})
	}
	if p.Print && r != nil && haveWant {
		if d, ok := disp(want); ok {
			if ob.output != d+"\n" {
				fails = append(fails, failure{"println-mismatch", fmt.Sprintf("println(r) wrote %q, expected %q", util.Clip(ob.output, 200), d+"\n")})
			}
		}
	}
	return fails
}

func typeName(t ast.Type) string {
	if s := typeText(t); s != "" {
		return s
	}
	return t.Kind().String()
}

func (c18) OnCrash(c fw.Case, cr fw.Crash) fw.Result {
	var p payload
	fw.Decode(c, &p)
	switch cr.Kind {
	case "watchdog", "killed":
		return fw.Result{Verdict: fw.Inconclusive, Why: cr.Kind + ": " + cr.Message}
	}
	res := fw.Result{Nontrivial: true, Cover: []string{"part:" + p.Part, pairKey(&p), "outcome:crash"}}
	return finish(&p, res, []failure{{cr.Kind + ":" + normCrash(cr.Message),
		fmt.Sprintf("the worker died (%s: %s) at %s", cr.Kind, util.Clip(cr.Message, 200), cr.TopFrame)}})
}

// Finalize fails the run as broken when a (backend, type, member) pair of the analyzer's table
// was never exercised, and adds the size of the table to the evidence.
func (c18) Finalize(tier string, results []fw.Result, coverage map[string]any) string {
	seen := map[string]bool{}
	rejected := 0
	for _, r := range results {
		for _, k := range r.Cover {
			if strings.HasPrefix(k, "pair:") || strings.HasPrefix(k, "api:") {
				seen[k] = true
			}
			if k == "analyzer-rejected" {
				rejected++
			}
		}
	}
	pairs := 0
	var missing []string
	var empty []string
	for _, in := range instances("quick", 0) {
		table := memberTable(in.T)
		if len(table) == 0 {
			empty = append(empty, in.Name)
		}
		for _, m := range sortedTypeKeys(table) {
			for _, b := range []string{"vm", "tree"} {
				pairs++
				if !seen["pair:"+b+":"+in.Name+"."+m] {
					missing = append(missing, b+":"+in.Name+"."+m)
				}
				if !seen["api:"+b+":"+in.Name+"."+m] {
					missing = append(missing, "api:"+b+":"+in.Name+"."+m)
				}
			}
		}
	}
	sort.Strings(missing)
	coverage["member_table_pairs"] = pairs
	coverage["types_without_members"] = empty
	coverage["analyzer_rejected_programs"] = rejected
	if pairs == 0 {
		return "the analyzer's member table is empty: nothing to check"
	}
	// the members the property text names must be in the table, otherwise the matrix is vacuous
	// exactly where the property speaks
	for _, a := range [][2]string{{"str", "split"}, {"[int]", "push"}, {"range", "rev"}, {"?int", "unwrap_or"}, {"{?}", "get"}} {
		in, _ := instByName(a[0])
		if _, ok := memberTable(in.T)[a[1]]; !ok {
			return fmt.Sprintf("the analyzer's member table no longer lists %s.%s, which the property names: the matrix would be vacuous there", a[0], a[1])
		}
	}
	if len(missing) > 0 {
		return fmt.Sprintf("%d (backend,type,member) pairs of the analyzer's table were never exercised, e.g. %s", len(missing), strings.Join(missing[:min(len(missing), 8)], " "))
	}
	return ""
}
