package c18

// Conversions between the reference value universe and the two runtime value libraries.

import (
	"fmt"

	"github.com/smarthome-go/homescript/v3/homescript/analyzer/ast"
	ivalue "github.com/smarthome-go/homescript/v3/homescript/interpreter/value"
	vvalue "github.com/smarthome-go/homescript/v3/homescript/runtime/value"
)

const maxConvDepth = 40

// fromVM converts a VM value into a reference value (structure only).
func fromVM(v vvalue.Value, depth int) rv {
	if v == nil {
		return rv{K: "nil"}
	}
	if depth > maxConvDepth {
		return rv{K: "other", S: "too-deep"}
	}
	switch t := v.(type) {
	case vvalue.ValueInt:
		return vInt(t.Inner)
	case vvalue.ValueFloat:
		return vFloat(t.Inner)
	case vvalue.ValueBool:
		return vBool(t.Inner)
	case vvalue.ValueString:
		return vStr(t.Inner)
	case vvalue.ValueNull:
		return vNull()
	case vvalue.ValueRange:
		if t.Start == nil || t.End == nil {
			return rv{K: "nil"}
		}
		s, ok1 := (*t.Start).(vvalue.ValueInt)
		e, ok2 := (*t.End).(vvalue.ValueInt)
		if !ok1 || !ok2 {
			return rv{K: "other", S: "range with non-int bounds"}
		}
		return vRange(s.Inner, e.Inner, t.EndIsInclusive)
	case vvalue.ValueList:
		out := rv{K: "list", L: []rv{}}
		if t.Values == nil {
			return rv{K: "nil"}
		}
		for _, p := range *t.Values {
			if p == nil {
				out.L = append(out.L, rv{K: "nil"})
				continue
			}
			out.L = append(out.L, fromVM(*p, depth+1))
		}
		return out
	case vvalue.ValueObject:
		out := rv{K: "obj", M: map[string]rv{}}
		for k, p := range t.FieldsInternal {
			if p == nil {
				out.M[k] = rv{K: "nil"}
				continue
			}
			out.M[k] = fromVM(*p, depth+1)
		}
		return out
	case vvalue.ValueAnyObject:
		out := rv{K: "anyobj", M: map[string]rv{}}
		for k, p := range t.FieldsInternal {
			if p == nil {
				out.M[k] = rv{K: "nil"}
				continue
			}
			out.M[k] = fromVM(*p, depth+1)
		}
		return out
	case vvalue.ValueOption:
		if t.Inner == nil {
			return vNone()
		}
		in := fromVM(*t.Inner, depth+1)
		return rv{K: "opt", O: &in}
	case vvalue.ValueVMFunction, vvalue.ValueBuiltinFunction:
		return vFn()
	}
	return rv{K: "other", S: fmt.Sprintf("%T", v)}
}

// fromTree converts an interpreter value into a reference value.
func fromTree(v ivalue.Value, depth int) rv {
	if v == nil {
		return rv{K: "nil"}
	}
	if depth > maxConvDepth {
		return rv{K: "other", S: "too-deep"}
	}
	switch t := v.(type) {
	case ivalue.ValueInt:
		return vInt(t.Inner)
	case ivalue.ValueFloat:
		return vFloat(t.Inner)
	case ivalue.ValueBool:
		return vBool(t.Inner)
	case ivalue.ValueString:
		return vStr(t.Inner)
	case ivalue.ValueNull:
		return vNull()
	case ivalue.ValueRange:
		if t.Start == nil || t.End == nil {
			return rv{K: "nil"}
		}
		s, ok1 := (*t.Start).(ivalue.ValueInt)
		e, ok2 := (*t.End).(ivalue.ValueInt)
		if !ok1 || !ok2 {
			return rv{K: "other", S: "range with non-int bounds"}
		}
		return vRange(s.Inner, e.Inner, t.EndIsInclusive)
	case ivalue.ValueList:
		out := rv{K: "list", L: []rv{}}
		if t.Values == nil {
			return rv{K: "nil"}
		}
		for _, p := range *t.Values {
			if p == nil {
				out.L = append(out.L, rv{K: "nil"})
				continue
			}
			out.L = append(out.L, fromTree(*p, depth+1))
		}
		return out
	case ivalue.ValueObject:
		out := rv{K: "obj", M: map[string]rv{}}
		for k, p := range t.FieldsInternal {
			if p == nil {
				out.M[k] = rv{K: "nil"}
				continue
			}
			out.M[k] = fromTree(*p, depth+1)
		}
		return out
	case ivalue.ValueAnyObject:
		out := rv{K: "anyobj", M: map[string]rv{}}
		for k, p := range t.FieldsInternal {
			if p == nil {
				out.M[k] = rv{K: "nil"}
				continue
			}
			out.M[k] = fromTree(*p, depth+1)
		}
		return out
	case ivalue.ValueOption:
		if t.Inner == nil {
			return vNone()
		}
		in := fromTree(*t.Inner, depth+1)
		return rv{K: "opt", O: &in}
	case ivalue.ValueFunction, ivalue.ValueClosure, ivalue.ValueBuiltinFunction, ivalue.ValueVMFunction:
		return vFn()
	}
	return rv{K: "other", S: fmt.Sprintf("%T", v)}
}

// toVM builds a VM value from a reference value (part (a): representative runtime values).
func toVM(v rv) *vvalue.Value {
	switch v.K {
	case "int":
		return vvalue.NewValueInt(v.I)
	case "float":
		return vvalue.NewValueFloat(v.F)
	case "bool":
		return vvalue.NewValueBool(v.B)
	case "str":
		return vvalue.NewValueString(v.S)
	case "null":
		return vvalue.NewValueNull()
	case "range":
		return vvalue.NewValueRange(*vvalue.NewValueInt(v.I), *vvalue.NewValueInt(v.E), v.B)
	case "list":
		xs := make([]*vvalue.Value, 0, len(v.L))
		for _, x := range v.L {
			xs = append(xs, toVM(x))
		}
		return vvalue.NewValueList(xs)
	case "obj", "anyobj":
		m := map[string]*vvalue.Value{}
		for k, x := range v.M {
			m[k] = toVM(x)
		}
		if v.K == "obj" {
			return vvalue.NewValueObject(m)
		}
		return vvalue.NewValueAnyObject(m)
	case "opt":
		if v.O == nil {
			return vvalue.NewNoneOption()
		}
		return vvalue.NewValueOption(toVM(*v.O))
	case "fn":
		return vvalue.NewValueVMFunction("f")
	}
	panic("c18: toVM of " + v.K)
}

// toTree builds an interpreter value from a reference value.
func toTree(v rv) *ivalue.Value {
	switch v.K {
	case "int":
		return ivalue.NewValueInt(v.I)
	case "float":
		return ivalue.NewValueFloat(v.F)
	case "bool":
		return ivalue.NewValueBool(v.B)
	case "str":
		return ivalue.NewValueString(v.S)
	case "null":
		return ivalue.NewValueNull()
	case "range":
		return ivalue.NewValueRange(*ivalue.NewValueInt(v.I), *ivalue.NewValueInt(v.E), v.B)
	case "list":
		xs := make([]*ivalue.Value, 0, len(v.L))
		for _, x := range v.L {
			xs = append(xs, toTree(x))
		}
		return ivalue.NewValueList(xs)
	case "obj", "anyobj":
		m := map[string]*ivalue.Value{}
		for k, x := range v.M {
			m[k] = toTree(x)
		}
		if v.K == "obj" {
			return ivalue.NewValueObject(m)
		}
		return ivalue.NewValueAnyObject(m)
	case "opt":
		if v.O == nil {
			return ivalue.NewNoneOption()
		}
		return ivalue.NewValueOption(toTree(*v.O))
	case "fn":
		return ivalue.NewValueClosure(ast.AnalyzedBlock{}, nil)
	}
	panic("c18: toTree of " + v.K)
}

// vmFieldKeys returns the runtime member table of a VM value.
func vmFields(v rv) (keys map[string]rv, err string) {
	defer func() {
		if r := recover(); r != nil {
			err = fmt.Sprint("Go panic in Fields(): ", r)
		}
	}()
	val := toVM(v)
	fields, i := (*val).Fields()
	if i != nil {
		return nil, "Fields() returned an interrupt: " + (*i).Message()
	}
	keys = map[string]rv{}
	for k, p := range fields {
		if p == nil {
			keys[k] = rv{K: "nil"}
			continue
		}
		keys[k] = fromVM(*p, 0)
	}
	return keys, ""
}

func treeFields(v rv) (keys map[string]rv, err string) {
	defer func() {
		if r := recover(); r != nil {
			err = fmt.Sprint("Go panic in Fields(): ", r)
		}
	}()
	val := toTree(v)
	fields, i := (*val).Fields()
	if i != nil {
		return nil, "Fields() returned an interrupt: " + (*i).Message()
	}
	keys = map[string]rv{}
	for k, p := range fields {
		if p == nil {
			keys[k] = rv{K: "nil"}
			continue
		}
		keys[k] = fromTree(*p, 0)
	}
	return keys, ""
}
