package c18

// Known-finding constructs (AGENT_GUIDE "Findings"): each entry couples a finding name with the
// tag of the construct that triggers it, the predicate that recognises the construct in a
// generated case, and the signature regex proposed for /verif/known_findings.txt. While a finding
// is listed as open there, the matching cases leave the main workload and at most poisonCap of them
// form its poisoned workload; while it is not listed they stay in the main workload.

import "strings"

type poison struct {
	KF    string
	Tag   string
	Sig   string // regex over failure signatures (proposal for known_findings.txt)
	What  string
	Match func(p *payload) bool
	// Wit optionally narrows Match to the case used as the pinned witness (must fail with Sig).
	Wit func(p *payload) bool
}

func keyPresent(p *payload) bool {
	if len(p.Args) == 0 {
		return false
	}
	_, ok := p.Recv.M[p.Args[0].S]
	return ok
}

var poisons = []poison{
	{
		KF: "KF-c18-range-to_string-missing", Tag: "range.to_string",
		Sig:  `^(vm|tree):range\.to_string:(api-missing|go-panic:field-not-found)$`,
		What: "the analyzer offers range.to_string but neither value library has it: `(1..3).to_string()` panics the host",
		Match: func(p *payload) bool {
			return p.Inst == "range" && p.Member == "to_string"
		},
	},
	{
		KF: "KF-c18-tree-str-starts_with-missing", Tag: "tree:str.starts_with",
		Sig:  `^tree:str\.starts_with:(api-missing|go-panic:field-not-found)$`,
		What: "interpreter strings lack starts_with (offered by the analyzer): the call panics in Go",
		Match: func(p *payload) bool {
			return p.Backend == "tree" && p.Inst == "str" && p.Member == "starts_with"
		},
	},
	{
		KF: "KF-c18-tree-str-substring-missing", Tag: "tree:str.substring",
		Sig:  `^tree:str\.substring:(api-missing|go-panic:field-not-found)$`,
		What: "interpreter strings lack substring (offered by the analyzer): the call panics in Go",
		Match: func(p *payload) bool {
			return p.Backend == "tree" && p.Inst == "str" && p.Member == "substring"
		},
	},
	{
		KF: "KF-c18-tree-anyobj-get_type-missing", Tag: "tree:{?}.get_type",
		Sig:  `^tree:\{\?\}\.get_type:(api-missing|go-panic:field-not-found)$`,
		What: "interpreter any-objects lack get_type (offered by the analyzer): the call panics in Go",
		Match: func(p *payload) bool {
			return p.Backend == "tree" && p.Inst == "{?}" && p.Member == "get_type"
		},
	},
	{
		KF: "KF-c18-vm-anyobj-get_type-missing-key", Tag: "vm:{?}.get_type:missing-key",
		Sig:  `^vm:\{\?\}\.get_type:go-panic:runtime error: invalid memory address or nil pointer dereference$`,
		What: "VM {?}.get_type(key) dereferences nil when the key is absent (process crash)",
		Match: func(p *payload) bool {
			return p.Backend == "vm" && p.Inst == "{?}" && p.Member == "get_type" && p.Part == "call" && !keyPresent(p)
		},
	},
	{
		KF: "KF-c18-vm-str-substring-negative", Tag: "vm:str.substring:negative",
		Sig:  `^vm:str\.substring:go-panic:runtime error: slice bounds out of range \[:-N\]$`,
		What: "VM str.substring with a negative bound slices with it: Go panic `slice bounds out of range`",
		Match: func(p *payload) bool {
			return p.Backend == "vm" && p.Inst == "str" && p.Member == "substring" && p.Part == "call" && hasNegArg(p)
		},
	},
	{
		KF: "KF-c18-vm-str-substring-bytes", Tag: "vm:str.substring:multibyte",
		Sig:  `^vm:str\.substring:(no-interrupt|wrong-result|println-mismatch)$`,
		What: "VM str.substring counts bytes while len() counts characters: cuts multi-byte characters in half and accepts bounds beyond len()",
		Match: func(p *payload) bool {
			return p.Backend == "vm" && p.Inst == "str" && p.Member == "substring" && p.Part == "call" && recvMultibyte(p)
		},
		Wit: func(p *payload) bool { return p.Recv.S == "äb" && p.Args[0].I == 1 },
	},
	{
		KF: "KF-c18-str-repeat-negative", Tag: "str.repeat:negative",
		Sig:  `^(vm|tree):str\.repeat:go-panic:strings: negative Repeat count$`,
		What: "str.repeat with a negative count panics in Go (strings.Repeat) in both runtimes",
		Match: func(p *payload) bool {
			return p.Inst == "str" && p.Member == "repeat" && p.Part == "call" && hasNegArg(p)
		},
	},
	{
		KF: "KF-c18-str-index-bytes", Tag: "str[]:multibyte",
		Sig:  `^(vm|tree):str\[\]:(no-interrupt|wrong-result|println-mismatch)$`,
		What: "string indexing is per byte while len() counts characters: wrong (half) characters and no interrupt beyond len()",
		Match: func(p *payload) bool {
			return p.Part == "idx-int" && recvMultibyte(p)
		},
		Wit: func(p *payload) bool { return p.Recv.S == "äb" && p.Args[0].I == 0 },
	},
	{
		KF: "KF-c18-vm-null-result-not-pushed", Tag: "vm:null-result-bound",
		Sig:  `^vm:.+\.[a-z_]+:go-panic:runtime error: index out of range \[-N\]$`,
		What: "VM pushes nothing for a builtin that returns null: binding the result of push/insert/remove/concat/sort/set (`let r = l.push(1);`) pops an empty stack (Go panic)",
		Match: func(p *payload) bool {
			return p.Backend == "vm" && p.Form == "bound"
		},
	},
	{
		KF: "KF-c18-vm-to_json-range", Tag: "vm:to_json:range",
		Sig:  `^vm:.+\.to_json(_indent)?:go-panic:Cannot encode value of type 'range' to JSON$`,
		What: "VM to_json / to_json_indent of a list or object containing a range panics in Go (the interpreter raises a JsonError)",
		Match: func(p *payload) bool {
			return p.Backend == "vm" && p.Part == "call" && strings.HasPrefix(p.Member, "to_json") && containsKind(p.Recv, "range")
		},
	},
	{
		KF: "KF-c18-anyobj-index-never-finds-keys", Tag: "{?}[]:present-key",
		Sig:  `^(vm|tree):\{\?\}\[\]:unexpected-interrupt:fatal/IndexOutOfBounds$`,
		What: "indexing an any-object looks the key up in the builtin-method table, not in its data: `ao[\"a\"]` fails with IndexOutOfBounds although the key exists",
		Match: func(p *payload) bool {
			return p.Part == "idx-dyn" && p.Recv.K == "anyobj" && keyPresent(p)
		},
	},
	{
		KF: "KF-c18-tree-index-yields-method", Tag: "tree:[]:method-name-key",
		Sig:  `^tree:.+\[\]:go-panic:Unreachable, the analyzer prevents this$`,
		What: "indexing an object / any-object with a builtin member name (`o[k]`, k = \"keys\") yields the builtin function; casting it panics the interpreter in Go",
		Match: func(p *payload) bool {
			return p.Backend == "tree" && p.Part == "idx-dyn" && !keyPresent(p) && len(p.Args) == 1 && p.Args[0].S == "keys"
		},
	},
	{
		KF: "KF-c18-tree-arrow-member", Tag: "tree:{?}->",
		Sig:  `^tree:\{\?\}->:(go-panic:field-not-found|wrong-result)$`,
		What: "the interpreter treats `ao->key` like `ao.key`: Go panic for data keys, the builtin function for member names",
		Match: func(p *payload) bool {
			return p.Backend == "tree" && p.Part == "arrow"
		},
	},
}
