package c18

import (
	"encoding/json"
	"fmt"
	"testing"

	"hv/drive"
	"hv/fw"
)

// TestRejected lists the generated programs the analyzer rejects (development aid: a rejected
// program is skipped by the check, so a generator bug would silently shrink the matrix).
func TestRejected(t *testing.T) {
	seen := map[string]bool{}
	for _, c := range (c18{}).Cases("quick", 1) {
		var p payload
		fw.Decode(c, &p)
		if p.Part == "api" || seen[p.Src] {
			continue
		}
		seen[p.Src] = true
		ao := drive.Analyze(drive.Sources{"main": p.Src}, "main", true)
		if ao.Errors > 0 {
			t.Logf("%s %s.%s %v: %s\n%s", p.Part, p.Inst, p.Member, showAll(p.Args), ao.ErrorSummary(), p.Src)
		}
	}
}

// TestKFLines prints the `open:` lines proposed for /verif/known_findings.txt: for every entry of
// the poison table the first generated case that carries its construct serves as the witness.
func TestKFLines(t *testing.T) {
	cases := (c18{}).Cases("quick", 1)
	for _, po := range poisons {
		var w *fw.Case
		for i := range cases {
			var p payload
			fw.Decode(cases[i], &p)
			if p.Part != "api" && po.Match(&p) && (po.Wit == nil || po.Wit(&p)) {
				w = &cases[i]
				break
			}
		}
		if w == nil {
			t.Errorf("no generated case carries the construct of %s", po.KF)
			continue
		}
		wit := map[string]any{"kind": w.Kind, "payload": json.RawMessage(w.Payload), "tags": w.Tags}
		tail, _ := json.Marshal(map[string]any{"witness": wit, "sig": po.Sig, "tag": po.Tag})
		fmt.Printf("open: property=C18 %s %s :: %s\n", po.KF, po.What, tail)
	}
}

func TestModel(t *testing.T) {
	l := vList(vInt(3), vInt(1), vInt(2))
	chk := func(e expect, mode string, want rv) {
		t.Helper()
		if e.Mode != mode || (mode == mValue && !eq(e.Val, want)) {
			t.Errorf("got %s %s, want %s %s", e.Mode, show(e.Val), mode, show(want))
		}
	}
	chk(modelIndex(l, vInt(-1)), mValue, vInt(2))
	chk(modelIndex(l, vInt(-3)), mValue, vInt(3))
	chk(modelIndex(l, vInt(-4)), mInterrupt, rv{})
	chk(modelIndex(l, vInt(3)), mInterrupt, rv{})
	chk(modelIndex(vStr("äb"), vInt(0)), mValue, vStr("ä"))
	chk(modelIndex(vStr("äb"), vInt(2)), mInterrupt, rv{})
	e := modelMember(l, "insert", []rv{vInt(-1), vInt(9)})
	if !eq(e.After, vList(vInt(3), vInt(1), vInt(9), vInt(2))) {
		t.Errorf("insert(-1): %s", show(e.After))
	}
	e = modelMember(l, "insert", []rv{vInt(3), vInt(9)})
	if !eq(e.After, vList(vInt(3), vInt(1), vInt(2), vInt(9))) {
		t.Errorf("insert(len): %s", show(e.After))
	}
	chk(modelMember(l, "insert", []rv{vInt(4), vInt(9)}), mInterrupt, rv{})
	chk(modelMember(l, "remove", []rv{vInt(3)}), mInterrupt, rv{})
	e = modelMember(l, "remove", []rv{vInt(-3)})
	if !eq(e.After, vList(vInt(1), vInt(2))) {
		t.Errorf("remove(-3): %s", show(e.After))
	}
	chk(modelMember(vStr("abc"), "substring", []rv{vInt(-1)}), mValue, vStr("ab"))
	chk(modelMember(vStr("abc"), "substring", []rv{vInt(3)}), mEither, vStr("abc"))
	chk(modelMember(vStr("abc"), "substring", []rv{vInt(4)}), mInterrupt, rv{})
	chk(modelMember(vObj("keys", vInt(5)), "keys", nil), mValue, vInt(5))
	chk(modelIndexSet(l, vInt(3), vInt(9)), mInterrupt, rv{})
	if e := modelIndexSet(l, vInt(-1), vInt(9)); !eq(e.After, vList(vInt(3), vInt(1), vInt(9))) {
		t.Errorf("l[-1] = 9: %s", show(e.After))
	}
	if e := modelAssign(vObj("keys", vInt(5), "a", vInt(1)), "keys", vInt(0)); !eq(e.After, vObj("keys", vInt(0), "a", vInt(1))) {
		t.Errorf("o.keys = 0: %s", show(e.After))
	}
	chk(modelMember(l, "pop", nil), mValue, vSome(vInt(2)))
	chk(modelMember(vList(), "last", nil), mValue, vNone())
	if ok, _ := hasType(vList(vInt(1), vStr("x")), tList(tInt())); ok {
		t.Error("hasType accepted a mixed list as [int]")
	}
	if ok, _ := hasType(vObj("a", vInt(1), "b", vStr("")), tObj("a", tInt())); ok {
		t.Error("hasType accepted an object with an extra key")
	}
	if ok, _ := hasType(vSome(vFloat(1)), tOpt(tInt())); ok {
		t.Error("hasType accepted Some(float) as ?int")
	}
	if ok, why := hasType(vSome(vList()), tOpt(tList(tInt()))); !ok {
		t.Error(why)
	}
}
