package c18

// Reference value universe, structural hasType, literal/type printers and the reference model of
// the builtin members and of indexing (DESIGN.md §3 C18, Appendix C).
//
// The model shares no code with /repo. It uses the Go standard library for the text-level string
// operations (replace/split/case mapping/number parsing) and fmt for float rendering: how a float
// is rendered or how strings.Split treats an empty separator is not what C18 is about.

import (
	"encoding/json"
	"fmt"
	"math"
	"reflect"
	"sort"
	"strconv"
	"strings"
	"unicode/utf8"

	"github.com/smarthome-go/homescript/v3/homescript/analyzer/ast"
	herrors "github.com/smarthome-go/homescript/v3/homescript/errors"
	pAst "github.com/smarthome-go/homescript/v3/homescript/parser/ast"
)

// rv is a reference value. K: int float bool str null range list obj anyobj opt fn | nil other
type rv struct {
	K string        `json:"k"`
	I int64         `json:"i,omitempty"` // int value / range start
	E int64         `json:"e,omitempty"` // range end
	F float64       `json:"f,omitempty"`
	B bool          `json:"b,omitempty"` // bool value / range end inclusive
	S string        `json:"s,omitempty"` // string value / description of an `other` value
	L []rv          `json:"l,omitempty"`
	M map[string]rv `json:"m,omitempty"`
	O *rv           `json:"o,omitempty"` // option payload (nil = none)
}

func vInt(i int64) rv     { return rv{K: "int", I: i} }
func vFloat(f float64) rv { return rv{K: "float", F: f} }
func vBool(b bool) rv     { return rv{K: "bool", B: b} }
func vStr(s string) rv    { return rv{K: "str", S: s} }
func vNull() rv           { return rv{K: "null"} }
func vRange(a, b int64, incl bool) rv {
	return rv{K: "range", I: a, E: b, B: incl}
}
func vList(xs ...rv) rv { return rv{K: "list", L: append([]rv{}, xs...)} }
func vObj(kv ...any) rv {
	m := map[string]rv{}
	for i := 0; i+1 < len(kv); i += 2 {
		m[kv[i].(string)] = kv[i+1].(rv)
	}
	return rv{K: "obj", M: m}
}
func vAnyObj(kv ...any) rv {
	o := vObj(kv...)
	o.K = "anyobj"
	return o
}
func vNone() rv     { return rv{K: "opt"} }
func vSome(x rv) rv { c := x.clone(); return rv{K: "opt", O: &c} }
func vFn() rv       { return rv{K: "fn"} }

func (v rv) clone() rv {
	out := v
	if v.L != nil {
		out.L = make([]rv, len(v.L))
		for i := range v.L {
			out.L[i] = v.L[i].clone()
		}
	}
	if v.M != nil {
		out.M = make(map[string]rv, len(v.M))
		for k, x := range v.M {
			out.M[k] = x.clone()
		}
	}
	if v.O != nil {
		c := v.O.clone()
		out.O = &c
	}
	return out
}

func sortedKeys(m map[string]rv) []string {
	out := make([]string, 0, len(m))
	for k := range m {
		out = append(out, k)
	}
	sort.Strings(out)
	return out
}

// eq is structural equality on reference values.
func eq(a, b rv) bool {
	if a.K != b.K {
		return false
	}
	switch a.K {
	case "int":
		return a.I == b.I
	case "float":
		return a.F == b.F || (math.IsNaN(a.F) && math.IsNaN(b.F))
	case "bool":
		return a.B == b.B
	case "str":
		return a.S == b.S
	case "null", "fn":
		return true
	case "range":
		return a.I == b.I && a.E == b.E && a.B == b.B
	case "list":
		if len(a.L) != len(b.L) {
			return false
		}
		for i := range a.L {
			if !eq(a.L[i], b.L[i]) {
				return false
			}
		}
		return true
	case "obj", "anyobj":
		if len(a.M) != len(b.M) {
			return false
		}
		for k, x := range a.M {
			y, ok := b.M[k]
			if !ok || !eq(x, y) {
				return false
			}
		}
		return true
	case "opt":
		if (a.O == nil) != (b.O == nil) {
			return false
		}
		return a.O == nil || eq(*a.O, *b.O)
	}
	return false
}

// show renders a reference value for messages (deterministic).
func show(v rv) string {
	switch v.K {
	case "int":
		return strconv.FormatInt(v.I, 10)
	case "float":
		return fmt.Sprint(v.F) + "f"
	case "bool":
		return strconv.FormatBool(v.B)
	case "str":
		return strconv.Quote(v.S)
	case "null":
		return "null"
	case "range":
		if v.B {
			return fmt.Sprintf("%d..=%d", v.I, v.E)
		}
		return fmt.Sprintf("%d..%d", v.I, v.E)
	case "list":
		parts := make([]string, len(v.L))
		for i, x := range v.L {
			parts[i] = show(x)
		}
		return "[" + strings.Join(parts, ", ") + "]"
	case "obj", "anyobj":
		parts := []string{}
		for _, k := range sortedKeys(v.M) {
			parts = append(parts, k+": "+show(v.M[k]))
		}
		pre := "{"
		if v.K == "anyobj" {
			pre = "{?"
		}
		return pre + strings.Join(parts, ", ") + "}"
	case "opt":
		if v.O == nil {
			return "none"
		}
		return "Some(" + show(*v.O) + ")"
	case "fn":
		return "<fn>"
	case "nil":
		return "<Go nil>"
	}
	return "<" + v.K + ":" + v.S + ">"
}

// disp mirrors the Display rendering of scalars, ranges, options and lists of those (Appendix C:
// text rendering is mirrored from the implementation). ok=false when the value contains an object
// (map-ordered rendering) or a function.
func disp(v rv) (string, bool) {
	switch v.K {
	case "int":
		return strconv.FormatInt(v.I, 10), true
	case "float":
		return fmt.Sprint(v.F), true
	case "bool":
		return strconv.FormatBool(v.B), true
	case "str":
		return v.S, true
	case "null":
		return "null", true
	case "range":
		return fmt.Sprintf("%d..%d", v.I, v.E), true
	case "list":
		parts := make([]string, len(v.L))
		for i, x := range v.L {
			d, ok := disp(x)
			if !ok {
				return "", false
			}
			parts[i] = d
		}
		return "[" + strings.Join(parts, ", ") + "]", true
	case "opt":
		if v.O == nil {
			return "none", true
		}
		d, ok := disp(*v.O)
		if !ok {
			return "", false
		}
		return "Some(" + d + ")", true
	}
	return "", false
}

func containsKind(v rv, kind string) bool {
	if v.K == kind {
		return true
	}
	for _, x := range v.L {
		if containsKind(x, kind) {
			return true
		}
	}
	for _, x := range v.M {
		if containsKind(x, kind) {
			return true
		}
	}
	if v.O != nil {
		return containsKind(*v.O, kind)
	}
	return false
}

// ---------------------------------------------------------------------------------------------
// Types
// ---------------------------------------------------------------------------------------------

var sp0 = herrors.Span{}

func tInt() ast.Type            { return ast.NewIntType(sp0) }
func tFloat() ast.Type          { return ast.NewFloatType(sp0) }
func tBool() ast.Type           { return ast.NewBoolType(sp0) }
func tStr() ast.Type            { return ast.NewStringType(sp0) }
func tNull() ast.Type           { return ast.NewNullType(sp0) }
func tRange() ast.Type          { return ast.NewRangeType(sp0) }
func tList(i ast.Type) ast.Type { return ast.NewListType(i, sp0) }
func tOpt(i ast.Type) ast.Type  { return ast.NewOptionType(i, sp0) }
func tAnyObj() ast.Type         { return ast.NewAnyObjectType(sp0) }
func tObj(kv ...any) ast.Type {
	fields := []ast.ObjectTypeField{}
	for i := 0; i+1 < len(kv); i += 2 {
		fields = append(fields, ast.NewObjectTypeField(pAst.NewSpannedIdent(kv[i].(string), sp0), kv[i+1].(ast.Type), sp0))
	}
	return ast.NewObjectType(fields, sp0)
}
func tFn(ret ast.Type) ast.Type {
	return ast.NewFunctionType(ast.NewNormalFunctionTypeParamKind([]ast.FunctionTypeParam{}), sp0, ret, sp0)
}

// typeText prints a type in source syntax; "" for any/unknown/never (no annotation possible).
func typeText(t ast.Type) string {
	switch t.Kind() {
	case ast.IntTypeKind:
		return "int"
	case ast.FloatTypeKind:
		return "float"
	case ast.BoolTypeKind:
		return "bool"
	case ast.StringTypeKind:
		return "str"
	case ast.NullTypeKind:
		return "null"
	case ast.RangeTypeKind:
		return "range"
	case ast.AnyObjectTypeKind:
		return "{ ? }"
	case ast.ListTypeKind:
		in := typeText(t.(ast.ListType).Inner)
		if in == "" {
			return ""
		}
		return "[" + in + "]"
	case ast.OptionTypeKind:
		in := typeText(t.(ast.OptionType).Inner)
		if in == "" {
			return ""
		}
		return "?" + in
	case ast.ObjectTypeKind:
		parts := []string{}
		for _, f := range t.(ast.ObjectType).ObjFields {
			ft := typeText(f.Type)
			if ft == "" {
				return ""
			}
			parts = append(parts, f.FieldName.Ident()+": "+ft)
		}
		return "{ " + strings.Join(parts, ", ") + " }"
	case ast.FnTypeKind:
		ft := t.(ast.FunctionType)
		np, ok := ft.Params.(ast.NormalFunctionTypeParamKindIdentifier)
		if !ok {
			return ""
		}
		parts := []string{}
		for _, p := range np.Params {
			pt := typeText(p.Type)
			if pt == "" {
				return ""
			}
			parts = append(parts, p.Name.Ident()+": "+pt)
		}
		rt := typeText(ft.ReturnType)
		if rt == "" {
			return ""
		}
		return "fn(" + strings.Join(parts, ", ") + ") -> " + rt
	}
	return ""
}

// typeOfRv derives the static type of a reference value (used for `as T` casts of any-typed
// results and for arguments of `unknown`-typed parameters).
func typeOfRv(v rv) ast.Type {
	switch v.K {
	case "int":
		return tInt()
	case "float":
		return tFloat()
	case "bool":
		return tBool()
	case "str":
		return tStr()
	case "null":
		return tNull()
	case "range":
		return tRange()
	case "list":
		if len(v.L) == 0 {
			return tList(tInt())
		}
		return tList(typeOfRv(v.L[0]))
	case "obj":
		kv := []any{}
		for _, k := range sortedKeys(v.M) {
			kv = append(kv, k, typeOfRv(v.M[k]))
		}
		return tObj(kv...)
	case "anyobj":
		return tAnyObj()
	case "opt":
		if v.O == nil {
			return tOpt(tInt())
		}
		return tOpt(typeOfRv(*v.O))
	case "fn":
		return tFn(tInt())
	}
	return ast.NewUnknownType()
}

// hasType is the structural conformance predicate of Appendix C: int<->int, lists elementwise,
// objects with exactly the declared keys, any-objects by kind, options none or Some(conforming),
// any/unknown accept every (non-nil) value, functions by kind only.
func hasType(v rv, t ast.Type) (bool, string) {
	if v.K == "nil" {
		return false, "Go nil instead of a value"
	}
	if v.K == "other" {
		return false, "internal value kind " + v.S
	}
	want := ""
	switch t.Kind() {
	case ast.AnyTypeKind, ast.UnknownTypeKind, ast.NeverTypeKind:
		// still reject broken structure below the top
		return structureOK(v)
	case ast.IntTypeKind:
		want = "int"
	case ast.FloatTypeKind:
		want = "float"
	case ast.BoolTypeKind:
		want = "bool"
	case ast.StringTypeKind:
		want = "str"
	case ast.NullTypeKind:
		want = "null"
	case ast.RangeTypeKind:
		want = "range"
	case ast.FnTypeKind:
		want = "fn"
	case ast.AnyObjectTypeKind:
		if v.K != "anyobj" {
			return false, "expected an any-object, got " + v.K
		}
		return structureOK(v)
	case ast.ListTypeKind:
		if v.K != "list" {
			return false, "expected a list, got " + v.K
		}
		in := t.(ast.ListType).Inner
		for i, x := range v.L {
			if ok, why := hasType(x, in); !ok {
				return false, fmt.Sprintf("[%d]: %s", i, why)
			}
		}
		return true, ""
	case ast.OptionTypeKind:
		if v.K != "opt" {
			return false, "expected an option, got " + v.K
		}
		if v.O == nil {
			return true, ""
		}
		ok, why := hasType(*v.O, t.(ast.OptionType).Inner)
		if !ok {
			return false, "Some: " + why
		}
		return true, ""
	case ast.ObjectTypeKind:
		if v.K != "obj" {
			return false, "expected an object, got " + v.K
		}
		fields := t.(ast.ObjectType).ObjFields
		if len(fields) != len(v.M) {
			return false, fmt.Sprintf("expected exactly %d fields, got %d (%s)", len(fields), len(v.M), strings.Join(sortedKeys(v.M), ","))
		}
		for _, f := range fields {
			x, ok := v.M[f.FieldName.Ident()]
			if !ok {
				return false, "missing field " + f.FieldName.Ident()
			}
			if ok, why := hasType(x, f.Type); !ok {
				return false, "." + f.FieldName.Ident() + ": " + why
			}
		}
		return true, ""
	default:
		return false, "type kind not in the universe: " + t.Kind().String()
	}
	if v.K != want {
		return false, "expected " + want + ", got " + v.K
	}
	return true, ""
}

func structureOK(v rv) (bool, string) {
	if v.K == "nil" {
		return false, "Go nil instead of a value"
	}
	if v.K == "other" {
		return false, "internal value kind " + v.S
	}
	for i, x := range v.L {
		if ok, why := structureOK(x); !ok {
			return false, fmt.Sprintf("[%d]: %s", i, why)
		}
	}
	for _, k := range sortedKeys(v.M) {
		if ok, why := structureOK(v.M[k]); !ok {
			return false, "." + k + ": " + why
		}
	}
	if v.O != nil {
		return structureOK(*v.O)
	}
	return true, ""
}

// ---------------------------------------------------------------------------------------------
// Literals
// ---------------------------------------------------------------------------------------------

// litCtx collects hoisted bindings (nested empty lists need an annotated binding: an inner `[]`
// has no element type for the analyzer).
type litCtx struct {
	pre  []string
	n    int
	open int // blocks the setup left open (loop origin): closed at the end of the program
	// fns: top-level helper functions (fresh origin: the construction of the receiver lives in a
	// function that the program calls once per product)
	fns []string
	// tail: statements that follow the observed operation and its probes (fresh origin: one more
	// product of the same construction, probed last)
	tail []string
	// tops: top-level declarations (zero origins: singleton type definitions)
	tops []string
	// params: when set, the program proper is the body of `fn op(params)` called by main (zerox
	// origin: singleton extraction parameters)
	params []string
}

func strLit(s string) string {
	if !strings.ContainsAny(s, "\"\\\n") {
		return "\"" + s + "\""
	}
	if !strings.ContainsAny(s, "'\\\n") {
		return "'" + s + "'"
	}
	// escape for a double-quoted literal
	var sb strings.Builder
	sb.WriteByte('"')
	for _, r := range s {
		switch r {
		case '"':
			sb.WriteString("\\\"")
		case '\\':
			sb.WriteString("\\\\")
		case '\n':
			sb.WriteString("\\n")
		default:
			sb.WriteRune(r)
		}
	}
	sb.WriteByte('"')
	return sb.String()
}

func floatLit(f float64) string {
	s := strconv.FormatFloat(f, 'f', -1, 64)
	if !strings.Contains(s, ".") {
		s += ".0"
	}
	return s
}

// lit renders a value as a source expression of type t. top: the expression is bound with an
// annotation (an empty list is fine there).
func (c *litCtx) lit(v rv, t ast.Type, top bool) string {
	if top {
		return c.litAt(v, t, 0)
	}
	return c.litAt(v, t, 2)
}

// litAt: lvl 0 = the expression is bound with an annotation, 1 = a direct element / field of such an
// expression (the annotation still reaches a `none` there), 2+ = deeper (an empty list and `none`
// have no type for the analyzer there: they are hoisted into annotated bindings).
func (c *litCtx) litAt(v rv, t ast.Type, lvl int) string {
	top := lvl == 0
	switch v.K {
	case "int":
		if v.I < 0 {
			return "(" + strconv.FormatInt(v.I, 10) + ")"
		}
		return strconv.FormatInt(v.I, 10)
	case "float":
		if v.F < 0 || (v.F == 0 && math.Signbit(v.F)) {
			return "(" + floatLit(v.F) + ")"
		}
		return floatLit(v.F)
	case "bool":
		return strconv.FormatBool(v.B)
	case "str":
		return strLit(v.S)
	case "null":
		return "null"
	case "range":
		op := ".."
		if v.B {
			op = "..="
		}
		return c.litAt(vInt(v.I), tInt(), lvl+1) + op + c.litAt(vInt(v.E), tInt(), lvl+1)
	case "list":
		var in ast.Type = ast.NewUnknownType()
		if lt, ok := t.(ast.ListType); ok {
			in = lt.Inner
		} else if len(v.L) > 0 {
			in = typeOfRv(v.L[0])
		}
		if len(v.L) == 0 && !top {
			name := fmt.Sprintf("e%d", c.n)
			c.n++
			tt := typeText(tList(in))
			if tt == "" {
				tt = "[int]"
			}
			c.pre = append(c.pre, fmt.Sprintf("let %s: %s = [];", name, tt))
			return name
		}
		parts := make([]string, len(v.L))
		for i, x := range v.L {
			parts[i] = c.litAt(x, in, lvl+1)
		}
		return "[" + strings.Join(parts, ", ") + "]"
	case "obj":
		parts := []string{}
		ft := map[string]ast.Type{}
		if ot, ok := t.(ast.ObjectType); ok {
			for _, f := range ot.ObjFields {
				ft[f.FieldName.Ident()] = f.Type
			}
		}
		for _, k := range sortedKeys(v.M) {
			kt, ok := ft[k]
			if !ok {
				kt = typeOfRv(v.M[k])
			}
			parts = append(parts, k+": "+c.litAt(v.M[k], kt, lvl+1))
		}
		return "new { " + strings.Join(parts, ", ") + " }"
	case "opt":
		if v.O == nil {
			if lvl <= 1 {
				return "none"
			}
			tt := typeText(t)
			if _, isOpt := t.(ast.OptionType); !isOpt || tt == "" {
				tt = "?int"
			}
			name := fmt.Sprintf("n%d", c.n)
			c.n++
			c.pre = append(c.pre, fmt.Sprintf("let %s: %s = none;", name, tt))
			return name
		}
		var in ast.Type = typeOfRv(*v.O)
		if ot, ok := t.(ast.OptionType); ok {
			in = ot.Inner
		}
		return "?" + c.litAt(*v.O, in, lvl+1)
	case "anyobj":
		// an any-object below the top of a literal: an object literal cast to { ? }
		if len(v.M) == 0 {
			return "new { ? }"
		}
		o := v.clone()
		o.K = "obj"
		return "(" + c.litAt(o, typeOfRv(o), 2) + " as { ? })"
	case "fn":
		return "fn() -> int { 1 }"
	}
	panic("c18: no literal for value kind " + v.K)
}

// ---------------------------------------------------------------------------------------------
// Reference model of members and indexing
// ---------------------------------------------------------------------------------------------

// Expectation modes.
const (
	mValue     = "value"     // must end ok with exactly this result (and receiver state)
	mInterrupt = "interrupt" // must end with an interrupt (fatal error / throw), never ok, never a crash
	mEither    = "either"    // ok with exactly this result, or an interrupt
	mNoCrash   = "nocrash"   // anything but a crash; when ok only the advertised type is checked
)

type expect struct {
	Mode     string
	Val      rv
	After    rv // receiver after the call (valid when HasAfter)
	HasAfter bool
	// AsSet: compare list results as multisets (order not promised by the property)
	AsSet bool
	// Alt: a second acceptable result (choices the property leaves open, e.g. rounding of ties)
	Alt  *rv
	Note string
	// JSON: the result is JSON text and Val is the value it has to denote (compared as documents,
	// not as text: layout, key order and number spelling belong to C13)
	JSON bool
}

func runeLen(s string) int { return utf8.RuneCountInString(s) }

// wrapIndex applies "negative indices count from the end"; ok=false when out of [0,limit).
func wrapIndex(i int64, n int, inclusiveEnd bool) (int, bool) {
	if i < 0 {
		i += int64(n)
	}
	lim := int64(n)
	if inclusiveEnd {
		lim++
	}
	if i < 0 || i >= lim {
		return 0, false
	}
	return int(i), true
}

func levenshtein(a, b string) int {
	ra, rb := []rune(a), []rune(b)
	prev := make([]int, len(rb)+1)
	for j := range prev {
		prev[j] = j
	}
	for i := 1; i <= len(ra); i++ {
		cur := make([]int, len(rb)+1)
		cur[0] = i
		for j := 1; j <= len(rb); j++ {
			cost := 1
			if ra[i-1] == rb[j-1] {
				cost = 0
			}
			cur[j] = min3(prev[j]+1, cur[j-1]+1, prev[j-1]+cost)
		}
		prev = cur
	}
	return prev[len(rb)]
}

func min3(a, b, c int) int {
	if b < a {
		a = b
	}
	if c < a {
		a = c
	}
	return a
}

func jsonToRv(x any) rv {
	switch t := x.(type) {
	case nil:
		return vNone()
	case bool:
		return vBool(t)
	case string:
		return vStr(t)
	case float64:
		if t == math.Trunc(t) && math.Abs(t) < 1e15 {
			return vInt(int64(t))
		}
		return vFloat(t)
	case []any:
		out := rv{K: "list", L: []rv{}}
		for _, e := range t {
			out.L = append(out.L, jsonToRv(e))
		}
		return out
	case map[string]any:
		out := rv{K: "obj", M: map[string]rv{}}
		for k, e := range t {
			out.M[k] = jsonToRv(e)
		}
		return out
	}
	return rv{K: "other", S: fmt.Sprintf("%T", x)}
}

func val(v rv, recv rv) expect {
	return expect{Mode: mValue, Val: v, After: recv, HasAfter: true}
}
func interrupt(recv rv) expect {
	return expect{Mode: mInterrupt, After: recv, HasAfter: true}
}
func noCrash(note string) expect { return expect{Mode: mNoCrash, Note: note} }

// jnorm is the JSON document a value denotes, in the shape encoding/json decodes into: numbers as
// float64, none / null as JSON null, Some(x) as x, lists as arrays (same length, same order), objects
// and any-objects as objects with exactly their keys. ok=false for values without a JSON rendering
// (ranges, functions, non-finite floats).
func jnorm(v rv) (any, bool) {
	switch v.K {
	case "int":
		return float64(v.I), true
	case "float":
		if math.IsNaN(v.F) || math.IsInf(v.F, 0) {
			return nil, false
		}
		return v.F, true
	case "bool":
		return v.B, true
	case "str":
		return v.S, true
	case "null":
		return nil, true
	case "opt":
		if v.O == nil {
			return nil, true
		}
		return jnorm(*v.O)
	case "list":
		out := make([]any, 0, len(v.L))
		for _, x := range v.L {
			j, ok := jnorm(x)
			if !ok {
				return nil, false
			}
			out = append(out, j)
		}
		return out, true
	case "obj", "anyobj":
		out := map[string]any{}
		for k, x := range v.M {
			j, ok := jnorm(x)
			if !ok {
				return nil, false
			}
			out[k] = j
		}
		return out, true
	}
	return nil, false
}

// jsonOf is the expectation of to_json / to_json_indent: JSON text that denotes the receiver. The
// text itself (layout, key order, number format) is not modelled.
func jsonOf(recv rv) expect {
	if _, ok := jnorm(recv); !ok {
		return noCrash("the value has no JSON rendering (range / function inside): only survival is demanded")
	}
	return expect{Mode: mValue, Val: recv.clone(), JSON: true, After: recv.clone(), HasAfter: true}
}

// judgeJSON compares JSON text with the document the value denotes.
func judgeJSON(text string, v rv) (bool, string) {
	want, _ := jnorm(v)
	var got any
	if err := json.Unmarshal([]byte(text), &got); err != nil {
		return false, fmt.Sprintf("the result %q is not JSON text (%v)", text, err)
	}
	if !reflect.DeepEqual(got, want) {
		w, _ := json.Marshal(want)
		return false, fmt.Sprintf("the JSON text %s does not denote the receiver %s, which is the document %s (every element and every field appears, none / null as JSON null)", strings.Join(strings.Fields(text), " "), show(v), w)
	}
	return true, ""
}

// modelMember gives the expected result of recv.member(args...) (or of the field read when the
// member is not a function). The receiver kind decides the table.
func modelMember(recv rv, member string, args []rv) expect {
	a := func(i int) rv {
		if i < len(args) {
			return args[i]
		}
		return rv{K: "nil"}
	}
	same := recv.clone()
	switch recv.K {
	case "int":
		switch member {
		case "to_string":
			return val(vStr(strconv.FormatInt(recv.I, 10)), same)
		case "to_range":
			return val(vRange(0, recv.I, false), same)
		}
	case "float":
		switch member {
		case "is_int":
			return val(vBool(recv.F == math.Trunc(recv.F)), same)
		case "trunc":
			return val(vInt(int64(math.Trunc(recv.F))), same)
		case "round":
			e := val(vInt(int64(math.Round(recv.F))), same)
			if alt := vInt(int64(math.RoundToEven(recv.F))); !eq(alt, e.Val) {
				e.Alt = &alt // a tie: away from zero or to even are both "rounding"
			}
			return e
		case "to_string":
			return val(vStr(fmt.Sprint(recv.F)), same)
		}
	case "bool":
		if member == "to_string" {
			return val(vStr(strconv.FormatBool(recv.B)), same)
		}
	case "str":
		s := recv.S
		switch member {
		case "len":
			return val(vInt(int64(runeLen(s))), same)
		case "replace":
			if a(0).S == "" {
				return noCrash("replacing the empty string: the property does not say where it matches")
			}
			return val(vStr(strings.ReplaceAll(s, a(0).S, a(1).S)), same)
		case "repeat":
			if a(0).I < 0 {
				return noCrash("negative repeat count: the property only demands survival")
			}
			return val(vStr(strings.Repeat(s, int(a(0).I))), same)
		case "contains":
			return val(vBool(strings.Contains(s, a(0).S)), same)
		case "starts_with":
			return val(vBool(strings.HasPrefix(s, a(0).S)), same)
		case "split":
			if a(0).S == "" {
				return noCrash("splitting at the empty separator: the property does not say into what")
			}
			parts := strings.Split(s, a(0).S)
			out := rv{K: "list", L: []rv{}}
			for _, p := range parts {
				out.L = append(out.L, vStr(p))
			}
			return val(out, same)
		case "parse_int":
			n, err := strconv.ParseInt(s, 10, 64)
			if err != nil {
				return interrupt(same)
			}
			return val(vInt(n), same)
		case "parse_float":
			f, err := strconv.ParseFloat(s, 64)
			if err != nil {
				return interrupt(same)
			}
			return val(vFloat(f), same)
		case "parse_bool":
			b, err := strconv.ParseBool(s)
			if err != nil {
				return interrupt(same)
			}
			return val(vBool(b), same)
		case "to_lower":
			return val(vStr(strings.ToLower(s)), same)
		case "to_upper":
			return val(vStr(strings.ToUpper(s)), same)
		case "compare_lev":
			return val(vInt(int64(levenshtein(s, a(0).S))), same)
		case "substring":
			// substring(upper) = the first `upper` characters; negative counts from the end;
			// upper == len is the whole string or an interrupt (the implementation rejects it; the
			// property does not decide); beyond that an interrupt.
			rs := []rune(s)
			u := a(0).I
			if u < 0 {
				u += int64(len(rs))
			}
			switch {
			case u < 0 || u > int64(len(rs)):
				return interrupt(same)
			case u == int64(len(rs)):
				e := val(vStr(s), same)
				e.Mode = mEither
				return e
			}
			return val(vStr(string(rs[:u])), same)
		case "parse_json":
			var raw any
			if err := json.Unmarshal([]byte(s), &raw); err != nil {
				return interrupt(same)
			}
			return val(jsonToRv(raw), same)
		}
	case "range":
		switch member {
		case "start":
			return val(vInt(recv.I), same)
		case "end":
			return val(vInt(recv.E), same)
		case "rev":
			return val(vRange(recv.E, recv.I, recv.B), same)
		case "diff":
			d := recv.E - recv.I
			if d < 0 {
				d = -d
			}
			return val(vInt(d), same)
		case "to_string":
			return val(vStr(fmt.Sprintf("%d..%d", recv.I, recv.E)), same)
		}
	case "list":
		n := len(recv.L)
		switch member {
		case "to_string":
			if d, ok := disp(recv); ok {
				return val(vStr(d), same)
			}
			return noCrash("rendering of objects is map-ordered")
		case "len":
			return val(vInt(int64(n)), same)
		case "contains":
			for _, x := range recv.L {
				if eq(x, a(0)) {
					return val(vBool(true), same)
				}
			}
			return val(vBool(false), same)
		case "concat":
			after := recv.clone()
			for _, x := range a(0).L {
				after.L = append(after.L, x.clone())
			}
			return val(vNull(), after)
		case "join":
			parts := []string{}
			for _, x := range recv.L {
				d, ok := disp(x)
				if !ok {
					return noCrash("rendering of objects is map-ordered")
				}
				parts = append(parts, d)
			}
			return val(vStr(strings.Join(parts, a(0).S)), same)
		case "push":
			after := recv.clone()
			after.L = append(after.L, a(0).clone())
			return val(vNull(), after)
		case "push_front":
			after := recv.clone()
			after.L = append([]rv{a(0).clone()}, after.L...)
			return val(vNull(), after)
		case "pop":
			if n == 0 {
				return val(vNone(), same)
			}
			after := recv.clone()
			after.L = after.L[:n-1]
			return val(vSome(recv.L[n-1]), after)
		case "pop_front":
			if n == 0 {
				return val(vNone(), same)
			}
			after := recv.clone()
			after.L = after.L[1:]
			return val(vSome(recv.L[0]), after)
		case "last":
			if n == 0 {
				return val(vNone(), same)
			}
			return val(vSome(recv.L[n-1]), same)
		case "insert":
			// valid positions 0..len (len = append); negative counts from the end
			i, ok := wrapIndex(a(0).I, n, true)
			if !ok {
				return interrupt(same)
			}
			after := rv{K: "list", L: []rv{}}
			after.L = append(after.L, recv.clone().L[:i]...)
			after.L = append(after.L, a(1).clone())
			after.L = append(after.L, recv.clone().L[i:]...)
			return val(vNull(), after)
		case "remove":
			i, ok := wrapIndex(a(0).I, n, false)
			if !ok {
				return interrupt(same)
			}
			after := rv{K: "list", L: []rv{}}
			after.L = append(after.L, recv.clone().L[:i]...)
			after.L = append(after.L, recv.clone().L[i+1:]...)
			return val(vNull(), after)
		case "sort":
			after := recv.clone()
			sort.SliceStable(after.L, func(i, j int) bool {
				x, y := after.L[i], after.L[j]
				switch x.K {
				case "int":
					return x.I < y.I
				case "float":
					return x.F < y.F
				case "str":
					return x.S < y.S
				}
				return false
			})
			return val(vNull(), after)
		case "to_json", "to_json_indent":
			return jsonOf(recv)
		}
	case "anyobj":
		switch member {
		case "set":
			after := recv.clone()
			if after.M == nil {
				after.M = map[string]rv{}
			}
			after.M[a(0).S] = a(1).clone()
			return val(vNull(), after)
		case "get":
			if x, ok := recv.M[a(0).S]; ok {
				return val(vSome(x), same)
			}
			return val(vNone(), same)
		case "get_type":
			if x, ok := recv.M[a(0).S]; ok {
				if name, ok := kindName(x); ok {
					e := val(vStr(name), same)
					e.Note = "get_type names the kind of the stored value " + show(x) + " with the analyzer's name for that kind (the kind whose members the value has)"
					return e
				}
			}
			return noCrash("a missing key may interrupt")
		case "keys":
			out := rv{K: "list", L: []rv{}}
			for _, k := range sortedKeys(recv.M) {
				out.L = append(out.L, vStr(k))
			}
			e := val(out, same)
			e.AsSet = true
			return e
		case "to_json", "to_json_indent":
			return jsonOf(recv)
		case "to_string":
			return noCrash("rendering of objects is map-ordered")
		}
	case "obj":
		// a data field wins over a builtin member of the same name: the analyzer offers the member
		// with the type of the field
		if x, ok := recv.M[member]; ok {
			return val(x, same)
		}
		switch member {
		case "keys":
			out := rv{K: "list", L: []rv{}}
			for _, k := range sortedKeys(recv.M) {
				out.L = append(out.L, vStr(k))
			}
			e := val(out, same)
			e.AsSet = true
			return e
		case "to_json", "to_json_indent":
			return jsonOf(recv)
		case "to_string":
			return noCrash("rendering of objects is map-ordered")
		}
		if x, ok := recv.M[member]; ok {
			return val(x, same)
		}
	case "opt":
		switch member {
		case "is_some":
			return val(vBool(recv.O != nil), same)
		case "is_none":
			return val(vBool(recv.O == nil), same)
		case "unwrap", "expect":
			if recv.O == nil {
				return interrupt(same)
			}
			return val(*recv.O, same)
		case "unwrap_or":
			if recv.O == nil {
				return val(a(0), same)
			}
			return val(*recv.O, same)
		case "to_string":
			if d, ok := disp(recv); ok {
				return val(vStr(d), same)
			}
			return noCrash("rendering of objects is map-ordered")
		}
	}
	return noCrash("member not in the reference model: only survival and the advertised type are checked")
}

// kindName is the name get_type has to report for a stored value: the analyzer's own name
// (ast.TypeKind.String(), read from the real analyzer) of the kind of type whose members the value
// has. A typed object and an any-object are different kinds: they offer different members.
func kindName(v rv) (name string, ok bool) {
	defer func() {
		if recover() != nil {
			name, ok = "", false
		}
	}()
	k := typeOfRv(v).Kind()
	switch k {
	case ast.UnknownTypeKind, ast.AnyTypeKind, ast.NeverTypeKind:
		return "", false
	}
	return k.String(), true
}

// modelIndex gives the expected result of recv[idx].
func modelIndex(recv rv, idx rv) expect {
	same := recv.clone()
	switch recv.K {
	case "list":
		i, ok := wrapIndex(idx.I, len(recv.L), false)
		if !ok {
			return interrupt(same)
		}
		return val(recv.L[i], same)
	case "str":
		rs := []rune(recv.S)
		i, ok := wrapIndex(idx.I, len(rs), false)
		if !ok {
			return interrupt(same)
		}
		return val(vStr(string(rs[i])), same)
	case "obj", "anyobj":
		if x, ok := recv.M[idx.S]; ok {
			return val(x, same)
		}
		return interrupt(same)
	}
	return noCrash("not indexable in the model")
}

// modelAssign gives the expectation of `recv.field = v; recv.field`: the value reads back and the
// receiver holds it under that field, everything else unchanged.
func modelAssign(recv rv, field string, v rv) expect {
	if _, ok := recv.M[field]; !ok || recv.K != "obj" {
		return noCrash("not a data field in the model")
	}
	after := recv.clone()
	after.M[field] = v.clone()
	return val(v, after)
}

// modelIndexSet gives the expectation of `recv[idx] = v; recv[idx]`: same index rules as reading.
func modelIndexSet(recv rv, idx rv, v rv) expect {
	same := recv.clone()
	switch recv.K {
	case "list":
		i, ok := wrapIndex(idx.I, len(recv.L), false)
		if !ok {
			return interrupt(same)
		}
		same.L[i] = v.clone()
		return val(v, same)
	case "obj":
		if _, ok := recv.M[idx.S]; ok {
			same.M[idx.S] = v.clone()
			return val(v, same)
		}
		return interrupt(same)
	}
	return noCrash("not index-assignable in the model")
}

// modelArrow gives the expected result of recv->key on an any-object.
func modelArrow(recv rv, key string) expect {
	if x, ok := recv.M[key]; ok {
		return val(vSome(x), recv.clone())
	}
	return val(vNone(), recv.clone())
}

func eqAsSet(a, b rv) bool {
	if a.K != "list" || b.K != "list" || len(a.L) != len(b.L) {
		return false
	}
	x := make([]string, len(a.L))
	y := make([]string, len(b.L))
	for i := range a.L {
		x[i] = show(a.L[i])
		y[i] = show(b.L[i])
	}
	sort.Strings(x)
	sort.Strings(y)
	for i := range x {
		if x[i] != y[i] {
			return false
		}
	}
	return true
}
