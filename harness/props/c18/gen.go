package c18

// Case generation: type instances x (every member the analyzer lists) x boundary arguments.

import (
	"fmt"
	"sort"
	"strings"
	"unicode/utf8"

	"github.com/smarthome-go/homescript/v3/homescript/analyzer/ast"

	"hv/fw"
)

// inst is one type instance of the matrix.
type inst struct {
	Name string
	T    ast.Type
	Vars []rv // representative receivers: empty / one / many
}

func objA(i int64) rv { return vObj("a", vInt(i)) }

func objABt() ast.Type           { return tObj("a", tInt(), "b", tStr()) }
func objAB(i int64, s string) rv { return vObj("a", vInt(i), "b", vStr(s)) }

// zeroOf is the value a runtime has to make up for a type when nothing else is said (reference
// model of the start value of a singleton): 0, 0.0, false, "", the empty list / any-object, none,
// objects field by field. A range, a function, `any` and objects holding one have no entry (ok=false): the
// two runtimes start a range singleton at different ranges (0..0 and 0..1), which is not a
// statement about members.
func zeroOf(t ast.Type) (rv, bool) {
	switch tt := t.(type) {
	case ast.IntType:
		return vInt(0), true
	case ast.FloatType:
		return vFloat(0), true
	case ast.BoolType:
		return vBool(false), true
	case ast.StringType:
		return vStr(""), true
	case ast.NullType:
		return vNull(), true
	case ast.ListType:
		return vList(), true
	case ast.OptionType:
		return vNone(), true
	case ast.AnyObjectType:
		return vAnyObj(), true
	case ast.ObjectType:
		o := rv{K: "obj", M: map[string]rv{}}
		for _, f := range tt.ObjFields {
			z, ok := zeroOf(f.Type)
			if !ok {
				return rv{}, false
			}
			o.M[f.FieldName.Ident()] = z
		}
		return o, true
	}
	return rv{}, false
}

// instances returns the type instances of DESIGN.md §3 C18 (plus [range] and {r: range}, which carry
// the `to_json`-of-a-range case of Appendix A.36). thorough adds larger and seed-chosen receivers.
func instances(tier string, seed uint64) []inst {
	out := []inst{
		{"int", tInt(), []rv{vInt(0), vInt(1), vInt(-3), vInt(42)}},
		{"float", tFloat(), []rv{vFloat(0), vFloat(1.5), vFloat(-2.5), vFloat(3)}},
		{"bool", tBool(), []rv{vBool(true), vBool(false)}},
		{"str", tStr(), []rv{vStr(""), vStr("a"), vStr("abc"), vStr("a,b,,c"), vStr("Hello World"), vStr("12"), vStr("-7"), vStr("1.5"),
			vStr("true"), vStr("[1, 2]"), vStr("{\"a\": 1}"), vStr("null"), vStr("äb"), vStr("日本語"),
			// spellings of numbers which a parser that guesses the base or is lenient would read differently
			vStr("010"), vStr("08"), vStr("0x1f"), vStr("1_000"), vStr("+5"), vStr("1e3"), vStr("9223372036854775808")}},
		{"range", tRange(), []rv{vRange(1, 3, false), vRange(3, 1, false), vRange(0, 0, false), vRange(1, 3, true), vRange(-2, 2, false)}},
		{"[int]", tList(tInt()), []rv{vList(), vList(vInt(7)), vList(vInt(3), vInt(1), vInt(2))}},
		{"[float]", tList(tFloat()), []rv{vList(), vList(vFloat(1.5)), vList(vFloat(2.5), vFloat(0.5), vFloat(1))}},
		{"[str]", tList(tStr()), []rv{vList(), vList(vStr("a")), vList(vStr("b"), vStr("a"), vStr("c"))}},
		{"[bool]", tList(tBool()), []rv{vList(), vList(vBool(true)), vList(vBool(true), vBool(false), vBool(true))}},
		{"[[int]]", tList(tList(tInt())), []rv{vList(), vList(vList(vInt(1))), vList(vList(vInt(1), vInt(2)), vList(), vList(vInt(3)))}},
		{"[{a:int}]", tList(tObj("a", tInt())), []rv{vList(), vList(objA(1)), vList(objA(1), objA(2), objA(3))}},
		{"[range]", tList(tRange()), []rv{vList(), vList(vRange(1, 3, false)), vList(vRange(1, 3, false), vRange(3, 1, false))}},
		{"{?}", tAnyObj(), []rv{vAnyObj(), vAnyObj("a", vInt(1)), vAnyObj("a", vInt(1), "b", vStr("x"), "c", vList(vInt(1), vInt(2)))}},
		{"{a:int,b:str}", tObj("a", tInt(), "b", tStr()), []rv{vObj("a", vInt(1), "b", vStr("x")), vObj("a", vInt(0), "b", vStr(""))}},
		{"{r:range}", tObj("r", tRange()), []rv{vObj("r", vRange(1, 3, false))}},
		{"?int", tOpt(tInt()), []rv{vNone(), vSome(vInt(1))}},
		{"?str", tOpt(tStr()), []rv{vNone(), vSome(vStr("s")), vSome(vStr(""))}},
		{"?[int]", tOpt(tList(tInt())), []rv{vNone(), vSome(vList()), vSome(vList(vInt(1), vInt(2)))}},
		// empty options (and null) sitting in the element / field cells of a compound value
		{"[?int]", tList(tOpt(tInt())), []rv{vList(), vList(vNone()), vList(vNone(), vSome(vInt(1)), vNone())}},
		{"[{a:?int}]", tList(tObj("a", tOpt(tInt()))), []rv{vList(), vList(vObj("a", vNone())), vList(vObj("a", vSome(vInt(1))), vObj("a", vNone()))}},
		{"{a:?int,b:str}", tObj("a", tOpt(tInt()), "b", tStr()), []rv{vObj("a", vSome(vInt(2)), "b", vStr("")), vObj("a", vNone(), "b", vStr("x"))}},
		{"{o:?str,l:[?int]}", tObj("o", tOpt(tStr()), "l", tList(tOpt(tInt()))), []rv{vObj("o", vSome(vStr("s")), "l", vList()), vObj("o", vNone(), "l", vList(vSome(vInt(1)), vNone()))}},
		// element / payload / field types that are objects with several, differently typed fields: the
		// members whose parameter is the element type (push, push_front, insert, contains, concat,
		// unwrap_or) and the assignment of such a field take a whole object as their argument
		{"[{a:int,b:str}]", tList(objABt()), []rv{vList(), vList(objAB(1, "x")), vList(objAB(1, "x"), objAB(2, ""), objAB(0, "y"))}},
		{"?{s:str,n:int,t:bool}", tOpt(tObj("s", tStr(), "n", tInt(), "t", tBool())), []rv{vNone(), vSome(vObj("s", vStr("k"), "n", vInt(4), "t", vBool(true)))}},
		{"{p:{a:int,b:str},l:[{a:int,b:str}]}", tObj("p", objABt(), "l", tList(objABt())), []rv{vObj("p", objAB(3, "z"), "l", vList(objAB(1, "x")))}},
		{"null", tNull(), []rv{vNull()}},
		{"fn", tFn(tInt()), []rv{vFn()}},
	}
	out = append(out, collisionInstances()...)
	// the value the runtimes make up themselves for a type (the start value of a singleton the host
	// does not provide) is a receiver of every instance that has one: see origins "zero*"
	for i := range out {
		if z, ok := zeroOf(out[i].T); ok && typeText(out[i].T) != "" && len(memberTable(out[i].T)) > 0 {
			have := false
			for _, v := range out[i].Vars {
				have = have || eq(v, z)
			}
			if !have {
				out[i].Vars = append([]rv{z}, out[i].Vars...)
			}
		}
	}
	for i := range out {
		if out[i].Name == "{?}" {
			// an any-object that holds empty options, a null and a list with an empty option
			out[i].Vars = append(out[i].Vars, vAnyObj("n", vNone(), "s", vSome(vInt(4)), "l", vList(vSome(vInt(1)), vNone())), vAnyObj("z", vNull(), "n", vNone()))
			// any-objects that hold every kind of value a script can store: typed objects (also the
			// nested objects of parsed JSON), any-objects, floats, lists of objects, options of
			// objects, ranges and functions
			out[i].Vars = append(out[i].Vars,
				vAnyObj("o", vObj("a", vInt(1), "b", vStr("x")), "l", vList(objA(1), objA(2)), "t", vBool(true)),
				vAnyObj("o", objA(1), "p", vAnyObj("q", vInt(2)), "e", vAnyObj(), "f", vFloat(1.5), "s", vSome(objA(3))),
				vAnyObj("r", vRange(1, 3, false), "g", vFn(), "o", vObj("r", vRange(0, 2, false))))
			// an any-object whose data keys are named like its own builtin members
			out[i].Vars = append(out[i].Vars, collisionAnyObj())
		}
	}
	if tier == "thorough" {
		r := fw.NewRng(seed ^ 0xC18)
		for i := range out {
			in := &out[i]
			switch lt := in.T.(type) {
			case ast.ListType:
				// a 7-element receiver and twelve seed-chosen ones
				for k := 0; k < 13; k++ {
					n := 7
					if k > 0 {
						n = r.Intn(8)
					}
					l := rv{K: "list", L: []rv{}}
					for j := 0; j < n; j++ {
						l.L = append(l.L, randomValue(r, lt.Inner, 2))
					}
					in.Vars = append(in.Vars, l)
				}
			case ast.StringType:
				const alpha = "abcAB ,.01é"
				rs := []rune(alpha)
				for k := 0; k < 24; k++ {
					n := r.Intn(9)
					var sb strings.Builder
					for j := 0; j < n; j++ {
						sb.WriteRune(rs[r.Intn(len(rs))])
					}
					in.Vars = append(in.Vars, vStr(sb.String()))
				}
			case ast.IntType:
				in.Vars = append(in.Vars, vInt(int64(r.Intn(2000))-1000), vInt(1<<40), vInt(-(1 << 40)))
			case ast.FloatType:
				in.Vars = append(in.Vars, vFloat(float64(r.Intn(2000))/8-100), vFloat(0.49999), vFloat(1e9+0.5), vFloat(-0.5))
			case ast.RangeType:
				for k := 0; k < 4; k++ {
					in.Vars = append(in.Vars, vRange(int64(r.Intn(40))-20, int64(r.Intn(40))-20, r.Bool()))
				}
			}
		}
	}
	// dedupe variants
	for i := range out {
		seen := map[string]bool{}
		var vs []rv
		for _, v := range out[i].Vars {
			k := show(v)
			if !seen[k] {
				seen[k] = true
				vs = append(vs, v)
			}
		}
		out[i].Vars = vs
	}
	return out
}

// ---------------------------------------------------------------------------------------------
// Data fields named like builtin members
// ---------------------------------------------------------------------------------------------

// reservedObjNames are the member names the analyzer gives to every object (`keys`, `to_json`, …):
// an object literal may not use them as field names, an object type may (such values come from
// parse_json, casts and the host).
func reservedObjNames() []string { return sortedTypeKeys(memberTable(tObj())) }

// siblingObjNames are the member names of the sibling type `{ ? }` that plain objects do not
// reserve (`to_string`, `get`, `set`, …): usable as field names everywhere, but the value libraries
// may carry a builtin of that name.
func siblingObjNames() []string {
	res := memberTable(tObj())
	var out []string
	for _, k := range sortedTypeKeys(memberTable(tAnyObj())) {
		if _, ok := res[k]; !ok {
			out = append(out, k)
		}
	}
	return out
}

// collisionField gives the k-th colliding field a JSON-expressible type and two values of it.
func collisionField(k int) (ast.Type, rv, rv) {
	switch k % 4 {
	case 0:
		return tInt(), vInt(int64(40 + k)), vInt(0)
	case 1:
		return tStr(), vStr(fmt.Sprintf("v%d", k)), vStr("")
	case 2:
		return tBool(), vBool(true), vBool(false)
	}
	return tList(tInt()), vList(vInt(int64(k)), vInt(2)), vList()
}

func mkCollision(names []string, extra bool) (inst, bool) {
	if len(names) == 0 {
		return inst{}, false
	}
	var tkv, akv, bkv []any
	if extra {
		tkv, akv, bkv = append(tkv, "a", tInt()), append(akv, "a", vInt(1)), append(bkv, "a", vInt(-2))
	}
	for k, n := range names {
		t, a, b := collisionField(k)
		tkv, akv, bkv = append(tkv, n, t), append(akv, n, a), append(bkv, n, b)
	}
	t := tObj(tkv...)
	return inst{strings.ReplaceAll(typeText(t), " ", ""), t, []rv{vObj(akv...), vObj(bkv...)}}, true
}

// collisionInstances are object types whose data fields are named like builtin members. The
// analyzer offers such a member with the type of the field, so every runtime value of the type has
// to hand out the field, not a builtin of the same name. The names are read from the analyzer's own
// tables: (1) the sibling names only, (2) every name objects reserve (no builtin method is left),
// (3) an ordinary field plus the first reserved and the first sibling name (builtin methods and
// shadowing fields side by side).
func collisionInstances() []inst {
	var out []inst
	res, sib := reservedObjNames(), siblingObjNames()
	if in, ok := mkCollision(sib, false); ok {
		out = append(out, in)
	}
	if in, ok := mkCollision(res, false); ok {
		out = append(out, in)
	}
	var mixed []string
	if len(res) > 0 {
		mixed = append(mixed, res[0])
	}
	if len(sib) > 0 {
		mixed = append(mixed, sib[len(sib)-1])
	}
	if in, ok := mkCollision(mixed, true); ok && len(mixed) == 2 {
		out = append(out, in)
	}
	return out
}

// collisionAnyObj is an any-object whose data keys are the member names of any-objects.
func collisionAnyObj() rv {
	o := rv{K: "anyobj", M: map[string]rv{}}
	for k, n := range sortedTypeKeys(memberTable(tAnyObj())) {
		_, a, _ := collisionField(k)
		o.M[n] = a
	}
	return o
}

// literalOK reports whether the analyzer allows the value to be written as a literal: object
// literals may not use the reserved member names as field names.
func literalOK(v rv) bool {
	if v.K == "obj" {
		res := memberTable(tObj())
		for k := range v.M {
			if _, bad := res[k]; bad {
				return false
			}
		}
	}
	for _, x := range v.L {
		if !literalOK(x) {
			return false
		}
	}
	for _, x := range v.M {
		if !literalOK(x) {
			return false
		}
	}
	if v.O != nil {
		return literalOK(*v.O)
	}
	return true
}

func randomValue(r *fw.Rng, t ast.Type, depth int) rv {
	switch tt := t.(type) {
	case ast.IntType:
		return vInt(int64(r.Intn(10)) - 3)
	case ast.FloatType:
		return vFloat(float64(r.Intn(20))/2 - 3)
	case ast.BoolType:
		return vBool(r.Bool())
	case ast.StringType:
		return vStr([]string{"", "a", "b", "ab", "zz", "c"}[r.Intn(6)])
	case ast.RangeType:
		return vRange(int64(r.Intn(6))-2, int64(r.Intn(6))-2, false)
	case ast.ListType:
		n := r.Intn(3)
		if depth <= 0 {
			n = 0
		}
		l := rv{K: "list", L: []rv{}}
		for i := 0; i < n; i++ {
			l.L = append(l.L, randomValue(r, tt.Inner, depth-1))
		}
		return l
	case ast.ObjectType:
		o := rv{K: "obj", M: map[string]rv{}}
		for _, f := range tt.ObjFields {
			o.M[f.FieldName.Ident()] = randomValue(r, f.Type, depth-1)
		}
		return o
	case ast.OptionType:
		if r.Bool() {
			return vNone()
		}
		return vSome(randomValue(r, tt.Inner, depth-1))
	}
	return vInt(0)
}

func instByName(name string) (inst, bool) {
	for _, in := range instances("quick", 0) {
		if in.Name == name {
			return in, true
		}
	}
	return inst{}, false
}

// memberTable calls the real analyzer table.
func memberTable(t ast.Type) map[string]ast.Type {
	return t.Fields(sp0)
}

func sortedTypeKeys(m map[string]ast.Type) []string {
	out := make([]string, 0, len(m))
	for k := range m {
		out = append(out, k)
	}
	sort.Strings(out)
	return out
}

// ---------------------------------------------------------------------------------------------
// Argument pools
// ---------------------------------------------------------------------------------------------

func dedupe(xs []rv) []rv {
	seen := map[string]bool{}
	var out []rv
	for _, x := range xs {
		k := show(x)
		if !seen[k] {
			seen[k] = true
			out = append(out, x)
		}
	}
	return out
}

func isASCII(s string) bool {
	for i := 0; i < len(s); i++ {
		if s[i] >= 0x80 {
			return false
		}
	}
	return true
}

// indexLen is the length indices of the receiver are measured against. For strings with
// multi-byte characters the byte length is used as the upper end of the enumeration so that both
// readings (characters, bytes) have their boundaries covered.
func indexLen(recv rv) int {
	switch recv.K {
	case "list":
		return len(recv.L)
	case "str":
		if n := len(recv.S); n > utf8.RuneCountInString(recv.S) {
			return n
		}
		return utf8.RuneCountInString(recv.S)
	}
	return 1
}

func indexPool(recv rv) []rv {
	n := indexLen(recv)
	var out []rv
	for i := -n - 1; i <= n+1; i++ {
		out = append(out, vInt(int64(i)))
	}
	return out
}

// genericValues gives a small pool of values of a type.
func genericValues(t ast.Type) []rv {
	switch tt := t.(type) {
	case ast.IntType:
		return []rv{vInt(0), vInt(9), vInt(-1)}
	case ast.FloatType:
		return []rv{vFloat(0.5), vFloat(9.5)}
	case ast.BoolType:
		return []rv{vBool(true), vBool(false)}
	case ast.StringType:
		return []rv{vStr(""), vStr("a"), vStr("zz")}
	case ast.NullType:
		return []rv{vNull()}
	case ast.RangeType:
		return []rv{vRange(1, 3, false), vRange(5, 5, false)}
	case ast.ListType:
		g := genericValues(tt.Inner)
		out := []rv{vList()}
		if len(g) > 0 {
			out = append(out, vList(g[0]))
		}
		if len(g) > 1 {
			out = append(out, vList(g[0], g[1]))
		}
		return out
	case ast.ObjectType:
		var out []rv
		for k := 0; k < 2; k++ {
			o := rv{K: "obj", M: map[string]rv{}}
			for _, f := range tt.ObjFields {
				g := genericValues(f.Type)
				if len(g) == 0 {
					return nil
				}
				o.M[f.FieldName.Ident()] = g[k%len(g)]
			}
			out = append(out, o)
		}
		return dedupe(out)
	case ast.OptionType:
		out := []rv{vNone()}
		if g := genericValues(tt.Inner); len(g) > 0 {
			out = append(out, vSome(g[0]))
		}
		return out
	case ast.AnyObjectType:
		return nil
	case ast.UnknownType, ast.AnyType:
		return []rv{vInt(1), vStr("s"), vFloat(1.5), vBool(true), vList(vInt(1), vInt(2)), vObj("x", vInt(1))}
	}
	return nil
}

// poolFor returns the boundary pool of one parameter.
func poolFor(name string, t ast.Type, recv rv, thorough bool) []rv {
	switch tt := t.(type) {
	case ast.IntType:
		if name == "count" {
			out := []rv{vInt(-1), vInt(0), vInt(1), vInt(3)}
			if thorough {
				out = append(out, vInt(2), vInt(10))
			}
			return out
		}
		return indexPool(recv)
	case ast.StringType:
		first, self := "", ""
		if recv.K == "str" {
			self = recv.S
			for _, r := range recv.S {
				first = string(r)
				break
			}
		}
		var out []rv
		switch name {
		case "sep", "separator":
			out = []rv{vStr(""), vStr(","), vStr("zz"), vStr(", ")}
		case "old":
			out = []rv{vStr(""), vStr("a"), vStr("zz"), vStr(first), vStr(self)}
		case "new":
			out = []rv{vStr(""), vStr("X"), vStr("yy")}
		case "substring":
			out = []rv{vStr(""), vStr(first), vStr(self), vStr("zz"), vStr(self + "x")}
		case "other":
			out = []rv{vStr(""), vStr(self), vStr("kitten"), vStr("abd")}
		case "key":
			out = []rv{vStr("a"), vStr("zz"), vStr(""), vStr("keys")}
			for _, k := range sortedKeys(recv.M) {
				out = append(out, vStr(k))
			}
		case "message":
			out = []rv{vStr("msg"), vStr("")}
		default:
			out = []rv{vStr(""), vStr("a"), vStr("zz"), vStr(self)}
		}
		return dedupe(out)
	case ast.ListType:
		// a list-typed parameter: the receiver itself when it has that type (concat with itself)
		var out []rv
		if recv.K == "list" && len(recv.L) > 0 {
			if typeText(typeOfRv(recv)) == typeText(tt) {
				out = append(out, recv.clone())
			} else if typeText(typeOfRv(recv.L[0])) == typeText(tt) {
				out = append(out, recv.L[0].clone(), recv.L[len(recv.L)-1].clone())
			}
		}
		out = append(out, genericValues(tt)...)
		return dedupe(out)
	}
	// element / fallback / value parameters
	var out []rv
	if recv.K == "list" && len(recv.L) > 0 {
		out = append(out, recv.L[0].clone(), recv.L[len(recv.L)-1].clone())
	}
	if recv.K == "opt" && recv.O != nil {
		out = append(out, recv.O.clone())
	}
	out = append(out, genericValues(t)...)
	return dedupe(out)
}

// maxTuples caps the argument tuples per (receiver, member): 60 (quick), 200 (thorough).
func maxTuples(thorough bool) int {
	if thorough {
		return 200
	}
	return 60
}

// argTuples is the cross product of the parameter pools (capped at maxTuples() by a deterministic
// stride that keeps the first and the last tuple).
func argTuples(params []ast.FunctionTypeParam, recv rv, thorough bool) [][]rv {
	tuples := [][]rv{{}}
	for _, p := range params {
		pool := poolFor(p.Name.Ident(), p.Type, recv, thorough)
		if len(pool) == 0 {
			return nil
		}
		var next [][]rv
		for _, t := range tuples {
			for _, x := range pool {
				nt := append(append([]rv{}, t...), x)
				next = append(next, nt)
			}
		}
		tuples = next
	}
	return strideTuples(tuples, maxTuples(thorough))
}

// strideTuples keeps at most max tuples by a deterministic stride that keeps the first and the last.
func strideTuples(tuples [][]rv, max int) [][]rv {
	if len(tuples) <= max {
		return tuples
	}
	var out [][]rv
	for k := 0; k < max; k++ {
		out = append(out, tuples[k*(len(tuples)-1)/(max-1)])
	}
	return out
}

// ---------------------------------------------------------------------------------------------
// Programs
// ---------------------------------------------------------------------------------------------

// payload is one case.
type payload struct {
	Part string `json:"part"` // api | call | field | assign | idx-int | idx-lit | idx-dyn | idx-set-int | idx-set-lit | arrow
	// Backend "both": the program runs on the VM and on the interpreter and the two answers are
	// compared where the reference model leaves the choice (value or interrupt) to the implementation
	Backend string `json:"backend"` // vm | tree
	Inst    string `json:"inst"`
	Recv    rv     `json:"recv"`
	Member  string `json:"member,omitempty"`
	Args    []rv   `json:"args,omitempty"`
	Form    string `json:"form,omitempty"`   // let | stmt | bound | chain
	Origin  string `json:"origin,omitempty"` // how the receiver is constructed: "" literal | json | cast | loop | as | fresh | zero | zerof | zerox
	Print   bool   `json:"print,omitempty"`
	// Twin: the program binds a second, untouched value `twin` built like the receiver and probes it last
	Twin bool   `json:"twin,omitempty"`
	Src  string `json:"src,omitempty"`
	// Recvs: all representative receivers (part api)
	Recvs []rv `json:"recvs,omitempty"`
}

// jsonable reports whether a value can be written as JSON text that parse_json maps back onto it
// (no floats: `[1.0]` comes back as ints; no ranges, functions). An empty option is the JSON null;
// Some(x) is written as x and comes back as Some(x) only where the cast target says `?T`, i.e. not
// below an any-object.
func jsonable(v rv) bool { return jsonableIn(v, v.K != "anyobj") }

func jsonableIn(v rv, typed bool) bool {
	for _, x := range v.L {
		if x.K == "anyobj" {
			return false
		}
	}
	for _, x := range v.M {
		if x.K == "anyobj" {
			// the nested objects of parsed JSON are typed objects
			return false
		}
	}
	switch v.K {
	case "int", "bool":
		return true
	case "str":
		return !strings.ContainsAny(v.S, "\"\\'\n") && isASCII(v.S)
	case "opt":
		if v.O == nil {
			return true
		}
		return typed && v.O.K != "opt" && jsonableIn(*v.O, typed)
	case "list":
		for _, x := range v.L {
			if !jsonableIn(x, typed) {
				return false
			}
		}
		return true
	case "obj", "anyobj":
		for _, x := range v.M {
			if !jsonableIn(x, typed && v.K == "obj") {
				return false
			}
		}
		return true
	}
	return false
}

func jsonText(v rv) string {
	switch v.K {
	case "int":
		return fmt.Sprint(v.I)
	case "bool":
		return fmt.Sprint(v.B)
	case "str":
		return "\"" + v.S + "\""
	case "opt":
		if v.O == nil {
			return "null"
		}
		return jsonText(*v.O)
	case "list":
		parts := make([]string, len(v.L))
		for i, x := range v.L {
			parts[i] = jsonText(x)
		}
		return "[" + strings.Join(parts, ", ") + "]"
	case "obj", "anyobj":
		parts := []string{}
		for _, k := range sortedKeys(v.M) {
			parts = append(parts, "\""+k+"\": "+jsonText(v.M[k]))
		}
		return "{" + strings.Join(parts, ", ") + "}"
	}
	panic("c18: jsonText of " + v.K)
}

// originsOf lists the ways a receiver is constructed: "" = literal (any-objects: `new { ? }` plus
// set calls), "json" = `'<text>'.parse_json() as T`, "cast" = object literal cast to `{ ? }`.
// The property speaks about every runtime value of a type, whatever produced it.
func originsOf(recv rv) []string {
	out := []string{""}
	switch recv.K {
	case "list", "obj", "anyobj":
		if jsonable(recv) && len(recv.L)+len(recv.M) >= 2 {
			out = append(out, "json")
		}
	}
	if recv.K == "obj" && !literalOK(recv) && len(out) > 1 {
		// a field named like a reserved member: no literal exists, only parse_json delivers the value
		out = out[1:]
	}
	asObj := recv.clone()
	asObj.K = "obj"
	if recv.K == "anyobj" && len(recv.M) >= 1 && literalOK(asObj) {
		ok := true
		for _, x := range recv.M {
			if typeText(typeOfRv(x)) == "" {
				ok = false
			}
		}
		if ok {
			out = append(out, "cast")
		}
	}
	if recv.K == "anyobj" && len(out) > 1 {
		for _, x := range recv.M {
			if x.K == "null" {
				// a null cannot be handed to set(): only a cast / parse_json delivers such a value
				out = out[1:]
				break
			}
		}
	}
	return out
}

// extraOriginsOf lists further producers of the same value: "loop" = the value arrives as the
// variable of a `for` loop over a one-element list (the runtimes hand out a copy of the element),
// "as" = the value went through a cast to its own type (the runtimes rebuild it element by element).
// Together with parse_json these are the places where the cells of a compound value are created by
// the value libraries and not by the literal.
// "fresh" = the construction (the literal; for any-objects `new { ? }` plus the set calls) is the body
// of a helper function, and the receiver, the twin and one more value made after the operation are
// three products of that one construction site: every evaluation of a literal has to hand out a
// value of its own, whatever was done to the products of earlier evaluations.
// zeroOriginsOf lists the producers of a value the program never writes down: the start value the
// runtime makes up for a singleton the host does not provide (each runtime has its own table of
// them). "zero" = the receiver is a singleton of the instance's type, "zerof" = a field of a singleton
// object (the start value of the object is made field by field), "zerox" = the singleton arrives
// through an extraction parameter of the function that performs the operation. Only the receiver that
// is the start value of its type can be produced like this.
func zeroOriginsOf(in inst, recv rv) []string {
	z, ok := zeroOf(in.T)
	if !ok || typeText(in.T) == "" || !eq(z, recv) {
		return nil
	}
	return []string{"zero", "zerof", "zerox"}
}

func extraOriginsOf(in inst, recv rv) []string {
	if typeText(in.T) == "" || !literalOK(recv) {
		return nil
	}
	for _, o := range originsOf(recv) {
		if o == "" {
			switch recv.K {
			case "list", "obj":
				return []string{"loop", "as", "fresh"}
			case "opt":
				return []string{"loop", "as"}
			case "anyobj":
				return []string{"loop", "fresh"}
			case "range":
				return []string{"loop"}
			}
		}
	}
	return nil
}

// bindValue renders the statements that bind `name` to the value through the given origin; opened
// is the number of blocks left open (the rest of the program runs inside the loop).
func bindValue(c *litCtx, name string, in inst, recv rv, origin string) (out []string, opened int) {
	tt := typeText(in.T)
	tmp := func(i int) string {
		if name == "recv" {
			return fmt.Sprintf("s%d", i)
		}
		return fmt.Sprintf("%s_s%d", name, i)
	}
	literalIn := func(c *litCtx, name string) []string {
		if recv.K == "anyobj" {
			out := []string{"let " + name + ": { ? } = new { ? };"}
			for i, k := range sortedKeys(recv.M) {
				v := recv.M[k]
				out = append(out, fmt.Sprintf("let %s: %s = %s;", tmp(i), typeText(typeOfRv(v)), c.lit(v, typeOfRv(v), true)))
				out = append(out, fmt.Sprintf("%s.set(%s, %s);", name, strLit(k), tmp(i)))
			}
			return out
		}
		return []string{fmt.Sprintf("let %s: %s = %s;", name, tt, c.lit(recv, in.T, true))}
	}
	literal := func(name string) []string { return literalIn(c, name) }
	switch origin {
	case "zero":
		c.tops = append(c.tops, fmt.Sprintf("$Z%s = %s;", name, tt))
		return []string{fmt.Sprintf("let %s: %s = $Z%s;", name, tt, name)}, 0
	case "zerof":
		c.tops = append(c.tops, fmt.Sprintf("$Z%s = { n: int, v: %s };", name, tt))
		return []string{fmt.Sprintf("let %s: %s = $Z%s.v;", name, tt, name)}, 0
	case "zerox":
		c.tops = append(c.tops, fmt.Sprintf("$Z%s = %s;", name, tt))
		c.params = append(c.params, fmt.Sprintf("%s: $Z%s", name, name))
		return nil, 0
	case "fresh":
		if len(c.fns) == 0 {
			fc := &litCtx{}
			stmts := literalIn(fc, "made")
			fn := []string{"fn mk() -> " + tt + " {"}
			for _, l := range append(fc.pre, stmts...) {
				fn = append(fn, "    "+l)
			}
			c.fns = append(c.fns, strings.Join(append(fn, "    made", "}"), "\n"))
			// one more product after the operation on the receiver
			c.tail = append(c.tail, fmt.Sprintf("let late: %s = mk();", tt), "probe(late);")
		}
		return []string{fmt.Sprintf("let %s: %s = mk();", name, tt)}, 0
	case "json":
		return []string{fmt.Sprintf("let %s: %s = %s.parse_json() as %s;", name, tt, strLit(jsonText(recv)), tt)}, 0
	case "cast":
		o := recv.clone()
		o.K = "obj"
		// the literal is not bound with an annotation: empty lists and `none` are hoisted
		return []string{fmt.Sprintf("let %s: { ? } = %s as { ? };", name, c.lit(o, typeOfRv(o), false))}, 0
	case "as":
		return append(literal(name+"_0"), fmt.Sprintf("let %s: %s = %s_0 as %s;", name, tt, name, tt)), 0
	case "loop":
		out := literal(name + "_0")
		out = append(out, fmt.Sprintf("let %s_src: [%s] = [%s_0];", name, tt, name), fmt.Sprintf("for %s in %s_src {", name, name))
		return out, 1
	}
	return literal(name), 0
}

// recvSetup renders the statements that bind `recv` and `twin` (a second value constructed in the
// same way, which no statement of the program touches), followed by the marker probe(true) that
// tells the oracle that both were constructed.
func recvSetup(c *litCtx, in inst, recv rv, origin string) []string {
	out, n1 := bindValue(c, "recv", in, recv, origin)
	tw, n2 := bindValue(c, "twin", in, recv, origin)
	out = append(out, tw...)
	c.open += n1 + n2
	return append(out, "probe(true);")
}

func renderable(t ast.Type) bool {
	switch tt := t.(type) {
	case ast.IntType, ast.FloatType, ast.BoolType, ast.StringType, ast.RangeType:
		return true
	case ast.ListType:
		return renderable(tt.Inner)
	case ast.OptionType:
		return renderable(tt.Inner)
	}
	return false
}

func assemble(c *litCtx, body []string) string {
	var sb strings.Builder
	for _, f := range c.tops {
		sb.WriteString(f + "\n")
	}
	for _, f := range c.fns {
		sb.WriteString(f + "\n")
	}
	if len(c.params) > 0 {
		// the program proper is the body of a function that receives the singletons through
		// extraction parameters
		sb.WriteString("fn op(" + strings.Join(c.params, ", ") + ") {\n")
	} else {
		sb.WriteString("fn main() {\n")
	}
	for _, l := range c.pre {
		sb.WriteString("    " + l + "\n")
	}
	for _, l := range body {
		sb.WriteString("    " + l + "\n")
	}
	for _, l := range c.tail {
		sb.WriteString("    " + l + "\n")
	}
	for k := 0; k < c.open; k++ {
		sb.WriteString("    }\n")
	}
	sb.WriteString("}\n")
	if len(c.params) > 0 {
		sb.WriteString("fn main() {\n    op();\n}\n")
	}
	return sb.String()
}

// isOptAny reports whether t is `?any`.
func isOptAny(t ast.Type) bool {
	ot, ok := t.(ast.OptionType)
	if !ok {
		return false
	}
	k := ot.Inner.Kind()
	return k == ast.AnyTypeKind || k == ast.UnknownTypeKind
}

// castFor returns the ` as T` suffix needed to use an any-typed result.
func castFor(adv ast.Type, e expect) string {
	needs := false
	opt := false
	switch tt := adv.(type) {
	case ast.AnyType, ast.UnknownType:
		needs = true
	case ast.OptionType:
		if k := tt.Inner.Kind(); k == ast.AnyTypeKind || k == ast.UnknownTypeKind {
			needs, opt = true, true
		}
	}
	if !needs {
		return ""
	}
	t := "int"
	if e.Mode == mValue || e.Mode == mEither {
		if opt {
			if e.Val.K == "opt" && e.Val.O != nil {
				t = typeText(typeOfRv(*e.Val.O))
			}
		} else {
			t = typeText(typeOfRv(e.Val))
		}
	}
	if opt {
		t = "?" + t
	}
	return " as " + t
}

// checkType is the type the probed result is checked against: the advertised type, or the cast
// target when the advertised type is `any` / `?any`.
func checkType(adv ast.Type, e expect) ast.Type {
	switch tt := adv.(type) {
	case ast.AnyType, ast.UnknownType:
		if e.Mode == mValue || e.Mode == mEither {
			return typeOfRv(e.Val)
		}
	case ast.OptionType:
		if k := tt.Inner.Kind(); k == ast.AnyTypeKind || k == ast.UnknownTypeKind {
			if (e.Mode == mValue || e.Mode == mEither) && e.Val.K == "opt" && e.Val.O != nil {
				return tOpt(typeOfRv(*e.Val.O))
			}
		}
	}
	return adv
}

// callProgram renders the program of a member call / field read.
func callProgram(in inst, recv rv, origin string, member string, mt ast.Type, args []rv, form string) (src string, print bool) {
	c := &litCtx{}
	body := recvSetup(c, in, recv, origin)
	ft, isFn := mt.(ast.FunctionType)
	e := modelMember(recv, member, args)
	if !isFn {
		cast := castFor(mt, e)
		body = append(body, fmt.Sprintf("let r = recv.%s%s;", member, cast), "probe(r, recv, twin);")
		if renderable(mt) {
			body = append(body, "println(r);")
			print = true
		}
		return assemble(c, body), print
	}
	names := []string{}
	if np, ok := ft.Params.(ast.NormalFunctionTypeParamKindIdentifier); ok {
		for i, p := range np.Params {
			name := fmt.Sprintf("a%d", i)
			at := p.Type
			tt := typeText(at)
			if tt == "" {
				at = typeOfRv(args[i])
				tt = typeText(at)
			}
			body = append(body, fmt.Sprintf("let %s: %s = %s;", name, tt, c.lit(args[i], at, true)))
			names = append(names, name)
		}
	}
	call := fmt.Sprintf("recv.%s(%s)", member, strings.Join(names, ", "))
	switch form {
	case "stmt":
		body = append(body, call+";", "probe(recv, twin);")
	case "bound":
		body = append(body, "let r = "+call+";", "let q = [r];", "probe(q, recv, twin);")
	case "chain":
		// `?any` results: no cast (a cast to ?T would wrap a bare value into Some and mask a member
		// that forgot the option); the structure is observed through the option's own to_string
		body = append(body, "let r = "+call+".to_string();", "probe(r, recv, twin);", "println(r);")
		print = true
	default:
		body = append(body, "let r = "+call+castFor(ft.ReturnType, e)+";", "probe(r, recv, twin);")
		if renderable(ft.ReturnType) {
			body = append(body, "println(r);")
			print = true
		}
	}
	return assemble(c, body), print
}

// indexProgram renders recv[idx] / recv->key.
func indexProgram(in inst, recv rv, origin string, part string, idx rv, form string) (src string, print bool) {
	c := &litCtx{}
	body := recvSetup(c, in, recv, origin)
	if part == "arrow" && form == "chain" {
		body = append(body, "let r = (recv->"+idx.S+").to_string();", "probe(r, recv, twin);", "println(r);")
		return assemble(c, body), true
	}
	switch part {
	case "idx-int":
		body = append(body, fmt.Sprintf("let i: int = %s;", c.lit(idx, tInt(), true)), "let r = recv[i];", "probe(r, recv, twin);")
		if rt := indexResultType(in, recv, part, idx); rt != nil && renderable(rt) {
			body = append(body, "println(r);")
			print = true
		}
	case "idx-lit":
		body = append(body, fmt.Sprintf("let r = recv[%s];", strLit(idx.S)), "probe(r, recv, twin);")
	case "idx-dyn":
		e := modelIndex(recv, idx)
		body = append(body, fmt.Sprintf("let k: str = %s;", strLit(idx.S)), "let r = recv[k]"+castFor(ast.NewAnyType(sp0), e)+";", "probe(r, recv, twin);")
	case "arrow":
		e := modelArrow(recv, idx.S)
		body = append(body, "let r = (recv->"+idx.S+")"+castFor(tOpt(ast.NewAnyType(sp0)), e)+";", "probe(r, recv, twin);")
	}
	return assemble(c, body), print
}

// otherValue picks a value of type t that differs from cur (the value an assignment stores).
func otherValue(t ast.Type, cur rv) (rv, bool) {
	for _, g := range genericValues(t) {
		if !eq(g, cur) {
			return g, true
		}
	}
	return rv{}, false
}

// assignProgram renders `recv.member = v;` / `recv[idx] = v;` followed by reading the place back.
func assignProgram(in inst, recv rv, origin string, part string, member string, idx rv, v rv, vt ast.Type) (src string, print bool) {
	c := &litCtx{}
	body := recvSetup(c, in, recv, origin)
	body = append(body, fmt.Sprintf("let v: %s = %s;", typeText(vt), c.lit(v, vt, true)))
	place := "recv." + member
	switch part {
	case "idx-set-int":
		body = append(body, fmt.Sprintf("let i: int = %s;", c.lit(idx, tInt(), true)))
		place = "recv[i]"
	case "idx-set-lit":
		place = "recv[" + strLit(idx.S) + "]"
	}
	body = append(body, place+" = v;", "let r = "+place+";", "probe(r, recv, twin);")
	if renderable(vt) {
		body = append(body, "println(r);")
		print = true
	}
	return assemble(c, body), print
}

// indexResultType is the type the analyzer gives to the index expression.
func indexResultType(in inst, recv rv, part string, idx rv) ast.Type {
	switch part {
	case "idx-int":
		switch tt := in.T.(type) {
		case ast.ListType:
			return tt.Inner
		case ast.StringType:
			return tStr()
		}
	case "idx-lit":
		if ot, ok := in.T.(ast.ObjectType); ok {
			for _, f := range ot.ObjFields {
				if f.FieldName.Ident() == idx.S {
					return f.Type
				}
			}
		}
	case "idx-dyn":
		return ast.NewAnyType(sp0)
	case "arrow":
		return tOpt(ast.NewAnyType(sp0))
	}
	return nil
}

// ---------------------------------------------------------------------------------------------
// Constructs, tags and poisons (AGENT_GUIDE "Findings")
// ---------------------------------------------------------------------------------------------

// construct names the (backend, type, member) of a case: the site part of failure signatures.
func construct(p *payload) string {
	op := "." + p.Member
	switch p.Part {
	case "idx-int", "idx-lit", "idx-dyn":
		op = "[]"
	case "idx-set-int", "idx-set-lit":
		op = "[]="
	case "assign":
		op = "." + p.Member + "="
	case "arrow":
		op = "->"
	}
	return p.Backend + ":" + p.Inst + op
}

func hasNegArg(p *payload) bool {
	for _, a := range p.Args {
		if a.K == "int" && a.I < 0 {
			return true
		}
	}
	return false
}

func recvMultibyte(p *payload) bool { return p.Recv.K == "str" && !isASCII(p.Recv.S) }

const poisonCap = 40

// tagsFor returns the tags of a case and whether one of its poisons is open.
func tagsFor(p *payload) (tags []string, openKF string) {
	tags = []string{"b:" + p.Backend, "t:" + p.Inst, "part:" + p.Part}
	if p.Origin != "" {
		tags = append(tags, "origin:"+p.Origin)
	}
	if p.Member != "" {
		tags = append(tags, "m:"+p.Member)
	}
	for _, po := range poisons {
		if po.Match(p) {
			tags = append(tags, po.Tag)
			if openKF == "" && fw.KFOpen(po.KF) {
				openKF = po.KF
			}
		}
	}
	return tags, openKF
}
