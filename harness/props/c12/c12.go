// Package c12 checks property C12 — "The dynamic-to-static type boundary is sound"
// (DESIGN.md §3 C12) by runtime monitoring: every (value, target type) pair of the bounded
// universe hv/valuni is pushed across the real boundary code of /repo
//
//	route api       value.DeepCast of runtime/value (lib vm) and interpreter/value (lib tree),
//	                allowCasts=false and true
//	route as / let  generated programs `'<json>'.parse_json() as T` / `let x: T = '<json>'.parse_json()`
//	                run on the VM (lib vm) and on the tree-walking interpreter (lib tree)
//	route letget    `let x: ?T = ao.get("k")` (initialiser of static type ?any)
//	route letx      annotated lets whose initialiser is a composite expression with ?any parts: list and
//	                object literals, `[]`, `none`, and reads of an any-object wrapped in grouping, block,
//	                if, match and try expressions (letx.go)
//	                — and the same composite expressions as the base of a cast, `(<composite>) as T` (statement kind as)
//	route seq       a dynamic value that stays reachable — a field of an any-object, or a host import declared
//	                `any`, `[any]`, `?any`, `{ a: any }`, `[[any]]`, … — crossed twice in a row by `as` / annotated
//	                lets into T and a one-step variation of T; the source is read again afterwards (seq.go)
//	route alias     the target type is written as a type alias (`dyn as A`, `let x: [A] = dyn`) which is declared
//	                at several nesting levels — module / imported, function body, nested blocks of every kind —
//	                with different right hand sides; crossings before and after the declarations and after inner
//	                blocks have been closed; each one judged against the declaration a lexical-scope reference
//	                model says is in force there (alias.go)
//	route host-arg  runtime.VM.SpawnSync of `fn id(x: T) -> T { probe(x); x }` with the value as argument
//	route host-args SpawnSync / SpawnAsync / in-language `spawn` of a function with 2-3 parameters of different
//	                types and pairwise different arguments (hostargs.go)
//	route host-ret  runtime.VM.SpawnSync of `fn mk() -> U { <literal> }` with the host declaring return type T
//
// On route api the operand handed to DeepCast is read again after the cast: it must be what it was.
//
// and the observed outcome {admit-unchanged, admit-converted, reject-with-path, refused} is judged
// against the reference predicates of valuni (HasType, Conforms, Convert, Offences), which share no
// code with cast.go.
package c12

import (
	"fmt"
	"sort"
	"strings"

	"hv/fw"
	vu "hv/valuni"
)

type c12 struct{}

func init() { fw.Register(c12{}) }

func (c12) ID() string { return "C12" }

func (c12) Info(tier string) fw.Info {
	return fw.Info{
		Level: "exploration",
		Rule: "cases: one per (route, library/backend, target type T) over every type of depth <= 2 of {int,float,bool,str,null,range,[T],{a:T},{a:T,b:U},{?},?T} " +
			"(thorough: plus seed-sampled depth-3 types); each case pushes the typed pool of T, every single-fault near miss of every typed value " +
			"(wrong kind at every position, missing/extra field, object<->any-object, Some<->plain, shortened list) and one value of every foreign kind " +
			"across the boundary, with allowCasts false and true (route api: all pairs; program and host routes: a seed-chosen sample that always " +
			"contains conforming and non-conforming pairs); route letx additionally per leaf form {get,arrow,group,block,if,match,try} (quick: one seed-chosen form per backend, two per type; thorough: three per backend, six per type) " +
			"for every type with an option at the top or directly inside a top-level list/object literal, pushing the pairs that agree with T outside their Some(..) contents, in a local let, as the base of a cast (`(<composite>) as T`, explicit; quick: the types alternate between the back ends) and (constant initialisers, typed values only; quick: a quarter of the types) in a global let; " +
			"route json per (backend, type T; quick: one seed-chosen crossing of {as, let, letget (option types)}, thorough: all): the JSON-carriable candidates of T that contain a number, with one seed-chosen number respelled by a literal of a pool (the int limits and their neighbours, integer-looking literals of 19-30 digits beyond the int range, integers beyond 2^53, fraction/exponent spellings incl. integral ones, zeros, plus 24 seed-generated 18-21 digit and mantissa/exponent literals) and seed-chosen insignificant white space; the value the text denotes (reference number reader) is judged like on routes as / let; " +
			"route seq per (backend, type T, source): source host = a builtin import whose declared type is T with `any` at a seed-chosen depth d (d=0 `any`, d=1 `[any]`/`?any`/`{a: any}`, ...) and whose value agrees with that declaration, source field (option types) = `ao.get(k)`/`ao->k` of an any-object; the same source is crossed twice (each crossing `as` or an annotated let, seed-chosen) into T and a seed-chosen one-step variation of T (other scalar, U<->?U, object->any-object at one position below the `any`), in either order, with a seed-chosen sample (quick 3, thorough 16 values) of the candidates of both types balanced over {conforms to both, one, none}; each crossing is judged on its own and the source is read again after both; " +
			"route alias per (backend, type T): a program in which the alias name A is declared at a seed-chosen non-empty subset of {module (own or imported from a second module), body of main, a block in main, a block inside that block} (block kinds {block,if,else,for,loop,while,closure,match,try}, seed-chosen) standing for T and seed-chosen one-step variations of T (or of one child of T, the crossing then says `[A]`, `?A`, `{ a: A, .. }`), neighbouring declarations differing, optionally a second alias `type B = ..A..` next to one declaration; up to 4 crossings (`dyn as ..` or annotated let, seed-chosen) out of: in a helper function that sees the module only, before and after each level's declaration, after an inner block has ended; values (quick 3, thorough 12) of the host import `dyn: any` balanced over {the declarations disagree, all admit, none admits}; each crossing is judged against the type its name stands for according to a lexical-scope resolver (innermost enclosing declaration that precedes the crossing); " +
			"route api also reads the operand again after every DeepCast; " +
			"route host-args per type T0: a function with 2-3 parameters (T0 and seed-chosen types of the universe) invoked (quick 4, thorough 24 times) through SpawnSync, SpawnAsync or the in-language spawn with pairwise different arguments, every second invocation with exactly one non-conforming argument at a seed-chosen position. non-trivial = the case observed at least one admitted and at least one rejected/refused pair; " +
			"distinct = distinct (route, lib, type, pair list)",
		Assumptions: []string{
			"function-typed values are outside the universe (the analyzer forbids casting them)",
			"permitted conversions are mandatory only under an explicit `as` (allowCasts=true); without it a value needing a conversion may be rejected or admitted-converted, a value already of type T must be admitted unchanged",
			"a rejection names the offending path when its message contains the path of one of the reference offences in the notation of cast.go (`.field`, `[index]`, option steps optional); an offence at the operand itself needs no path; a missing/extra field is named by its path or by its quoted name",
			"host boundary: a Go panic on the calling goroutine before any callee instruction executed counts as a refusal (DESIGN.md §3 C12)",
			"program routes only carry JSON-expressible values (none, int, non-integral float, bool, str without escapes, list, object)",
			"route json: a JSON number literal denotes its mathematical value; it is an int iff it is written as an integer (sign, digits) and lies in the 64-bit int range, otherwise the nearest float (an integer-looking literal beyond the int range has no int value); a literal with a fraction or exponent whose value is an integer in the int range may be read as float or as int (the observation must be sound for one reading); literals a float cannot hold (overflow) are outside the workload",
			"route seq / route api: a cast does not modify the dynamic value it is applied to — the value read again after the crossing (any-object field, host value, DeepCast operand) is identical to what it was, whether the crossing admitted or rejected it; the second crossing is judged against the reference predicates for the ORIGINAL value",
			"route seq, source host: the host is honest — the provided value has the declared type outside its `any` parts; nothing is assumed about the parts declared `any`",
			"route host-args: refusal as on route host-arg (no callee instruction executes); an admitted call binds parameter i to the value validated for argument i: it has type Ti, equals argument i if that already had type Ti and its permitted conversion otherwise; an invocation whose arguments all conform but need a conversion may be refused (no explicit cast at the host boundary)",
			"route alias: a type alias is lexically scoped — at a crossing the name stands for the declaration of the innermost enclosing scope (block, function body, module incl. type imports) that precedes it; an alias whose right hand side mentions another alias is bound where it is declared; the type T of the property is that structural type",
			"route letx: the statically typed skeleton of the initialiser (list/object literal, non-option fields) agrees with T, the dynamically typed content sits inside Some(..) at option positions; a rejection without path by the interpreter is the same finding as on route let (signature route `let`)",
		},
		CaseTimeoutS: 120,
		BatchSize:    40,
	}
}

// Known findings of this property (names used with fw.KFOpen) and the case tag / construct each
// one poisons. See FINDINGS.md.
const (
	kfOptWrap   = "KF-c12-opt-wrap-unchecked"
	kfTreeAny   = "KF-c12-tree-anyobj-rejected"
	kfVMPathIdx = "KF-c12-vm-path-index"
	kfTreePath  = "KF-c12-tree-no-path"
	kfTreeFatal = "KF-c12-tree-cast-fatal"
	kfHostConv  = "KF-c12-host-arg-unconverted"
	// an expression of static type ?any is accepted wherever ?T is expected; only an annotated let
	// validates it at run time (FINDINGS.md §7)
	kfOptAnyFlow = "KF-c12-optany-flow"
	cOptAnyFlow  = "optany-flow"

	cOptWrap   = "opt-wrap-unchecked"
	cTreeAny   = "tree-anyobj"
	cVMPathIdx = "vm-path-index"
	cTreePath  = "tree-path"
	cTreeFatal = "tree-fatal"
	cHostConv  = "host-arg-unconverted"
)

var kfOf = map[string]string{
	cOptWrap: kfOptWrap, cTreeAny: kfTreeAny, cVMPathIdx: kfVMPathIdx,
	cTreePath: kfTreePath, cTreeFatal: kfTreeFatal, cHostConv: kfHostConv,
}

// openConstructs returns the constructs poisoned by findings listed as open.
func openConstructs() []string {
	var out []string
	for c, kf := range kfOf {
		if fw.KFOpen(kf) {
			out = append(out, c)
		}
	}
	sort.Strings(out)
	return out
}

// pairSpec is one (value, mode) to push against the case's type.
type pairSpec struct {
	V        vu.Val `json:"v"`
	Explicit bool   `json:"x,omitempty"`
	// Route json (jsonlit.go): the JSON text that is parsed, the respelled number literal in it, and
	// the further values the text may denote (V is the primary reading).
	Text string   `json:"j,omitempty"`
	Lit  string   `json:"l,omitempty"`
	Alt  []vu.Val `json:"alt,omitempty"`
}

type payload struct {
	Route string  `json:"route"` // api | as | let | letget | letx | json | seq | alias | host-arg | host-args | host-ret
	Lib   string  `json:"lib"`   // vm | tree
	T     vu.Type `json:"t"`
	// Gen mode (Pairs == nil): the worker enumerates valuni.Candidates(T, Width) x modes, leaves out
	// pairs containing a construct listed in Avoid, and (program/host routes) samples Max pairs with
	// the generator seeded by Seed.
	Width int      `json:"w,omitempty"`
	Avoid []string `json:"avoid,omitempty"`
	Max   int      `json:"max,omitempty"`
	Seed  uint64   `json:"seed,omitempty"`
	// Route letx: leaf form (letx.go leafForms) and statement kind ("" = let).
	// Route json: Stmt = the crossing (as | let | letget).
	Form string `json:"form,omitempty"`
	Stmt string `json:"stmt,omitempty"`
	// Route seq: where the dynamic value lives (seq.go: field | host).
	Source string `json:"source,omitempty"`
	// Explicit mode: exactly these pairs.
	Pairs []pairSpec `json:"pairs,omitempty"`
}

// constructs names the poisonable boundary situations a pair contains on a given route/library.
func constructs(route, lib string, v vu.Val, t vu.Type, explicit bool) []string {
	var out []string
	offs := vu.Offences(v, t, explicit)
	conf := len(offs) == 0
	if vu.WrapNeedsWork(v, t) {
		out = append(out, cOptWrap)
	}
	if lib == "tree" && vu.MeetsAnyObjValue(v, t) {
		out = append(out, cTreeAny)
	}
	if !conf {
		anyIdx, anyAddr := false, false
		for _, o := range offs {
			if o.Path.HasIndex() {
				anyIdx = true
			}
			if o.Path.Addressable() {
				anyAddr = true
			}
		}
		if lib == "vm" && anyIdx && (route == "api" || isProgRoute(route)) {
			out = append(out, cVMPathIdx)
		}
		if lib == "tree" && (route == "api" || isProgRoute(route)) && anyAddr {
			out = append(out, cTreePath)
		}
	}
	// the interpreter reports every rejection as a fatal error: any pair it may reject (a
	// non-conforming one, or one that needs a conversion without an explicit cast) is affected
	if lib == "tree" && isProgRoute(route) && (!conf || (!explicit && !vu.HasType(v, t))) {
		out = append(out, cTreeFatal)
	}
	if route == "host-arg" && conf && !vu.HasType(v, t) {
		out = append(out, cHostConv)
	}
	return out
}

// isProgRoute: the crossing happens inside a generated program (`as` or an annotated let).
func isProgRoute(route string) bool {
	return route == "as" || route == "let" || route == "letget" || route == "letx" || route == "json"
}

func hasAny(xs []string, ys []string) bool {
	for _, x := range xs {
		for _, y := range ys {
			if x == y {
				return true
			}
		}
	}
	return false
}

func routeModes(route, stmt string) []bool {
	switch route {
	case "api":
		return []bool{false, true}
	case "as":
		return []bool{true}
	case "letx", "json":
		if stmt == "as" {
			return []bool{true}
		}
	}
	return []bool{false}
}

// routeCarries reports whether the route can transport the value at all.
func routeCarries(route, stmt string, t vu.Type, v vu.Val) bool {
	switch route {
	case "letx":
		return letxCarries(stmt, t, v)
	case "json":
		return jsonCarries(stmt, v)
	case "as", "let":
		_, ok := vu.JSONText(v)
		return ok
	case "letget":
		// the value travels as `ao.get("k")` (a ?any holding it): JSON null would be read back as a
		// null value inside Some, which the plain let route does not model
		_, ok := vu.JSONText(v)
		return ok && v.K != vu.VNull && v.K != vu.VNone
	case "host-ret":
		nt, ok := vu.NaturalType(v)
		if !ok {
			return false
		}
		_, ok = vu.Literal(v, nt)
		return ok
	}
	return true
}

// enumerate lists the pairs of a gen-mode case (before sampling).
func enumerate(p payload) []pairSpec {
	if p.Route == "json" {
		return enumerateJSON(p)
	}
	var out []pairSpec
	for _, v := range vu.Candidates(p.T, p.Width) {
		if !routeCarries(p.Route, p.Stmt, p.T, v) {
			continue
		}
		for _, ex := range routeModes(p.Route, p.Stmt) {
			if len(p.Avoid) > 0 && hasAny(constructs(p.Route, p.Lib, v, p.T, ex), p.Avoid) {
				continue
			}
			out = append(out, pairSpec{V: v, Explicit: ex})
		}
	}
	return out
}

// sample picks up to max pairs, half conforming and half non-conforming where possible.
func sample(ps []pairSpec, t vu.Type, max int, seed uint64) []pairSpec {
	if max <= 0 || len(ps) <= max {
		return ps
	}
	r := fw.NewRng(seed)
	var conf, non []pairSpec
	for _, q := range ps {
		if vu.Conforms(q.V, t, q.Explicit) {
			conf = append(conf, q)
		} else {
			non = append(non, q)
		}
	}
	pick := func(xs []pairSpec, n int) []pairSpec {
		if n >= len(xs) {
			return xs
		}
		idx := map[int]bool{}
		var out []pairSpec
		for len(out) < n {
			i := r.Intn(len(xs))
			if !idx[i] {
				idx[i] = true
				out = append(out, xs[i])
			}
		}
		return out
	}
	nc := max / 2
	if nc > len(conf) {
		nc = len(conf)
	}
	nn := max - nc
	if nn > len(non) {
		nn = len(non)
		if max-nn <= len(conf) {
			nc = max - nn
		} else {
			nc = len(conf)
		}
	}
	return append(pick(conf, nc), pick(non, nn)...)
}

func (c12) Cases(tier string, seed uint64) []fw.Case {
	thorough := tier == "thorough"
	r := fw.NewRng(seed ^ 0xC12)
	types := vu.TypesUpTo2()
	width := 2
	if thorough {
		width = 3
		seen := map[string]bool{}
		for len(seen) < 400 {
			t := vu.SampleDepth3(r)
			if !seen[t.Src()] {
				seen[t.Src()] = true
				types = append(types, t)
			}
		}
	}
	avoid := openConstructs()
	var cases []fw.Case
	n := 0
	add := func(p payload, tags ...string) {
		cases = append(cases, fw.MkCase(fmt.Sprintf("c12-%s-%s-%04d", p.Route, p.Lib, n), p.Route, p, tags...))
		n++
	}
	progMax, hostMax := 4, 8
	if thorough {
		progMax, hostMax = 30, 40
	}
	for _, t := range types {
		for _, lib := range []string{"vm", "tree"} {
			add(payload{Route: "api", Lib: lib, T: t, Width: width, Avoid: avoid})
			for _, route := range []string{"as", "let"} {
				add(payload{Route: route, Lib: lib, T: t, Width: width, Avoid: avoid, Max: progMax, Seed: r.Next()})
			}
			if t.K == vu.TOpt {
				// an option-typed let fed from `{?}.get(k)` (static type ?any)
				add(payload{Route: "letget", Lib: lib, T: t, Width: width, Avoid: avoid, Max: progMax, Seed: r.Next()})
			}
		}
		add(payload{Route: "host-arg", Lib: "vm", T: t, Width: width, Avoid: avoid, Max: hostMax, Seed: r.Next()})
		add(payload{Route: "host-ret", Lib: "vm", T: t, Width: width, Avoid: avoid, Max: hostMax, Seed: r.Next()})
	}

	// Route letx (letx.go): composite initialisers with ?any parts. A separate generator keeps the
	// cases above independent of this block.
	rx := fw.NewRng(seed ^ 0xC12E7)
	ra := fw.NewRng(seed ^ 0xC12A5)
	asTypes := int(seed % 2) // which back end the first type gets alternates with the seed
	stmts := []string{"let", "global"}
	letxMax := 4
	if thorough {
		letxMax = 12
	}
	// the neighbours of the annotated let (assignment, call argument, function result): part of the
	// main workload unless KF-c12-optany-flow is open; then a small tagged poisoned workload
	flowOpen := fw.KFOpen(kfOptAnyFlow)
	flowMade := 0
	stmts = letxStmts
	for _, t := range types {
		top := letxTop(t)
		if top == "" {
			continue
		}
		// quick (and the sampled depth-3 types of thorough): one seed-chosen leaf form per backend,
		// two different ones per type; thorough: three forms per backend, six different ones per type
		formsOf := map[string][]string{}
		nf := len(leafForms)
		switch {
		case top == "emptylist":
			formsOf["vm"], formsOf["tree"] = []string{"get"}, []string{"get"} // `[]` has no leaf
		case thorough && t.Depth() <= 2:
			a := rx.Intn(nf)
			for k := 0; k < 3; k++ {
				formsOf["vm"] = append(formsOf["vm"], leafForms[(a+2*k)%nf])
				formsOf["tree"] = append(formsOf["tree"], leafForms[(a+2*k+1)%nf])
			}
		default:
			a := rx.Intn(nf)
			b := (a + 1 + rx.Intn(nf-1)) % nf
			formsOf["vm"], formsOf["tree"] = []string{leafForms[a]}, []string{leafForms[b]}
		}
		for _, stmt := range stmts {
			if stmt == "global" {
				// constant initialisers have one leaf form (`none`); quick: a seed-chosen quarter of the types
				if thorough || rx.Intn(4) == 0 {
					for _, lib := range []string{"vm", "tree"} {
						add(payload{Route: "letx", Lib: lib, T: t, Form: "get", Stmt: stmt, Width: width, Avoid: avoid, Max: letxMax, Seed: rx.Next()})
					}
				}
				continue
			}
			if stmt == "as" {
				// `(<composite>) as T`: the base has the outer kind of T with ?any inside. Own generator (the
				// other statement kinds keep their seeds); the leaf forms of the two back ends are swapped
				// against the let, so that quick sees two forms per back end and type.
				for li, lib := range []string{"vm", "tree"} {
					if !thorough && (asTypes+li)%2 == 1 {
						continue // quick: the types alternate between the back ends
					}
					other := "tree"
					if lib == "tree" {
						other = "vm"
					}
					for _, form := range formsOf[other] {
						add(payload{Route: "letx", Lib: lib, T: t, Form: form, Stmt: stmt, Width: width, Avoid: avoid, Max: letxMax, Seed: ra.Next()})
					}
				}
				asTypes++
				continue
			}
			flow := stmt != "let" // assignment, call argument, function result
			if flow && t.K != vu.TOpt {
				continue
			}
			var tags []string
			if flow && flowOpen {
				if flowMade >= 24 {
					continue
				}
				tags = []string{cOptAnyFlow}
			}
			for _, lib := range []string{"vm", "tree"} {
				for _, form := range formsOf[lib] {
					if len(tags) > 0 {
						flowMade++
					}
					add(payload{Route: "letx", Lib: lib, T: t, Form: form, Stmt: stmt, Width: width, Avoid: avoid, Max: letxMax, Seed: rx.Next()}, tags...)
				}
			}
		}
	}

	// Route json (jsonlit.go): the spelling of the parsed JSON text is varied (number literals at and
	// beyond the int limits, fraction / exponent forms, white space). One case per (type, back end),
	// the crossing (as | let, option types also letget) seed-chosen. Own generator.
	rj := fw.NewRng(seed ^ 0xC12150)
	jsonMax := 4
	if thorough {
		jsonMax = 12
	}
	for _, t := range types {
		for _, lib := range []string{"vm", "tree"} {
			stmts := []string{"as", "let"}
			if t.K == vu.TOpt {
				stmts = append(stmts, "letget")
			}
			if thorough {
				for _, st := range stmts {
					add(payload{Route: "json", Lib: lib, T: t, Stmt: st, Width: width, Avoid: avoid, Max: jsonMax, Seed: rj.Next()})
				}
				continue
			}
			add(payload{Route: "json", Lib: lib, T: t, Stmt: stmts[rj.Intn(len(stmts))], Width: width, Avoid: avoid, Max: jsonMax, Seed: rj.Next()})
		}
	}

	// Route seq (seq.go): a dynamic value that stays reachable (any-object field, host import declared
	// with `any` at depth d) crossed twice in a row; route host-args (hostargs.go): host invocations and
	// `spawn` with several differing arguments. Own generator again.
	rs := fw.NewRng(seed ^ 0xC125E)
	seqMax, argsMax := 3, 4
	if thorough {
		seqMax, argsMax = 16, 24
	}
	for _, t := range types {
		for _, lib := range []string{"vm", "tree"} {
			add(payload{Route: "seq", Lib: lib, Source: "host", T: t, Width: width, Avoid: avoid, Max: seqMax, Seed: rs.Next()})
			if t.K == vu.TOpt {
				add(payload{Route: "seq", Lib: lib, Source: "field", T: t, Width: width, Avoid: avoid, Max: seqMax, Seed: rs.Next()})
			}
		}
		add(payload{Route: "host-args", Lib: "vm", T: t, Width: width, Avoid: avoid, Max: argsMax, Seed: rs.Next()})
	}

	// Route alias (alias.go): the target type is named by a type alias declared at several nesting levels.
	// Own generator.
	rl := fw.NewRng(seed ^ 0xC12A11)
	aliasMax := 3
	if thorough {
		aliasMax = 12
	}
	for _, t := range types {
		for _, lib := range []string{"vm", "tree"} {
			add(payload{Route: "alias", Lib: lib, T: t, Width: width, Avoid: avoid, Max: aliasMax, Seed: rl.Next()})
		}
	}

	// Poisoned workloads: for every open finding a few dozen cases that contain ONLY its construct.
	type pw struct {
		construct string
		routes    []string
		libs      []string
	}
	pws := []pw{
		{cOptWrap, []string{"api", "as", "let", "letx", "host-arg"}, []string{"vm", "tree"}},
		{cTreeAny, []string{"api"}, []string{"tree"}},
		{cVMPathIdx, []string{"api", "as", "let", "letx"}, []string{"vm"}},
		{cTreePath, []string{"api", "as", "let", "letx"}, []string{"tree"}},
		{cTreeFatal, []string{"as", "let", "letx"}, []string{"tree"}},
		{cHostConv, []string{"host-arg"}, []string{"vm"}},
	}
	base := vu.TypesUpTo2()
	for _, w := range pws {
		if !fw.KFOpen(kfOf[w.construct]) {
			continue
		}
		var others []string
		for _, a := range avoid {
			if a != w.construct {
				others = append(others, a)
			}
		}
		for _, route := range w.routes {
			for _, lib := range w.libs {
				if (route == "host-arg" || route == "host-ret") && lib != "vm" {
					continue
				}
				made := 0
				// walk the universe with a stride so that the poisoned cases spread over all shapes
				for k := 0; k < len(base) && made < 24; k++ {
					t := base[(k*37)%len(base)]
					var ps []pairSpec
					for _, v := range vu.Candidates(t, 2) {
						if !routeCarries(route, "", t, v) {
							continue
						}
						for _, ex := range routeModes(route, "") {
							cs := constructs(route, lib, v, t, ex)
							if w.construct == cTreeAny && !vu.Conforms(v, t, ex) {
								// keep the effect isolated: the only reason to reject is the any-object
								continue
							}
							if hasAny(cs, []string{w.construct}) && !hasAny(cs, others) {
								ps = append(ps, pairSpec{V: v, Explicit: ex})
							}
						}
					}
					if len(ps) == 0 {
						continue
					}
					if len(ps) > 6 {
						ps = sample(ps, t, 6, seed+uint64(k))
					}
					pp := payload{Route: route, Lib: lib, T: t, Pairs: ps}
					if route == "letx" {
						pp.Form = leafForms[k%len(leafForms)]
					}
					add(pp, w.construct)
					made++
				}
			}
		}
	}
	return cases
}

func (c12) Run(c fw.Case) (res fw.Result) {
	var p payload
	fw.Decode(c, &p)
	pairs := p.Pairs
	if pairs == nil && p.Route != "seq" && p.Route != "host-args" && p.Route != "alias" {
		pairs = enumerate(p)
		pairs = sample(pairs, p.T, p.Max, p.Seed)
	}
	j := &judge{p: p, cover: map[string]int{}}
	switch p.Route {
	case "api":
		for _, q := range pairs {
			j.api(q)
		}
	case "as", "let", "letget", "letx", "json":
		for _, q := range pairs {
			j.prog(q)
		}
	case "host-arg", "host-ret":
		j.host(pairs)
	case "seq":
		pl := planSeq(p.T, p.Source, p.Seed)
		for _, v := range seqValues(p, pl) {
			pairs = append(pairs, pairSpec{V: v})
			j.seq(pl, v)
		}
		j.cov("kinds-" + pl.Kinds[0] + "-" + pl.Kinds[1])
	case "alias":
		pl := planAlias(p.T, p.Seed)
		for _, v := range aliasValues(p, pl) {
			pairs = append(pairs, pairSpec{V: v})
			j.alias(pl, v)
		}
		j.cov("levels-" + pl.Levels)
		for _, b := range pl.Blocks {
			j.cov("block-" + b)
		}
		if pl.Import {
			j.cov("imported")
		}
		if pl.Hole >= 0 {
			j.cov("names-child")
		} else {
			j.cov("names-whole")
		}
	case "host-args":
		pl := planArgs(p)
		for _, c := range pl.Calls {
			pairs = append(pairs, pairSpec{V: c.Vals[0]})
		}
		j.hostArgs(pl)
	default:
		return fw.Result{Verdict: fw.Inconclusive, Why: "unknown route " + p.Route}
	}
	res = fw.Result{Verdict: fw.Held, Evals: int64(len(pairs))}
	if len(pairs) == 0 {
		res.Evals = 1
	}
	res.Hash = fw.HashOf(p.Route+p.Stmt+p.Form, p.Lib, p.T.Src(), pairs)
	if p.Route == "seq" || p.Route == "host-args" || p.Route == "alias" {
		// second type, statement kinds, parameter types and entries are functions of the seed
		res.Hash = fw.HashOf(p.Route+p.Source, p.Lib, p.T.Src(), pairs, p.Seed)
	}
	res.Nontrivial = j.admitted > 0 && j.rejected > 0
	if p.Route == "letx" && len(pairs) > 0 {
		j.cov(stmtName(p.Stmt) + "/" + letxTop(p.T) + "/" + p.Form)
	}
	if p.Route == "json" {
		j.at = ""
		for _, q := range pairs {
			j.cov(p.Stmt + "/" + litClass(q.Lit))
		}
	}
	for k := range j.cover {
		res.Cover = append(res.Cover, k)
	}
	sort.Strings(res.Cover)
	res.Obs = map[string]int64{"pairs": int64(len(pairs)), "admitted": int64(j.admitted), "rejected": int64(j.rejected)}
	for k, n := range j.cover {
		res.Obs["n:"+k] = int64(n)
	}
	if len(j.fails) > 0 {
		res.Verdict = fw.Violated
		res.Why, res.Sig, res.Detail = j.fails[0].Why, j.fails[0].Sig, j.fails[0].Detail
		// one sub-violation per distinct signature is enough (each is a distinct failure class)
		seen := map[string]bool{res.Sig: true}
		for _, f := range j.fails[1:] {
			if !seen[f.Sig] {
				seen[f.Sig] = true
				res.More = append(res.More, f)
			}
		}
	}
	if len(pairs) > 0 && (strings.HasSuffix(c.ID, "7") || strings.HasSuffix(c.ID, "3")) {
		q := pairs[len(pairs)/2]
		res.Sample = map[string]any{"route": p.Route, "lib": p.Lib, "type": p.T.Src(), "pairs": len(pairs),
			"example_value": q.V.String(), "example_explicit": q.Explicit, "example_conforms": vu.Conforms(q.V, p.T, q.Explicit)}
	}
	return res
}

func (c12) OnCrash(c fw.Case, cr fw.Crash) fw.Result {
	var p payload
	fw.Decode(c, &p)
	switch cr.Kind {
	case "watchdog", "killed":
		return fw.Result{Verdict: fw.Inconclusive, Why: cr.Kind + ": " + cr.Message}
	}
	return fw.Result{Verdict: fw.Violated, Nontrivial: true,
		Sig: fmt.Sprintf("c12:%s:%s:crash:%s:%s", p.Lib, p.Route, cr.Kind, normMsg(cr.Message)),
		Why: fmt.Sprintf("worker died (%s: %s) at %s while pushing values across route %s into %s", cr.Kind, clip(cr.Message, 200), cr.TopFrame, p.Route, p.T.Src())}
}

// judge accumulates the verdicts of one case.
type judge struct {
	p        payload
	at       string // routes with several crossings per program: which crossing is being judged
	sigRoute string // statement kind of that crossing (as | let), for path findings shared with those routes
	src      string // program text of the pair being judged (failure detail)
	fails    []fw.SubViolation
	cover    map[string]int
	admitted int
	rejected int
}

func (j *judge) fail(class, detail string, q pairSpec, format string, args ...any) {
	j.failT(class, detail, q, j.p.T, format, args...)
}

// failT is fail for routes whose cases cross into several types (t = the type of this crossing).
func (j *judge) failT(class, detail string, q pairSpec, t vu.Type, format string, args ...any) {
	route, where := j.p.Route, j.p.Route
	if j.at != "" {
		where = j.p.Route + " " + j.at
	}
	pathClass := class == "reject-no-path" || class == "reject-wrong-path"
	if route == "letx" {
		where = fmt.Sprintf("letx %s/%s/%s", stmtName(j.p.Stmt), letxTop(j.p.T), j.p.Form)
		if st := stmtName(j.p.Stmt); pathClass && (st == "let" || st == "as") {
			// the rejecting code is the cast of the annotated let / of `as`, exactly as on routes let / as:
			// a missing or wrong path is the same failure (and the same known finding) there and here
			route = st
		}
	}
	if j.sigRoute != "" && pathClass {
		// the rejecting code is the cast of this crossing's statement kind (`as` / annotated let)
		route = j.sigRoute
	}
	sig := fmt.Sprintf("c12:%s:%s:%s:%s", j.p.Lib, route, class, detail)
	why := fmt.Sprintf("[%s/%s] value %s -> type %s (explicit=%v): ", where, j.p.Lib, q.V, t.Src(), q.Explicit) + fmt.Sprintf(format, args...)
	det := map[string]any{"value": q.V, "type": t, "explicit": q.Explicit, "offences": vu.Offences(q.V, t, q.Explicit)}
	if j.src != "" {
		det["source"] = j.src
	}
	j.fails = append(j.fails, fw.SubViolation{Why: why, Sig: sig, Detail: det})
}

func stmtName(s string) string {
	if s == "" {
		return "let"
	}
	return s
}

func (j *judge) cov(k string) { j.cover[j.p.Lib+":"+j.p.Route+":"+k]++ }

func clip(s string, n int) string {
	if len(s) > n {
		return s[:n] + "…"
	}
	return s
}

// normMsg strips variable parts of a message for use in a signature.
func normMsg(s string) string {
	if i := strings.Index(s, "\n"); i >= 0 {
		s = s[:i]
	}
	var sb strings.Builder
	digits := false
	for _, r := range s {
		if r >= '0' && r <= '9' {
			if !digits {
				sb.WriteByte('N')
			}
			digits = true
			continue
		}
		digits = false
		sb.WriteRune(r)
	}
	return clip(sb.String(), 70)
}
