package c12

import (
	"context"
	"fmt"
	"regexp"
	"strings"
	"sync"
	"sync/atomic"

	herrors "github.com/smarthome-go/homescript/v3/homescript/errors"
	ivalue "github.com/smarthome-go/homescript/v3/homescript/interpreter/value"
	"github.com/smarthome-go/homescript/v3/homescript/runtime"
	vvalue "github.com/smarthome-go/homescript/v3/homescript/runtime/value"

	"hv/drive"
	vu "hv/valuni"
)

// observed is what one crossing of the boundary looked like from outside.
type observed struct {
	admitted  bool
	result    vu.Val // the admitted value, converted back into the abstract form
	resultErr error  // the admitted value is not even a value of the universe (nil pointers, foreign kinds)
	msg       string // rejection message
}

// ---------------------------------------------------------------------------------------------
// The oracle
// ---------------------------------------------------------------------------------------------

// attribute names the behaviour behind a bad admission: "opt-wrap" when the admitted value is
// exactly what a boundary produces that wraps a non-option into ?T without checking it; otherwise
// the first reference offence / the target shape.
func attribute(v vu.Val, t vu.Type, explicit bool, res vu.Val, offs []vu.Offence) string {
	if vu.WrapNeedsWork(v, t) {
		if lax, ok := vu.ConvertLaxWrap(v, t, explicit); ok && vu.StructEq(lax, res) {
			return "opt-wrap"
		}
	}
	for _, pass := range []bool{false, true} {
		for _, o := range offs {
			if o.ViaWrap && !pass {
				continue
			}
			switch o.Kind {
			case "mismatch":
				return fmt.Sprintf("mismatch:%s->%s", o.Got, o.Want)
			default:
				return o.Kind
			}
		}
	}
	return t.Shape()
}

var quotedRe = regexp.MustCompile(`'([^']*)'`)

// msgDetail turns "a value of type 'any-object' is not compatible with a value of type '{ ? }'"
// into "any-object!anyobj" (value kind ! shape of the type text).
func msgDetail(msg string) string {
	m := quotedRe.FindAllStringSubmatch(msg, -1)
	if len(m) >= 2 && strings.Contains(msg, "is not compatible") {
		ty := strings.TrimSpace(m[1][1])
		switch {
		case strings.HasPrefix(ty, "{ ?"):
			ty = "anyobj"
		case strings.HasPrefix(ty, "{"):
			ty = "object"
		case strings.HasPrefix(ty, "["):
			ty = "list"
		case strings.HasPrefix(ty, "?"):
			ty = "option"
		}
		return m[0][1] + "!" + ty
	}
	if strings.Contains(msg, "unexpected field") {
		return "unexpected-field"
	}
	if strings.Contains(msg, "was expected but not found") {
		return "field-not-found"
	}
	return normMsg(msg)
}

func isPathChar(b byte) bool {
	return b == '.' || b == '[' || b == '_' || (b >= 'a' && b <= 'z') || (b >= 'A' && b <= 'Z') || (b >= '0' && b <= '9')
}

// containsPath: the rendered path occurs in the message as a whole path (not as the prefix of a
// longer one, not as the suffix of a longer one).
func containsPath(msg, path string) bool {
	if path == "" {
		return false
	}
	for from := 0; ; {
		i := strings.Index(msg[from:], path)
		if i < 0 {
			return false
		}
		i += from
		end := i + len(path)
		okAfter := end >= len(msg) || !isPathChar(msg[end])
		okBefore := i == 0 || !(isPathChar(msg[i-1]) || msg[i-1] == ']' || msg[i-1] == '>')
		if okAfter && okBefore {
			return true
		}
		from = i + 1
	}
}

func namesPath(msg string, p vu.Path) bool {
	return containsPath(msg, p.Render(true)) || containsPath(msg, p.Render(false))
}

// renderIndexAsDot renders a path the way a printer does that treats every step as a field with
// an empty name for list positions (attribution of finding A.46 only).
func renderIndexAsDot(p vu.Path) string {
	var sb strings.Builder
	for _, e := range p {
		switch e.Kind {
		case 'f':
			sb.WriteString("." + e.Name)
		case 'i':
			sb.WriteString(".")
		}
	}
	return sb.String()
}

// pathVerdict checks that a rejection message names one of the reference offences.
func pathVerdict(lib, msg string, offs []vu.Offence) (ok bool, class, detail string) {
	for _, o := range offs {
		switch o.Kind {
		case "mismatch":
			if !o.Path.Addressable() || namesPath(msg, o.Path) {
				return true, "", ""
			}
		default:
			named := strings.Contains(msg, "'"+o.Field+"'") || strings.Contains(msg, "\""+o.Field+"\"") || strings.Contains(msg, "`"+o.Field+"`")
			if named && (!o.Path.Addressable() || namesPath(msg, o.Path)) {
				return true, "", ""
			}
			full := append(append(vu.Path{}, o.Path...), vu.PathElem{Kind: 'f', Name: o.Field})
			if namesPath(msg, full) {
				return true, "", ""
			}
		}
	}
	allIdx := true
	for _, o := range offs {
		if !o.Path.HasIndex() {
			allIdx = false
		}
	}
	if lib == "vm" {
		for _, o := range offs {
			if o.Path.HasIndex() && strings.Contains(msg, "`"+renderIndexAsDot(o.Path)+"`") {
				return false, "reject-wrong-path", "index-as-dot"
			}
		}
	}
	if !strings.Contains(msg, " at `") {
		if allIdx {
			return false, "reject-no-path", "index"
		}
		return false, "reject-no-path", "field"
	}
	return false, "reject-wrong-path", "other"
}

// decide judges one crossing against the reference predicates. checkPath=false on routes where
// the property does not ask for a path (host boundary).
func (j *judge) decide(q pairSpec, ob observed, checkPath bool) { j.decideAttr(q, ob, checkPath, "") }

func (j *judge) decideAttr(q pairSpec, ob observed, checkPath bool, attrOverride string) {
	j.decideT(q, j.p.T, ob, checkPath, attrOverride)
}

// decideT judges one crossing into type t (routes with several target types per case set j.at so
// that the failure report names the crossing).
func (j *judge) decideT(q pairSpec, t vu.Type, ob observed, checkPath bool, attrOverride string) {
	v := q.V
	offs := vu.Offences(v, t, q.Explicit)
	conf := len(offs) == 0
	typed := vu.HasType(v, t)
	if ob.admitted {
		j.admitted++
		switch {
		case ob.resultErr != nil:
			j.failT("admit-unconvertible", t.Shape(), q, t, "admitted, but the admitted value is malformed: %v", ob.resultErr)
		case !conf:
			a := attribute(v, t, q.Explicit, ob.result, offs)
			if attrOverride != "" {
				a = attrOverride
			}
			j.failT("admit-nonconforming", a, q, t,
				"a non-conforming value was admitted as %s; reference offences: %v", ob.result, offs)
		case !vu.HasType(ob.result, t):
			j.failT("result-not-typed", attribute(v, t, q.Explicit, ob.result, offs), q, t,
				"admitted value %s does not deeply conform to the target type", ob.result)
		case typed && !vu.StructEq(ob.result, v):
			j.failT("typed-changed", t.Shape(), q, t, "a value that already has the target type was changed into %s", ob.result)
		case !typed:
			ref, _, exact := vu.Convert(v, t, q.Explicit)
			if exact && !t.HasNestedOption() && !vu.StructEq(ob.result, ref) {
				j.failT("wrong-conversion", t.Shape(), q, t, "admitted as %s, the permitted conversions yield %s", ob.result, ref)
			}
			j.cov("admit-converted")
		default:
			j.cov("admit-unchanged")
		}
		return
	}
	j.rejected++
	switch {
	case typed:
		j.failT("reject-typed", msgDetail(ob.msg), q, t, "a value that already has the target type was rejected: %q", clip(ob.msg, 300))
	case conf && q.Explicit:
		j.failT("reject-convertible", msgDetail(ob.msg), q, t, "a value that conforms after the permitted conversions was rejected by an explicit cast: %q", clip(ob.msg, 300))
	case conf:
		j.cov("strict-reject")
	default:
		addressable := false
		for _, o := range offs {
			if o.Path.Addressable() || o.Kind != "mismatch" {
				addressable = true
			}
		}
		if !checkPath {
			j.cov("refused")
			return
		}
		if ok, class, detail := pathVerdict(j.p.Lib, ob.msg, offs); !ok {
			j.failT(class, detail, q, t, "rejected, but the message does not name an offending path: %q; reference offences: %v", clip(ob.msg, 300), offs)
			return
		}
		if addressable {
			j.cov("reject-with-path")
		} else {
			j.cov("reject-at-root")
		}
	}
}

// ---------------------------------------------------------------------------------------------
// Route api: value.DeepCast of both libraries
// ---------------------------------------------------------------------------------------------

func (j *judge) api(q pairSpec) {
	at := vu.AstType(j.p.T)
	var ob observed
	var pv any
	// the operand as it is after the cast: DeepCast is handed a dynamic value that stays reachable
	// (a field of an any-object, a host value), so it has to leave it as it was
	var operand vu.Val
	var operandErr error
	func() {
		defer func() { pv = recover() }()
		switch j.p.Lib {
		case "vm":
			in := vu.ToVM(q.V)
			res, cerr := vvalue.DeepCast(*in, at, herrors.Span{}, q.Explicit)
			operand, operandErr = vu.FromVM(*in)
			if cerr != nil {
				ob.msg = cerr.Message()
				return
			}
			ob.admitted = true
			if res == nil {
				ob.resultErr = fmt.Errorf("nil result without an error")
				return
			}
			ob.result, ob.resultErr = vu.FromVM(*res)
		default:
			in := vu.ToTree(q.V)
			res, cerr := ivalue.DeepCast(*in, at, herrors.Span{}, q.Explicit)
			operand, operandErr = vu.FromTree(*in)
			if cerr != nil {
				ob.msg = (*cerr).Message()
				return
			}
			ob.admitted = true
			if res == nil {
				ob.resultErr = fmt.Errorf("nil result without an error")
				return
			}
			ob.result, ob.resultErr = vu.FromTree(*res)
		}
	}()
	if pv != nil {
		j.fail("go-panic", normMsg(fmt.Sprint(pv)), q, "DeepCast panicked: %v", pv)
		return
	}
	j.decide(q, ob, true)
	j.sourceKept("operand", q, j.p.T, ob.admitted, q.V, operand, operandErr)
}

// sourceKept judges the dynamic value a cast was applied to, read again after the cast: neither an
// admitted nor a rejected crossing may have changed it (a non-conforming value "never corrupts later
// execution"; a conforming one is still the value it was when it crosses the boundary the next time).
func (j *judge) sourceKept(what string, q pairSpec, t vu.Type, admitted bool, before, after vu.Val, afterErr error) {
	how := "rejected"
	if admitted {
		how = "admitted"
	}
	switch {
	case afterErr != nil:
		j.failT("source-changed", how+":"+t.Shape(), q, t, "the %s cast left the %s it was applied to malformed: %v", how, what, afterErr)
	case !vu.Identical(before, after):
		j.failT("source-changed", how+":"+t.Shape(), q, t, "the %s cast changed the %s it was applied to: it was %s and now is %s", how, what, before, after)
	default:
		j.cov("source-kept-" + how)
	}
}

// ---------------------------------------------------------------------------------------------
// Routes as / let: real programs on both backends
// ---------------------------------------------------------------------------------------------

const (
	outAdmitted = "admitted\nafter 0 42 [1, 2, 3, 4]\n"
	outCaught   = "caught\nafter 1 42 [1, 2, 3, 4]\n"
)

// ProgSource builds the program that pushes a JSON value across `as T` or an annotated let inside
// try/catch, with state before and a continuation after.
func ProgSource(route string, t vu.Type, jsonText string) string {
	var pre, crossing string
	if route == "as" {
		crossing = fmt.Sprintf("let x = '%s'.parse_json() as %s;", jsonText, t.Src())
	} else if route == "letget" {
		crossing = fmt.Sprintf("let ao = '{\"k\": %s}'.parse_json() as { ? };\n        let x: %s = ao.get(\"k\");", jsonText, t.Src())
	} else {
		crossing = fmt.Sprintf("let x: %s = '%s'.parse_json();", t.Src(), jsonText)
	}
	return progFrame("", pre, crossing, t)
}

// progFrame is the program around a crossing: state before, the crossing inside try/catch with a
// probe of the admitted value, a continuation after. fns are helper functions, pre are statements
// that run before the try (outside the crossing).
func progFrame(fns, pre, crossing string, t vu.Type) string {
	if pre != "" {
		pre = "    " + pre + "\n"
	}
	return fns + "fn main() {\n" +
		"    let before = 41;\n" +
		"    let keep = [1, 2, 3];\n" +
		pre +
		"    let r = try {\n" +
		"        " + crossing + "\n" +
		"        " + probeStmt(t) + "\n" +
		"        println(\"admitted\");\n" +
		"        0\n" +
		"    } catch e {\n" +
		"        println(\"caught\");\n" +
		"        probe(e.message);\n" +
		"        1\n" +
		"    };\n" +
		"    keep.push(4);\n" +
		"    println(\"after\", r, before + 1, keep);\n" +
		"}\n"
}

// probeStmt hands x to the harness. The analyzer refuses a null-typed expression as a call
// argument, so a null-typed x travels inside a one-element list.
func probeStmt(t vu.Type) string {
	if t.K == vu.TNull {
		return "probe([x]);"
	}
	return "probe(x);"
}

// unwrapProbe undoes probeStmt.
func unwrapProbe(t vu.Type, v vu.Val) vu.Val {
	if t.K == vu.TNull && v.K == vu.VList && len(v.Elems) == 1 {
		return v.Elems[0]
	}
	return v
}

func (j *judge) prog(q pairSpec) {
	var text string
	if j.p.Route == "letx" {
		t, ok := LetxSource(j.p.Stmt, j.p.Form, j.p.T, q.V)
		if !ok {
			return
		}
		text = t
	} else if j.p.Route == "json" {
		text = ProgSource(j.p.Stmt, j.p.T, q.Text)
		// the rejecting code is the cast of that statement kind, as on routes as / let / letget
		j.at, j.sigRoute = fmt.Sprintf("%s of '%s'", j.p.Stmt, q.Text), j.p.Stmt
	} else {
		js, ok := vu.JSONText(q.V)
		if !ok {
			return
		}
		text = ProgSource(j.p.Route, j.p.T, js)
	}
	src := drive.Sources{"main": text}
	ao := drive.Analyze(src, "main", true)
	if ao.Errors > 0 {
		j.fail("harness", "analyze", q, "the generated program was not accepted: %s\n%s", ao.ErrorSummary(), src["main"])
		return
	}
	var out string
	var oc drive.Outcome
	var ob observed
	var first any // first probe, abstract
	var firstErr error
	nprobes := 0
	if j.p.Lib == "vm" {
		r := drive.RunVM(ao.Modules, src, "main", drive.VMOpts{StepBudget: 200_000})
		out, oc = r.Log.Output(), r.Outcome
		nprobes = len(r.Probes)
		if nprobes > 0 {
			first, firstErr = vu.FromVM(r.Probes[0])
		}
	} else {
		r := drive.RunTree(ao.Modules, src, "main", drive.TreeOpts{StepBudget: 200_000})
		out, oc = r.Log.Output(), r.Outcome
		nprobes = len(r.Probes)
		if nprobes > 0 {
			first, firstErr = vu.FromTree(r.Probes[0])
		}
	}
	if oc.Class != "ok" {
		conf := vu.Conforms(q.V, j.p.T, q.Explicit)
		if !conf || !vu.HasType(q.V, j.p.T) {
			j.rejected++
		}
		detail := oc.Class + "/" + oc.Kind
		if oc.Class == "go-panic" {
			detail = "go-panic/" + normMsg(oc.Message)
		}
		if conf && vu.HasType(q.V, j.p.T) {
			j.fail("reject-typed-fatal", detail, q, "the program died on a value that already has the target type: %s (output %q)", oc, out)
			return
		}
		if conf && !q.Explicit && oc.Class == "fatal" && oc.Kind == "CastError" {
			// a strict rejection of a value needing a conversion; still has to be catchable
			j.fail("not-catchable", detail, q, "the cast error was not catchable by try/catch: %s (output %q)", oc, out)
			return
		}
		j.fail("not-catchable", detail, q, "the program did not survive the crossing: outcome %s, output %q (try/catch around the crossing did not catch)", oc, out)
		return
	}
	switch out {
	case outAdmitted:
		ob.admitted = true
		if nprobes != 1 {
			j.fail("bad-continuation", "probes", q, "admitted path produced %d probes", nprobes)
			return
		}
		if firstErr != nil {
			ob.resultErr = firstErr
		} else {
			ob.result = unwrapProbe(j.p.T, first.(vu.Val))
		}
	case outCaught:
		if nprobes != 1 || firstErr != nil || first.(vu.Val).K != vu.VStr {
			j.fail("bad-continuation", "catch-probe", q, "catch path did not deliver the error message (probes=%d err=%v)", nprobes, firstErr)
			return
		}
		ob.msg = first.(vu.Val).S
	default:
		j.fail("bad-continuation", "output", q, "execution did not continue sanely after the crossing: output %q", out)
		return
	}
	if len(q.Alt) > 0 {
		j.decideAny(q, ob)
		return
	}
	j.decide(q, ob, true)
}

// ---------------------------------------------------------------------------------------------
// Routes host-arg / host-ret: runtime.VM.SpawnSync
// ---------------------------------------------------------------------------------------------

var hostSteps atomic.Int64

func (j *judge) host(pairs []pairSpec) {
	t := j.p.T
	at := vu.AstType(t)
	runtime.VerifStep = func(*runtime.Core) { hostSteps.Add(1) }
	defer func() { runtime.VerifStep = nil }()

	var argSrc drive.Sources
	if j.p.Route == "host-arg" {
		argSrc = drive.Sources{"main": fmt.Sprintf("fn id(x: %s) -> %s { %s x }\nfn main() {}\n", t.Src(), t.Src(), probeStmt(t))}
	}
	for _, q := range pairs {
		src := argSrc
		fn := "id"
		var args []vvalue.Value
		sig := runtime.FunctionInvocationSignature{ReturnType: at}
		if j.p.Route == "host-arg" {
			args = []vvalue.Value{*vu.ToVM(q.V)}
			sig.Params = []runtime.FunctionInvocationSignatureParam{{Ident: "x", Type: at}}
		} else {
			nt, ok := vu.NaturalType(q.V)
			if !ok {
				continue
			}
			lit, ok := vu.Literal(q.V, nt)
			if !ok {
				continue
			}
			fn = "mk"
			src = drive.Sources{"main": fmt.Sprintf("fn mk() -> %s { %s }\nfn main() {}\n", nt.Src(), lit)}
		}
		ao := drive.Analyze(src, "main", true)
		if ao.Errors > 0 {
			j.fail("harness", "analyze", q, "the generated program was not accepted: %s\n%s", ao.ErrorSummary(), src["main"])
			continue
		}
		prog, err := drive.Compile(ao.Modules, "main")
		if err != nil {
			j.fail("harness", "compile", q, "compile error: %v", err)
			continue
		}
		log := &drive.Log{}
		exec := drive.VMExec{L: log, Src: src}
		scope := exec.VMScope()
		var pmu sync.Mutex
		var probes []vvalue.Value
		scope["probe"] = *vvalue.NewValueBuiltinFunction(func(_ vvalue.Executor, _ *context.Context, _ herrors.Span, a ...vvalue.Value) (*vvalue.Value, *vvalue.VmInterrupt) {
			pmu.Lock()
			probes = append(probes, a...)
			pmu.Unlock()
			return vvalue.NewValueNull(), nil
		})
		ctx, cancel := context.WithCancel(context.Background())
		var cf context.CancelFunc = cancel
		vm := runtime.NewVM(prog, exec, &ctx, &cf, scope, drive.DefaultLimits)
		before := hostSteps.Load()
		var res runtime.FunctionInvocationResult
		var pv any
		func() {
			defer func() { pv = recover() }()
			res = vm.SpawnSync(runtime.FunctionInvocation{Function: fn, Args: args, FunctionSignature: sig}, nil, nil)
		}()
		cancel()
		steps := hostSteps.Load() - before
		pmu.Lock()
		got := append([]vvalue.Value{}, probes...)
		pmu.Unlock()

		offs := vu.Offences(q.V, t, false)
		conf := len(offs) == 0
		var ob observed
		if j.p.Route == "host-arg" && !conf && (steps != 0 || len(got) != 0) {
			// the callee executed with a non-conforming argument, however the call ended afterwards
			over := "opt-wrap"
			for _, o := range offs {
				if !o.ViaWrap {
					over = ""
				}
			}
			ob.admitted = true
			if len(got) > 0 {
				if seen, err := vu.FromVM(got[0]); err == nil {
					ob.result = unwrapProbe(t, seen)
				}
			}
			j.decideAttr(q, ob, false, over)
			continue
		}
		switch {
		case pv != nil:
			ob.msg = fmt.Sprint(pv)
			if j.p.Route == "host-arg" && (steps != 0 || len(got) != 0 || log.Output() != "") {
				j.fail("refused-after-running", "steps", q, "the call was refused by a panic on the calling goroutine, but %d callee instructions had executed (probes=%d)", steps, len(got))
				continue
			}
		case res.Exception != nil:
			// the caller is told synchronously through the result
			ob.msg = res.Exception.Interrupt.Message()
			if j.p.Route == "host-arg" && !conf && steps != 0 {
				j.fail("executed-nonconforming", "exception", q, "callee executed %d instructions with a non-conforming argument before failing: %s", steps, clip(ob.msg, 200))
				continue
			}
		default:
			ob.admitted = true
			if j.p.Route == "host-arg" {
				// what the callee actually saw
				if len(got) != 1 {
					j.fail("bad-continuation", "probes", q, "callee ran but delivered %d probes", len(got))
					continue
				}
				seen, err := vu.FromVM(got[0])
				seen = unwrapProbe(t, seen)
				if err != nil {
					ob.resultErr = err
				} else {
					ob.result = seen
					if conf && !vu.HasType(seen, t) {
						detail := t.Shape()
						switch {
						case vu.UsesWrap(q.V, t):
							detail = "opt-wrap"
						case vu.MeetsObjAsAnyObj(q.V, t):
							detail = "obj-to-anyobj"
						}
						j.admitted++
						j.fail("callee-got-untyped", detail, q, "the call was admitted, but the callee's parameter holds %s, which does not have the declared type", seen)
						continue
					}
				}
			} else {
				ob.result, ob.resultErr = vu.Val{}, nil
			}
			// the value handed back to the host
			switch t.K {
			case vu.TNull, vu.TAnyObj:
				// SpawnSync does not hand these back (not part of C12)
				if j.p.Route == "host-ret" {
					j.cov("ret-not-handed-back")
					continue
				}
			default:
				if res.ReturnValue == nil {
					ob.resultErr = fmt.Errorf("nil return value")
				} else if rv, err := vu.FromVM(res.ReturnValue); err != nil {
					ob.resultErr = err
				} else if j.p.Route == "host-ret" {
					ob.result = rv
				} else if ob.resultErr == nil && conf && !vu.HasType(rv, t) {
					j.admitted++
					j.fail("return-not-typed", t.Shape(), q, "the value handed back to the host, %s, does not have the declared return type", rv)
					continue
				}
			}
		}
		over := ""
		if j.p.Route == "host-arg" && !conf {
			over = "opt-wrap"
			for _, o := range offs {
				if !o.ViaWrap {
					over = ""
				}
			}
		}
		j.decideAttr(q, ob, false, over)
	}
}
