package c12

import (
	"fmt"
	"strings"

	vu "hv/valuni"
)

// Route letx: an annotated let whose initialiser is a COMPOSITE expression with dynamically typed
// parts, instead of one expression of type `any` (route let) or `?any` (route letget).
//
// The analyzer lets `any` through in two places only: the top-level initialiser of a let, and —
// anywhere — expressions of option type (`?any` is legal everywhere; `{?}.get(k)` and `{?}->k` have
// exactly that type). So the dynamically typed parts of a composite initialiser are its option
// positions, and the annotated let is the only place where their content is ever validated. The
// route builds, for a target type T and an abstract value v, the initialiser
//
//	T = ?U                     LEAF                              (top form "root")
//	T = [?U]                   [LEAF, LEAF, …]  /  []            (top form "list")
//	T = [U]                    []                                 (the `[]` literal, static type [any])
//	T = { a: ?U, b: M, … }     new { a: LEAF, b: <literal>, … }   (top form "object")
//
// in a local `let x: T = …;` or, with constant leaves only, in a global `let g: T = …;`
//
// where LEAF transports an option value: `none` is the literal `none` (static type ?any) or the
// read of an absent key, Some(w) is the read of a key of the any-object `ao` (parsed JSON holding
// w), written in one of the leaf forms below. Everything outside the leaves is statically typed, so
// v must agree with T there (the analyzer would refuse the program otherwise); inside a Some
// anything JSON can carry may sit: that is where conforming and non-conforming pairs differ.
//
// The judge is the one of the other program routes: the value probed after the let (or the caught
// cast error) against the reference predicates of valuni for the pair (v, T).

// leafForms are the expression forms of a dynamically typed (?any) part.
var leafForms = []string{"get", "arrow", "group", "block", "if", "match", "try"}

// letxStmts are the statement kinds through which the composite expression crosses into the
// static type: a local let, a global let (constant initialisers only: `none`, `[]`, literals of
// them — every carried value is typed and must be admitted unchanged), and the neighbours of the
// let, which are a tagged poisoned workload while KF-c12-optany-flow is open (c12.go).
var letxStmts = []string{"let", "global", "as", "assign", "arg", "ret"}

type dynBuilder struct {
	form  string
	konst bool     // constant initialiser (global let): the only leaf is the literal `none`
	n     int      // leaves rendered so far
	pairs []string // `"k0":<json>` members of the any-object
}

// access reads a key of the any-object in the leaf form.
func (b *dynBuilder) access(key string) string {
	get := fmt.Sprintf("ao.get(\"%s\")", key)
	switch b.form {
	case "arrow":
		return "ao->" + key
	case "group":
		return "(" + get + ")"
	case "block":
		return "{ " + get + " }"
	case "if":
		return "if before == 41 { " + get + " } else { none }"
	case "match":
		return "match before { 41 => " + get + ", _ => none }"
	case "try":
		return "try { " + get + " } catch _e { none }"
	}
	return get
}

// leaf renders an option value as a ?any expression. ok=false for values the leaf cannot carry
// (a non-option; Some of null/none: JSON null is read back as none inside Some; Some of a value
// JSON cannot carry).
func (b *dynBuilder) leaf(v vu.Val) (string, bool) {
	i := b.n
	b.n++
	if b.konst {
		return "none", v.K == vu.VNone
	}
	switch v.K {
	case vu.VNone:
		// Leaf form arrow never reads an absent key: on the unchanged tree the VM's Opcode_Member_Anyobj
		// pushes TWO values for an absent key (none, then an option around the nil field), which shifts
		// the operands of an enclosing list/object literal (FINDINGS.md §8) — a stack defect of `->`, not
		// of the type boundary.
		if i%2 == 0 || b.form == "arrow" {
			return "none", true
		}
		return b.access(fmt.Sprintf("z%d", i)), true // absent key
	case vu.VSome:
		w := *v.Inner
		if w.K == vu.VNull || w.K == vu.VNone {
			return "", false
		}
		js, ok := vu.JSONText(w)
		if !ok {
			return "", false
		}
		key := fmt.Sprintf("k%d", i)
		b.pairs = append(b.pairs, fmt.Sprintf("\"%s\":%s", key, js))
		return b.access(key), true
	}
	return "", false
}

// top renders v as an initialiser of static type "T with ?any at its option positions".
func (b *dynBuilder) top(v vu.Val, t vu.Type) (string, bool) {
	switch t.K {
	case vu.TOpt:
		return b.leaf(v)
	case vu.TList:
		if v.K != vu.VList {
			return "", false
		}
		if len(v.Elems) == 0 {
			return "[]", true
		}
		if t.Elem.K != vu.TOpt {
			// a non-empty list of statically typed elements mentions no `any`: nothing crosses
			return "", false
		}
		parts := make([]string, len(v.Elems))
		for i, e := range v.Elems {
			s, ok := b.leaf(e)
			if !ok {
				return "", false
			}
			parts[i] = s
		}
		return "[" + strings.Join(parts, ", ") + "]", true
	case vu.TObj:
		if v.K != vu.VObj || len(v.Keys) != len(t.Fields) {
			return "", false
		}
		dyn := false
		parts := make([]string, len(t.Fields))
		for i, f := range t.Fields {
			if v.Keys[i] != f.Name {
				return "", false
			}
			var s string
			var ok bool
			if f.T.K == vu.TOpt {
				dyn = true
				s, ok = b.leaf(v.Vals[i])
			} else {
				s, ok = vu.Literal(v.Vals[i], f.T)
			}
			if !ok {
				return "", false
			}
			parts[i] = f.Name + ": " + s
		}
		if !dyn {
			return "", false
		}
		return "new { " + strings.Join(parts, ", ") + " }", true
	}
	return "", false
}

// letxTop names the top form the route uses for a type ("" = the route has nothing to push).
func letxTop(t vu.Type) string {
	switch t.K {
	case vu.TOpt:
		return "root"
	case vu.TList:
		if t.Elem.K == vu.TOpt {
			return "list"
		}
		return "emptylist"
	case vu.TObj:
		for _, f := range t.Fields {
			if f.T.K == vu.TOpt {
				return "object"
			}
		}
	}
	return ""
}

// letxCarries reports whether (v, T) can be written on route letx with the given statement kind.
func letxCarries(stmt string, t vu.Type, v vu.Val) bool {
	if stmt != "" && stmt != "let" && stmt != "global" && stmt != "as" && t.K != vu.TOpt {
		// outside a let initialiser a composite literal with ?any parts is refused by the analyzer
		return false
	}
	b := &dynBuilder{form: "get", konst: stmt == "global"}
	_, ok := b.top(v, t)
	return ok
}

// LetxSource builds the program of route letx.
func LetxSource(stmt, form string, t vu.Type, v vu.Val) (string, bool) {
	b := &dynBuilder{form: form, konst: stmt == "global"}
	expr, ok := b.top(v, t)
	if !ok {
		return "", false
	}
	if stmt == "global" {
		// the crossing happens when the module's globals are initialised; main only looks at the result
		return fmt.Sprintf("let g: %s = %s;\n", t.Src(), expr) + progFrame("", "", "let x = g;", t), true
	}
	pre := fmt.Sprintf("let ao = '{%s}'.parse_json() as { ? };", strings.Join(b.pairs, ","))
	var fns, crossing string
	switch stmt {
	case "", "let":
		crossing = fmt.Sprintf("let x: %s = %s;", t.Src(), expr)
	case "as":
		// the base of the cast is the composite expression itself: its static type has the outer kind of
		// T and says `any` inside (`?any`, `[?any]`, `{ a: ?any, … }`)
		if t.K == vu.TOpt && (form == "if" || form == "match" || form == "try" || form == "block") {
			expr = "(" + expr + ")"
		}
		crossing = fmt.Sprintf("let x = %s as %s;", expr, t.Src())
	case "assign":
		crossing = fmt.Sprintf("let x: %s = none;\n        x = %s;", t.Src(), expr)
	case "arg":
		fns = fmt.Sprintf("fn take(p: %s) -> %s { p }\n", t.Src(), t.Src())
		crossing = fmt.Sprintf("let x = take(%s);", expr)
	case "ret":
		fns = fmt.Sprintf("fn mk(ao: { ? }, before: int) -> %s {\n    %s\n}\n", t.Src(), expr)
		crossing = "let x = mk(ao, before);"
	default:
		return "", false
	}
	return progFrame(fns, pre, crossing, t), true
}
