package c12

import (
	"encoding/json"
	"fmt"
	"strings"
	"unicode/utf16"

	"hv/fw"
	vu "hv/valuni"
)

// ProposedFinding is one `open:` line proposed for /verif/known_findings.txt (see FINDINGS.md).
type ProposedFinding struct {
	Name    string
	What    string
	Sig     string
	Tag     string
	Witness fw.Case
}

// asciiJSON escapes every non-ASCII rune as \\uXXXX so that the line survives tools that
// re-normalise Unicode text (the witness of the NFC finding depends on a decomposed string).
func asciiJSON(b []byte) string {
	var sb strings.Builder
	for _, r := range string(b) {
		switch {
		case r < 128:
			sb.WriteRune(r)
		case r > 0xFFFF:
			r1, r2 := utf16.EncodeRune(r)
			fmt.Fprintf(&sb, "\\u%04x\\u%04x", r1, r2)
		default:
			fmt.Fprintf(&sb, "\\u%04x", r)
		}
	}
	return sb.String()
}

// Line renders the finding in the format of known_findings.txt.
func (p ProposedFinding) Line() string {
	w, _ := json.Marshal(map[string]any{"kind": p.Witness.Kind, "payload": p.Witness.Payload, "tags": p.Witness.Tags})
	tail, _ := json.Marshal(map[string]any{"witness": json.RawMessage(w), "sig": p.Sig, "tag": p.Tag})
	return fmt.Sprintf("open: property=C12 %s %s :: %s", p.Name, p.What, asciiJSON(tail))
}

func witness(route, lib string, t vu.Type, tag string, pairs ...pairSpec) fw.Case {
	return fw.MkCase("w", route, payload{Route: route, Lib: lib, T: t, Pairs: pairs}, tag)
}

// ProposedFindings lists the known findings of C12 with pinned minimal witnesses.
func ProposedFindings() []ProposedFinding {
	return []ProposedFinding{
		{
			Name: kfOptWrap,
			What: "DeepCast(v, ?T) of both value libraries wraps a non-option v into Some(v) without checking or converting it against T (\"abc\" as ?int is admitted as Some(\"abc\"))",
			Sig:  `^c12:(vm|tree):(api|as|let|host-arg|host-ret):(admit-nonconforming|result-not-typed):opt-wrap$|^c12:vm:host-arg:callee-got-untyped:opt-wrap$`,
			Tag:  cOptWrap,
			Witness: witness("api", "vm", vu.Opt(vu.Int()), cOptWrap,
				pairSpec{V: vu.StrV("abc")}, pairSpec{V: vu.FloatV(2.5), Explicit: true}),
		},
		{
			Name:    kfTreeAny,
			What:    "interpreter DeepCast rejects an any-object value against the type {?} (the AnyObjectValueKind case falls through to the error)",
			Sig:     `^c12:tree:(api|as|let):reject-(typed|convertible):any-object!anyobj$`,
			Tag:     cTreeAny,
			Witness: witness("api", "tree", vu.AnyObj(), cTreeAny, pairSpec{V: vu.AnyObjV(vu.KV{K: "a", V: vu.IntV(1)})}),
		},
		{
			Name:    kfVMPathIdx,
			What:    "VM cast errors name list positions as `.` instead of `[i]` (fieldURI.push ignores its kind argument)",
			Sig:     `^c12:vm:(api|as|let):reject-wrong-path:index-as-dot$`,
			Tag:     cVMPathIdx,
			Witness: witness("api", "vm", vu.List(vu.Int()), cVMPathIdx, pairSpec{V: vu.ListV(vu.IntV(1), vu.StrV("x"))}),
		},
		{
			Name:    kfTreePath,
			What:    "interpreter cast errors never name the offending path (DeepCast of interpreter/value carries no field path)",
			Sig:     `^c12:tree:(api|as|let):reject-no-path:(field|index)$`,
			Tag:     cTreePath,
			Witness: witness("api", "tree", vu.Obj(vu.F("a", vu.Int())), cTreePath, pairSpec{V: vu.ObjV(vu.KV{K: "a", V: vu.StrV("x")})}),
		},
		{
			Name:    kfTreeFatal,
			What:    "interpreter cast errors are fatal RuntimeErr(CastError): try/catch around `as` / an annotated let does not catch them",
			Sig:     `^c12:tree:(as|let):not-catchable:fatal/CastError$`,
			Tag:     cTreeFatal,
			Witness: witness("as", "tree", vu.Int(), cTreeFatal, pairSpec{V: vu.StrV("x"), Explicit: true}),
		},
		{
			Name:    kfHostConv,
			What:    "SpawnSync/SpawnAsync validate arguments with DeepCast but pass the unconverted value on: a parameter of type ?int receives a bare int, {?} receives an object",
			Sig:     `^c12:vm:host-arg:callee-got-untyped:(opt-wrap|obj-to-anyobj)$`,
			Tag:     cHostConv,
			Witness: witness("host-arg", "vm", vu.Opt(vu.Int()), cHostConv, pairSpec{V: vu.IntV(5)}),
		},
	}
}
