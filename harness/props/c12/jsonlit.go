package c12

import (
	"fmt"
	"math"
	"math/big"
	"strconv"
	"strings"

	"hv/fw"
	vu "hv/valuni"
)

// Route json: the SPELLING of the parsed JSON text is varied.
//
// Routes as / let / letget render every value in one canonical spelling (valuni.JSONText: integers
// as short decimal literals, floats with a fraction). JSON has many more spellings of a number, and
// what a reader makes of them decides what crosses the boundary: an integer-looking literal that
// does not fit the 64-bit int range, a literal with an exponent or a `.0` fraction, `-0`, literals
// at and next to the int limits, 20- and 30-digit literals. The route takes a JSON-carriable
// candidate of T that contains at least one number, replaces ONE number (seed-chosen position) by a
// literal of the pool below (fixed boundary spellings plus seed-generated ones straddling the int
// limits) and — seed-chosen — writes the text with insignificant white space; the program is the
// one of routes as / let / letget (payload.Stmt).
//
// Reference reading of a number literal (readNumber; math/big, shares nothing with json.go): the
// literal denotes its mathematical value. That value is an int iff it is written as an integer
// (optional sign, digits) and lies inside the int range; every other literal denotes the nearest
// float — in particular an integer-looking literal beyond the int range, for which no int with that
// value exists. A literal written with a fraction or an exponent whose value happens to be an
// integer inside the int range (`1.0`, `1e3`) is tolerated in both readings (the property does not
// say which one a reader picks): the observation is accepted if it is sound for one of them.
// The pair (denoted value, T) is then judged exactly like on the other program routes.

// numLit is a JSON number literal and the value(s) it denotes; Readings[0] is the primary one.
type numLit struct {
	Text     string
	Readings []vu.Val
}

var (
	bigMaxInt = big.NewInt(math.MaxInt64)
	bigMinInt = big.NewInt(math.MinInt64)
)

// readNumber is the reference reader of a JSON number literal. ok=false for texts that are not a
// JSON number or whose value a float cannot hold (overflow to infinity).
func readNumber(text string) (numLit, bool) {
	body := strings.TrimPrefix(text, "-")
	if body == "" || strings.HasPrefix(body, "+") || (len(body) > 1 && body[0] == '0' && body[1] >= '0' && body[1] <= '9') {
		return numLit{}, false
	}
	integerSpelling := strings.Trim(body, "0123456789") == ""
	rat, okRat := new(big.Rat).SetString(text)
	if !okRat {
		return numLit{}, false
	}
	f, err := strconv.ParseFloat(text, 64)
	if err != nil || math.IsInf(f, 0) || math.IsNaN(f) {
		return numLit{}, false
	}
	inIntRange := rat.IsInt() && rat.Num().Cmp(bigMinInt) >= 0 && rat.Num().Cmp(bigMaxInt) <= 0
	switch {
	case integerSpelling && inIntRange:
		return numLit{Text: text, Readings: []vu.Val{vu.IntV(rat.Num().Int64())}}, true
	case integerSpelling:
		return numLit{Text: text, Readings: []vu.Val{vu.FloatV(f)}}, true
	case inIntRange:
		return numLit{Text: text, Readings: []vu.Val{vu.FloatV(f), vu.IntV(rat.Num().Int64())}}, true
	}
	return numLit{Text: text, Readings: []vu.Val{vu.FloatV(f)}}, true
}

// fixedNumLits are the boundary spellings every run contains.
var fixedNumLits = []string{
	// the int limits and their neighbours
	"9223372036854775807", "-9223372036854775808", "9223372036854775806",
	"9223372036854775808", "-9223372036854775809", "9223372036854775809",
	// integer-looking literals far beyond the int range
	"10000000000000000000", "-10000000000000000000", "18446744073709551615", "18446744073709551616",
	"36893488147419103232", "123456789012345678901234567890", "-98765432109876543210",
	// integers a float cannot hold exactly
	"9007199254740993", "-9007199254740993",
	// fraction / exponent spellings
	"1.0", "-3.0", "1e3", "1E2", "-2.5e1", "2.5e-1", "12.50", "1e19", "-1e19", "1.5e300", "5e-324",
	"123456789.000", "4.0e0", "7e+2",
	// zeros
	"-0", "-0.0", "0e0", "0.0",
}

// numLitPool returns the fixed literals plus n seed-generated ones: digit strings of 18..21 digits
// (straddling the int limits) and mantissa/exponent forms.
func numLitPool(r *fw.Rng, n int) []numLit {
	var out []numLit
	for _, s := range fixedNumLits {
		if l, ok := readNumber(s); ok {
			out = append(out, l)
		}
	}
	for len(out) < len(fixedNumLits)+n {
		var sb strings.Builder
		if r.Bool() {
			sb.WriteByte('-')
		}
		switch r.Intn(4) {
		case 0, 1, 2:
			// 18..21 digits; every second one starts like the int limit so that it lands next to it
			digits := 18 + r.Intn(4)
			if digits == 19 && r.Bool() {
				sb.WriteString("92233720368547758")
				digits -= 17
			} else {
				sb.WriteByte(byte('1' + r.Intn(9)))
				digits--
			}
			for i := 0; i < digits; i++ {
				sb.WriteByte(byte('0' + r.Intn(10)))
			}
		default:
			sb.WriteByte(byte('1' + r.Intn(9)))
			if r.Bool() {
				fmt.Fprintf(&sb, ".%d", r.Intn(100))
			}
			e := "e"
			if r.Bool() {
				e = "E"
			}
			fmt.Fprintf(&sb, "%s%d", e, r.Intn(40)-10)
		}
		if l, ok := readNumber(sb.String()); ok {
			out = append(out, l)
		}
	}
	return out
}

// countNums counts the numbers (int / float leaves) of a JSON-carriable value.
func countNums(v vu.Val) int {
	switch v.K {
	case vu.VInt, vu.VFloat:
		return 1
	}
	n := 0
	for _, e := range v.Elems {
		n += countNums(e)
	}
	for _, e := range v.Vals {
		n += countNums(e)
	}
	return n
}

// speller renders a value as JSON text with its target-th number (traversal order) written as lit;
// it returns the text and the value that text denotes when lit is read as reading.
type speller struct {
	target  int
	lit     string
	reading vu.Val
	loose   bool // insignificant white space around every token
	n       int
}

func (s *speller) render(v vu.Val) (string, vu.Val, bool) {
	switch v.K {
	case vu.VInt, vu.VFloat:
		i := s.n
		s.n++
		if i == s.target {
			return s.lit, s.reading, true
		}
		t, ok := vu.JSONText(v)
		return t, v, ok
	case vu.VList:
		out := v.Copy()
		parts := make([]string, len(v.Elems))
		for i, e := range v.Elems {
			t, d, ok := s.render(e)
			if !ok {
				return "", vu.Val{}, false
			}
			parts[i], out.Elems[i] = t, d
		}
		if s.loose {
			return "[ " + strings.Join(parts, " , ") + " ]", out, true
		}
		return "[" + strings.Join(parts, ",") + "]", out, true
	case vu.VObj:
		out := v.Copy()
		parts := make([]string, len(v.Keys))
		for i, k := range v.Keys {
			t, d, ok := s.render(v.Vals[i])
			if !ok {
				return "", vu.Val{}, false
			}
			out.Vals[i] = d
			if s.loose {
				parts[i] = `"` + k + `" : ` + t
			} else {
				parts[i] = `"` + k + `":` + t
			}
		}
		if s.loose {
			return "{ " + strings.Join(parts, " , ") + " }", out, true
		}
		return "{" + strings.Join(parts, ",") + "}", out, true
	}
	t, ok := vu.JSONText(v)
	return t, v, ok
}

// jsonCarries: route json transports JSON-carriable values with at least one number.
func jsonCarries(stmt string, v vu.Val) bool {
	if _, ok := vu.JSONText(v); !ok || countNums(v) == 0 {
		return false
	}
	if stmt == "letget" && (v.K == vu.VNull || v.K == vu.VNone) {
		return false
	}
	return true
}

// enumerateJSON lists the pairs of a route-json case before sampling: every carried candidate of T
// with one seed-chosen number respelled by a seed-chosen literal of the pool. A pair is left out
// when one of its readings contains a construct listed in Avoid.
func enumerateJSON(p payload) []pairSpec {
	r := fw.NewRng(p.Seed ^ 0x15071)
	pool := numLitPool(r, 24)
	explicit := p.Stmt == "as"
	var out []pairSpec
	for _, v := range vu.Candidates(p.T, p.Width) {
		if !jsonCarries(p.Stmt, v) {
			continue
		}
		lit := pool[r.Intn(len(pool))]
		target := r.Intn(countNums(v))
		loose := r.Intn(3) == 0
		q := pairSpec{Explicit: explicit}
		ok := true
		for i, reading := range lit.Readings {
			sp := &speller{target: target, lit: lit.Text, reading: reading, loose: loose}
			text, denoted, rok := sp.render(v)
			if !rok || (len(p.Avoid) > 0 && hasAny(constructs(p.Route, p.Lib, denoted, p.T, explicit), p.Avoid)) {
				ok = false
				break
			}
			if i == 0 {
				q.V, q.Text, q.Lit = denoted, text, lit.Text
			} else {
				q.Alt = append(q.Alt, denoted)
			}
		}
		if ok {
			out = append(out, q)
		}
	}
	return out
}

// decideAny judges an observation against every reading of the pair's JSON text: it is accepted if
// it is sound for one of them; otherwise the failures of the primary reading are reported.
func (j *judge) decideAny(q pairSpec, ob observed) {
	readings := append([]vu.Val{q.V}, q.Alt...)
	for i, v := range readings {
		s := &judge{p: j.p, at: j.at, src: j.src, cover: map[string]int{}}
		s.decide(pairSpec{V: v, Explicit: q.Explicit, Text: q.Text}, ob, true)
		if len(s.fails) == 0 {
			j.admitted += s.admitted
			j.rejected += s.rejected
			for k, n := range s.cover {
				j.cover[k] += n
			}
			if i > 0 {
				j.cov("alt-reading")
			}
			return
		}
	}
	j.decide(q, ob, true)
}

// litClass names the kind of spelling for the coverage histogram.
func litClass(text string) string {
	l, ok := readNumber(text)
	if !ok {
		return "lit-other"
	}
	body := strings.TrimPrefix(text, "-")
	switch {
	case strings.Trim(body, "0123456789") == "" && l.Readings[0].K == vu.VFloat:
		return "lit-integer-beyond-int"
	case strings.Trim(body, "0123456789") == "":
		return "lit-integer"
	case len(l.Readings) > 1:
		return "lit-fraction-exponent-integral"
	}
	return "lit-fraction-exponent"
}
