package c12

import (
	"context"
	"fmt"
	"strings"
	"sync"
	"sync/atomic"

	hms "github.com/smarthome-go/homescript/v3/homescript"
	"github.com/smarthome-go/homescript/v3/homescript/analyzer"
	"github.com/smarthome-go/homescript/v3/homescript/analyzer/ast"
	herrors "github.com/smarthome-go/homescript/v3/homescript/errors"
	"github.com/smarthome-go/homescript/v3/homescript/interpreter"
	ivalue "github.com/smarthome-go/homescript/v3/homescript/interpreter/value"
	pAst "github.com/smarthome-go/homescript/v3/homescript/parser/ast"
	"github.com/smarthome-go/homescript/v3/homescript/runtime"
	vvalue "github.com/smarthome-go/homescript/v3/homescript/runtime/value"

	"hv/drive"
	"hv/fw"
	vu "hv/valuni"
)

// Route seq: ONE dynamically typed source that stays reachable, crossed TWICE into static types.
//
// Routes as / let / letget push a temporary (`'…'.parse_json()`) across the boundary once; nothing
// can be observed of the dynamic value afterwards. Here the source lives on:
//
//	source field   a field of an any-object, read as `ao.get("k")` / `ao->k` (static type ?any; the targets
//	               are option types)
//	source host    a value the host provides as builtin import `dyn` of module `hv`, declared with a type
//	               that says `any` at depth d of the target: d=0 `any`, d=1 `[any]`, `?any`, `{ a: any, … }`,
//	               d=2 `[[any]]`, `?[any]`, … — the composite types with the SAME outer kind as the target are
//	               the ones where a cast looks redundant statically although its whole purpose is the runtime
//	               validation. The host is honest: the value agrees with the declared type outside the `any`
//	               parts; it may be any value of the universe (ranges, options, any-objects — not only JSON).
//
// and is crossed by two statements in a row, each `let x = SRC as Ti;` or `let x: Ti = SRC;` inside its
// own try/catch, T2 being a one-step variation of T1 (another scalar at one position, `U` <-> `?U`,
// object -> any-object), so that many values conform to one, both or none of them, with and without
// conversions. Each crossing is judged on its own against the reference predicates for (v, Ti) — the
// first cast, admitted or refused, must not have changed what the second one sees — and the source is
// read again at the end (field: `probe(ao)` before and after; host: the Go value the host handed out)
// and must be what it was.

const hostModule = "hv"

// ---------------------------------------------------------------------------------------------
// Declared types with `any` at depth d
// ---------------------------------------------------------------------------------------------

// anySrc renders T with every subtree at depth d replaced by `any` (documentation only: the type is
// handed to the analyzer as an ast.Type by anyAst).
func anySrc(t vu.Type, d int) string {
	if d == 0 {
		return "any"
	}
	switch t.K {
	case vu.TList:
		return "[" + anySrc(*t.Elem, d-1) + "]"
	case vu.TOpt:
		return "?" + anySrc(*t.Elem, d-1)
	case vu.TObj:
		parts := make([]string, len(t.Fields))
		for i, f := range t.Fields {
			parts[i] = f.Name + ": " + anySrc(f.T, d-1)
		}
		return "{ " + strings.Join(parts, ", ") + " }"
	}
	return t.Src()
}

func anyAst(t vu.Type, d int) ast.Type {
	sp := herrors.Span{}
	if d == 0 {
		return ast.NewAnyType(sp)
	}
	switch t.K {
	case vu.TList:
		return ast.NewListType(anyAst(*t.Elem, d-1), sp)
	case vu.TOpt:
		return ast.NewOptionType(anyAst(*t.Elem, d-1), sp)
	case vu.TObj:
		fs := make([]ast.ObjectTypeField, 0, len(t.Fields))
		for _, f := range t.Fields {
			fs = append(fs, ast.NewObjectTypeField(pAst.NewSpannedIdent(f.Name, sp), anyAst(f.T, d-1), sp))
		}
		return ast.NewObjectType(fs, sp)
	}
	return vu.AstType(t)
}

// agrees: v is a value of the declared type (T with `any` at depth d) — statically typed parts hold
// exactly what they say, the `any` parts hold anything.
func agrees(v vu.Val, t vu.Type, d int) bool {
	if d == 0 {
		return true
	}
	switch t.K {
	case vu.TList:
		if v.K != vu.VList {
			return false
		}
		for _, e := range v.Elems {
			if !agrees(e, *t.Elem, d-1) {
				return false
			}
		}
		return true
	case vu.TOpt:
		switch v.K {
		case vu.VNone:
			return true
		case vu.VSome:
			return agrees(*v.Inner, *t.Elem, d-1)
		}
		return false
	case vu.TObj:
		if v.K != vu.VObj || len(v.Keys) != len(t.Fields) {
			return false
		}
		for i, f := range t.Fields {
			if v.Keys[i] != f.Name || !agrees(v.Vals[i], f.T, d-1) {
				return false
			}
		}
		return true
	}
	return vu.HasType(v, t)
}

// ---------------------------------------------------------------------------------------------
// One-step variations of a type
// ---------------------------------------------------------------------------------------------

type typeVar struct {
	T     vu.Type
	Depth int // depth of the varied node
}

// variations lists the one-step variations of t: at every node another scalar of {int,float,bool,str},
// `U` -> `?U`, `?U` -> `U` (never producing `??U`), object -> any-object.
func variations(t vu.Type) []typeVar {
	var out []typeVar
	var walk func(u vu.Type, depth int, underOpt bool, rebuild func(vu.Type) vu.Type)
	walk = func(u vu.Type, depth int, underOpt bool, rebuild func(vu.Type) vu.Type) {
		emit := func(x vu.Type) { out = append(out, typeVar{T: rebuild(x), Depth: depth}) }
		switch u.K {
		case vu.TInt, vu.TFloat, vu.TBool, vu.TStr:
			for _, s := range []vu.Type{vu.Int(), vu.Float(), vu.Bool(), vu.Str()} {
				if s.K != u.K {
					emit(s)
				}
			}
		case vu.TObj:
			emit(vu.AnyObj())
		}
		if u.K == vu.TOpt {
			if !underOpt && u.Elem.K != vu.TOpt {
				emit(*u.Elem)
			}
		} else if !underOpt {
			emit(vu.Opt(u))
		}
		switch u.K {
		case vu.TList:
			walk(*u.Elem, depth+1, false, func(x vu.Type) vu.Type { return rebuild(vu.List(x)) })
		case vu.TOpt:
			walk(*u.Elem, depth+1, true, func(x vu.Type) vu.Type { return rebuild(vu.Opt(x)) })
		case vu.TObj:
			for i := range u.Fields {
				i := i
				walk(u.Fields[i].T, depth+1, false, func(x vu.Type) vu.Type {
					fs := append([]vu.Field{}, u.Fields...)
					fs[i] = vu.F(fs[i].Name, x)
					return rebuild(vu.Obj(fs...))
				})
			}
		}
	}
	walk(t, 0, false, func(x vu.Type) vu.Type { return x })
	return out
}

// seqPlan fixes, for a case type and a seed, the second type, the depth of `any` in the declared type
// and the statement kinds. Pure function of its arguments.
type seqPlan struct {
	T      [2]vu.Type
	Kinds  [2]string // as | let
	Depth  int       // source host
	Access string    // source field: get | arrow
}

func planSeq(t vu.Type, source string, seed uint64) seqPlan {
	r := fw.NewRng(seed ^ 0x5E9)
	pl := seqPlan{Access: "get"}
	minDepth := 0
	if source == "field" {
		minDepth = 1 // both targets stay option types
		if r.Intn(2) == 0 {
			pl.Access = "arrow"
		}
	} else if td := t.Depth(); td >= 1 && r.Intn(4) != 0 {
		pl.Depth = 1 + r.Intn(td)
		minDepth = pl.Depth
	}
	vars := variations(t)
	pick := func(min int) (vu.Type, bool) {
		var ok []vu.Type
		for _, v := range vars {
			if v.Depth >= min {
				ok = append(ok, v.T)
			}
		}
		if len(ok) == 0 {
			return vu.Type{}, false
		}
		return ok[r.Intn(len(ok))], true
	}
	t2, ok := pick(minDepth)
	for !ok && source == "host" && pl.Depth > 0 {
		pl.Depth--
		t2, ok = pick(pl.Depth)
	}
	if !ok {
		t2 = t // the same cast twice
	}
	pl.T = [2]vu.Type{t, t2}
	if r.Intn(2) == 0 {
		pl.T[0], pl.T[1] = pl.T[1], pl.T[0]
	}
	for i := range pl.Kinds {
		pl.Kinds[i] = []string{"as", "let"}[r.Intn(2)]
	}
	return pl
}

// ---------------------------------------------------------------------------------------------
// Values and programs
// ---------------------------------------------------------------------------------------------

// seqCarries: the source can hold v.
func seqCarries(source string, pl seqPlan, v vu.Val) bool {
	if source == "host" {
		// the declared type is the same for both targets: they differ below the `any`
		return agrees(v, pl.T[0], pl.Depth)
	}
	switch v.K {
	case vu.VNone:
		return true
	case vu.VSome:
		w := *v.Inner
		if w.K == vu.VNull || w.K == vu.VNone {
			return false // JSON null is read back as none
		}
		_, ok := vu.JSONText(w)
		return ok
	}
	return false
}

// seqValues enumerates and samples the values of a case: the candidates of both targets, minus what
// the source cannot hold and what open findings poison, balanced over {conforms to both, to one, to none}.
func seqValues(p payload, pl seqPlan) []vu.Val {
	r := fw.NewRng(p.Seed)
	seen := map[string]bool{}
	var carried []vu.Val
	for _, t := range pl.T {
		for _, v := range vu.Candidates(t, p.Width) {
			if !seqCarries(p.Source, pl, v) {
				continue
			}
			k := v.String()
			if seen[k] {
				continue
			}
			seen[k] = true
			carried = append(carried, v)
		}
	}
	// classify the typed pools of both targets and a seed-chosen subset of the rest only (the reference
	// predicates are costly on the whole pool)
	if pre := 8 * p.Max; p.Max > 0 && len(carried) > pre {
		typed := map[string]bool{}
		for _, t := range pl.T {
			for _, v := range vu.Typed(t, p.Width) {
				typed[v.String()] = true
			}
		}
		var keep, rest []vu.Val
		for _, v := range carried {
			if typed[v.String()] {
				keep = append(keep, v)
			} else {
				rest = append(rest, v)
			}
		}
		for i := 0; i < pre && i < len(rest); i++ {
			k := i + r.Intn(len(rest)-i)
			rest[i], rest[k] = rest[k], rest[i]
		}
		if len(rest) > pre {
			rest = rest[:pre]
		}
		carried = append(keep, rest...)
	}
	var classes [3][]vu.Val
	for _, v := range carried {
		nconf := 0
		for i, ti := range pl.T {
			if vu.Conforms(v, ti, pl.Kinds[i] == "as") {
				nconf++
			}
		}
		classes[2-nconf] = append(classes[2-nconf], v)
	}
	// the constructs of open findings are looked at for the picked values only (they are costly)
	poisoned := func(v vu.Val) bool {
		if len(p.Avoid) == 0 {
			return false
		}
		for i, ti := range pl.T {
			if hasAny(constructs(pl.Kinds[i], p.Lib, v, ti, pl.Kinds[i] == "as"), p.Avoid) {
				return true
			}
		}
		return false
	}
	var out []vu.Val
	order := []int{0, 1, 0, 2}
	left := len(classes[0]) + len(classes[1]) + len(classes[2])
	for k := 0; left > 0 && (p.Max <= 0 || len(out) < p.Max); k++ {
		c := order[k%len(order)]
		if len(classes[c]) == 0 {
			continue
		}
		i := r.Intn(len(classes[c]))
		v := classes[c][i]
		classes[c] = append(classes[c][:i:i], classes[c][i+1:]...)
		left--
		if !poisoned(v) {
			out = append(out, v)
		}
	}
	return out
}

func crossingStmt(kind string, t vu.Type, src string) string {
	if kind == "as" {
		return fmt.Sprintf("let x = %s as %s;", src, t.Src())
	}
	return fmt.Sprintf("let x: %s = %s;", t.Src(), src)
}

// SeqSource builds the program of route seq.
func SeqSource(source string, pl seqPlan, v vu.Val) (string, bool) {
	var sb strings.Builder
	srcExpr := "dyn"
	if source == "host" {
		fmt.Fprintf(&sb, "import { dyn } from %s;\n", hostModule)
	}
	sb.WriteString("fn main() {\n    let before = 41;\n    let keep = [1, 2, 3];\n")
	if source == "field" {
		member := "\"z\":0"
		access := pl.Access
		if v.K == vu.VSome {
			js, ok := vu.JSONText(*v.Inner)
			if !ok {
				return "", false
			}
			member = "\"k\":" + js
		} else {
			access = "get" // `->` on an absent key: FINDINGS.md §8
		}
		srcExpr = "ao.get(\"k\")"
		if access == "arrow" {
			srcExpr = "ao->k"
		}
		fmt.Fprintf(&sb, "    let ao = '{%s}'.parse_json() as { ? };\n    probe(ao);\n", member)
	}
	for i, t := range pl.T {
		fmt.Fprintf(&sb, "    let r%d = try {\n        %s\n        %s\n        println(\"admitted\");\n        0\n    } catch e {\n        println(\"caught\");\n        probe(e.message);\n        1\n    };\n",
			i, crossingStmt(pl.Kinds[i], t, srcExpr), probeStmt(t))
	}
	if source == "field" {
		sb.WriteString("    probe(ao);\n")
	}
	sb.WriteString("    keep.push(4);\n    println(\"after\", r0, r1, before + 1, keep);\n}\n")
	return sb.String(), true
}

// ---------------------------------------------------------------------------------------------
// Running programs with a host value
// ---------------------------------------------------------------------------------------------

type vmHostExec struct {
	drive.VMExec
	imports map[string]vvalue.Value
}

func (e vmHostExec) GetBuiltinImport(module, name string) (vvalue.Value, bool) {
	if module == hostModule {
		v, ok := e.imports[name]
		return v, ok
	}
	return e.VMExec.GetBuiltinImport(module, name)
}

type treeHostExec struct {
	drive.TreeExec
	imports map[string]ivalue.Value
}

func (e treeHostExec) GetBuiltinImport(module, name string) (ivalue.Value, bool) {
	if module == hostModule {
		v, ok := e.imports[name]
		return v, ok
	}
	return e.TreeExec.GetBuiltinImport(module, name)
}

// progRun is what a program run looked like from outside, in abstract values.
type progRun struct {
	out      string
	oc       drive.Outcome
	probes   []vu.Val
	probeErr []error
	// the host value after the run (source host)
	hostAfter    vu.Val
	hostAfterErr error
}

const seqStepBudget = 200_000

type seqBudgetPanic struct{}

// analyzeHost analyses a program that may import `dyn` of the declared type.
func analyzeHost(src drive.Sources, declared ast.Type) drive.AnalyzeOut {
	h := &drive.Host{Src: src}
	if declared != nil {
		h.ExtraImports = map[string]map[string]analyzer.BuiltinImport{hostModule: {"dyn": {Type: declared}}}
	}
	return drive.AnalyzeWith(h, src, "main", true)
}

// runWithHost runs main on the chosen back end; host (if not nil) is the value of the import `dyn`.
func runWithHost(lib string, mods map[string]ast.AnalyzedProgram, src drive.Sources, host *vu.Val) (pr progRun) {
	if lib == "vm" {
		prog, err := drive.Compile(mods, "main")
		if err != nil {
			pr.oc = drive.Outcome{Class: "compile-error", Message: err.Error()}
			return pr
		}
		log := &drive.Log{}
		exec := vmHostExec{VMExec: drive.VMExec{L: log, Src: src}, imports: map[string]vvalue.Value{}}
		var hv vvalue.Value
		if host != nil {
			hv = *vu.ToVM(*host)
			exec.imports["dyn"] = hv
		}
		scope := exec.VMScope()
		var pmu sync.Mutex
		var probes []vvalue.Value
		scope["probe"] = *vvalue.NewValueBuiltinFunction(func(_ vvalue.Executor, _ *context.Context, _ herrors.Span, a ...vvalue.Value) (*vvalue.Value, *vvalue.VmInterrupt) {
			pmu.Lock()
			probes = append(probes, a...)
			pmu.Unlock()
			return vvalue.NewValueNull(), nil
		})
		var steps atomic.Int64
		runtime.VerifStep = func(*runtime.Core) {
			if steps.Add(1) > seqStepBudget {
				panic(fw.StepBudgetMsg)
			}
		}
		defer func() { runtime.VerifStep = nil }()
		ctx, cancel := context.WithCancel(context.Background())
		var cf context.CancelFunc = cancel
		vm := runtime.NewVM(prog, exec, &ctx, &cf, scope, drive.DefaultLimits)
		vm.SpawnAsync(runtime.MainFn(), nil, nil, nil)
		_, i := vm.Wait()
		cancel()
		pr.oc = drive.VMOutcome(i)
		pr.out = log.Output()
		pmu.Lock()
		got := append([]vvalue.Value{}, probes...)
		pmu.Unlock()
		for _, g := range got {
			v, err := vu.FromVM(g)
			pr.probes, pr.probeErr = append(pr.probes, v), append(pr.probeErr, err)
		}
		if host != nil {
			pr.hostAfter, pr.hostAfterErr = vu.FromVM(hv)
		}
		return pr
	}
	log := &drive.Log{}
	exec := treeHostExec{TreeExec: drive.TreeExec{L: log, Src: src}, imports: map[string]ivalue.Value{}}
	var hv ivalue.Value
	if host != nil {
		hv = *vu.ToTree(*host)
		exec.imports["dyn"] = hv
	}
	var probes []ivalue.Value
	scope := exec.TreeScope(&probes)
	steps := 0
	interpreter.VerifStep = func() {
		steps++
		if steps > seqStepBudget {
			panic(seqBudgetPanic{})
		}
	}
	defer func() { interpreter.VerifStep = nil }()
	func() {
		defer func() {
			if r := recover(); r != nil {
				if _, ok := r.(seqBudgetPanic); ok {
					pr.oc = drive.Outcome{Class: "step-budget", Message: fw.StepBudgetMsg}
					return
				}
				pr.oc = drive.Outcome{Class: "go-panic", Message: fmt.Sprint(r)}
			}
		}()
		ctx := context.Background()
		i := hms.Run(2048, mods, "main", exec, scope, &ctx)
		pr.oc = drive.TreeOutcome(i)
	}()
	pr.out = log.Output()
	for _, g := range probes {
		v, err := vu.FromTree(g)
		pr.probes, pr.probeErr = append(pr.probes, v), append(pr.probeErr, err)
	}
	if host != nil {
		pr.hostAfter, pr.hostAfterErr = vu.FromTree(hv)
	}
	return pr
}

// ---------------------------------------------------------------------------------------------
// Judge
// ---------------------------------------------------------------------------------------------

// seq runs one value through the two crossings and judges them.
func (j *judge) seq(pl seqPlan, v vu.Val) {
	text, ok := SeqSource(j.p.Source, pl, v)
	if !ok {
		return
	}
	j.src = text
	defer func() { j.src, j.at, j.sigRoute = "", "", "" }()
	qs := [2]pairSpec{{V: v, Explicit: pl.Kinds[0] == "as"}, {V: v, Explicit: pl.Kinds[1] == "as"}}
	name := func(i int) string {
		s := fmt.Sprintf("%s#%d %s", j.p.Source, i+1, pl.Kinds[i])
		if j.p.Source == "host" {
			s += " from " + anySrc(pl.T[0], pl.Depth)
		} else {
			s += " from " + pl.Access
		}
		return s
	}
	j.at = name(0)
	src := drive.Sources{"main": text}
	var declared ast.Type
	var host *vu.Val
	if j.p.Source == "host" {
		declared = anyAst(pl.T[0], pl.Depth)
		host = &v
	}
	ao := analyzeHost(src, declared)
	if ao.Errors > 0 {
		j.failT("harness", "analyze", qs[0], pl.T[0], "the generated program was not accepted: %s\n%s", ao.ErrorSummary(), text)
		return
	}
	pr := runWithHost(j.p.Lib, ao.Modules, src, host)

	lines := strings.Split(strings.TrimSuffix(pr.out, "\n"), "\n")
	if pr.out == "" {
		lines = nil
	}
	// probes: [ao before] c1 c2 [ao after]
	off := 0
	if j.p.Source == "field" {
		off = 1
	}
	done := 0 // crossings that completed
	for done < 2 && done < len(lines) && (lines[done] == "admitted" || lines[done] == "caught") {
		done++
	}
	if pr.oc.Class != "ok" {
		i := done
		if i > 1 {
			i = 1
		}
		j.at, j.sigRoute = name(i), pl.Kinds[i]
		detail := pr.oc.Class + "/" + pr.oc.Kind
		if pr.oc.Class == "go-panic" {
			detail = "go-panic/" + normMsg(pr.oc.Message)
		}
		j.rejected++
		j.failT("not-catchable", detail, qs[i], pl.T[i], "the program did not survive crossing %d: outcome %s, output %q (try/catch around the crossing did not catch)", i+1, pr.oc, pr.out)
		return
	}
	wantProbes := 2 + 2*off
	if done != 2 || len(lines) != 3 || len(pr.probes) != wantProbes {
		j.failT("bad-continuation", "output", qs[0], pl.T[0], "execution did not continue sanely after the crossings: output %q, %d probes (want %d)", pr.out, len(pr.probes), wantProbes)
		return
	}
	var rs [2]int
	for i := 0; i < 2; i++ {
		if lines[i] == "caught" {
			rs[i] = 1
		}
	}
	if want := fmt.Sprintf("after %d %d 42 [1, 2, 3, 4]", rs[0], rs[1]); lines[2] != want {
		j.failT("bad-continuation", "output", qs[0], pl.T[0], "execution did not continue sanely after the crossings: last line %q, want %q", lines[2], want)
		return
	}
	anyAdmitted := false
	for i := 0; i < 2; i++ {
		j.at, j.sigRoute = name(i), pl.Kinds[i]
		var ob observed
		pv, perr := pr.probes[off+i], pr.probeErr[off+i]
		if rs[i] == 0 {
			ob.admitted = true
			anyAdmitted = true
			if perr != nil {
				ob.resultErr = perr
			} else {
				ob.result = unwrapProbe(pl.T[i], pv)
			}
		} else {
			if perr != nil || pv.K != vu.VStr {
				j.failT("bad-continuation", "catch-probe", qs[i], pl.T[i], "catch path of crossing %d did not deliver the error message (err=%v)", i+1, perr)
				continue
			}
			ob.msg = pv.S
		}
		nfail := len(j.fails)
		j.decideT(qs[i], pl.T[i], ob, true, "")
		if i == 1 && len(j.fails) > nfail {
			// say what happened to the same value one statement earlier
			f := &j.fails[len(j.fails)-1]
			first := "refused"
			if rs[0] == 0 {
				first = "admitted"
			}
			f.Why += fmt.Sprintf(" — the same source had been %s by `%s` into %s just before", first, pl.Kinds[0], pl.T[0].Src())
		}
		j.cov("crossing-" + pl.Kinds[i])
	}
	// the source, read again
	j.at, j.sigRoute = name(1), ""
	last := qs[1]
	lastT := pl.T[1]
	if j.p.Source == "host" {
		j.sourceKept("host value", last, lastT, anyAdmitted, v, pr.hostAfter, pr.hostAfterErr)
	} else {
		b, a := pr.probes[0], pr.probes[len(pr.probes)-1]
		berr, aerr := pr.probeErr[0], pr.probeErr[len(pr.probes)-1]
		if berr != nil {
			j.failT("harness", "source-probe", last, lastT, "the any-object could not be read before the crossings: %v", berr)
			return
		}
		j.sourceKept("any-object", last, lastT, anyAdmitted, b, a, aerr)
	}
	j.cov(fmt.Sprintf("%s/d%d", j.p.Source, pl.Depth))
}
