package c12

import (
	"fmt"
	"strings"

	"github.com/smarthome-go/homescript/v3/homescript/analyzer/ast"
	herrors "github.com/smarthome-go/homescript/v3/homescript/errors"

	"hv/drive"
	"hv/fw"
	vu "hv/valuni"
)

// Route alias: the target type of the crossing is NAMED — `dyn as A`, `let x: A = dyn`, `dyn as [A]`,
// `let x: { a: A, b: int } = dyn` — and the name is resolved lexically.
//
// All other program routes spell the target type structurally (`as { a: int }`). The property talks about
// "the type T" of the crossing: when T is written as a type alias, it is the alias that is in scope AT THE
// CROSSING — the declaration of the innermost enclosing scope that precedes the crossing. The route
// generates programs in which the same alias name is declared at several nesting levels with different
// right hand sides (one-step variations of the case type, so that many values conform to one, both or
// none of them) and crossings sit at different places of that structure:
//
//	level 0   the module: `type A = …;`, or `import { type A } from lib;` (declared `pub` in module lib)
//	level 1   the body of main
//	level 2   a block inside main:     { } | if | else | for | loop | while | closure | match arm | try
//	level 3   a block inside level 2 (same kinds)
//	helper    `fn other()`, which sees level 0 only, called from main
//
// Every level declares the name or not (seed-chosen, at least one does; neighbouring declarations get
// different types). Crossing sites are: in `other`; at each level BEFORE its own declaration (the outer
// one is still in force) and AFTER it; after an inner block has been closed again (its declaration is out
// of scope). The name is used either directly (the alias names the whole target type) or for one child of
// the target (`[A]`, `?A`, `{ a: A, … }`), or through a second alias declared next to one of the
// declarations (`type B = [A];` — bound where it is declared, later shadowing of A does not change it).
//
// The reference model is the small lexical-scope resolver below (aliasEnv): it walks the generated
// structure, independent of the analyzer, and yields for every site the structural type the name stands
// for. Each crossing is then judged exactly as on the other program routes: the value probed after it (or
// the caught cast error) against the reference predicates of valuni for (v, that type). The dynamic value
// is the host import `dyn` declared `any` (as on route seq, depth 0), so every value of the universe can
// be carried.

// ---------------------------------------------------------------------------------------------
// Type expressions that mention alias names
// ---------------------------------------------------------------------------------------------

// tyx is a type expression: an alias name, a structural type, or a structural type one child of which
// (Hole) is again a type expression.
type tyx struct {
	Ref   string
	T     vu.Type
	Hole  int // -1: none
	Inner *tyx
}

func txRef(name string) tyx { return tyx{Ref: name, Hole: -1} }
func txLit(t vu.Type) tyx   { return tyx{T: t, Hole: -1} }
func nChildren(t vu.Type) int {
	switch t.K {
	case vu.TList, vu.TOpt:
		return 1
	case vu.TObj:
		return len(t.Fields)
	}
	return 0
}

func childOf(t vu.Type, i int) vu.Type {
	if t.K == vu.TObj {
		return t.Fields[i].T
	}
	return *t.Elem
}

func withChild(t vu.Type, i int, u vu.Type) vu.Type {
	switch t.K {
	case vu.TList:
		return vu.List(u)
	case vu.TOpt:
		return vu.Opt(u)
	}
	fs := append([]vu.Field{}, t.Fields...)
	fs[i] = vu.F(fs[i].Name, u)
	return vu.Obj(fs...)
}

// txWrap is t with child hole replaced by the expression inner (hole < 0: inner itself).
func txWrap(t vu.Type, hole int, inner tyx) tyx {
	if hole < 0 {
		return inner
	}
	return tyx{T: t, Hole: hole, Inner: &inner}
}

func (x tyx) Src() string {
	switch {
	case x.Ref != "":
		return x.Ref
	case x.Hole < 0:
		return x.T.Src()
	}
	in := x.Inner.Src()
	switch x.T.K {
	case vu.TList:
		return "[" + in + "]"
	case vu.TOpt:
		return "?" + in
	}
	parts := make([]string, len(x.T.Fields))
	for i, f := range x.T.Fields {
		if i == x.Hole {
			parts[i] = f.Name + ": " + in
		} else {
			parts[i] = f.Name + ": " + f.T.Src()
		}
	}
	return "{ " + strings.Join(parts, ", ") + " }"
}

// ---------------------------------------------------------------------------------------------
// The reference model of lexical scoping
// ---------------------------------------------------------------------------------------------

type aliasBinding struct {
	T     vu.Type
	Where string
}

// aliasEnv is the stack of open scopes, outermost first. A name stands for the binding of the innermost
// scope that has one.
type aliasEnv []map[string]aliasBinding

func (e aliasEnv) lookup(name string) (aliasBinding, bool) {
	for i := len(e) - 1; i >= 0; i-- {
		if b, ok := e[i][name]; ok {
			return b, true
		}
	}
	return aliasBinding{}, false
}

// visible lists every binding of the name in the open scopes, innermost first.
func (e aliasEnv) visible(name string) []aliasBinding {
	var out []aliasBinding
	for i := len(e) - 1; i >= 0; i-- {
		if b, ok := e[i][name]; ok {
			out = append(out, b)
		}
	}
	return out
}

func (e aliasEnv) resolve(x tyx) (vu.Type, bool) {
	switch {
	case x.Ref != "":
		b, ok := e.lookup(x.Ref)
		return b.T, ok
	case x.Hole < 0:
		return x.T, true
	}
	in, ok := e.resolve(*x.Inner)
	if !ok {
		return vu.Type{}, false
	}
	return withChild(x.T, x.Hole, in), true
}

func (x tyx) refName() string {
	for x.Ref == "" && x.Inner != nil {
		x = *x.Inner
	}
	return x.Ref
}

// ---------------------------------------------------------------------------------------------
// Program structure
// ---------------------------------------------------------------------------------------------

// aliasItem is one statement of the generated structure.
type aliasItem struct {
	Op    string // decl | cross | scope | call
	Name  string // decl
	Rhs   tyx    // decl
	Site  int    // cross: candidate id, later index into aliasPlan.Sites
	Block string // scope: block kind
	Label string // scope: where-label of declarations inside
	Body  []aliasItem
}

// aliasSite is one crossing. Sites are numbered in execution order.
type aliasSite struct {
	Kind      string  // as | let
	Use       tyx     // the type as written
	Want      vu.Type // what the reference model says it stands for
	Note      string  // the declarations of the used name that are open at the site, innermost first
	Shadowing bool    // at least two of them, of different types
}

// aliasPlan is the program family member of a case: pure function of (type, seed).
type aliasPlan struct {
	Pool    []vu.Type // the full target types the declarations stand for; Pool[0] is the case type
	Import  bool      // level 0 is `import { type A } from lib`
	LibDecl []aliasItem
	Module  []aliasItem
	Other   []aliasItem // nil: no helper function
	Main    []aliasItem
	Sites   []aliasSite
	Levels  string // which levels declare the name, e.g. "0+1+3"
	Blocks  []string
	Chain   bool
	Hole    int
}

var aliasBlocks = []string{"block", "if", "else", "for", "loop", "while", "closure", "match", "try"}

const aliasLib = "lib"

// walk visits the cross items in execution order with the scopes open at each of them.
func (pl *aliasPlan) walk(visit func(it *aliasItem, env aliasEnv)) {
	module := map[string]aliasBinding{}
	env := aliasEnv{module}
	// module-level declarations (own or imported) are in force in every function, wherever they stand
	libEnv := aliasEnv{map[string]aliasBinding{}}
	pl.walkItems(pl.LibDecl, libEnv, "module "+aliasLib, visit)
	if pl.Import {
		for k, b := range libEnv[0] {
			b.Where = "module " + aliasLib + " (imported as a type)"
			module[k] = b
		}
	}
	pl.walkItems(pl.Module, env, "the module", visit)
	pl.walkItems(pl.Main, append(env[:1:1], map[string]aliasBinding{}), "main", visit)
}

func (pl *aliasPlan) walkItems(items []aliasItem, env aliasEnv, where string, visit func(it *aliasItem, env aliasEnv)) {
	for i := range items {
		it := &items[i]
		switch it.Op {
		case "decl":
			if t, ok := env.resolve(it.Rhs); ok {
				env[len(env)-1][it.Name] = aliasBinding{T: t, Where: where}
			}
		case "cross":
			visit(it, env)
		case "scope":
			pl.walkItems(it.Body, append(env[:len(env):len(env)], map[string]aliasBinding{}), it.Label, visit)
		case "call":
			// the callee sees the module scope only
			pl.walkItems(pl.Other, append(env[:1:1], map[string]aliasBinding{}), "fn other", visit)
		}
	}
}

func pruneCross(items []aliasItem, keep map[int]int) []aliasItem {
	var out []aliasItem
	for _, it := range items {
		switch it.Op {
		case "cross":
			idx, ok := keep[it.Site]
			if !ok {
				continue
			}
			it.Site = idx
		case "scope":
			it.Body = pruneCross(it.Body, keep)
		}
		out = append(out, it)
	}
	return out
}

// planAlias builds the structure for a case type and a seed.
func planAlias(t vu.Type, seed uint64) aliasPlan {
	r := fw.NewRng(seed ^ 0xA11A5)
	pl := aliasPlan{Hole: -1}

	// what the name stands for: the whole target type, or one child of it
	pickPool := func(hole int) []vu.Type {
		u := t
		if hole >= 0 {
			u = childOf(t, hole)
		}
		var vars []vu.Type
		for _, v := range variations(u) {
			if hole >= 0 && t.K == vu.TOpt && v.T.K == vu.TOpt {
				continue // no `??U`
			}
			dup := v.T.Equal(u)
			for _, w := range vars {
				dup = dup || w.Equal(v.T)
			}
			if !dup {
				vars = append(vars, v.T)
			}
		}
		us := []vu.Type{u}
		for len(us) < 3 && len(vars) > 0 {
			i := r.Intn(len(vars))
			us = append(us, vars[i])
			vars = append(vars[:i:i], vars[i+1:]...)
		}
		return us
	}
	var us []vu.Type
	if n := nChildren(t); n > 0 && r.Intn(2) == 0 {
		pl.Hole = r.Intn(n)
		us = pickPool(pl.Hole)
		if len(us) < 2 {
			pl.Hole = -1
		}
	}
	if pl.Hole < 0 {
		us = pickPool(-1)
	}
	for _, u := range us {
		full := u
		if pl.Hole >= 0 {
			full = withChild(t, pl.Hole, u)
		}
		pl.Pool = append(pl.Pool, full)
	}

	// which levels exist and which of them declare the name
	exists := [4]bool{true, true, r.Intn(4) != 0, false}
	exists[3] = exists[2] && r.Intn(2) == 0
	var declares [4]bool
	for {
		n := 0
		for l := 0; l < 4; l++ {
			declares[l] = exists[l] && r.Intn(3) != 0
			if declares[l] {
				n++
			}
		}
		if n > 0 {
			break
		}
	}
	var lv []string
	var declLevels []int
	for l := 0; l < 4; l++ {
		if declares[l] {
			lv = append(lv, fmt.Sprint(l))
			declLevels = append(declLevels, l)
		}
	}
	pl.Levels = strings.Join(lv, "+")
	pl.Import = declares[0] && r.Intn(3) == 0
	// the type each declaration stands for: neighbouring declarations differ
	typeOf := map[int]int{}
	prev := -1
	for _, l := range declLevels {
		k := r.Intn(len(us))
		if k == prev && len(us) > 1 {
			k = (k + 1 + r.Intn(len(us)-1)) % len(us)
		}
		typeOf[l] = k
		prev = k
	}
	// the case type is among them
	hasT := false
	for _, l := range declLevels {
		hasT = hasT || typeOf[l] == 0
	}
	if !hasT {
		// rotate the assignment (neighbours stay different)
		d := typeOf[declLevels[r.Intn(len(declLevels))]]
		for _, l := range declLevels {
			typeOf[l] = (typeOf[l] - d + len(us)) % len(us)
		}
	}
	chainAt := -1
	if r.Intn(3) == 0 {
		chainAt = declLevels[r.Intn(len(declLevels))]
		pl.Chain = true
	}

	cand := 0
	cross := func() aliasItem { cand++; return aliasItem{Op: "cross", Site: cand - 1} }
	deepestPost := -1
	// the statements of a level: [crossing before the declaration] [declaration [chain]] [crossing after it]
	level := func(l int, inner []aliasItem) []aliasItem {
		var out []aliasItem
		if l > 0 {
			out = append(out, cross())
		}
		if declares[l] {
			out = append(out, aliasItem{Op: "decl", Name: "A", Rhs: txLit(us[typeOf[l]])})
			if chainAt == l {
				out = append(out, aliasItem{Op: "decl", Name: "B", Rhs: txWrap(t, pl.Hole, txRef("A"))})
			}
			if l > 0 {
				c := cross()
				if deepestPost < 0 {
					deepestPost = c.Site // the levels are built innermost first
				}
				out = append(out, c)
			}
		}
		if inner != nil {
			out = append(out, inner...)
			out = append(out, cross()) // the inner block is closed again
		}
		return out
	}
	var l2 []aliasItem
	if exists[2] {
		var l3 []aliasItem
		if exists[3] {
			k := aliasBlocks[r.Intn(len(aliasBlocks))]
			pl.Blocks = append(pl.Blocks, k)
			l3 = []aliasItem{{Op: "scope", Block: k, Label: "the inner `" + k + "` block", Body: level(3, nil)}}
		}
		k := aliasBlocks[r.Intn(len(aliasBlocks))]
		pl.Blocks = append([]string{k}, pl.Blocks...)
		l2 = []aliasItem{{Op: "scope", Block: k, Label: "the `" + k + "` block of main", Body: level(2, l3)}}
	}
	pl.Main = level(1, l2)
	l0 := level(0, nil)
	if pl.Import {
		// the alias itself lives in module lib; a chained alias is declared in the importing module
		pl.LibDecl = l0[:1]
		pl.Module = l0[1:]
	} else {
		pl.Module = l0
	}
	if declares[0] {
		pl.Other = []aliasItem{cross()}
		call := aliasItem{Op: "call"}
		if r.Intn(2) == 0 {
			pl.Main = append([]aliasItem{call}, pl.Main...)
		} else {
			pl.Main = append(pl.Main, call)
		}
	}

	// which candidates can name the alias at all, then up to four of them
	type candInfo struct {
		id   int
		a, b bool
	}
	var valid []candInfo
	pl.walk(func(it *aliasItem, env aliasEnv) {
		_, a := env.lookup("A")
		_, b := env.lookup("B")
		if a || b {
			valid = append(valid, candInfo{it.Site, a, b})
		}
	})
	const maxSites = 4
	chosen := map[int]bool{}
	if deepestPost >= 0 {
		chosen[deepestPost] = true
	}
	order := make([]int, len(valid))
	for i := range order {
		order[i] = i
	}
	for i := range order {
		k := i + r.Intn(len(order)-i)
		order[i], order[k] = order[k], order[i]
	}
	for _, i := range order {
		if len(chosen) >= maxSites {
			break
		}
		chosen[valid[i].id] = true
	}
	// number the chosen sites in execution order
	keep := map[int]int{}
	useB := map[int]bool{}
	for _, c := range valid {
		if chosen[c.id] {
			keep[c.id] = len(keep)
			useB[c.id] = c.b && (!c.a || r.Intn(2) == 0)
		}
	}
	pl.Sites = make([]aliasSite, len(keep))
	for id, idx := range keep {
		s := aliasSite{Kind: "let"}
		if useB[id] {
			s.Use = txRef("B")
		} else {
			s.Use = txWrap(t, pl.Hole, txRef("A"))
		}
		pl.Sites[idx] = s
	}
	for i := range pl.Sites {
		if r.Intn(2) == 0 {
			pl.Sites[i].Kind = "as"
		}
	}
	pl.Main = pruneCross(pl.Main, keep)
	pl.Other = pruneCross(pl.Other, keep)
	pl.Module = pruneCross(pl.Module, keep)
	if len(pl.Other) == 0 {
		// the helper has no crossing: no helper, no call
		pl.Other = nil
		var main []aliasItem
		for _, it := range pl.Main {
			if it.Op != "call" {
				main = append(main, it)
			}
		}
		pl.Main = main
	}
	// what every site stands for, according to the reference model
	pl.walk(func(it *aliasItem, env aliasEnv) {
		s := &pl.Sites[it.Site]
		s.Want, _ = env.resolve(s.Use)
		name := s.Use.refName()
		var notes []string
		bs := env.visible(name)
		for i, b := range bs {
			notes = append(notes, fmt.Sprintf("%s = %s declared in %s", name, b.T.Src(), b.Where))
			if i > 0 && !b.T.Equal(bs[0].T) {
				s.Shadowing = true
			}
		}
		s.Note = strings.Join(notes, ", shadowing ")
		if name == "B" {
			// the chained alias was bound where it is declared; what A stands for by now does not matter
			as := env.visible("A")
			var an []string
			for i, b := range as {
				an = append(an, fmt.Sprintf("A = %s declared in %s", b.T.Src(), b.Where))
				if i > 0 && !b.T.Equal(as[0].T) {
					s.Shadowing = true
				}
			}
			s.Note += " (written `type B = " + txWrap(t, pl.Hole, txRef("A")).Src() + "`; open here: " + strings.Join(an, ", shadowing ") + ")"
		}
	})
	return pl
}

// ---------------------------------------------------------------------------------------------
// Rendering
// ---------------------------------------------------------------------------------------------

func (pl aliasPlan) crossingSrc(i int, ind string) string {
	s := pl.Sites[i]
	var stmt string
	if s.Kind == "as" {
		stmt = fmt.Sprintf("let x = dyn as %s;", s.Use.Src())
	} else {
		stmt = fmt.Sprintf("let x: %s = dyn;", s.Use.Src())
	}
	// the admitted value travels inside a one-element list: a null-typed expression is refused as a
	// call argument, and which type the name stands for is what is being observed
	return ind + fmt.Sprintf("let _r%d = try {\n", i) +
		ind + "    " + stmt + "\n" +
		ind + "    probe([x]);\n" +
		ind + fmt.Sprintf("    println(\"admitted %d\");\n", i) +
		ind + "    0\n" +
		ind + "} catch e {\n" +
		ind + fmt.Sprintf("    println(\"caught %d\");\n", i) +
		ind + "    probe(e.message);\n" +
		ind + "    1\n" +
		ind + "};\n"
}

func (pl aliasPlan) renderItems(sb *strings.Builder, items []aliasItem, ind string, skip map[int]bool, pub bool, nblock *int) {
	for _, it := range items {
		switch it.Op {
		case "decl":
			p := ""
			if pub {
				p = "pub "
			}
			fmt.Fprintf(sb, "%s%stype %s = %s;\n", ind, p, it.Name, it.Rhs.Src())
		case "cross":
			if !skip[it.Site] {
				sb.WriteString(pl.crossingSrc(it.Site, ind))
			}
		case "call":
			sb.WriteString(ind + "other();\n")
		case "scope":
			*nblock++
			n := *nblock
			open, close := "{", "}"
			tail := ""
			switch it.Block {
			case "if":
				open = "if flag == 41 {"
			case "else":
				open = "if flag != 41 { } else {"
			case "for":
				open = "for _i in 0..1 {"
			case "loop":
				open, tail = "loop {", "break;"
			case "while":
				open, tail = "while flag == 41 {", "break;"
			case "closure":
				open, close = fmt.Sprintf("let _f%d = fn() {", n), fmt.Sprintf("};\n%s_f%d();", ind, n)
			case "match":
				open, close = "match flag {\n"+ind+"    41 => {", "    },\n"+ind+"    _ => {},\n"+ind+"}"
			case "try":
				open, close = "try {", fmt.Sprintf("} catch _e%d { println(\"escaped\"); }", n)
			}
			in := ind + "    "
			if it.Block == "match" {
				in += "    "
			}
			sb.WriteString(ind + open + "\n")
			pl.renderItems(sb, it.Body, in, skip, false, nblock)
			if tail != "" {
				sb.WriteString(in + tail + "\n")
			}
			sb.WriteString(ind + close + "\n")
		}
	}
}

// Sources renders the program (and module lib when the alias is imported); the crossings listed in skip
// are left out.
func (pl aliasPlan) Sources(skip map[int]bool) drive.Sources {
	var sb strings.Builder
	nblock := 0
	fmt.Fprintf(&sb, "import { dyn } from %s;\n", hostModule)
	if pl.Import {
		fmt.Fprintf(&sb, "import { type A } from %s;\n", aliasLib)
	}
	sb.WriteString("let flag = 41;\n")
	pl.renderItems(&sb, pl.Module, "", skip, false, &nblock)
	if pl.Other != nil {
		sb.WriteString("fn other() {\n")
		pl.renderItems(&sb, pl.Other, "    ", skip, false, &nblock)
		sb.WriteString("}\n")
	}
	sb.WriteString("fn main() {\n    let before = 41;\n    let keep = [1, 2, 3];\n")
	pl.renderItems(&sb, pl.Main, "    ", skip, false, &nblock)
	sb.WriteString("    keep.push(4);\n    println(\"after\", before + 1, keep);\n}\n")
	src := drive.Sources{"main": sb.String()}
	if pl.Import {
		var lb strings.Builder
		pl.renderItems(&lb, pl.LibDecl, "", nil, true, &nblock)
		lb.WriteString("fn main() {}\n")
		src[aliasLib] = lb.String()
	}
	return src
}

// ---------------------------------------------------------------------------------------------
// Values
// ---------------------------------------------------------------------------------------------

// aliasValues enumerates and samples the values of a case: the candidates of every type a declaration
// stands for, balanced over {conforms to exactly one of the first two, to both, to none}.
func aliasValues(p payload, pl aliasPlan) []vu.Val {
	r := fw.NewRng(p.Seed)
	seen := map[string]bool{}
	var carried []vu.Val
	for _, t := range pl.Pool {
		for _, v := range vu.Candidates(t, p.Width) {
			k := v.String()
			if !seen[k] {
				seen[k] = true
				carried = append(carried, v)
			}
		}
	}
	if pre := 8 * p.Max; p.Max > 0 && len(carried) > pre {
		typed := map[string]bool{}
		for _, t := range pl.Pool {
			for _, v := range vu.Typed(t, p.Width) {
				typed[v.String()] = true
			}
		}
		var keep, rest []vu.Val
		for _, v := range carried {
			if typed[v.String()] {
				keep = append(keep, v)
			} else {
				rest = append(rest, v)
			}
		}
		for i := 0; i < pre && i < len(rest); i++ {
			k := i + r.Intn(len(rest)-i)
			rest[i], rest[k] = rest[k], rest[i]
		}
		if len(rest) > pre {
			rest = rest[:pre]
		}
		carried = append(keep, rest...)
	}
	// classes: 0 = the declarations disagree about the value, 1 = all admit it, 2 = none does
	var classes [3][]vu.Val
	for _, v := range carried {
		nconf := 0
		for _, t := range pl.Pool {
			if vu.Conforms(v, t, true) {
				nconf++
			}
		}
		switch nconf {
		case 0:
			classes[2] = append(classes[2], v)
		case len(pl.Pool):
			classes[1] = append(classes[1], v)
		default:
			classes[0] = append(classes[0], v)
		}
	}
	var out []vu.Val
	order := []int{0, 1, 0, 2}
	left := len(classes[0]) + len(classes[1]) + len(classes[2])
	for k := 0; left > 0 && (p.Max <= 0 || len(out) < p.Max); k++ {
		c := order[k%len(order)]
		if len(classes[c]) == 0 {
			continue
		}
		i := r.Intn(len(classes[c]))
		v := classes[c][i]
		classes[c] = append(classes[c][:i:i], classes[c][i+1:]...)
		left--
		if len(pl.aliasSkips(p, v)) < len(pl.Sites) {
			out = append(out, v)
		}
	}
	return out
}

// aliasSkips: the crossings which, for this value, contain a construct poisoned by an open finding.
func (pl aliasPlan) aliasSkips(p payload, v vu.Val) map[int]bool {
	skip := map[int]bool{}
	if len(p.Avoid) == 0 {
		return skip
	}
	for i, s := range pl.Sites {
		if hasAny(constructs(s.Kind, p.Lib, v, s.Want, s.Kind == "as"), p.Avoid) {
			skip[i] = true
		}
	}
	return skip
}

// ---------------------------------------------------------------------------------------------
// Judge
// ---------------------------------------------------------------------------------------------

func (j *judge) alias(pl aliasPlan, v vu.Val) {
	skip := pl.aliasSkips(j.p, v)
	src := pl.Sources(skip)
	j.src = src["main"]
	if lib, ok := src[aliasLib]; ok {
		j.src += "// module " + aliasLib + "\n" + lib
	}
	defer func() { j.src, j.at, j.sigRoute = "", "", "" }()
	var live []int
	for i := range pl.Sites {
		if !skip[i] {
			live = append(live, i)
		}
	}
	if len(live) == 0 {
		return
	}
	q := func(i int) pairSpec { return pairSpec{V: v, Explicit: pl.Sites[i].Kind == "as"} }
	name := func(i int) string {
		s := pl.Sites[i]
		stmt := "let x: " + s.Use.Src() + " = dyn"
		if s.Kind == "as" {
			stmt = "dyn as " + s.Use.Src()
		}
		return fmt.Sprintf("crossing %d `%s` (%s)", i, stmt, s.Note)
	}
	first := live[0]
	j.at = name(first)
	ao := analyzeHost(src, ast.NewAnyType(herrors.Span{}))
	if ao.Errors > 0 {
		j.failT("harness", "analyze", q(first), pl.Sites[first].Want, "the generated program was not accepted: %s\n%s", ao.ErrorSummary(), j.src)
		return
	}
	pr := runWithHost(j.p.Lib, ao.Modules, src, &v)

	lines := strings.Split(strings.TrimSuffix(pr.out, "\n"), "\n")
	if pr.out == "" {
		lines = nil
	}
	done := 0 // crossings that completed, in execution order
	var caught []bool
	for done < len(live) && done < len(lines) {
		if lines[done] == fmt.Sprintf("admitted %d", live[done]) {
			caught = append(caught, false)
		} else if lines[done] == fmt.Sprintf("caught %d", live[done]) {
			caught = append(caught, true)
		} else {
			break
		}
		done++
	}
	if pr.oc.Class != "ok" {
		i := live[len(live)-1]
		if done < len(live) {
			i = live[done]
		}
		j.at, j.sigRoute = name(i), pl.Sites[i].Kind
		detail := pr.oc.Class + "/" + pr.oc.Kind
		if pr.oc.Class == "go-panic" {
			detail = "go-panic/" + normMsg(pr.oc.Message)
		}
		j.rejected++
		j.failT("not-catchable", detail, q(i), pl.Sites[i].Want, "the program did not survive the crossing: outcome %s, output %q (try/catch around the crossing did not catch)", pr.oc, pr.out)
		return
	}
	if done != len(live) || len(lines) != len(live)+1 || lines[len(live)] != "after 42 [1, 2, 3, 4]" || len(pr.probes) != len(live) {
		j.failT("bad-continuation", "output", q(first), pl.Sites[first].Want, "execution did not continue sanely after the crossings: output %q, %d probes (want %d)", pr.out, len(pr.probes), len(live))
		return
	}
	for k, i := range live {
		s := pl.Sites[i]
		j.at, j.sigRoute = name(i), s.Kind
		var ob observed
		pv, perr := pr.probes[k], pr.probeErr[k]
		if !caught[k] {
			ob.admitted = true
			switch {
			case perr != nil:
				ob.resultErr = perr
			case pv.K != vu.VList || len(pv.Elems) != 1:
				ob.resultErr = fmt.Errorf("the probe did not deliver the one-element list around x: %s", pv)
			default:
				ob.result = pv.Elems[0]
			}
		} else {
			if perr != nil || pv.K != vu.VStr {
				j.failT("bad-continuation", "catch-probe", q(i), s.Want, "catch path of crossing %d did not deliver the error message (err=%v)", i, perr)
				continue
			}
			ob.msg = pv.S
		}
		j.decideT(q(i), s.Want, ob, true, "")
		j.cov("crossing-" + s.Kind)
		if s.Shadowing {
			j.cov("shadowing")
		} else {
			j.cov("single-binding")
		}
		if s.Use.Ref == "B" {
			j.cov("via-chain")
		}
	}
	// the host value, read again
	j.at, j.sigRoute = name(live[len(live)-1]), ""
	last := live[len(live)-1]
	anyAdmitted := false
	for _, c := range caught {
		anyAdmitted = anyAdmitted || !c
	}
	j.sourceKept("host value", q(last), pl.Sites[last].Want, anyAdmitted, v, pr.hostAfter, pr.hostAfterErr)
}
