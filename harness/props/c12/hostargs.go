package c12

import (
	"context"
	"fmt"
	"strings"
	"sync"

	herrors "github.com/smarthome-go/homescript/v3/homescript/errors"
	"github.com/smarthome-go/homescript/v3/homescript/runtime"
	vvalue "github.com/smarthome-go/homescript/v3/homescript/runtime/value"

	"hv/drive"
	"hv/fw"
	vu "hv/valuni"
)

// Route host-args: host invocations of a function with SEVERAL parameters of different types.
//
// Route host-arg calls `fn id(x: T)`: one argument, so nothing can be said about which argument ends
// up in which parameter. Here the callee is
//
//	fn f(x0: T0, x1: T1[, x2: T2]) -> T0 { probe(x0); probe(x1); …; x0 }
//
// (T0 = the case's type, the others seed-chosen from the universe) and every invocation hands over one
// value per parameter, the values being pairwise different. Invocations (entry, seed-chosen):
//
//	sync    runtime.VM.SpawnSync with the declared signature
//	async   runtime.VM.SpawnAsync with the declared signature, then VM.Wait
//	spawn   the in-language `spawn f(<literal>, …)` (typed values only: the arguments are literals), which
//	        hands its arguments to the new core through the same routine
//
// Half of the invocations carry conforming values only, the others exactly one non-conforming argument
// at a seed-chosen position. Oracle: with a non-conforming argument no callee instruction may execute
// (refusal, as on route host-arg); otherwise every parameter i must hold the value that was validated
// for it: a value of type Ti, equal to argument i if that already had type Ti, and to its permitted
// conversion otherwise — each parameter is judged like a crossing of route host-arg into Ti.

type argCall struct {
	Entry string
	Vals  []vu.Val
	Bad   int // index of the non-conforming argument, -1 = none
}

type argPlan struct {
	Types []vu.Type
	Calls []argCall
}

// argPool: the values of route host-arg for a parameter of type t, split by conformance.
func argPool(t vu.Type, width int) (conf, non []vu.Val) {
	for _, v := range vu.Candidates(t, width) {
		if vu.Conforms(v, t, false) {
			conf = append(conf, v)
		} else {
			non = append(non, v)
		}
	}
	return conf, non
}

// planArgs is a pure function of the payload.
func planArgs(p payload) argPlan {
	r := fw.NewRng(p.Seed ^ 0xA465)
	base := vu.TypesUpTo2()
	n := 2 + r.Intn(2)
	pl := argPlan{Types: []vu.Type{p.T}}
	for len(pl.Types) < n {
		pl.Types = append(pl.Types, base[r.Intn(len(base))])
	}
	confs := make([][]vu.Val, n)
	nons := make([][]vu.Val, n)
	for i, t := range pl.Types {
		confs[i], nons[i] = argPool(t, p.Width)
		if len(confs[i]) == 0 {
			return argPlan{Types: pl.Types}
		}
	}
	// entry spawn writes its arguments as literals: values that already have the parameter's type
	lits := make([][]vu.Val, n)
	litsDone := make([]bool, n)
	literals := func(i int) []vu.Val {
		if !litsDone[i] {
			litsDone[i] = true
			for _, v := range confs[i] {
				if vu.HasType(v, pl.Types[i]) {
					// `none` / `[]` have a static type with `any`; the analyzer accepts them as a whole let
					// initialiser but not everywhere inside a nested literal
					if lit, ok := vu.Literal(v, pl.Types[i]); ok &&
						(lit == "none" || lit == "[]" || !(strings.Contains(lit, "none") || strings.Contains(lit, "[]"))) {
						lits[i] = append(lits[i], v)
					}
				}
			}
		}
		return lits[i]
	}
	nullParam := false
	for _, t := range pl.Types {
		if t.K == vu.TNull {
			nullParam = true
		}
	}
	entries := []string{"sync", "async", "spawn"}
	for k := 0; k < p.Max; k++ {
		call := argCall{Entry: entries[r.Intn(len(entries))], Bad: -1}
		if k%2 == 1 {
			call.Bad = r.Intn(n)
			if len(nons[call.Bad]) == 0 {
				call.Bad = -1
			}
		}
		if call.Entry == "spawn" && (call.Bad >= 0 || nullParam) {
			// a literal of the wrong type, and a null-typed call argument, are refused by the analyzer
			call.Entry = "sync"
		}
		ok := false
		for try := 0; try < 8 && !ok; try++ {
			call.Vals = call.Vals[:0]
			seen := map[string]bool{}
			ok = true
			for i := range pl.Types {
				pool := confs[i]
				if i == call.Bad {
					pool = nons[i]
				}
				if call.Entry == "spawn" {
					pool = literals(i)
				}
				if len(pool) == 0 {
					ok = false
					break
				}
				v := pool[r.Intn(len(pool))]
				if seen[v.String()] {
					ok = false // the arguments of one call differ pairwise
					break
				}
				if len(p.Avoid) > 0 && hasAny(constructs("host-arg", "vm", v, pl.Types[i], false), p.Avoid) {
					ok = false // poisoned by an open finding
					break
				}
				seen[v.String()] = true
				call.Vals = append(call.Vals, v)
			}
			if !ok && call.Entry == "spawn" && try == 3 {
				call.Entry = "sync"
			}
		}
		if ok {
			call.Vals = append([]vu.Val{}, call.Vals...)
			pl.Calls = append(pl.Calls, call)
		}
	}
	return pl
}

func argsFnSource(types []vu.Type) string {
	var params, body []string
	for i, t := range types {
		params = append(params, fmt.Sprintf("x%d: %s", i, t.Src()))
		if t.K == vu.TNull {
			body = append(body, fmt.Sprintf("probe([x%d]);", i))
		} else {
			body = append(body, fmt.Sprintf("probe(x%d);", i))
		}
	}
	return fmt.Sprintf("fn f(%s) -> %s { %s x0 }\n", strings.Join(params, ", "), types[0].Src(), strings.Join(body, " "))
}

func renderVals(vs []vu.Val) string {
	parts := make([]string, len(vs))
	for i, v := range vs {
		parts[i] = v.String()
	}
	return "(" + strings.Join(parts, ", ") + ")"
}

// hostArgs runs the invocations of one case.
func (j *judge) hostArgs(pl argPlan) int {
	defer func() { j.at, j.src = "", "" }()
	runtime.VerifStep = func(*runtime.Core) { hostSteps.Add(1) }
	defer func() { runtime.VerifStep = nil }()
	fnSrc := argsFnSource(pl.Types)
	n := len(pl.Types)
	for _, call := range pl.Calls {
		q0 := pairSpec{V: call.Vals[0]}
		j.at = fmt.Sprintf("%s f%s", call.Entry, renderVals(call.Vals))
		mainSrc := "fn main() {}\n"
		if call.Entry == "spawn" {
			// the arguments are typed locals (a literal like `none` or `[]` alone has a static type with `any`)
			var lets, names []string
			for i, v := range call.Vals {
				lit, _ := vu.Literal(v, pl.Types[i])
				lets = append(lets, fmt.Sprintf("    let a%d: %s = %s;\n", i, pl.Types[i].Src(), lit))
				names = append(names, fmt.Sprintf("a%d", i))
			}
			mainSrc = fmt.Sprintf("fn main() {\n%s    spawn f(%s);\n}\n", strings.Join(lets, ""), strings.Join(names, ", "))
		}
		text := fnSrc + mainSrc
		j.src = text
		src := drive.Sources{"main": text}
		ao := drive.Analyze(src, "main", true)
		if ao.Errors > 0 {
			j.fail("harness", "analyze", q0, "the generated program was not accepted: %s\n%s", ao.ErrorSummary(), text)
			continue
		}
		prog, err := drive.Compile(ao.Modules, "main")
		if err != nil {
			j.fail("harness", "compile", q0, "compile error: %v", err)
			continue
		}
		log := &drive.Log{}
		exec := drive.VMExec{L: log, Src: src}
		scope := exec.VMScope()
		var pmu sync.Mutex
		var probes []vvalue.Value
		scope["probe"] = *vvalue.NewValueBuiltinFunction(func(_ vvalue.Executor, _ *context.Context, _ herrors.Span, a ...vvalue.Value) (*vvalue.Value, *vvalue.VmInterrupt) {
			pmu.Lock()
			probes = append(probes, a...)
			pmu.Unlock()
			return vvalue.NewValueNull(), nil
		})
		ctx, cancel := context.WithCancel(context.Background())
		var cf context.CancelFunc = cancel
		vm := runtime.NewVM(prog, exec, &ctx, &cf, scope, drive.DefaultLimits)
		sig := runtime.FunctionInvocationSignature{ReturnType: vu.AstType(pl.Types[0])}
		var args []vvalue.Value
		for i, t := range pl.Types {
			sig.Params = append(sig.Params, runtime.FunctionInvocationSignatureParam{Ident: fmt.Sprintf("x%d", i), Type: vu.AstType(t)})
			args = append(args, *vu.ToVM(call.Vals[i]))
		}
		inv := runtime.FunctionInvocation{Function: "f", Args: args, FunctionSignature: sig}
		before := hostSteps.Load()
		var res runtime.FunctionInvocationResult
		var waitErr *vvalue.VmInterrupt
		var pv any
		func() {
			defer func() { pv = recover() }()
			switch call.Entry {
			case "sync":
				res = vm.SpawnSync(inv, nil, nil)
			case "async":
				vm.SpawnAsync(inv, nil, nil, nil)
				_, waitErr = vm.Wait()
			default:
				vm.SpawnAsync(runtime.MainFn(), nil, nil, nil)
				_, waitErr = vm.Wait()
			}
		}()
		cancel()
		steps := hostSteps.Load() - before
		pmu.Lock()
		got := append([]vvalue.Value{}, probes...)
		pmu.Unlock()
		j.cov("args-" + call.Entry)

		refusedMsg := ""
		switch {
		case pv != nil:
			refusedMsg = fmt.Sprint(pv)
		case res.Exception != nil:
			refusedMsg = res.Exception.Interrupt.Message()
		case waitErr != nil:
			refusedMsg = (*waitErr).Message()
		}
		if call.Bad >= 0 {
			qb := pairSpec{V: call.Vals[call.Bad]}
			tb := pl.Types[call.Bad]
			if steps != 0 || len(got) != 0 {
				j.admitted++
				j.failT("executed-nonconforming", fmt.Sprintf("arg%d-of-%d", call.Bad, n), qb, tb,
					"argument %d does not conform to its parameter type, but the callee executed %d instructions (probes=%d, call ended with %q); reference offences: %v",
					call.Bad, steps, len(got), clip(refusedMsg, 120), vu.Offences(qb.V, tb, false))
				continue
			}
			if refusedMsg == "" {
				j.admitted++
				j.failT("admit-nonconforming", fmt.Sprintf("arg%d-of-%d", call.Bad, n), qb, tb, "argument %d does not conform to its parameter type, yet the call was not refused", call.Bad)
				continue
			}
			j.rejected++
			j.cov("refused")
			continue
		}
		// every argument conforms
		if refusedMsg != "" {
			allTyped := true
			for i, v := range call.Vals {
				if !vu.HasType(v, pl.Types[i]) {
					allTyped = false
				}
			}
			j.rejected++
			switch {
			case steps != 0 || len(got) != 0:
				j.failT("conforming-call-failed", normMsg(refusedMsg), q0, pl.Types[0],
					"every argument conforms to its parameter, but the call failed after %d callee instructions (probes=%d): %q", steps, len(got), clip(refusedMsg, 300))
			case allTyped:
				j.failT("reject-typed", msgDetail(refusedMsg), q0, pl.Types[0], "every argument already has its parameter's type, but the call was refused: %q", clip(refusedMsg, 300))
			default:
				j.cov("strict-reject") // an argument needing a conversion may be refused (no explicit cast at the host boundary)
			}
			continue
		}
		if len(got) != n {
			j.fail("bad-continuation", "probes", q0, "the callee ran but delivered %d probes (want %d)", len(got), n)
			continue
		}
		for i, t := range pl.Types {
			var ob observed
			ob.admitted = true
			seen, err := vu.FromVM(got[i])
			if err != nil {
				ob.resultErr = err
			} else {
				ob.result = unwrapProbe(t, seen)
			}
			at := j.at
			j.at = fmt.Sprintf("%s parameter x%d", at, i)
			j.decideT(pairSpec{V: call.Vals[i]}, t, ob, false, "")
			j.at = at
		}
		// the value handed back to the host is parameter 0
		if call.Entry == "sync" {
			switch pl.Types[0].K {
			case vu.TNull, vu.TAnyObj:
				// SpawnSync does not hand these back (not part of C12)
			default:
				if res.ReturnValue == nil {
					j.failT("admit-unconvertible", "return", q0, pl.Types[0], "the call succeeded but handed back a nil return value")
				} else if rv, err := vu.FromVM(res.ReturnValue); err != nil {
					j.failT("admit-unconvertible", "return", q0, pl.Types[0], "the value handed back to the host is malformed: %v", err)
				} else if !vu.HasType(rv, pl.Types[0]) {
					j.failT("return-not-typed", pl.Types[0].Shape(), q0, pl.Types[0], "the value handed back to the host, %s, does not have the declared return type", rv)
				}
			}
		}
	}
	return len(pl.Calls)
}
