package c19

// Hand is one hand-written program of the printer-coverage set (kind "hand") or of the optimizer
// set (kind "optimizer"). Every program is meant to be accepted by the unchanged pipeline.
type Hand struct {
	Name   string
	Kind   string
	Source map[string]string
	Tags   []string
	// Optional: the program uses a construct the unchanged analyzer wrongly rejects (function
	// types with parameters); it joins the workload once it is accepted.
	Optional bool
}

func one(name, main string, tags ...string) Hand {
	return Hand{Name: name, Kind: "hand", Source: map[string]string{"main": main}, Tags: tags}
}

func multi(name string, src map[string]string, tags ...string) Hand {
	return Hand{Name: name, Kind: "hand", Source: src, Tags: tags}
}

func opt(name, main string, tags ...string) Hand {
	return Hand{Name: name, Kind: "optimizer", Source: map[string]string{"main": main}, Tags: tags}
}

// body wraps statements into a main function.
func body(stmts string) string { return "fn main() {\n" + stmts + "\n}\n" }

// HandPrograms returns the printer-coverage set and the optimizer set. One construct per
// program, so that a failure signature and the program's tags name the construct.
func HandPrograms() []Hand {
	hs := []Hand{
		// ------------------------------------- value-typed block-like expression statements
		// (the statement's `;` decides whether the value is discarded or becomes the block's result)
		one("stmt-match-value-last-in-for", "fn f(i: int) -> int { i % 2 }\n"+body(`for i in 0..3 {
        match f(i) { 1 => "one", _ => "other" };
    }
    println("done");`)),
		one("stmt-if-value-last-in-while", body(`let i = 0;
    while i < 2 {
        i += 1;
        if i == 1 { 10 } else { 20 };
    }
    println(i);`)),
		one("stmt-block-value-last-in-loop", body(`let i = 0;
    loop {
        i += 1;
        if i > 2 { break; }
        { i * 2 };
    }
    println(i);`)),
		one("stmt-try-value-last-in-fn", "fn g() { try { 1 } catch e { 2 }; }\n"+body(`g();
    println("ok");`)),
		one("stmt-if-value-last-in-if", body(`if true {
        if false { "a" } else { "b" };
    }
    println("ok");`)),
		one("stmt-match-value-last-in-closure", body(`let f = fn() { match 1 { 1 => 5, _ => 6 }; };
    f();
    println("ok");`)),
		// ----------------------------------------------------------------- strings
		one("str-plain", body(`println("hello", 'single', "");`)),
		one("str-dquote", body(`println("a\"b");`)),
		one("str-dquote-in-single", body(`println('say "hi"');`)),
		one("str-squote", body(`println("it's", 'it\'s');`)),
		one("str-backslash", body(`println("a\\b", "c:\\dir\\");`)),
		one("str-backslash-n", body(`println("a\\nb", "\\t", "\\\"");`)),
		one("str-newline", body(`println("a\nb");`)),
		one("str-newline-nested", body("if true {\n        if true {\n            println(\"x\\ny\\n\\nz\");\n        }\n    }")),
		one("str-raw-newline", body("println(\"line1\nline2\n    indented\");")),
		one("str-tab", body(`println("a\tb");`)),
		one("str-raw-tab", body("println(\"a\tb\");")),
		one("str-cr", body(`println("a\rb");`)),
		one("str-backspace", body(`println("a\bb");`)),
		one("str-hex", body(`println("\x41\x7e", "\x01", "\x7f");`)),
		one("str-octal", body(`println("\101\060");`)),
		one("str-unicode", body(`println("\u00e4\u20ac", "\U0001F600");`)),
		one("str-nonascii", body(`println("äöü€ 😀");`)),
		one("str-nul", body(`println("a\x00b".len());`)),
		one("str-all-escapes", body(`let s = "q\"s'b\\n\nt\tr\rb\bx\x1bu\u00e4";
    println(s.len());
    println(s);`)),
		one("str-in-match", body(`let s = "a\"b";
    let r = match s {
        "a\"b" => "quote",
        "a\\b" | "t\tb" => "other",
        _ => "none",
    };
    println(r);`)),
		one("str-in-global", "let g = \"x\\ty\\\"z\\\\\";\nfn main() {\n    println(g);\n}\n"),
		one("str-methods", body(`println("a,b".split(","), "abc".len(), "x" + "y", "ab".repeat(2));`)),
		// ----------------------------------------------------------------- numbers
		one("int-literals", body(`println(0, 1, 42, 1_000_000, 9223372036854775807, -9223372036854775807 - 1);`)),
		one("float-point-zero", body(`println(1.0, 0.0, 100.0);`)),
		one("float-suffix", body(`println(1f, 0f, 250f);`)),
		one("float-fraction", body(`println(0.5, 1.5, 3.14159, 0.1, 2.75, 1_0.2_5);`)),
		one("float-small", body(`println(0.0000001, 0.00001234, 0.0001);`)),
		one("float-large", body(`println(1000000000000000000000.0, 123456789012345678901234567890.5, 10000000000000000000f);`)),
		one("float-negative", body(`println(-2.5, -1f, -0.0, 1.0 - -2.0);`)),
		one("float-arith", body(`let a: float = 7f;
    let b = 2.0;
    println(a / b, a * b, a - b, a + b, a ** b, a as int, 3 as float);`)),
		one("bool-literals", body(`println(true, false, on, off, !true);`)),
		one("null-none", body(`let n: null = null;
    let o: ?int = none;
    let m = [n, null];
    println(o, m.len());`)),
		// ----------------------------------------------------------------- objects, keys
		one("obj-ident-keys", body(`let o = new { a: 1, bb: "x", c_3: true, _u: 2.5 };
    println(o.a, o.bb, o.c_3, o._u, o);`)),
		one("obj-string-key-ident", body(`let o = new { "abc": 1, 'd': 2 };
    println(o.abc, o.d);`)),
		one("obj-key-space", body(`let o = new { "a b": 1, "x-y": 2, "1st": 3, "": 4 };
    println(o);`)),
		one("obj-key-dquote", body(`let o = new { "a\"b": 1 };
    println(o);`)),
		one("obj-key-backslash", body(`let o = new { "a\\b": 1, "n\nl": 2, "t\tb": 3 };
    println(o.keys().len());
    println(o);`)),
		one("obj-key-keyword", body(`let o = new { "fn": 1, "let": 2, "type": 3 };
    println(o);`)),
		one("obj-empty", body(`let o = new { };
    println(o);`)),
		one("obj-nested", body(`let o = new { inner: new { deep: [1, 2], s: "x" }, l: [new { k: 1 }] };
    println(o.inner.deep[1], o.l[0].k);
    o.inner.s = "y";
    o.l[0].k += 4;
    println(o);`)),
		one("objtype-ident-keys", "type T = { a: int, bb: str };\nfn main() {\n    let o: T = new { a: 1, bb: \"x\" };\n    println(o.a, o.bb);\n}\n"),
		one("objtype-key-space", "type T = { \"a b\": int, c: str };\nfn main() {\n    let o: T = new { \"a b\": 1, c: \"x\" };\n    println(o);\n}\n"),
		one("objtype-key-space-let", body(`let o: { "a b": int, "x-y": str } = new { "a b": 1, "x-y": "s" };
    println(o);`)),
		one("objtype-key-dquote", body(`let o: { "a\"b": int } = new { "a\"b": 1 };
    println(o);`)),
		one("objtype-empty", body(`let o: {} = new {};
    println(o);`)),
		one("objtype-cast", body(`let o = new { a: 1, b: "x" };
    let p = o as { a: int, b: str };
    let q = new { "k k": [1] } as { "k k": [int] };
    println(p.a, p.b, q);`)),
		one("anyobj-literal", body(`let a = new { ? };
    a.set("k", 1);
    println(a);`)),
		one("anyobj-type", body(`let a: { ? } = new { ? };
    a.set("k", "v");
    let b = new { x: 1 } as { ? };
    println(a, b, a.keys());`)),
		one("anyobj-arrow", body(`let a: { ? } = new { ? };
    a.set("k", 7);
    let v = (a->k) as ?int;
    println(v, a.get("k").is_some());`)),
		// ----------------------------------------------------------------- options, ranges, lists
		one("option-some", body(`let o: ?int = ?5;
    let p = ?"s";
    println(o, p, o.unwrap(), o.is_some(), p.is_none(), ?(1 + 2));`)),
		one("option-none", body(`let o: ?str = none;
    println(o.is_none(), o.unwrap_or("dflt"));`)),
		one("option-nested-type", body(`let o: ??int = ?(?1);
    let l: [?int] = [?1, none];
    println(o, l);`)),
		one("range-exclusive", body(`let r = 1..4;
    for i in r { print(i, " "); }
    println(r.start, r.end);`)),
		one("range-inclusive", body(`for i in 1..=3 { print(i, " "); }
    let r: range = 2..=2;
    println(r);`)),
		one("range-exprs", body(`let a = 2;
    for i in (a - 1)..(a * 2) { print(i); }
    for i in a..=a + 1 { print(i); }
    for i in -2..1 { print(i); }
    println("");`)),
		one("list-literals", body(`let e: [int] = [];
    let l = [1, 2, 3];
    let n = [[1], [2, 3]];
    let s = ["a", 'b'];
    println(e, l, n, s, l[0], l[-1], n[1][0]);`)),
		one("list-methods", body(`let l = [3, 1, 2];
    l.push(4);
    l.sort();
    l[0] = 9;
    l[1] += 1;
    println(l, l.len(), l.contains(9), l.join("-"));`)),
		// ----------------------------------------------------------------- operators
		one("prefix-ops", body(`let x = 3;
    let b = false;
    println(-x, !b, - -x, -(-x), !!b, -x ** 2, (-x) ** 2, ?x, !(x == 3));`)),
		one("infix-arith", body(`let a = 7;
    let b = 2;
    println(a + b, a - b, a * b, a / b, a % b, a ** b, a << b, a >> b, a | b, a & b, a ^ b);`)),
		one("infix-compare", body(`let a = 7;
    let b = 2;
    println(a == b, a != b, a < b, a <= b, a > b, a >= b, a <= a, a >= a, a < a);`)),
		one("infix-logic", body(`let t = true;
    let f = false;
    println(t && f, t || f, t && (f || t), (t && f) || t, !t || f);`)),
		one("grouping", body(`println((1 + 2) * 3, 1 + 2 * 3, 10 - (4 - 3), 10 - 4 - 3, 2 ** (3 ** 2), (2 ** 3) ** 2, 100 / (10 / 5), -(1 + 2), (1 + 2) as float, (1..3).start);`)),
		one("grouping-logic", body(`let a = 5;
    println((a > 1) == (a < 9), !(a > 1 && a < 3), (a & 1) == 1, a & (1 == 1) as int, (a as float) / 2.0);`)),
		one("assign-ops", body(`let a = 10;
    a = 11; a += 2; a -= 1; a *= 3; a /= 2; a %= 7; a **= 2; a <<= 2; a >>= 1; a |= 8; a &= 13; a ^= 5;
    let s = "x";
    s += "y";
    let f = 1.5;
    f *= 2.0;
    println(a, s, f);`)),
		one("assign-targets", body(`let l = [1, 2];
    let o = new { f: 1, g: [0] };
    l[0] = 5;
    o.f = 6;
    o.g[0] = 7;
    (l)[1] = 8;
    println(l, o);`)),
		one("casts", body(`let i = 3;
    let f = 2.7;
    println(i as float, f as int, true as int, 0 as bool, [1] as [int], ?1 as ?int, "x" as str, new { a: 1 } as { a: int });`)),
		one("cast-chain", body(`let a = new { b: "c" } as { ? } as { ? };
    println(a, 1 as float as int as float);`)),
		one("member-index-call", body(`let o = new { l: [1, 2, 3] };
    let f = fn(x: int) -> int { x * 2 };
    println(o.l[1], o.l.len(), f(4), [1, 2][1], "abc".len(), "s".repeat(2).len(), o.l.len().to_string());`)),
		// ----------------------------------------------------------------- control flow
		one("if-else", body(`let a = 2;
    if a == 1 { println("one"); } else if a == 2 { println("two"); } else { println("other"); }
    let v = if a > 1 { "big" } else { "small" };
    if a > 5 { println("no"); }
    println(v);`)),
		one("if-no-else-value", body(`let a = 2;
    if a == 3 { println("x"); }
    println(if a == 2 { 1 } else if a == 3 { 2 } else { 3 });`)),
		one("match-default", body(`let a = 4;
    let r = match a {
        1 => "one",
        2 | 3 => "two-three",
        _ => "many",
    };
    println(r);`)),
		one("match-default-only-reached", body(`for a in [1, 5] {
        match a {
            1 => println("one"),
            _ => println("default", a),
        }
    }`)),
		one("match-default-first", body(`let r = match 3 {
        _ => "d",
        3 => "three",
    };
    println(r);`)),
		one("match-no-default", body(`let a = 2;
    match a {
        1 => println("one"),
        2 => println("two"),
    }
    match a {
        7 => println("seven"),
    }
    println("end");`)),
		one("match-negative-literals", body(`let a = -2;
    let q = match -2.5 { -2.5 => "mf", _ => "o" };
    println(q);
    let r = match a {
        -1 => "m1",
        -2 => "m2",
        0 | 1 => "z",
        _ => "o",
    };
    println(r);`)),
		one("match-literal-kinds", body(`println(match true { true => 1, false => 0, _ => 2 });
    println(match "s" { "s" => 1, _ => 0 });
    println(match 1.5 { 1.5 => "f", 2f => "g", _ => "h" });
    println(match 2 { 1 => { println("blk"); 1 }, 2 => if true { 5 } else { 6 }, _ => 0 });`)),
		one("match-nested", body(`let a = 1;
    let b = 2;
    let r = match a {
        1 => match b {
            2 => "1-2",
            _ => "1-x",
        },
        _ => "x",
    };
    println(r);`)),
		one("match-control-expr", body(`let l = [1, 2];
    println(match l.len() + 1 { 3 => "three", _ => "no" }, match (if true { 1 } else { 2 }) { 1 => "a", _ => "b" });`)),
		one("try-catch", body(`try {
        println("in");
        throw("boom");
    } catch e {
        println("caught", e.message);
    }
    let v = try { 1 } catch _ { 2 };
    println(v);`)),
		one("try-nested", body(`try {
        try {
            throw("inner");
        } catch e {
            println(e.message);
            throw("outer");
        }
    } catch f {
        println(f.message);
    }`)),
		one("uncaught-throw", body(`println("before");
    throw("fatal \"quoted\"");`)),
		one("loops", body(`let i = 0;
    loop {
        i += 1;
        if i == 2 { continue; }
        if i > 4 { break; }
        print(i);
    }
    while i > 0 {
        i -= 2;
    }
    for c in "ab" { print(c); }
    for x in [1, 2] { print(x); }
    for _ in 0..2 { print("."); }
    println(i);`)),
		one("loop-semicolons", body(`loop { break; }
    while false { }
    for i in 0..1 { println(i); }
    if true { println("t"); };
    match 1 { 1 => println("m"), _ => println("d") };
    try { println("try"); } catch e { };
    { println("blk"); };
    println("end");`)),
		one("blocks", body(`let v = {
        let a = 1;
        {
            let a = 2;
            println(a);
        }
        a + 1
    };
    {}
    println(v);`)),
		one("blocks-deep", body(`let v = { { { { 1 + { 2 } } } } };
    if true { if true { if true { loop { for i in 0..1 { while true { println("deep", v); break; } } break; } } } }`)),
		one("shadowing", body(`let x = 1;
    {
        let x = "s";
        println(x);
    }
    let x = x + 1;
    println(x);`)),
		one("underscore-idents", "fn _u() -> int { 1 }\nfn _h(_: int, _b: int) -> int { _b }\n"+body(`let _x = _u();
    for _i in 0.._x { println(_h(1, 2)); }
    try { throw(1); } catch _ { println("c"); }`)),
		// ----------------------------------------------------------------- functions
		one("fn-defs", "fn add(a: int, b: int) -> int { a + b }\nfn noop() { }\nfn early(x: int) -> str { if x > 1 { return \"big\"; } \"small\" }\nfn nothing() -> null { return; }\nfn lst(l: [int], o: { a: int }, p: ?str) -> [str] { [l.len().to_string(), o.a.to_string(), p.unwrap_or(\"-\")] }\n"+
			body(`noop();
    nothing();
    println(add(1, 2), early(2), early(0), lst([1], new { a: 2 }, none));`)),
		one("fn-recursion", "fn fib(n: int) -> int { if n < 2 { n } else { fib(n - 1) + fib(n - 2) } }\n"+body(`println(fib(10));`)),
		one("fn-literal", body(`let f = fn(x: int) -> int { x + 1 };
    let g = fn() { println("g"); };
    let h = fn(a: str, b: [int]) -> str { a + b.len().to_string() };
    g();
    println(f(1), h("n", [1, 2]));`)),
		one("fn-type", "fn apply(f: fn() -> int) -> int { f() + 1 }\nfn seven() -> int { 7 }\n"+body(`let f: fn() -> int = seven;
    let g: fn() -> null = fn() { println("g"); };
    let h: fn() -> [str] = fn() -> [str] { ["h"] };
    let k: fn() = g;
    g();
    k();
    println(apply(f), apply(fn() -> int { 4 }), h());`)),
		one("fn-type-params-unused", "type F = fn(x: int) -> int;\ntype G = fn(a: int, b: [str], c: { k: int }) -> ?str;\n"+body(`println("unused fn types with parameters");`)),
		one("fn-type-alias", "type F = fn() -> int;\ntype G = fn() -> null;\nfn run(f: F) -> int { f() }\n"+body(`let g: G = fn() { println("g"); };
    g();
    println(run(fn() -> int { 10 }));`)),
		one("fn-returning-fn", "fn mk() -> fn() -> int { fn() -> int { 3 } }\n"+body(`println(mk()());`)),
		// ----------------------------------------------------------------- types, globals, pub
		one("type-defs", "type I = int;\ntype L = [I];\ntype O = { a: I, l: L, o: ?str, n: { d: float } };\ntype P = ?O;\n"+body(`let o: O = new { a: 1, l: [2], o: none, n: new { d: 1.5 } };
    let p: P = ?o;
    type Local = [str];
    let q: Local = ["x"];
    println(o, p.is_some(), q);`)),
		one("globals", "let g1 = 1;\nlet g2: str = \"s\";\nlet g3: [int] = [1, 2];\nlet g4 = new { a: 1.5 };\nlet g5: ?int = none;\n"+body(`g1 += 1;
    g3.push(g1);
    println(g1, g2, g3, g4.a, g5);`)),
		multi("pub-fn", map[string]string{
			"main": "import helper from lib;\nimport { twice, thrice } from lib;\nfn main() {\n    println(helper(), twice(2), thrice(2));\n}\n",
			"lib":  "pub fn helper() -> str { \"h\" }\npub fn twice(x: int) -> int { x * 2 }\npub fn thrice(x: int) -> int { x * 3 }\nfn private() { }\nlet lib_private = 0;\nfn main() { }\n",
		}),
		multi("pub-global", map[string]string{
			"main": "import { counter, name } from lib;\nfn main() {\n    println(counter, name);\n}\n",
			"lib":  "pub let counter = 41;\npub let name: str = \"n\";\nlet hidden = 0;\nlet lib_private = 0;\nfn main() { }\n",
		}),
		multi("pub-type", map[string]string{
			"main": "import { type Point, origin } from lib;\nimport type Alias from lib;\nfn main() {\n    let p: Point = origin();\n    let a: Alias = 1;\n    println(p.x, p.y, a);\n}\n",
			"lib":  "pub type Point = { x: int, y: int };\npub type Alias = int;\npub fn origin() -> Point { new { x: 0, y: 0 } }\nlet lib_private = 0;\nfn main() { }\n",
		}),
		multi("import-chain", map[string]string{
			"main": "import f from a;\nfn main() {\n    println(f());\n}\n",
			"a":    "import g from b;\npub fn f() -> int { g() + 1 }\nlet lib_private = 0;\nfn main() { }\n",
			"b":    "pub fn g() -> int { 1 }\nlet lib_private = 0;\nfn main() { }\n",
		}),
		one("import-builtin", "import assert_eq from testing;\n"+body(`assert_eq(1 + 1, 2);
    println("ok");`)),
		one("import-builtin-braces", "import { assert_eq, any_func } from testing;\n"+body(`assert_eq("a", "a");
    println("ok");`)),
		// ----------------------------------------------------------------- singletons, impl, triggers
		one("singleton-def", "$S = { a: int, b: str };\nfn show(s: $S) {\n    println(s.a, s.b);\n}\n"+body(`show();`)),
		one("singleton-scalar", "$N = int;\nfn get(n: $N) -> int { n }\n"+body(`println(get());`)),
		one("singleton-annotated", "$D = {\n    plain: bool,\n    @setting url: str,\n    @setting \"to ken\": str,\n};\nfn show(d: $D) {\n    println(d.plain, d.url);\n}\n"+body(`show();`)),
		one("singleton-annotated-param", "$D = {\n    plain: bool,\n    @setting url: str,\n};\nfn show(d: $D) {\n    println(d.plain, d.url);\n}\n"+body(`show();`)),
		one("singleton-mutate", "$C = { n: int };\nfn bump(c: $C) {\n    c.n += 1;\n    println(c.n);\n}\n"+body(`bump();
    bump();`)),
		one("impl-block", "import templ FooFeature from templates;\n$Dev = { level: int };\nimpl FooFeature with { light } for $Dev {\n    fn dim(self: $Dev, percent: int) -> bool {\n        self.level = percent;\n        println(\"dim\", self.level);\n        true\n    }\n}\n"+body(`println(dim(42));`)),
		one("impl-block-two-caps", "import { templ FooFeature } from templates;\n$Dev = { level: int };\nimpl FooFeature with { temperature, } for $Dev {\n    fn set_temp(self: $Dev, celsius: float) {\n        println(\"temp\", celsius);\n    }\n}\n"+body(`set_temp(21.5);`)),
		one("trigger-stmt", "import trigger minute from triggers;\nevent fn cb(elapsed: int) {\n    println(\"cb\", elapsed);\n}\n"+body(`trigger cb at minute(5);
    trigger cb at minute(2 * 3);
    println("registered");`)),
		one("trigger-annotation", "import trigger minute from triggers;\nlet base = 2;\n#[trigger at minute(base * 10)]\nevent fn tick(elapsed: int) {\n    println(\"tick\");\n}\n"+body(`println("main");`)),
		one("event-fn", "event fn on_thing(x: int) {\n    println(\"ev\", x);\n}\n"+body(`println("m");`)),
		one("spawn", "fn worker(n: int) {\n    println(\"w\", n);\n}\n"+body(`spawn worker(1);`)),
		// ----------------------------------------------------------------- odds and ends
		one("let-vararg-builtin", body(`let p = println;
    p("via alias");`), "let-vararg-builtin"),
		one("fn-alias", "fn seven() -> int { 7 }\n"+body(`let f = seven;
    println(f());`)),
		one("singleton-ident-expr", "$S = { a: int, b: str };\n"+body(`println($S.a, $S.b);
    $S.a = 4;
    println($S.a + 1);`)),
		one("singleton-fn-alias", "$S = { a: int };\nfn show(s: $S) -> int { s.a }\n"+body(`let f = show;
    println(f(), show());`)),
		one("builtin-object", body(`let t = time.now();
    println(t.year > 2000, t.month > 0);`)),
		one("catch-error-fields", body(`try { throw("x"); } catch e { println(e.message, e.line > 0, e.column > 0, e.filename); }`)),
		one("expr-operands", body(`let x = -3;
    println((-x).to_string(), 1.5.to_string(), 2.to_string(), (fn() -> int { 1 })(), [1, 2, 3][-1]);
    let v = if x < 0 { 1 } else { 2 } + 3;
    let w = match x { -3 => 1, _ => 2 } * 2;
    let l = [if true { 1 } else { 2 }, { 3 }, match 1 { 1 => 4, _ => 5 }];
    println(v, w, l, { 1 } + { 2 }, -{ 3 }, !if true { false } else { true });`)),
		one("stmt-like-exprs-first", body(`let a = 1;
    (if a == 1 { 1 } else { 2 }).to_string();
    ({ a }).to_string();
    (match a { 1 => "x", _ => "y" }).len();
    if a == 1 { println("s1"); } else { println("s2"); }
    match a { 1 => println("m1"), _ => println("m2") }
    { println("b") }`)),
		one("trailing-exprs", "fn a(x: int) -> int { if x > 0 { 1 } else { 2 } }\nfn b(x: int) -> int { match x { 1 => 10, _ => 20 } }\nfn c(x: int) -> int { { x + 1 } }\nfn d(x: int) -> int { try { x } catch e { 0 } }\nfn e(x: int) -> int { loop { return x; } }\n"+body(`println(a(1), b(1), c(1), d(1), e(1));`)),
		one("spawn-handle", "fn worker(n: int) {\n    println(\"w\", n);\n}\n"+body(`let h = spawn worker(1);`)),
		one("deep-expression", body(`let a = 2;
    println(((((a + 1) * (a - 1)) / ((a))) ** (1 + (0))) % 7, [[[[a]]]][0][0][0][0], new { x: new { y: new { z: a } } }.x.y.z);`)),
		Hand{Name: "fn-type-params", Kind: "hand", Optional: true, Source: map[string]string{"main": "fn apply(f: fn(x: int) -> int, v: int) -> int { f(v) }\nfn twice(x: int) -> int { x * 2 }\ntype BinOp = fn(a: int, b: int) -> int;\n" + body(`let f: fn(x: int) -> int = twice;
    let add: BinOp = fn(a: int, b: int) -> int { a + b };
    let h: fn(a: int, b: str) -> str = fn(a: int, b: str) -> str { b };
    let g = fn(x: int) -> int { x + 1 };
    println(apply(f, 4), apply(fn(x: int) -> int { x - 1 }, 4), add(1, 2), h(1, "s"), g(1));`)}},
		Hand{Name: "fn-type-params-nested", Kind: "hand", Optional: true, Source: map[string]string{"main": "fn mk(k: int) -> fn(x: int) -> int { fn(x: int) -> int { x + 1 } }\nfn compose(f: fn(x: int) -> int, g: fn(x: int) -> int) -> int { g(f(1)) }\n" + body(`println(mk(1)(2), compose(mk(0), mk(0)));
    let l: [int] = [1];
    let o: { f: int, cb: ?int } = new { f: 1, cb: none };
    println(l, o.f);`)}},
		one("anyobj-tilde-arrow", body(`let a: { ? } = new { ? };
    a.set("k", 7);
    let v: int = a~>k;
    println(v, a->k);`)),
		one("impl-block-no-with", "import templ FooFeature from templates;\n$Dev = { level: int };\nimpl FooFeature for $Dev { }\n"+body(`println("impl without capabilities");`)),
		one("composite-types", "type T = [[?int]];\ntype U = ?[{ a: ?int, l: [str] }];\nfn conv(t: T, u: U) -> ?[int] { ?[t.len()] }\nfn main() -> null {\n    let t: T = [[?1, ?2]];\n    let u: U = ?[new { a: ?1, l: [\"x\"] }];\n    println(conv(t, u), t, u.is_some(), 1 as float as int, t as [[?int]], ?(1 + 2) == ?3);\n}\n"),
		// ----------------------------------------------------------------- layout the printer normalises
		one("comments-layout", "// leading\nfn   main ( )   {   /* c */ let   a=1 ;println( a ) ; // t\n}\n"),
	}
	// ------------------------------------------------------------------- optimizer set
	hs = append(hs,
		opt("after-return", "fn f() -> int {\n    println(\"before\");\n    return 1;\n    println(\"dead1\");\n    println(\"dead2\");\n}\n"+body(`println(f());
    return;
    println("dead");`)),
		opt("after-return-trailing", "fn f() -> int {\n    println(\"a\");\n    return 1;\n    println(\"dead\");\n    2\n}\n"+body(`println(f());`)),
		opt("after-return-let-trailing", "fn f() -> int {\n    return 1;\n    let x = 2;\n    let y = 3;\n    x + y\n}\n"+body(`println(f());`)),
		opt("after-throw", "fn f() {\n    println(\"before\");\n    throw(\"t\");\n    println(\"dead1\");\n    println(\"dead2\");\n}\n"+body(`try { f(); } catch e { println(e.message); }
    println("after");`)),
		opt("after-uncaught-throw", body(`println("before");
    throw("t");
    println("dead1");
    println("dead2");`)),
		opt("after-loop-never", "fn f() -> int {\n    let i = 0;\n    loop {\n        i += 1;\n        if i > 3 { return i; }\n    }\n    println(\"dead1\");\n    println(\"dead2\");\n}\n"+body(`println(f());`)),
		opt("after-loop-with-break", "fn f() -> int {\n    let i = 0;\n    loop {\n        i += 1;\n        if i > 3 { break; }\n    }\n    println(\"live1\");\n    println(\"live2\");\n    i\n}\n"+body(`println(f());`)),
		opt("after-while-true", "fn f() -> int {\n    let i = 0;\n    while true {\n        i += 1;\n        if i > 3 { return i; }\n    }\n    println(\"x1\");\n    println(\"x2\");\n    0\n}\n"+body(`println(f());`)),
		opt("after-break-continue", body(`for i in 0..4 {
        if i == 1 {
            continue;
            println("dead-c1");
            println("dead-c2");
        }
        if i == 3 {
            break;
            println("dead-b1");
            println("dead-b2");
        }
        println(i);
    }
    let j = 0;
    loop {
        j += 1;
        println(j);
        break;
        println("dead1");
        println("dead2");
    }`)),
		opt("after-if-else-diverge", "fn f(a: int) -> str {\n    println(\"in\", a);\n    if a > 1 {\n        return \"big\";\n    } else {\n        return \"small\";\n    }\n    println(\"dead1\");\n    println(\"dead2\");\n}\n"+body(`println(f(1), f(2));`)),
		opt("after-if-one-branch", "fn f(a: int) -> str {\n    if a > 1 {\n        return \"big\";\n    }\n    println(\"live1\");\n    println(\"live2\");\n    \"small\"\n}\n"+body(`println(f(1), f(2));`)),
		opt("after-if-else-throw", "fn f(a: int) -> str {\n    if a > 1 {\n        throw(\"big\");\n    } else {\n        return \"small\";\n    }\n    println(\"dead1\");\n    println(\"dead2\");\n}\n"+body(`println(f(1));
    try { f(2); } catch e { println(e.message); }`)),
		opt("after-match-default-diverge", "fn f(a: int) -> str {\n    match a {\n        1 => { return \"one\"; },\n        _ => { return \"other\"; },\n    }\n    println(\"dead1\");\n    println(\"dead2\");\n}\n"+body(`println(f(1), f(2));`)),
		opt("after-match-no-default-diverge", "fn f(a: int) -> str {\n    match a {\n        1 => { return \"one\"; },\n        2 => { return \"two\"; },\n    }\n    println(\"live1\", a);\n    println(\"live2\", a);\n    \"other\"\n}\n"+body(`println(f(1));
    println(f(3));`), "match-no-default-diverging"),
		opt("after-match-no-default-diverge-main", body(`let a = 5;
    println("start");
    match a {
        1 => { return; },
        2 => throw("two"),
    }
    println("live1");
    println("live2");`), "match-no-default-diverging"),
		opt("after-match-no-default-block-arms", "fn f(a: int) -> int {\n    match a {\n        1 => { println(\"one\"); return 1; },\n    }\n    println(\"live1\");\n    println(\"live2\");\n    0\n}\n"+body(`println(f(1), f(2));`), "match-no-default-diverging"),
		opt("after-block-diverge", "fn f() -> int {\n    {\n        println(\"blk\");\n        return 1;\n    }\n    println(\"dead1\");\n    println(\"dead2\");\n}\n"+body(`println(f());`)),
		opt("after-try-diverge", "fn f() -> int {\n    try {\n        return 1;\n    } catch e {\n        return 2;\n    }\n    println(\"dead1\");\n    println(\"dead2\");\n}\n"+body(`println(f());`)),
		opt("after-try-throw-caught", "fn f() -> int {\n    try {\n        throw(\"x\");\n    } catch e {\n        println(\"caught\");\n    }\n    println(\"live1\");\n    println(\"live2\");\n    3\n}\n"+body(`println(f());`)),
		opt("nested-dead-code", "fn f(a: int) -> int {\n    if a > 0 {\n        println(\"pos\");\n        return 1;\n        println(\"dead1\");\n        println(\"dead2\");\n    }\n    for i in 0..2 {\n        println(i);\n        return 2;\n        println(\"dead3\");\n        println(\"dead4\");\n    }\n    0\n}\n"+body(`println(f(1), f(0));`)),
		opt("dead-let-used-later", "fn f() -> int {\n    let a = 1;\n    println(a);\n    return a;\n    let b = a + 1;\n    println(b);\n    let c = b + 1;\n    println(c);\n}\n"+body(`println(f());`)),
		opt("fn-literal-dead-code", body(`let f = fn(x: int) -> int {
        println("lit", x);
        return x;
        println("dead1");
        println("dead2");
    };
    println(f(1));`)),
		opt("impl-method-dead-code", "import templ FooFeature from templates;\n$Dev = { level: int };\nimpl FooFeature with { light } for $Dev {\n    fn dim(self: $Dev, percent: int) -> bool {\n        println(\"dim\", percent);\n        return true;\n        println(\"dead1\");\n        println(\"dead2\");\n    }\n}\n"+body(`println(dim(1));`)),
		opt("event-fn-dead-code", "import trigger minute from triggers;\n#[trigger at minute(1)]\nevent fn tick(elapsed: int) {\n    return;\n    println(\"dead1\");\n    println(\"dead2\");\n}\n"+body(`println("m");
    return;
    println("dead1");
    println("dead2");`)),
		Hand{Name: "multi-module-dead-code", Kind: "optimizer", Source: map[string]string{
			"main": "import f from lib;\nfn main() {\n    println(f(1));\n    println(f(5));\n}\n",
			"lib":  "let lib_private = 0;\nfn main() { }\npub fn f(a: int) -> str {\n    println(\"lib\", a);\n    match a {\n        1 => { return \"one\"; },\n    }\n    println(\"live1\");\n    println(\"live2\");\n    if a > 0 {\n        return \"pos\";\n    } else {\n        return \"neg\";\n    }\n    println(\"dead1\");\n    println(\"dead2\");\n}\n",
		}, Tags: []string{"match-no-default-diverging"}},
	)
	return hs
}
