package c19

import (
	"reflect"
	"sort"

	hms "github.com/smarthome-go/homescript/v3/homescript"
	"github.com/smarthome-go/homescript/v3/homescript/analyzer/ast"
	pAst "github.com/smarthome-go/homescript/v3/homescript/parser/ast"
)

// Culprit search: when the text printed for a whole program is not even parseable, the failure
// signature must still name the construct the printer got wrong. Every node of the tree is
// printed on its own inside a minimal wrapper and parsed; the smallest nodes whose text does not
// parse are the culprits. This only labels failures; it decides no verdict.

func parseClean(text string) (pAst.Program, bool) {
	var tree pAst.Program
	ok := false
	func() {
		defer func() { recover() }()
		t, soft, hard := hms.Parse(text, "snippet")
		tree, ok = t, hard == nil && len(soft) == 0
	}()
	return tree, ok
}

func printed(f func() string) (s string, ok bool) {
	defer func() {
		if recover() != nil {
			ok = false
		}
	}()
	return f(), true
}

// checkPAstNode reports whether the text printed for a parser-AST node parses inside a minimal
// wrapper (checked=false: the node kind is not checked on its own).
func checkPAstNode(x any) (ok, checked bool) {
	switch n := x.(type) {
	case pAst.ImplBlock:
		return false, true // the printer has no rendering for impl blocks at all
	case pAst.FunctionDefinition:
		return parsesAs("", n.String, ""), true
	case pAst.ImportStatement:
		return parsesAs("", n.String, ""), true
	case pAst.SingletonTypeDefinition:
		return parsesAs("", n.String, ""), true
	case pAst.LetStatement:
		if n.IsPub {
			return parsesAs("", n.String, ""), true
		}
	case pAst.TypeDefinition:
		if n.IsPub {
			return parsesAs("", n.String, ""), true
		}
	case pAst.ObjectLiteralField:
		return parsesAs("fn main() {\n    let x = new { ", n.String, " };\n}"), true
	case pAst.ObjectTypeField:
		return parsesAs("$S = { ", n.String, " };"), true
	}
	switch n := x.(type) {
	case pAst.Expression:
		return parsesAs("fn main() {\n    let x = (", n.String, ");\n}"), true
	case pAst.Statement:
		return parsesAs("fn main() {\n    ", n.String, "\n}"), true
	case pAst.HmsType:
		return parsesAs("$S = ", n.String, ";"), true
	}
	return false, false
}

// CulpritsPAst returns the type names of the smallest parser-AST nodes that do not survive
// print+parse on their own.
func CulpritsPAst(tree pAst.Program) []string {
	found := map[string]bool{}
	var visit func(v reflect.Value) bool
	visit = func(v reflect.Value) (failed bool) {
		switch v.Kind() {
		case reflect.Interface, reflect.Pointer:
			if !v.IsNil() {
				return visit(v.Elem())
			}
		case reflect.Slice, reflect.Array:
			for i := 0; i < v.Len(); i++ {
				if visit(v.Index(i)) {
					failed = true
				}
			}
		case reflect.Struct:
			if v.Type() == spanType {
				return false
			}
			for i := 0; i < v.NumField(); i++ {
				if visit(v.Field(i)) {
					failed = true
				}
			}
			if failed || !v.CanInterface() {
				return failed
			}
			if ok, checked := checkPAstNode(v.Interface()); checked && !ok {
				found[v.Type().Name()] = true
				return true
			}
		}
		return failed
	}
	visit(reflect.ValueOf(tree))
	return sortedKeys(found)
}

func sortedKeys(m map[string]bool) []string {
	out := make([]string, 0, len(m))
	for k := range m {
		out = append(out, k)
	}
	sort.Strings(out)
	return out
}

// Fields of the analysed tree that hold types or data the printer never renders.
var aastUnprinted = map[string]bool{
	"ResultType": true, "ListType": true, "IterVarType": true, "CallbackSignature": true,
	"TriggerSignature": true, "OptType": true, "FinalCapabilities": true, "ImplementsTemplates": true,
	"UsingTemplate": true, "SingletonType": false,
}

func parsesAs(wrapperBefore string, f func() string, wrapperAfter string) bool {
	s, ok := printed(f)
	if !ok {
		return false
	}
	_, ok = parseClean(wrapperBefore + s + wrapperAfter)
	return ok
}

// checkAAstNode reports whether the text printed for an analysed node parses (in a wrapper).
func checkAAstNode(x any) (ok, checked bool) {
	switch n := x.(type) {
	case ast.AnalyzedImplBlock:
		return false, true
	case ast.AnalyzedFunctionDefinition:
		return parsesAs("", n.String, ""), true
	case ast.AnalyzedImport:
		return parsesAs("", n.String, ""), true
	case ast.AnalyzedSingletonTypeDefinition:
		return parsesAs("", n.String, ""), true
	case ast.AnalyzedFnParam:
		return parsesAs("fn f(", n.String, ") { }"), true
	case ast.AnalyzedObjectLiteralField:
		return parsesAs("fn main() {\n    let x = new { ", n.String, " };\n}"), true
	case ast.ObjectTypeField:
		return parsesAs("$S = { ", n.String, " };"), true
	case ast.AnalyzedExpression:
		return parsesAs("fn main() {\n    let x = (", n.String, ");\n}"), true
	case ast.AnalyzedStatement:
		return parsesAs("fn main() {\n    ", n.String, "\n}"), true
	case ast.Type:
		return parsesAs("$S = ", n.String, ";"), true
	}
	return false, false
}

// CulpritsAAst returns the type names of the smallest analysed-tree nodes whose printed text
// does not parse on its own.
func CulpritsAAst(tree ast.AnalyzedProgram) []string {
	found := map[string]bool{}
	var visit func(v reflect.Value) bool
	visit = func(v reflect.Value) (failed bool) {
		switch v.Kind() {
		case reflect.Interface, reflect.Pointer:
			if !v.IsNil() {
				return visit(v.Elem())
			}
		case reflect.Slice, reflect.Array:
			for i := 0; i < v.Len(); i++ {
				if visit(v.Index(i)) {
					failed = true
				}
			}
		case reflect.Struct:
			if v.Type() == spanType {
				return false
			}
			tn := v.Type().Name()
			for i := 0; i < v.NumField(); i++ {
				fn := v.Type().Field(i).Name
				if aastUnprinted[fn] || (tn == "AnalyzedImportValue" && fn == "Type") {
					continue
				}
				if visit(v.Field(i)) {
					failed = true
				}
			}
			if failed || !v.CanInterface() {
				return failed
			}
			if ok, checked := checkAAstNode(v.Interface()); checked && !ok {
				found[tn] = true
				return true
			}
		}
		return failed
	}
	visit(reflect.ValueOf(tree))
	return sortedKeys(found)
}
