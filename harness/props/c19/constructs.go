package c19

import (
	"fmt"
	"math"
	"reflect"
	"runtime"
	"sort"
	"strconv"
	"strings"

	"github.com/smarthome-go/homescript/v3/homescript/errors"
	pAst "github.com/smarthome-go/homescript/v3/homescript/parser/ast"
)

var spanType = reflect.TypeOf(errors.Span{})

// walk visits every struct value below v (pre-order); spans are skipped.
func walk(v reflect.Value, visit func(s reflect.Value)) {
	switch v.Kind() {
	case reflect.Interface, reflect.Pointer:
		if !v.IsNil() {
			walk(v.Elem(), visit)
		}
	case reflect.Slice, reflect.Array:
		for i := 0; i < v.Len(); i++ {
			walk(v.Index(i), visit)
		}
	case reflect.Map:
		keys := v.MapKeys()
		sort.Slice(keys, func(i, j int) bool { return fmt.Sprint(keys[i]) < fmt.Sprint(keys[j]) })
		for _, k := range keys {
			walk(v.MapIndex(k), visit)
		}
	case reflect.Struct:
		if v.Type() == spanType {
			return
		}
		visit(v)
		for i := 0; i < v.NumField(); i++ {
			walk(v.Field(i), visit)
		}
	}
}

// FirstDiff compares two trees structurally, ignoring spans and file names, and names the first
// place where they differ as "<NodeType>.<Field>" ("" when equal). It only serves to make failure
// signatures narrow: the verdicts come from acceptance, behaviour and text comparison.
func FirstDiff(a, b any) string {
	return firstDiff(reflect.ValueOf(a), reflect.ValueOf(b), "?")
}

func firstDiff(a, b reflect.Value, at string) string {
	if a.Kind() != b.Kind() {
		return at + ":kind"
	}
	switch a.Kind() {
	case reflect.Interface, reflect.Pointer:
		if a.IsNil() || b.IsNil() {
			if a.IsNil() != b.IsNil() {
				return at + ":nil"
			}
			return ""
		}
		if a.Kind() == reflect.Interface && a.Elem().Type() != b.Elem().Type() {
			return fmt.Sprintf("%s:%s->%s", at, a.Elem().Type().Name(), b.Elem().Type().Name())
		}
		return firstDiff(a.Elem(), b.Elem(), at)
	case reflect.Slice, reflect.Array:
		n := a.Len()
		if b.Len() < n {
			n = b.Len()
		}
		for i := 0; i < n; i++ {
			if d := firstDiff(a.Index(i), b.Index(i), at); d != "" {
				return d
			}
		}
		if a.Len() != b.Len() {
			return at + ":len"
		}
		return ""
	case reflect.Map:
		if a.Len() != b.Len() {
			return at + ":len"
		}
		keys := a.MapKeys()
		sort.Slice(keys, func(i, j int) bool { return fmt.Sprint(keys[i]) < fmt.Sprint(keys[j]) })
		for _, k := range keys {
			bv := b.MapIndex(k)
			if !bv.IsValid() {
				return at + ":key"
			}
			if d := firstDiff(a.MapIndex(k), bv, at); d != "" {
				return d
			}
		}
		return ""
	case reflect.Struct:
		if a.Type() != b.Type() {
			return at + ":type"
		}
		if a.Type() == spanType {
			return ""
		}
		tn := a.Type().Name()
		for i := 0; i < a.NumField(); i++ {
			fn := a.Type().Field(i).Name
			if fn == "Filename" || (fn == "OptType" && tn == "AnalyzedLetStatement") {
				// OptType: the analysed printer always writes the inferred type, by design
				continue
			}
			if d := firstDiff(a.Field(i), b.Field(i), tn+"."+fn); d != "" {
				return d
			}
		}
		return ""
	case reflect.String:
		if a.String() != b.String() {
			return at
		}
	case reflect.Bool:
		if a.Bool() != b.Bool() {
			return at
		}
	case reflect.Int, reflect.Int8, reflect.Int16, reflect.Int32, reflect.Int64:
		if a.Int() != b.Int() {
			return at
		}
	case reflect.Uint, reflect.Uint8, reflect.Uint16, reflect.Uint32, reflect.Uint64:
		if a.Uint() != b.Uint() {
			return at
		}
	case reflect.Float32, reflect.Float64:
		if math.Float64bits(a.Float()) != math.Float64bits(b.Float()) {
			return at
		}
	}
	return ""
}

// CountStatements counts statement nodes of an analysed module (to see whether the optimizer
// removed something).
func CountStatements(tree any) int {
	n := 0
	walk(reflect.ValueOf(tree), func(s reflect.Value) {
		if strings.HasSuffix(s.Type().Name(), "Statement") {
			n++
		}
	})
	return n
}

var keywords = map[string]bool{"true": true, "on": true, "false": true, "off": true, "null": true, "none": true, "pub": true,
	"fn": true, "if": true, "else": true, "match": true, "for": true, "while": true, "loop": true, "break": true, "continue": true,
	"return": true, "import": true, "as": true, "from": true, "let": true, "in": true, "type": true, "try": true, "catch": true,
	"new": true, "spawn": true, "event": true, "impl": true, "with": true, "templ": true, "trigger": true, "_": true}

// refIsIdent is the reference notion of an identifier (grammar.ebnf: LETTER { LETTER | DIGIT },
// not a keyword).
func refIsIdent(s string) bool {
	if s == "" || keywords[s] {
		return false
	}
	for i, r := range s {
		letter := r == '_' || (r >= 'a' && r <= 'z') || (r >= 'A' && r <= 'Z')
		digit := r >= '0' && r <= '9'
		if !(letter || (i > 0 && digit)) {
			return false
		}
	}
	return true
}

func stringTags(prefix, s string, add func(string)) {
	for _, r := range s {
		switch {
		case r == '"':
			add(prefix + "-dquote")
		case r == '\'':
			add(prefix + "-squote")
		case r == '\\':
			add(prefix + "-backslash")
		case r == '\n':
			add(prefix + "-newline")
		case r == '\t':
			add(prefix + "-tab")
		case r == '\r':
			add(prefix + "-cr")
		case r < 0x20 || r == 0x7f:
			add(prefix + "-ctrl")
		case r > 0x7e:
			add(prefix + "-nonascii")
		}
	}
}

func identOf(v reflect.Value) string {
	// pAst.SpannedIdent has unexported fields; reflect can still read the string
	if v.Kind() == reflect.Struct {
		if f := v.FieldByName("ident"); f.IsValid() {
			return f.String()
		}
	}
	return ""
}

// Constructs parses the modules of a program and returns (tags, node kinds). Tags name the
// constructs that printer/optimizer defects are sensitive to; they are attached to the case so
// that an open finding can only absorb failures of cases that contain its construct.
func Constructs(src map[string]string) (tags []string, nodes []string) {
	tagSet := map[string]bool{}
	nodeSet := map[string]bool{}
	add := func(t string) { tagSet[t] = true }
	names := make([]string, 0, len(src))
	for n := range src {
		names = append(names, n)
	}
	sort.Strings(names)
	if len(names) > 1 {
		add("multi-module")
	}
	for _, n := range names {
		tree, ok := parseClean(src[n]) // (recovers parser panics: this also runs in the supervisor)
		if !ok {
			add("unparseable-module")
			continue
		}
		for _, g := range tree.Globals {
			if g.IsPub {
				add("pub-global")
			}
		}
		// functions with a singleton-extractor parameter: their type has no source syntax
		singletonFns := map[string]bool{}
		for _, f := range tree.Functions {
			for _, p := range f.Parameters {
				if _, is := p.Type.(pAst.SingletonReferenceType); is {
					singletonFns[f.Ident.Ident()] = true
				}
			}
		}
		walk(reflect.ValueOf(tree), func(s reflect.Value) {
			tn := s.Type().Name()
			nodeSet[tn] = true
			switch tn {
			case "StringLiteralExpression":
				stringTags("str", s.FieldByName("Value").String(), add)
			case "FloatLiteralExpression":
				f := s.FieldByName("Value").Float()
				if strings.ContainsAny(strconv.FormatFloat(f, 'g', -1, 64), "e") {
					add("float-exponent")
				}
				if float64(int64(f)) == f {
					add("float-integral")
				}
			case "AnyObjectLiteralExpression":
				add("anyobj-literal")
			case "ObjectLiteralField":
				k := identOf(s.FieldByName("Key"))
				if !refIsIdent(k) {
					add("key-nonident")
					add("key-needs-quoting")
				}
				stringTags("key", k, add)
			case "ObjectTypeField":
				k := identOf(s.FieldByName("FieldName"))
				if !refIsIdent(k) {
					add("typekey-nonident")
					add("key-needs-quoting")
				}
				stringTags("typekey", k, add)
				if !s.FieldByName("Annotation").IsNil() {
					add("field-annotation")
				}
			case "ObjectType":
				fs := s.FieldByName("Fields")
				if !fs.IsNil() && fs.Elem().Type().Name() == "ObjectTypeFieldTypeFields" && fs.Elem().FieldByName("Fields").Len() == 0 {
					add("empty-object-type")
				}
			case "ObjectLiteralExpression":
				if s.FieldByName("Fields").Len() == 0 {
					add("empty-object-literal")
				}
			case "ImplBlock":
				add("impl-block")
			case "SingletonTypeDefinition":
				add("singleton-def")
			case "SingletonReferenceType":
				add("singleton-type-ref")
			case "FunctionDefinition":
				switch s.FieldByName("Modifier").Uint() {
				case 1:
					add("pub-fn")
				case 2:
					add("event-fn")
				}
				if !s.FieldByName("Annotation").IsNil() {
					add("fn-annotation")
				}
			case "TypeDefinition":
				add("type-def")
				if s.FieldByName("IsPub").Bool() {
					add("pub-type")
				}
			case "FunctionType":
				add("fn-type")
				if s.FieldByName("Params").Len() > 0 {
					add("fn-type-params")
				}
			case "FunctionLiteralExpression":
				add("fn-literal")
				if s.FieldByName("Parameters").Len() > 0 {
					add("fn-literal-params")
				}
			case "MatchExpression":
				hasDefault := false
				arms := s.FieldByName("Arms")
				for i := 0; i < arms.Len(); i++ {
					lits := arms.Index(i).FieldByName("Literals")
					for j := 0; j < lits.Len(); j++ {
						if lits.Index(j).FieldByName("Literal").IsNil() {
							hasDefault = true
						}
					}
					if lits.Len() > 1 {
						add("match-alternatives")
					}
				}
				if hasDefault {
					add("match-default")
				} else {
					add("match-no-default")
				}
				if arms.Len() == 0 {
					add("match-empty")
				}
			case "CallExpression":
				if s.FieldByName("IsSpawn").Bool() {
					add("spawn")
				}
			case "TriggerStatement":
				add("trigger-stmt")
			case "AnnotationItemTrigger":
				add("annotation-trigger")
			case "ImportStatementCandidate":
				add("import")
				switch s.FieldByName("Kind").Uint() {
				case 1:
					add("import-type")
				case 2:
					add("import-templ")
				case 3:
					add("import-trigger")
				}
			case "IdentExpression":
				if s.FieldByName("IsSingleton").Bool() {
					add("singleton-ident-expr")
				}
			case "NameReferenceType":
				id := identOf(s.FieldByName("Ident"))
				switch id {
				case "null", "int", "float", "range", "bool", "str":
				default:
					add("named-type-ref")
				}
			case "LetStatement":
				if s.FieldByName("OptType").IsNil() {
					add("let-untyped")
					// the inferred type of a var-arg builtin has no source syntax
					if e := s.FieldByName("Expression"); !e.IsNil() && e.Elem().Type().Name() == "IdentExpression" {
						id := identOf(e.Elem().FieldByName("Ident"))
						switch id {
						case "print", "println", "fmt", "debug", "probe":
							add("let-vararg-builtin")
						}
						if singletonFns[id] {
							add("let-singleton-fn")
						}
					}
				}
			case "Block":
				if s.FieldByName("Statements").Len() == 0 && s.FieldByName("Expression").IsNil() {
					add("empty-block")
				}
			case "CastExpression":
				add("cast")
			case "RangeLiteralExpression":
				if s.FieldByName("EndIsInclusive").Bool() {
					add("range-inclusive")
				}
			case "PrefixExpression", "InfixExpression", "AssignExpression":
				// operands that are themselves operator expressions print without parentheses
			}
		})
	}
	for t := range tagSet {
		tags = append(tags, t)
	}
	sort.Strings(tags)
	for t := range nodeSet {
		nodes = append(nodes, "node:"+t)
	}
	sort.Strings(nodes)
	return tags, nodes
}

// repoStack returns the first frames of /repo on the current goroutine's stack.
func repoStack() string {
	buf := make([]byte, 1<<15)
	n := runtime.Stack(buf, false)
	var out []string
	for _, l := range strings.Split(string(buf[:n]), "\n") {
		if strings.HasPrefix(l, "github.com/smarthome-go/homescript/v3/") {
			f := l
			if j := strings.LastIndex(f, "("); j > 0 {
				f = f[:j]
			}
			out = append(out, strings.TrimPrefix(f, "github.com/smarthome-go/homescript/v3/homescript/"))
			if len(out) >= 4 {
				break
			}
		}
	}
	return strings.Join(out, " < ")
}
